#!/usr/bin/env python3
"""T2 (fail-closed AST translator) for C01: the SIZE CONTRACT of the shipped signers.

The encoders reserve `get_signature_value_size()` bytes for the SignatureValue before signing and the signer may
then write at most that many.  For five signers the reserved size is a literal (and the primitive's output has that
fixed length); for Sha256WithEcdsaSigner it is ARITHMETIC on the curve size, and the DER signature it writes has a
variable length.  This translator turns

    __init__:                      self.key_size = <expr over self.curve_bit> ; self.key_size += <expr> ...
    get_signature_value_size:      return <expr over self.key_size>

into Gallina functions over N (`//` -> N.div, `%` -> N.modulo, + and * as they are), and the literal sizes of the
other signers into constants.  Anything else in those places aborts the translation (the Generated file then carries
a type error and Proofs/SignerSizes.v no longer checks).  Proofs/SignerSizes.v proves that the reserved size bounds the
length of every DER-encoded ECDSA signature for every curve the key loader accepts."""
import ast
import inspect
import sys

OUTPUT = 'SignerSizes.v'


def abort(msg):
    raise SystemExit('ABORT gen_signer_sizes: ' + msg)


def cls_of(mod, name):
    tree = ast.parse(inspect.getsource(mod))
    for n in tree.body:
        if isinstance(n, ast.ClassDef) and n.name == name:
            return n
    abort(f'class {name} not found')


def method(cls, name):
    for n in cls.body:
        if isinstance(n, ast.FunctionDef) and n.name == name:
            return n
    abort(f'{cls.name}.{name} not found')


def is_self_attr(e, attr):
    return isinstance(e, ast.Attribute) and isinstance(e.value, ast.Name) and e.value.id == 'self' and e.attr == attr


def expr(e, env):
    """arithmetic over N; env maps self.<attr> to the Coq term standing for it"""
    if isinstance(e, ast.Constant) and isinstance(e.value, int) and not isinstance(e.value, bool) and e.value >= 0:
        return str(e.value)
    if isinstance(e, ast.Attribute):
        for a, t in env.items():
            if is_self_attr(e, a):
                return t
        abort(f'unexpected attribute {ast.unparse(e)}')
    if isinstance(e, ast.BinOp):
        ops = {ast.Add: '+', ast.Mult: '*', ast.FloorDiv: '/', ast.Mod: 'mod'}
        if type(e.op) not in ops:
            abort(f'unexpected operator in {ast.unparse(e)}')     # Sub would need a truncation argument
        return f'({expr(e.left, env)} {ops[type(e.op)]} {expr(e.right, env)})'
    abort(f'unexpected expression {ast.unparse(e)}')


def only_return(fn):
    body = [s for s in fn.body if not (isinstance(s, ast.Expr) and isinstance(s.value, ast.Constant))]
    if len(body) != 1 or not isinstance(body[0], ast.Return) or body[0].value is None:
        abort(f'{fn.name}: body is not a single return')
    return body[0].value


def literal_size(mod, clsname):
    e = only_return(method(cls_of(mod, clsname), 'get_signature_value_size'))
    if not (isinstance(e, ast.Constant) and isinstance(e.value, int) and e.value >= 0):
        abort(f'{clsname}.get_signature_value_size does not return a literal')
    return e.value


def main():
    from ndn.security.signer import sha256_ecdsa_signer as EC, sha256_rsa_signer as RSA, ed25519_signer as ED
    from ndn.security.signer import sha256_hmac_signer as HM, sha256_digest_signer as DG, null_signer as NS
    c = cls_of(EC, 'Sha256WithEcdsaSigner')
    init = method(c, '__init__')
    # every statement of __init__ that touches self.key_size, in order, at the top level of the body
    term = None
    for s in init.body:
        touches = any(is_self_attr(n, 'key_size') for n in ast.walk(s))
        if not touches:
            continue
        if isinstance(s, ast.Assign) and len(s.targets) == 1 and is_self_attr(s.targets[0], 'key_size'):
            env = {'curve_bit': 'curve_bit'}
            if term is not None:
                env['key_size'] = term
            term = expr(s.value, env)
        elif isinstance(s, ast.AugAssign) and is_self_attr(s.target, 'key_size') and isinstance(s.op, ast.Add) and term is not None:
            term = f'({term} + {expr(s.value, {"curve_bit": "curve_bit", "key_size": term})})'
        else:
            abort('__init__: unexpected statement on self.key_size: ' + ast.unparse(s))
    if term is None:
        abort('__init__ never assigns self.key_size')
    # nothing else in the class writes key_size
    for fn in c.body:
        if isinstance(fn, ast.FunctionDef) and fn.name != '__init__':
            for n in ast.walk(fn):
                if isinstance(n, (ast.Assign, ast.AugAssign, ast.AnnAssign)):
                    tg = n.targets if isinstance(n, ast.Assign) else [n.target]
                    if any(is_self_attr(t, 'key_size') or is_self_attr(t, 'curve_bit') for t in tg):
                        abort(f'{fn.name} writes key_size / curve_bit')
    reserved = expr(only_return(method(c, 'get_signature_value_size')), {'key_size': '(ecdsa_key_size curve_bit)'})
    # RSA: the modulus size in bytes
    e = only_return(method(cls_of(RSA, 'Sha256WithRsaSigner'), 'get_signature_value_size'))
    if ast.unparse(e) != 'self.key.size_in_bytes()':
        abort('Sha256WithRsaSigner.get_signature_value_size is not self.key.size_in_bytes()')
    out = ['(* GENERATED by tools/gen_signer_sizes.py from ndn.security.signer.* -- do not edit *)',
           'From Coq Require Import NArith.',
           'Local Open Scope N_scope.',
           '',
           '(* Sha256WithEcdsaSigner.__init__: self.key_size as a function of self.curve_bit *)',
           f'Definition ecdsa_key_size (curve_bit : N) : N := {term}.',
           '(* Sha256WithEcdsaSigner.get_signature_value_size *)',
           f'Definition ecdsa_reserved (curve_bit : N) : N := {reserved}.',
           f'Definition ed25519_reserved : N := {literal_size(ED, "Ed25519Signer")}.',
           f'Definition hmac_reserved : N := {literal_size(HM, "HmacSha256Signer")}.',
           f'Definition digest_reserved : N := {literal_size(DG, "DigestSha256Signer")}.',
           f'Definition null_reserved : N := {literal_size(NS, "NullSigner")}.',
           '(* Sha256WithRsaSigner.get_signature_value_size = self.key.size_in_bytes(): the modulus length *)',
           'Definition rsa_reserved (modulus_bytes : N) : N := modulus_bytes.',
           '']
    sys.stdout.write('\n'.join(out))


if __name__ == '__main__':
    main()
