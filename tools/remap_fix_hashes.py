#!/usr/bin/env python3
"""After cherry-picking an engineer's fix commits into /repo main, point the known-findings entries at the
commits on main (matched by subject line)."""
import glob, json, subprocess
def subj(h):
    try: return subprocess.check_output(['git','-C','/repo','log','-1','--format=%s',h],text=True,stderr=subprocess.DEVNULL).strip()
    except Exception: return None
main={}
for line in subprocess.check_output(['git','-C','/repo','log','--format=%h %s','main'],text=True).splitlines():
    h,s=line.split(' ',1); main[s]=h
for f in ['known_findings.json']+sorted(glob.glob('known_findings.d/*.json')):
    d=json.load(open(f)); ch=False
    for e in d['findings']:
        c=e.get('commit')
        if not c: continue
        s=subj(c)
        if s and s in main and not c.startswith(main[s]):
            e['what']=e.get('what','').replace(c,main[s]); e['commit']=main[s]; ch=True; print(f,c[:8],'->',main[s])
        elif not s: print('UNKNOWN HASH',f,c)
    if ch: json.dump(d,open(f,'w'),indent=1)
