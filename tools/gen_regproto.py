#!/usr/bin/env python3
"""T2 (AST, fail-closed): the protocol skeleton of the four registration functions

    ndn.transport.nfd_registerer.NfdRegister.register / unregister      (front-end appv2)
    ndn.app.NDNApp.register / unregister                                  (front-end v1)

as Model/Registerer.v [proto] records: is the command issued under the registration semaphore, how is
its timestamp chosen and is that the timestamp it carries, is the reply decoded and which comparison
against which status code decides, which exceptions are caught.  Plus the response TLV type and
whether parse_response tolerates a missing body.  Any shape this script does not recognise aborts
the translation (exit != 0), which breaks the build."""
import ast
import inspect
import sys
import textwrap
OUTPUT = 'RegProto.v'
from ndn.transport import nfd_registerer
from ndn.app_support import nfd_mgmt
from ndn import app as appv1

SEM = '_prefix_register_semaphore'
LAST = '_last_command_timestamp'
DECODE = {'DecodeError', 'ValueError', 'IndexError', 'TypeError', 'error'}
EXPRESS = {'InterestNack', 'InterestTimeout', 'InterestCanceled', 'ValidationFailure'}
CMP = {ast.NotEq: 'CNe', ast.Eq: 'CEq', ast.Lt: 'CLt', ast.LtE: 'CLe', ast.Gt: 'CGt', ast.GtE: 'CGe'}


def abort(msg):
    raise SystemExit('ABORT: ' + msg)


def fn_ast(f):
    src = textwrap.dedent(inspect.getsource(f))
    node = ast.parse(src).body[0]
    if not isinstance(node, ast.AsyncFunctionDef):
        abort(f'{f.__qualname__} is not an async def')
    return node


def is_self_attr(n, attr):
    return isinstance(n, ast.Attribute) and n.attr == attr and isinstance(n.value, ast.Name) and n.value.id == 'self'


def call_name(n):
    """name of the called function: f(...) -> 'f', a.b.f(...) -> 'f'"""
    if not isinstance(n, ast.Call):
        return None
    if isinstance(n.func, ast.Name):
        return n.func.id
    if isinstance(n.func, ast.Attribute):
        return n.func.attr
    return None


def handler_names(h):
    t = h.type
    if t is None:
        return {'*'}
    elts = t.elts if isinstance(t, ast.Tuple) else [t]
    out = set()
    for e in elts:
        if isinstance(e, ast.Name):
            out.add(e.id)
        elif isinstance(e, ast.Attribute):
            out.add(e.attr)
        else:
            abort('unrecognised exception expression')
    return out


def returns_const(stmts, val):
    return bool(stmts) and isinstance(stmts[-1], ast.Return) and isinstance(stmts[-1].value, ast.Constant) \
        and stmts[-1].value.value is val


class Finder(ast.NodeVisitor):
    """Walks a function keeping the stack of enclosing statements."""
    def __init__(self):
        self.stack = []
        self.hits = []

    def generic_visit(self, node):
        self.stack.append(node)
        super().generic_visit(node)
        self.stack.pop()


def find(fn, pred):
    f = Finder()
    out = []

    def visit(node):
        if pred(node):
            out.append((node, list(f.stack)))
        f.stack.append(node)
        for c in ast.iter_child_nodes(node):
            visit(c)
        f.stack.pop()
    visit(fn)
    return out


def under_sem(stack):
    for n in stack:
        if isinstance(n, ast.AsyncWith) and any(is_self_attr(i.context_expr, SEM) for i in n.items):
            return True
    return False


def analyse(f, frontend, verb):
    fn = fn_ast(f)
    what = f.__qualname__
    # -- the express call --------------------------------------------------------------------------
    ename = 'express' if frontend == 2 else 'express_interest'
    ex = find(fn, lambda n: call_name(n) == ename)
    if len(ex) != 1:
        abort(f'{what}: expected exactly one {ename} call, found {len(ex)}')
    ecall, estack = ex[0]
    sem = under_sem(estack)
    # the command name
    mk = find(ecall, lambda n: call_name(n) in ('make_command', 'make_command_v2'))
    if len(mk) != 1:
        abort(f'{what}: expected one make_command call inside {ename}')
    mcall = mk[0][0]
    want = 'make_command_v2' if frontend == 2 else 'make_command'
    if call_name(mcall) != want:
        abort(f'{what}: uses {call_name(mcall)}, expected {want}')
    consts = [a.value for a in mcall.args[:2] if isinstance(a, ast.Constant)]
    if consts != ['rib', verb]:
        abort(f'{what}: command is {consts}, expected rib/{verb}')
    if not any(k.arg == 'name' for k in mcall.keywords):
        abort(f'{what}: the prefix is not passed as name=')
    # -- timestamp selection -----------------------------------------------------------------------
    loops = find(fn, lambda n: isinstance(n, ast.For) and call_name(n.iter) == 'range')
    maxes = find(fn, lambda n: isinstance(n, ast.Assign) and len(n.targets) == 1 and is_self_attr(n.targets[0], LAST)
                 and call_name(n.value) == 'max')
    ts = 'TsNone'
    if loops and maxes:
        abort(f'{what}: two timestamp mechanisms')
    if loops:
        if len(loops) != 1:
            abort(f'{what}: several loops')
        lp, lstack = loops[0]
        if under_sem(lstack) != sem:
            abort(f'{what}: timestamp loop and command are not under the same lock')
        if lp.lineno > ecall.lineno:
            abort(f'{what}: timestamp loop after the command')
        if len(lp.iter.args) != 1 or not isinstance(lp.iter.args[0], ast.Constant):
            abort(f'{what}: range() argument')
        tries = lp.iter.args[0].value
        body = lp.body
        ok = (len(body) == 3
              and isinstance(body[0], ast.Assign) and isinstance(body[0].targets[0], ast.Name)
              and body[0].targets[0].id == 'now' and call_name(body[0].value) == 'timestamp'
              and isinstance(body[1], ast.If) and isinstance(body[1].test, ast.Compare)
              and isinstance(body[1].test.left, ast.Name) and body[1].test.left.id == 'now'
              and len(body[1].test.ops) == 1 and isinstance(body[1].test.ops[0], ast.Gt)
              and is_self_attr(body[1].test.comparators[0], LAST)
              and len(body[1].body) == 2 and isinstance(body[1].body[0], ast.Assign)
              and is_self_attr(body[1].body[0].targets[0], LAST)
              and isinstance(body[1].body[0].value, ast.Name) and body[1].body[0].value.id == 'now'
              and isinstance(body[1].body[1], ast.Break) and not body[1].orelse
              and isinstance(body[2], ast.Expr) and isinstance(body[2].value, ast.Await)
              and call_name(body[2].value.value) == 'sleep')
        if not ok:
            abort(f'{what}: unrecognised timestamp loop body')
        if not lp.orelse:
            bump = False
        else:
            o = lp.orelse
            if len(o) == 1 and isinstance(o[0], ast.AugAssign) and is_self_attr(o[0].target, LAST) \
                    and isinstance(o[0].op, ast.Add) and isinstance(o[0].value, ast.Constant) and o[0].value.value == 1:
                bump = True
            elif len(o) == 1 and isinstance(o[0], ast.Pass):
                bump = False
            else:
                abort(f'{what}: unrecognised for-else')
        ts = f'(TsLoop {int(tries)} {str(bump).lower()})'
    elif maxes:
        if len(maxes) != 1:
            abort(f'{what}: several max() assignments')
        mx, mstack = maxes[0]
        if under_sem(mstack) != sem or mx.lineno > ecall.lineno:
            abort(f'{what}: max() timestamp not under the same lock before the command')
        a = mx.value.args
        ok = (len(a) == 2 and call_name(a[0]) == 'timestamp' and isinstance(a[1], ast.BinOp)
              and isinstance(a[1].op, ast.Add) and is_self_attr(a[1].left, LAST)
              and isinstance(a[1].right, ast.Constant) and a[1].right.value == 1)
        if not ok:
            abort(f'{what}: unrecognised max() timestamp')
        ts = 'TsMax'
    # -- is the recorded timestamp the one the command carries? -----------------------------------------
    if frontend == 2:
        sg = [k.value for k in ecall.keywords if k.arg == 'signer']
        if len(sg) != 1:
            abort(f'{what}: no signer')
        s = sg[0]
        if call_name(s) == '_CommandSigner' and len(s.args) == 1 and is_self_attr(s.args[0], LAST):
            check_command_signer()
            recorded = True
        elif call_name(s) == 'DigestSha256Signer':
            recorded = False
        else:
            abort(f'{what}: unrecognised signer')
        va = [k.value for k in ecall.keywords if k.arg == 'validator']
        if len(va) != 1 or not (isinstance(va[0], ast.Name) and va[0].id == 'pass_all'):
            abort(f'{what}: validator is not pass_all')
        validates = False
    else:
        extra = list(mcall.args[3:4]) + [k.value for k in mcall.keywords if k.arg == 'command_timestamp']
        if not extra:
            recorded = False
        elif len(extra) == 1 and is_self_attr(extra[0], LAST):
            check_make_command_timestamp()
            recorded = True
        else:
            abort(f'{what}: unrecognised command_timestamp argument')
        if any(k.arg == 'validator' for k in ecall.keywords):
            abort(f'{what}: explicit validator')
        validates = True
    # -- the outer try: failures of express ------------------------------------------------------------
    tries_ = [n for n in estack if isinstance(n, ast.Try)]
    catch_express = False
    if tries_:
        t = tries_[-1]
        for h in t.handlers:
            if EXPRESS <= handler_names(h) and returns_const(h.body, False):
                catch_express = True
    # -- decoding and comparing the reply ---------------------------------------------------------------
    pr = find(fn, lambda n: isinstance(n, ast.Assign) and call_name(n.value) == 'parse_response')
    checks = False
    cmpop, code, catch_decode = 'CNe', 200, False
    if pr:
        if len(pr) != 1:
            abort(f'{what}: several parse_response calls')
        pa, pstack = pr[0]
        if under_sem(pstack) != sem:
            abort(f'{what}: the reply is handled outside the lock')
        inner = [n for n in pstack if isinstance(n, ast.Try)]
        if inner and inner[-1] is not (tries_[-1] if tries_ else None):
            for h in inner[-1].handlers:
                if DECODE <= handler_names(h) and returns_const(h.body, False):
                    catch_decode = True
        ifs = find(fn, lambda n: isinstance(n, ast.If) and isinstance(n.test, ast.Compare)
                   and isinstance(n.test.left, ast.Subscript) and isinstance(n.test.left.slice, ast.Constant)
                   and n.test.left.slice.value == 'status_code')
        if len(ifs) != 1:
            abort(f'{what}: expected one status_code comparison')
        iff, istack = ifs[0]
        if len(iff.test.ops) != 1 or type(iff.test.ops[0]) not in CMP or not isinstance(iff.test.comparators[0], ast.Constant):
            abort(f'{what}: unrecognised status comparison')
        if not returns_const(iff.body, False):
            abort(f'{what}: the comparison branch does not return False')
        # what follows / else must return True
        if iff.orelse:
            if not returns_const(iff.orelse, True):
                abort(f'{what}: else branch does not return True')
        else:
            parent = istack[-1]
            seq = None
            for fld in ('body', 'orelse', 'finalbody'):
                lst = getattr(parent, fld, None)
                if isinstance(lst, list) and iff in lst:
                    seq = lst[lst.index(iff) + 1:]
            if not seq or not returns_const(seq[:1], True):
                abort(f'{what}: success path does not return True')
        cmpop = CMP[type(iff.test.ops[0])]
        code = int(iff.test.comparators[0].value)
        checks = True
    else:
        # no decoding: must return True right after the express
        parent = estack[-1]
        holder = None
        for n in reversed(estack):
            for fld in ('body',):
                lst = getattr(n, fld, None)
                if isinstance(lst, list):
                    for i, st in enumerate(lst):
                        if any(c is ecall for c in ast.walk(st)):
                            holder = lst[i + 1:]
                            break
                if holder is not None:
                    break
            if holder is not None:
                break
        if not returns_const((holder or [])[:1], True):
            abort(f'{what}: neither decodes the reply nor returns True')
    return {'sem': sem, 'ts': ts, 'recorded': recorded, 'checks': checks, 'cmp': cmpop, 'code': code,
            'catch_decode': catch_decode, 'catch_express': catch_express, 'validates': validates,
            'body_optional': body_optional()}


def coq_proto(d):
    b = lambda x: 'true' if x else 'false'
    return ('{| p_sem := %s; p_ts := %s; p_recorded := %s; p_checks := %s; p_cmp := %s; p_code := %d; '
            'p_catch_decode := %s; p_catch_express := %s; p_validates := %s; p_body_optional := %s |}'
            % (b(d['sem']), d['ts'], b(d['recorded']), b(d['checks']), d['cmp'], d['code'], b(d['catch_decode']),
               b(d['catch_express']), b(d['validates']), b(d['body_optional'])))


def sexp_proto(d):
    """the record in the s-expression form of Extract/ExC17.v (as_proto)."""
    ts = d['ts']
    if ts == 'TsNone':
        t = [0]
    elif ts == 'TsMax':
        t = [2]
    else:
        import re
        m = re.match(r'\(TsLoop (\d+) (true|false)\)', ts)
        t = [1, int(m.group(1)), m.group(2) == 'true']
    cmpn = ['CNe', 'CEq', 'CLt', 'CLe', 'CGt', 'CGe'].index(d['cmp'])
    return [d['sem'], t, d['recorded'], d['checks'], cmpn, d['code'], d['catch_decode'], d['catch_express'],
            d['validates'], d['body_optional']]


def analyse_all():
    return {'v2_register': analyse(nfd_registerer.NfdRegister.register, 2, 'register'),
            'v2_unregister': analyse(nfd_registerer.NfdRegister.unregister, 2, 'unregister'),
            'v1_register': analyse(appv1.NDNApp.register, 1, 'register'),
            'v1_unregister': analyse(appv1.NDNApp.unregister, 1, 'unregister')}


def check_command_signer():
    """_CommandSigner.write_signature_info must set signature_time from the constructor argument and read no clock."""
    cls = getattr(nfd_registerer, '_CommandSigner', None)
    if cls is None:
        abort('_CommandSigner not found')
    src = ast.parse(textwrap.dedent(inspect.getsource(cls)))
    init = [n for n in ast.walk(src) if isinstance(n, ast.FunctionDef) and n.name == '__init__']
    wsi = [n for n in ast.walk(src) if isinstance(n, ast.FunctionDef) and n.name == 'write_signature_info']
    if len(init) != 1 or len(wsi) != 1:
        abort('_CommandSigner: methods')
    arg = init[0].args.args[1].arg
    if not any(isinstance(n, ast.Assign) and is_self_attr(n.targets[0], 'signature_time')
               and isinstance(n.value, ast.Name) and n.value.id == arg for n in ast.walk(init[0])):
        abort('_CommandSigner.__init__ does not keep the timestamp')
    sets = [n for n in ast.walk(wsi[0]) if isinstance(n, ast.Assign) and isinstance(n.targets[0], ast.Attribute)
            and n.targets[0].attr == 'signature_time']
    if len(sets) != 1 or not is_self_attr(sets[0].value, 'signature_time'):
        abort('_CommandSigner.write_signature_info does not write the kept timestamp')
    if any(call_name(n) in ('timestamp', 'write_signature_info') for n in ast.walk(wsi[0]) if isinstance(n, ast.Call)):
        abort('_CommandSigner.write_signature_info reads the clock')


def check_make_command_timestamp():
    """make_command must put its command_timestamp argument into the timestamp component."""
    fn = ast.parse(textwrap.dedent(inspect.getsource(nfd_mgmt.make_command))).body[0]
    names = [a.arg for a in fn.args.args]
    if names[:4] != ['module', 'command', 'face', 'command_timestamp']:
        abort('make_command: positional parameters are ' + str(names))
    packs = [n for n in ast.walk(fn) if call_name(n) == 'pack' and len(n.args) == 2]
    if not packs or not (isinstance(packs[0].args[1], ast.Name) and packs[0].args[1].id == 'command_timestamp'):
        abort('make_command: the first packed value is not command_timestamp')
    ifs = [n for n in fn.body if isinstance(n, ast.If)]
    ok = any(isinstance(i.test, ast.Compare) and isinstance(i.test.left, ast.Name) and i.test.left.id == 'command_timestamp'
             and isinstance(i.test.ops[0], ast.Is) and len(i.body) == 1 and isinstance(i.body[0], ast.Assign)
             and call_name(i.body[0].value) == 'timestamp' for i in ifs)
    others = [n for n in ast.walk(fn) if isinstance(n, ast.Assign) and any(isinstance(t, ast.Name) and t.id == 'command_timestamp'
                                                                         for t in n.targets)]
    if not ok or len(others) != 1:
        abort('make_command: command_timestamp is reassigned')


def body_optional():
    fn = ast.parse(textwrap.dedent(inspect.getsource(nfd_mgmt.parse_response))).body[0]
    for n in ast.walk(fn):
        if isinstance(n, ast.IfExp) and isinstance(n.test, ast.Compare) and isinstance(n.test.left, ast.Name) \
                and n.test.left.id == 'params' and isinstance(n.test.ops[0], ast.IsNot) \
                and isinstance(n.orelse, ast.Constant) and n.orelse.value is None:
            return True
    return False


def response_type():
    fn = ast.parse(textwrap.dedent(inspect.getsource(nfd_mgmt.parse_response))).body[0]
    c = [n for n in ast.walk(fn) if call_name(n) == 'parse_and_check_tl']
    if len(c) != 1 or len(c[0].args) != 2 or not isinstance(c[0].args[1], ast.Constant):
        abort('parse_response: parse_and_check_tl call')
    return int(c[0].args[1].value)


def main():
    out = ['(* GENERATED by tools/gen_regproto.py from nfd_registerer.py, app.py, nfd_mgmt.py -- do not edit *)',
           'From NDN Require Import Base.Prelude Model.Registerer.', 'Local Open Scope N_scope.', '']
    for k, d in analyse_all().items():
        out.append('Definition %s : proto := %s.' % (k, coq_proto(d)))
    out.append('Definition response_type : N := %d.' % response_type())
    sys.stdout.write('\n'.join(out) + '\n')


if __name__ == '__main__':
    main()
