#!/usr/bin/env python3
"""T1/T2 for C06: reflects, from the *source text* (python ast, nothing is imported or run),
  * NDNApp._receive of src/ndn/appv2.py and src/ndn/app.py: for each `try:` around a packet decoder the
    decoder called and the exception classes its `except` clause lists; whether the LpPacket Fragment is
    guarded (`if not data: return`) before its Type number is read, and which exception classes the
    `try:` around that parse_tl_num lists (empty when the call is outside every try block); the packet
    Type constants the dispatch compares with;
  * StreamFace.run of src/ndn/transport/stream_face.py: the except tuple of the reader loop, whether the
    callback is spawned (aio.create_task) or awaited inline, and the loop body translated statement
    by statement into the [rd] coroutine type of Model/Stream.v;
  * read_tl_num_from_stream of src/ndn/encoding/tlv_var.py translated into [rd] (the function
    tools/gen_tlv_var.py skips because it is async);
  * UdpFace...datagram_received: whether parse_tl_num is guarded and by which classes.
Fail-closed: any statement or expression outside the small subset used by these functions aborts
(exit 1), the build step then writes a Generated file that does not type-check.

Output (stdout) -> theories/Generated/ReceiveGen.v
"""
import ast
import os
import sys

OUTPUT = 'ReceiveGen.v'
SRC = os.environ.get('VERIF_REPO_SRC', '/repo/src')

EXC = {'DecodeError': 'EDecode', 'TypeError': 'EType', 'ValueError': 'EValue', 'error': 'EStruct',
       'IndexError': 'EIndex', 'KeyError': 'EKey', 'AttributeError': 'EAttr', 'OverflowError': 'EOverflow',
       'UnicodeDecodeError': 'EUnicode', 'InvalidStateError': 'EInvalidState',
       'IncompleteReadError': 'EIncomplete', 'ConnectionResetError': 'EConnReset'}
ALL = ['EDecode', 'EIndex', 'EValue', 'EStruct', 'EType', 'EUnicode', 'EKey', 'EInvalidState', 'EAttr', 'EOverflow']
# LookupError covers IndexError and KeyError
SUPER = {'Exception': ALL + ['EIncomplete', 'EConnReset'], 'BaseException': ALL + ['EIncomplete', 'EConnReset'],
         'LookupError': ['EIndex', 'EKey'], 'ArithmeticError': ['EOverflow'],
         'OSError': ['EConnReset'], 'ConnectionError': ['EConnReset'], 'EOFError': ['EIncomplete']}


class Abort(Exception):
    pass


def fail(node, why, fn='?'):
    raise Abort(f'unsupported construct at {fn}:{getattr(node, "lineno", "?")}: {why}')


def attr_name(e):
    """last identifier of a dotted name:  enc.DecodeError -> DecodeError ; struct.error -> error"""
    if isinstance(e, ast.Name):
        return e.id
    if isinstance(e, ast.Attribute):
        return e.attr
    return None


def exc_list(handler, fn):
    t = handler.type
    if t is None:
        return list(SUPER['BaseException'])
    elts = t.elts if isinstance(t, ast.Tuple) else [t]
    out = []
    for e in elts:
        n = attr_name(e)
        if n in EXC:
            out.append(EXC[n])
        elif n in SUPER:
            out += SUPER[n]
        else:
            fail(e, f'exception class {ast.dump(e)[:60]} is unknown to the translator', fn)
    return out


def find_func(tree, cls, name, fn):
    for n in ast.walk(tree):
        if isinstance(n, ast.ClassDef) and n.name == cls:
            for m in ast.walk(n):
                if isinstance(m, (ast.FunctionDef, ast.AsyncFunctionDef)) and m.name == name:
                    return m
    fail(tree, f'{cls}.{name} not found', fn)


def called(node):
    """names of all functions called anywhere below node"""
    return [attr_name(c.func) for c in ast.walk(node) if isinstance(c, ast.Call)]


def coq_list(xs):
    return '[' + '; '.join(xs) + ']'


def handler_returns(h):
    """the except body ends the function (return) without re-raising"""
    return any(isinstance(s, ast.Return) for s in h.body) and not any(isinstance(s, ast.Raise) for s in ast.walk(h))


# ---- _receive ---------------------------------------------------------------------------------------
def reflect_receive(path, prefix):
    fn = os.path.relpath(path, SRC)
    tree = ast.parse(open(path).read())
    f = find_func(tree, 'NDNApp', '_receive', fn)
    if not isinstance(f, ast.AsyncFunctionDef):
        fail(f, '_receive is not a coroutine function', fn)
    tries = [n for n in ast.walk(f) if isinstance(n, ast.Try)]
    tries.sort(key=lambda n: n.lineno)
    # the branch `if nack_reason is not None:` (its try is the Nack path; the else branch dispatches on typ)
    nack_if = [n for n in f.body if isinstance(n, ast.If) and isinstance(n.test, ast.Compare)
               and isinstance(n.test.left, ast.Name) and n.test.left.id == 'nack_reason'
               and len(n.test.ops) == 1 and isinstance(n.test.ops[0], ast.IsNot)
               and isinstance(n.test.comparators[0], ast.Constant) and n.test.comparators[0].value is None]
    if len(nack_if) != 1:
        fail(f, 'no top-level `if nack_reason is not None:`', fn)
    nack_tries = [n for s in nack_if[0].body for n in ast.walk(s) if isinstance(n, ast.Try)]
    table = {}     # role -> exception list
    order = []
    for t in tries:
        if t.finalbody or t.orelse or len(t.handlers) != 1:
            fail(t, 'try statement with else/finally or several handlers', fn)
        if not handler_returns(t.handlers[0]):
            fail(t.handlers[0], 'except body does not simply return', fn)
        cs = called(ast.Module(body=t.body, type_ignores=[]))
        if 'parse_lp_packet_v2' in cs or 'parse_lp_packet' in cs:
            role = 'lp'
        elif 'parse_interest' in cs:
            role = 'nack' if t in nack_tries else 'interest'
        elif 'parse_data' in cs:
            role = 'data'
        elif 'parse_tl_num' in cs:
            role = 'fragtl'
        else:
            fail(t, f'try block around unknown calls {cs}', fn)
        if role in table:
            fail(t, f'second try block for {role}', fn)
        # the decoder must be the only thing that can raise inside the block we account for:
        # handler calls (_on_interest/_on_data/_on_nack) inside the try would change the semantics
        for c in cs:
            if c and c.startswith('_on_'):
                fail(t, f'{c} called inside a try block', fn)
        table[role] = exc_list(t.handlers[0], fn)
        order.append(role)
    for role in ('lp', 'nack', 'interest', 'data'):
        if role not in table:
            fail(f, f'no try block around the {role} decoder', fn)
    # fragment guard: an `if not data: return` in the LP branch, before parse_tl_num
    guard = 0
    lp_if = None
    for n in f.body:
        if isinstance(n, ast.If) and isinstance(n.test, ast.Compare) and attr_name(n.test.comparators[0]) == 'LP_PACKET':
            lp_if = n
    if lp_if is None:
        fail(f, 'no `if typ == LP_PACKET` at the top of _receive', fn)
    tl_line = None
    for n in ast.walk(lp_if):
        if isinstance(n, ast.Call) and attr_name(n.func) == 'parse_tl_num':
            tl_line = n.lineno
    if tl_line is None:
        fail(lp_if, 'parse_tl_num(fragment) not found in the LP branch', fn)
    for n in lp_if.body:
        if isinstance(n, ast.If) and len(n.body) >= 1 and isinstance(n.body[-1], ast.Return) and not n.orelse \
                and n.lineno < tl_line:
            t = n.test
            # `if not data:` drops a missing and an empty Fragment
            if isinstance(t, ast.UnaryOp) and isinstance(t.op, ast.Not) and isinstance(t.operand, ast.Name) \
                    and t.operand.id in ('data', 'fragment'):
                guard = 1
            # `if data is None:` drops a missing Fragment only
            elif isinstance(t, ast.Compare) and isinstance(t.left, ast.Name) and t.left.id in ('data', 'fragment') \
                    and len(t.ops) == 1 and isinstance(t.ops[0], ast.Is) and isinstance(t.comparators[0], ast.Constant) \
                    and t.comparators[0].value is None and not guard:
                guard = 2
    # constants of the dispatch: typ == X.INTEREST / X.DATA
    consts = {}
    for n in ast.walk(f):
        if isinstance(n, ast.Compare) and isinstance(n.left, ast.Name) and n.left.id == 'typ' and len(n.ops) == 1 \
                and isinstance(n.ops[0], ast.Eq):
            consts[attr_name(n.comparators[0])] = True
    for c in ('LP_PACKET', 'INTEREST', 'DATA'):
        if c not in consts:
            fail(f, f'dispatch does not compare typ with {c}', fn)
    # handlers awaited / called outside try blocks
    out = []
    out.append(f'Definition {prefix}_catch_lp : list err := {coq_list(table["lp"])}.')
    out.append(f'Definition {prefix}_catch_nack : list err := {coq_list(table["nack"])}.')
    out.append(f'Definition {prefix}_catch_interest : list err := {coq_list(table["interest"])}.')
    out.append(f'Definition {prefix}_catch_data : list err := {coq_list(table["data"])}.')
    out.append(f'Definition {prefix}_frag_guard : N := {guard}.')
    out.append(f'Definition {prefix}_catch_fragtl : list err := {coq_list(table.get("fragtl", []))}.')
    return out


def reflect_type_numbers():
    """TypeNumber.INTEREST / DATA and LpTypeNumber.LP_PACKET from the class bodies (literal ints)."""
    vals = {}
    for rel, cls, names in (('ndn/encoding/ndn_format_0_3.py', 'TypeNumber', ('INTEREST', 'DATA')),
                            ('ndn/encoding/ndnlp_v2.py', 'LpTypeNumber', ('LP_PACKET',))):
        tree = ast.parse(open(os.path.join(SRC, rel)).read())
        for n in ast.walk(tree):
            if isinstance(n, ast.ClassDef) and n.name == cls:
                for s in n.body:
                    if isinstance(s, ast.Assign) and isinstance(s.targets[0], ast.Name) and s.targets[0].id in names:
                        if not (isinstance(s.value, ast.Constant) and isinstance(s.value.value, int)):
                            fail(s, 'type number is not a literal', rel)
                        vals[s.targets[0].id] = s.value.value
        for nm in names:
            if nm not in vals:
                fail(tree, f'{cls}.{nm} not found', rel)
    return [f'Definition src_TYPE_{k} : N := {v}.' for k, v in sorted(vals.items())]


# ---- coroutines over a StreamReader ----------------------------------------------------------------
class Co:
    """Translates a straight-line / if-elif-else coroutine body whose only awaits are
    reader.readexactly(n) and read_tl_num_from_stream(reader, bio) into an [rd] term.
    The BytesIO object is a byte-list variable; ints are N."""

    def __init__(self, fn):
        self.fn = fn
        self.tmp = 0

    def fresh(self):
        self.tmp += 1
        return f't{self.tmp}'

    def is_readexactly(self, e):
        return (isinstance(e, ast.Await) and isinstance(e.value, ast.Call) and attr_name(e.value.func) == 'readexactly'
                and len(e.value.args) == 1 and not e.value.keywords)

    def count(self, e):
        if isinstance(e, ast.Constant) and isinstance(e.value, int) and not isinstance(e.value, bool) and e.value >= 0:
            return f'{e.value}'
        if isinstance(e, ast.Name):
            return e.id
        fail(e, 'readexactly count must be a literal or a variable', self.fn)

    def intexpr(self, e):
        if isinstance(e, ast.Constant) and isinstance(e.value, int) and not isinstance(e.value, bool) and e.value >= 0:
            return f'{e.value}'
        if isinstance(e, ast.Name):
            return e.id
        fail(e, 'integer expression', self.fn)

    def cond(self, e):
        if isinstance(e, ast.Compare) and len(e.ops) == 1:
            ops = {ast.LtE: '<=?', ast.Lt: '<?', ast.Eq: '=?'}
            if type(e.ops[0]) in ops:
                return f'({self.intexpr(e.left)} {ops[type(e.ops[0])]} {self.intexpr(e.comparators[0])})'
        fail(e, 'condition', self.fn)

    def block(self, stmts, ret):
        """ret(expr_text) builds the final Ret"""
        if not stmts:
            fail(None, 'fall-through without return', self.fn)
        s, rest = stmts[0], stmts[1:]
        if isinstance(s, ast.Expr) and isinstance(s.value, ast.Constant) and isinstance(s.value.value, str):
            return self.block(rest, ret)
        # x = await reader.readexactly(n)
        if isinstance(s, ast.Assign) and len(s.targets) == 1 and isinstance(s.targets[0], ast.Name):
            x = s.targets[0].id
            v = s.value
            if self.is_readexactly(v):
                return f'Read {self.count(v.value.args[0])} (fun {x} =>\n{self.block(rest, ret)})'
            # x = await read_tl_num_from_stream(reader, bio)
            if isinstance(v, ast.Await) and isinstance(v.value, ast.Call) and attr_name(v.value.func) == 'read_tl_num_from_stream':
                a = v.value.args
                if len(a) != 2 or not isinstance(a[1], ast.Name):
                    fail(s, 'read_tl_num_from_stream arguments', self.fn)
                bio = a[1].id
                return f"rbind (read_tl_num_from_stream {bio}) (fun '({x}, {bio}) =>\n{self.block(rest, ret)})"
            # bio = io.BytesIO()
            if isinstance(v, ast.Call) and attr_name(v.func) == 'BytesIO' and not v.args:
                return f'let {x} : bytes := [] in\n{self.block(rest, ret)}'
            # buf = bio.getvalue()
            if isinstance(v, ast.Call) and attr_name(v.func) == 'getvalue' and not v.args and isinstance(v.func.value, ast.Name):
                return f'let {x} := {v.func.value.id} in\n{self.block(rest, ret)}'
            # num = buf[0]
            if isinstance(v, ast.Subscript) and isinstance(v.value, ast.Name) and isinstance(v.slice, ast.Constant) \
                    and v.slice.value == 0:
                return f'match {v.value.id} with [] => Fail EIndex | {x} :: _ =>\n{self.block(rest, ret)}\nend'
            fail(s, 'assignment', self.fn)
        # bio.write(buf)  /  bio.write(await reader.readexactly(n))
        if isinstance(s, ast.Expr) and isinstance(s.value, ast.Call) and attr_name(s.value.func) == 'write' \
                and isinstance(s.value.func.value, ast.Name) and len(s.value.args) == 1:
            bio = s.value.func.value.id
            a = s.value.args[0]
            if isinstance(a, ast.Name):
                return f'let {bio} := {bio} ++ {a.id} in\n{self.block(rest, ret)}'
            if self.is_readexactly(a):
                t = self.fresh()
                return f'Read {self.count(a.value.args[0])} (fun {t} =>\nlet {bio} := {bio} ++ {t} in\n{self.block(rest, ret)})'
            fail(s, 'write argument', self.fn)
        if isinstance(s, ast.If):
            if rest:
                fail(s, 'code after if', self.fn)
            if not s.orelse:
                fail(s, 'if without else', self.fn)
            return f'if {self.cond(s.test)} then (\n{self.block(s.body, ret)}\n) else (\n{self.block(s.orelse, ret)}\n)'
        if isinstance(s, ast.Return):
            if rest:
                fail(s, 'code after return', self.fn)
            return ret(self, s.value)
        # aio.create_task(self.callback(typ, buf))   [last statement of the try body]
        if isinstance(s, ast.Expr) and isinstance(s.value, ast.Call) and attr_name(s.value.func) == 'create_task' and not rest:
            return ret(self, s.value)
        if isinstance(s, ast.Expr) and isinstance(s.value, ast.Await) and not rest:
            return ret(self, s.value)
        fail(s, type(s).__name__, self.fn)


def ret_tl(co, v):
    # return num  |  return struct.unpack('!H', buf)[0]
    if isinstance(v, ast.Name):
        return f'Ret ({v.id}, bio)'
    if isinstance(v, ast.Subscript) and isinstance(v.slice, ast.Constant) and v.slice.value == 0 \
            and isinstance(v.value, ast.Call) and attr_name(v.value.func) == 'unpack' and len(v.value.args) == 2 \
            and isinstance(v.value.args[0], ast.Constant) and isinstance(v.value.args[1], ast.Name):
        fmt = v.value.args[0].value
        width = {'!H': 2, '!I': 4, '!Q': 8, '!B': 1}.get(fmt)
        if width is None:
            fail(v, f'struct format {fmt!r}', co.fn)
        return f'match unpack_exact {width} {v.value.args[1].id} with Ok v => Ret (v, bio) | Err e => Fail e end'
    fail(v, 'return expression', co.fn)


def translate_read_tl():
    rel = 'ndn/encoding/tlv_var.py'
    tree = ast.parse(open(os.path.join(SRC, rel)).read())
    f = None
    for n in tree.body:
        if isinstance(n, ast.AsyncFunctionDef) and n.name == 'read_tl_num_from_stream':
            f = n
    if f is None:
        fail(tree, 'async def read_tl_num_from_stream not found', rel)
    if [a.arg for a in f.args.args] != ['reader', 'bio']:
        fail(f, 'parameters', rel)
    body = Co(rel).block(f.body, ret_tl)
    return [f'Definition read_tl_num_from_stream (bio : bytes) : rd (N * bytes) :=\n{body}.']


def translate_run():
    rel = 'ndn/transport/stream_face.py'
    tree = ast.parse(open(os.path.join(SRC, rel)).read())
    f = find_func(tree, 'StreamFace', 'run', rel)
    loops = [s for s in f.body if not (isinstance(s, ast.Expr) and isinstance(s.value, ast.Constant))]
    if len(loops) != 1 or not isinstance(loops[0], ast.While):
        fail(f, 'run() is not a single while loop', rel)
    w = loops[0]
    if not (isinstance(w.test, ast.Attribute) and w.test.attr == 'running') or w.orelse:
        fail(w, 'loop condition is not self.running', rel)
    if len(w.body) != 1 or not isinstance(w.body[0], ast.Try):
        fail(w, 'loop body is not a single try statement', rel)
    t = w.body[0]
    if t.finalbody or t.orelse or len(t.handlers) != 1:
        fail(t, 'try with else/finally/several handlers', rel)
    h = t.handlers[0]
    hb = [attr_name(c.func) for s in h.body for c in ast.walk(s) if isinstance(c, ast.Call)]
    if hb != ['shutdown'] or len(h.body) != 1:
        fail(h, 'except body is not self.shutdown()', rel)
    caught = exc_list(h, rel)
    spawned = [None]

    def ret_run(co, v):
        # aio.create_task(self.callback(typ, buf))  or  await self.callback(typ, buf)
        if isinstance(v, ast.Call) and attr_name(v.func) == 'create_task' and len(v.args) == 1:
            spawned[0] = True
            c = v.args[0]
        elif isinstance(v, ast.Await):
            spawned[0] = False
            c = v.value
        else:
            fail(v, 'last statement of the try body', rel)
        if not (isinstance(c, ast.Call) and attr_name(c.func) == 'callback' and len(c.args) == 2
                and all(isinstance(a, ast.Name) for a in c.args)):
            fail(c, 'callback call', rel)
        return f'Ret ({c.args[0].id}, {c.args[1].id})'
    body = Co(rel).block(t.body, ret_run)
    out = [f'Definition run_try_body : rd pkt :=\n{body}.',
           f'Definition run_caught : list err := {coq_list(caught)}.',
           f'Definition run_spawns_task : bool := {"true" if spawned[0] else "false"}.']
    # shutdown(): self.running = False
    sd = find_func(tree, 'StreamFace', 'shutdown', rel)
    ok = any(isinstance(s, ast.Assign) and isinstance(s.targets[0], ast.Attribute) and s.targets[0].attr == 'running'
             and isinstance(s.value, ast.Constant) and s.value.value is False for s in sd.body)
    out.append(f'Definition shutdown_clears_running : bool := {"true" if ok else "false"}.')
    return out


def reflect_udp():
    rel = 'ndn/transport/udp_face.py'
    tree = ast.parse(open(os.path.join(SRC, rel)).read())
    f = None
    for n in ast.walk(tree):
        if isinstance(n, ast.FunctionDef) and n.name == 'datagram_received':
            f = n
    if f is None:
        fail(tree, 'datagram_received not found', rel)
    caught = []
    guarded = False
    for n in ast.walk(f):
        if isinstance(n, ast.Try) and 'parse_tl_num' in called(ast.Module(body=n.body, type_ignores=[])):
            if len(n.handlers) != 1 or n.orelse or n.finalbody or not handler_returns(n.handlers[0]):
                fail(n, 'try around parse_tl_num', rel)
            caught = exc_list(n.handlers[0], rel)
            guarded = True
    if 'parse_tl_num' not in called(f):
        fail(f, 'parse_tl_num not called', rel)
    spawn = [c for c in ast.walk(f) if isinstance(c, ast.Call) and attr_name(c.func) == 'create_task']
    if len(spawn) != 1:
        fail(f, 'expected exactly one create_task', rel)
    c = spawn[0].args[0]
    if not (isinstance(c, ast.Call) and attr_name(c.func) == 'callback' and len(c.args) == 2
            and isinstance(c.args[1], ast.Name) and c.args[1].id == 'data'):
        fail(c, 'callback(typ, data)', rel)
    return [f'Definition udp_guarded : bool := {"true" if guarded else "false"}.',
            f'Definition udp_caught : list err := {coq_list(caught)}.']


def main():
    out = ['(* GENERATED by tools/gen_receive.py from src/ndn/appv2.py, app.py, transport/stream_face.py,',
           '   transport/udp_face.py, encoding/tlv_var.py (read_tl_num_from_stream) -- do not edit *)',
           'From NDN Require Import Base.Prelude Model.Stream.',
           'Local Open Scope N_scope.', '']
    out += reflect_type_numbers() + ['']
    out += reflect_receive(os.path.join(SRC, 'ndn/appv2.py'), 'v2') + ['']
    out += reflect_receive(os.path.join(SRC, 'ndn/app.py'), 'v1') + ['']
    out += translate_read_tl() + ['']
    out += translate_run() + ['']
    out += reflect_udp()
    print('\n'.join(out))


if __name__ == '__main__':
    try:
        main()
    except Abort as e:
        sys.stderr.write(str(e) + '\n')
        print(str(e))
        sys.exit(1)
