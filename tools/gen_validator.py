#!/usr/bin/env python3
"""T1 + T2 for C14: facts about cascade_validator.py / light_versec/validator.py that the model hard-wires.

T1 (reflection): SignatureType numbers; whether the `storage` default argument of CascadeChecker.__init__ and of
    lvs_validator is an object created at definition time (= shared by every instance).
T2 (fail-closed ast walk):
    * CascadeChecker._verify_sig: the if/elif chain  signature_type == SignatureType.X  ->  (X, verify function,
      is the result returned?), the key-import function used in each branch, and the final `return False`;
    * CascadeChecker.validate: the arguments of the certificate Interest and the exception classes caught
      around it; the anchor shortcut precedes the storage lookup; the key is saved only when truthy;
    * lvs_validator: sanity_check() before CascadeChecker(...); union_checker(validate_name, cas_checker);
      cas_checker.next_level = ret;
    * what an instance owns (= what validations that overlap in time share, Model/ValidatorConc.v): the attributes
      assigned on `self` are configuration + the key storage, no class-level state, `validate` only calls
      storage.load / storage.save / express_interest / _verify_sig / logger.debug on the instance, the closures of
      lvs_validator keep no state.
Anything that does not have exactly the expected shape aborts (exit != 0) and the dependent obligations break.
"""
import ast
import inspect
import sys
import textwrap

OUTPUT = 'ValidatorConsts.v'

from ndn.encoding import SignatureType
from ndn.security.validator import cascade_validator as CV
from ndn.app_support.light_versec import validator as LV


def abort(msg):
    raise SystemExit('ABORT: ' + msg)


def fn_ast(obj):
    src = textwrap.dedent(inspect.getsource(obj))
    t = ast.parse(src).body[0]
    if not isinstance(t, (ast.FunctionDef, ast.AsyncFunctionDef)):
        abort('not a function: %r' % obj)
    return t


def dotted(e):
    if isinstance(e, ast.Name):
        return e.id
    if isinstance(e, ast.Attribute):
        return dotted(e.value) + '.' + e.attr
    abort('unexpected expression ' + ast.dump(e)[:80])


VERIFY_FN = {'verify_hmac': ('SIG_HMAC', None), 'verify_rsa': ('SIG_RSA', 'RSA.import_key'),
             'verify_ecdsa': ('SIG_ECDSA', 'ECC.import_key'), 'verify_ed25519': ('SIG_ED25519', 'ECC.import_key')}


def verify_sig_table():
    f = fn_ast(CV.CascadeChecker._verify_sig)
    if [a.arg for a in f.args.args] != ['pub_key_bits', 'sig_ptrs']:
        abort('_verify_sig arguments')
    if len(f.body) != 1 or not isinstance(f.body[0], ast.If):
        abort('_verify_sig is not a single if/elif chain')
    node, rows = f.body[0], []
    while True:
        t = node.test
        if not (isinstance(t, ast.Compare) and len(t.ops) == 1 and isinstance(t.ops[0], ast.Eq)
                and dotted(t.left) == 'sig_ptrs.signature_info.signature_type'):
            abort('_verify_sig test shape')
        const = dotted(t.comparators[0])
        if not const.startswith('SignatureType.'):
            abort('_verify_sig compares with ' + const)
        ty = int(getattr(SignatureType, const.split('.', 1)[1]))
        body = list(node.body)
        imp = None
        key_arg = 'pub_key_bits'
        if len(body) == 2:
            a = body[0]
            if not (isinstance(a, ast.Assign) and len(a.targets) == 1 and dotted(a.targets[0]) == 'pub_key'
                    and isinstance(a.value, ast.Call) and len(a.value.args) == 1
                    and ast.unparse(a.value.args[0]) == 'bytes(pub_key_bits)'):
                abort('_verify_sig key import shape')
            imp = dotted(a.value.func)
            key_arg = 'pub_key'
            body = body[1:]
        if len(body) != 1:
            abort('_verify_sig branch body')
        st = body[0]
        if isinstance(st, ast.Return):
            call, returned = st.value, True
        elif isinstance(st, ast.Expr):
            call, returned = st.value, False
        else:
            abort('_verify_sig branch statement')
        if not (isinstance(call, ast.Call) and len(call.args) == 2 and dotted(call.args[0]) == key_arg
                and dotted(call.args[1]) == 'sig_ptrs'):
            abort('_verify_sig verify call shape')
        fn = dotted(call.func)
        if fn not in VERIFY_FN:
            abort('_verify_sig calls ' + fn)
        if VERIFY_FN[fn][1] != imp:
            abort(f'_verify_sig: {fn} with key import {imp}')
        rows.append((ty, VERIFY_FN[fn][0], returned))
        if len(node.orelse) == 1 and isinstance(node.orelse[0], ast.If):
            node = node.orelse[0]
            continue
        e = node.orelse
        if not (len(e) == 1 and isinstance(e[0], ast.Return) and isinstance(e[0].value, ast.Constant)
                and e[0].value.value is False):
            abort('_verify_sig else branch is not `return False`')
        break
    return rows


def validate_facts():
    f = fn_ast(CV.CascadeChecker.validate)
    facts = {}
    tries = [n for n in ast.walk(f) if isinstance(n, ast.Try)]
    if len(tries) != 1:
        abort('validate: expected exactly one try')
    t = tries[0]
    if len(t.handlers) != 1 or t.orelse or t.finalbody:
        abort('validate: try shape')
    h = t.handlers[0]
    names = [dotted(x) for x in (h.type.elts if isinstance(h.type, ast.Tuple) else [h.type])]
    if not (len(h.body) >= 1 and isinstance(h.body[-1], ast.Return) and isinstance(h.body[-1].value, ast.Constant)
            and h.body[-1].value.value is False):
        abort('validate: except handler does not return False')
    facts['caught'] = sorted(names)
    calls = [n for n in ast.walk(t) if isinstance(n, ast.Call) and dotted(n.func) == 'self.app.express_interest']
    if len(calls) != 1 or calls[0].args:
        abort('validate: express_interest call')
    kw = {k.arg: ast.unparse(k.value) for k in calls[0].keywords}
    facts['kw'] = kw
    # order of the three key sources: anchor comparison first, then storage.load, then fetch
    src = inspect.getsource(CV.CascadeChecker.validate)
    i1, i2, i3 = src.find('cert_name == self.anchor_name'), src.find('self.storage.load(cert_name)'), src.find('express_interest')
    if not (0 < i1 < i2 < i3):
        abort('validate: anchor shortcut / storage lookup / fetch order')
    saves = [n for n in ast.walk(f) if isinstance(n, ast.If) and ast.unparse(n.test) == 'key_bits'
             and len(n.body) == 1 and ast.unparse(n.body[0]) == 'self.storage.save(cert_name, key_bits)']
    if len(saves) != 1:
        abort('validate: `if key_bits: self.storage.save(cert_name, key_bits)` not found')
    if 'if not key_bits:\n            return False\n        return self._verify_sig(key_bits, sig_ptrs)' not in src:
        abort('validate: final `if not key_bits: return False; return self._verify_sig(...)`')
    return facts


INSTANCE_STATE = {'app', 'next_level', 'storage', 'anchor_name', 'anchor_key', 'logger'}


def instance_state_facts():
    """What a CascadeChecker instance owns (and validations in flight at the same time therefore share): every
    attribute assigned on `self` anywhere in the class must be one of the configuration fields or the key storage,
    class-level assignments must not exist, and the only thing `validate` changes is the storage (one `save`)."""
    cls = ast.parse(textwrap.dedent(inspect.getsource(CV.CascadeChecker))).body[0]
    for n in cls.body:
        if isinstance(n, ast.Assign) or (isinstance(n, ast.AnnAssign) and n.value is not None):
            abort('CascadeChecker: class-level state ' + ast.unparse(n)[:60])
    attrs = set()
    for n in ast.walk(cls):
        if isinstance(n, ast.Attribute) and isinstance(n.ctx, (ast.Store, ast.Del)) and dotted(n.value) == 'self':
            attrs.add(n.attr)
    if not attrs <= INSTANCE_STATE:
        abort('CascadeChecker: instance state other than configuration and key storage: %s' % sorted(attrs - INSTANCE_STATE))
    f = fn_ast(CV.CascadeChecker.validate)
    for n in ast.walk(f):
        if isinstance(n, ast.Attribute) and isinstance(n.ctx, (ast.Store, ast.Del)):
            abort('validate: assigns an attribute: ' + ast.unparse(n))
        if isinstance(n, (ast.Global, ast.Nonlocal)):
            abort('validate: global / nonlocal state')
        if isinstance(n, ast.Call) and isinstance(n.func, ast.Attribute) and dotted(n.func).startswith('self.') \
                and dotted(n.func) not in ('self.logger.debug', 'self.storage.load', 'self.storage.save',
                                           'self.app.express_interest', 'self._verify_sig'):
            abort('validate: unexpected call on the instance: ' + dotted(n.func))
    lv = fn_ast(LV.lvs_validator)
    inner = [n for n in ast.walk(lv) if isinstance(n, (ast.FunctionDef, ast.AsyncFunctionDef)) and n is not lv]
    for g in inner:
        for n in ast.walk(g):
            if isinstance(n, (ast.Global, ast.Nonlocal)) or \
                    (isinstance(n, (ast.Attribute, ast.Subscript)) and isinstance(n.ctx, (ast.Store, ast.Del))):
                abort('lvs_validator.%s keeps state' % g.name)
    return True


def lvs_facts():
    src = inspect.getsource(LV.lvs_validator)
    order = ['sanity_check()\n', 'CascadeChecker(app, trust_anchor, storage)', 'union_checker(validate_name, cas_checker)',
             'cas_checker.next_level = ret', 'return ret']
    pos = [src.rfind(x) if i == 0 else src.find(x) for i, x in enumerate(order)]
    if any(p < 0 for p in pos) or pos != sorted(pos):
        abort('lvs_validator: construction order / union composition')
    if 'return checker.check(name, cert_name)' not in src:
        abort('lvs_validator: validate_name does not return checker.check(name, cert_name)')
    if 'not ta_matches or not root_of_trust.issubset(ta_matches)' not in src:
        abort('lvs_validator: sanity_check condition')


def default_shared(fn):
    d = inspect.signature(fn).parameters['storage'].default
    if d is None:
        return False
    if isinstance(d, CV.PublicKeyStorage):
        return True
    abort('unexpected default for storage: %r' % (d,))


def b(x):
    return 'true' if x else 'false'


def main():
    rows = verify_sig_table()
    vf = validate_facts()
    lvs_facts()
    inst_state = instance_state_facts()
    # does a defaulted storage argument reach a per-instance object?
    cas_shared = default_shared(CV.CascadeChecker.__init__)
    lvs_shared = default_shared(LV.lvs_validator)
    out = ['(* GENERATED by tools/gen_validator.py from ndn.security.validator.cascade_validator and',
           '   ndn.app_support.light_versec.validator -- do not edit *)',
           'From NDN Require Import Base.Prelude.', 'Local Open Scope N_scope.', '']
    for k in ('DIGEST_SHA256', 'SHA256_WITH_RSA', 'SHA256_WITH_ECDSA', 'HMAC_WITH_SHA256', 'ED25519'):
        out.append(f'Definition {k} : N := {int(getattr(SignatureType, k))}.')
    out.append('(* verify function ids = the signature type they are meant for *)')
    out.append('Definition SIG_RSA : N := SHA256_WITH_RSA.')
    out.append('Definition SIG_ECDSA : N := SHA256_WITH_ECDSA.')
    out.append('Definition SIG_HMAC : N := HMAC_WITH_SHA256.')
    out.append('Definition SIG_ED25519 : N := ED25519.')
    out.append('(* CascadeChecker._verify_sig: (signature type tested, verify function, result returned?) ; else: return False *)')
    out.append('Definition verify_sig_branches : list (N * N * bool) := [' +
               '; '.join(f'({ty}, {fn}, {b(r)})' for ty, fn, r in rows) + '].')
    out.append(f'Definition cascade_default_storage_shared : bool := {b(cas_shared)}.')
    out.append(f'Definition lvs_default_storage_shared : bool := {b(lvs_shared)}.')
    caught = vf['caught']
    out.append('(* exceptions of the certificate fetch that turn into `return False` *)')
    out.append(f'Definition catches_validation_failure : bool := {b("ValidationFailure" in caught)}.')
    out.append(f'Definition catches_timeout : bool := {b("InterestTimeout" in caught)}.')
    out.append(f'Definition catches_nack : bool := {b("InterestNack" in caught)}.')
    out.append(f'Definition catches_nothing_else : bool := {b(set(caught) <= {"ValidationFailure", "InterestTimeout", "InterestNack"})}.')
    kw = vf['kw']
    out.append(f'Definition fetch_by_cert_name : bool := {b(kw.get("name") == "cert_name")}.')
    out.append(f'Definition fetch_must_be_fresh : bool := {b(kw.get("must_be_fresh") == "True")}.')
    out.append(f'Definition fetch_can_be_prefix : bool := {b(kw.get("can_be_prefix") != "False")}.')
    out.append(f'Definition fetch_validated_by_next_level : bool := {b(kw.get("validator") == "self.next_level")}.')
    out.append('(* every attribute assigned on a CascadeChecker is configuration or the key storage; validate changes nothing')
    out.append('   but the storage; the closures of lvs_validator keep no state: overlapping validations share the storage only *)')
    out.append(f'Definition instance_state_is_storage_only : bool := {b(inst_state)}.')
    sys.stdout.write('\n'.join(out) + '\n')


main()
