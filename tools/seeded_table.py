#!/usr/bin/env python3
"""Markdown table of the seeded regressions under seeded/*/meta.json."""
import glob, json, os
V = os.path.dirname(os.path.dirname(os.path.abspath(__file__)))
import sys
if '--summary' in sys.argv:
    yes, missed, tie = [], [], []
    for f in sorted(glob.glob(os.path.join(V, 'seeded', '*', 'meta.json'))):
        m = json.load(open(f))
        d = m['detected'].lower()
        (yes if d.startswith('yes') else missed if 'missed' in d[:40] else tie).append(m['seed_id'])
    n = len(yes) + len(missed) + len(tie)
    print(f"{n} seeds: {len(yes)} were reported at once with a concrete failing input; {len(missed)} were MISSED at first "
          f"({', '.join(missed)}) and {len(tie)} were reported only as a broken tie without a failing input "
          f"({', '.join(tie)}).")
    sys.exit(0)
print('| seed | property | needs, to manifest | detected by the quick check |')
print('|---|---|---|---|')
for f in sorted(glob.glob(os.path.join(V, 'seeded', '*', 'meta.json'))):
    m = json.load(open(f))
    print(f"| seeded/{m['seed_id']} | {m['property']} | {m['needs_to_manifest']} | {m['detected']} |")
