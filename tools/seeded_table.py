#!/usr/bin/env python3
"""Markdown table of the seeded regressions under seeded/*/meta.json."""
import glob, json, os
V = os.path.dirname(os.path.dirname(os.path.abspath(__file__)))
print('| seed | property | needs, to manifest | detected by the quick check |')
print('|---|---|---|---|')
for f in sorted(glob.glob(os.path.join(V, 'seeded', '*', 'meta.json'))):
    m = json.load(open(f))
    print(f"| seeded/{m['seed_id']} | {m['property']} | {m['needs_to_manifest']} | {m['detected']} |")
