#!/bin/bash
# usage: tools/mutcheck.sh <PROP> <file-relative-to-src> <sed-expression> [more file/sed pairs...]
# Applies the edit(s) to a scratch copy of /repo/src, runs the quick check against it, removes the copy.
PROP=$1; shift
D=$(mktemp -d /tmp/mutsrc.XXXXXX)
HERE="$(cd "$(dirname "$0")/.." && pwd)"
cp -r "${VERIF_REPO:-/repo}/src" "$D/src"
while [ $# -ge 2 ]; do
  f="$D/src/$1"; before=$(md5sum "$f")
  sed -i -E "$2" "$f"
  [ "$before" == "$(md5sum "$f")" ] && echo "MUTATION DID NOT APPLY: $1 $2"
  shift 2
done
VERIF_REPO_SRC="$D/src" "$HERE/check" "$PROP" --tier quick 2>&1 | grep -E '^\[|VIOLATION|KNOWN' | cut -c1-400
rm -rf "$D"
