#!/usr/bin/env python3
"""T2 (fail-closed ast translator) for the two small pieces of appv2.NDNApp._on_interest that C04's reply
theorem is about: the computation of `deadline` and the nested `reply` closure.

Understood statements (anything else aborts, so that the dependent Coq obligations break):
  deadline:  if param.lifetime is not None: deadline = utils.timestamp() + param.lifetime
             else:                          deadline = utils.timestamp() + DEFAULT_LIFETIME
  reply:     now = utils.timestamp()                      (first statement)
             if [not] <now CMP deadline | deadline CMP now>: ...   CMP in  > >= < <=
             if pit_token is None: <send> else: <send>       (both branches must translate identically)
             self._put_raw_packet(...) / self._put_raw_packet_with_pit_token(...)     = <send>
             self.logger.<anything>(...)                     (ignored)
             return True | False | None ;  falling off the end = return None
A <send> raises NetworkError when the face is not running; sending twice is not representable (abort).
That reading of <send> is itself checked against the source of the two senders (check_sender): after the
docstring each must be
             if not self.face.running: raise types.NetworkError(...)       (first statement, no else)
             <assignments / expression statements, no control flow>, exactly one self.face.send(...)
             no `return <value>` (a sender that reported instead of raising would be ignored by reply)
anything else aborts.
"""
import ast
import inspect
import sys
import textwrap

OUTPUT = 'ReplyGen.v'
from ndn import appv2

SENDS = {'_put_raw_packet', '_put_raw_packet_with_pit_token'}


def abort(msg):
    raise SystemExit('ABORT: ' + msg)


def is_ts_call(e):
    return (isinstance(e, ast.Call) and not e.args and not e.keywords and isinstance(e.func, ast.Attribute)
            and e.func.attr == 'timestamp' and isinstance(e.func.value, ast.Name) and e.func.value.id == 'utils')


def is_attr(e, base, attr):
    return isinstance(e, ast.Attribute) and e.attr == attr and isinstance(e.value, ast.Name) and e.value.id == base


def self_call(e):
    if isinstance(e, ast.Expr) and isinstance(e.value, ast.Call) and isinstance(e.value.func, ast.Attribute):
        f = e.value.func
        if isinstance(f.value, ast.Name) and f.value.id == 'self':
            return f.attr
        if is_attr(f.value, 'self', 'logger'):
            return 'logger'
    return None


def const(e):
    if e is None:
        return 'RNone'
    if isinstance(e, ast.Constant) and e.value is True:
        return 'RTrue'
    if isinstance(e, ast.Constant) and e.value is False:
        return 'RFalse'
    if isinstance(e, ast.Constant) and e.value is None:
        return 'RNone'
    abort('reply returns something other than True/False/None: ' + ast.dump(e))


def cmp_expr(t):
    if isinstance(t, ast.UnaryOp) and isinstance(t.op, ast.Not):
        c = cmp_expr(t.operand)
        return None if c is None else f'(negb {c})'
    if not (isinstance(t, ast.Compare) and len(t.ops) == 1 and len(t.comparators) == 1):
        return None
    a, b = t.left, t.comparators[0]
    if not (isinstance(a, ast.Name) and isinstance(b, ast.Name) and {a.id, b.id} == {'now', 'deadline'}):
        return None
    op = type(t.ops[0])
    # a OP b over naturals
    if op is ast.Gt:
        return f'({b.id} <? {a.id})'
    if op is ast.GtE:
        return f'({b.id} <=? {a.id})'
    if op is ast.Lt:
        return f'({a.id} <? {b.id})'
    if op is ast.LtE:
        return f'({a.id} <=? {b.id})'
    return None


def tr(stmts, sent):
    if not stmts:
        return f'Ok ({"true" if sent else "false"}, RNone)'
    s, rest = stmts[0], stmts[1:]
    if isinstance(s, ast.Return):
        return f'Ok ({"true" if sent else "false"}, {const(s.value)})'
    if isinstance(s, ast.If):
        c = cmp_expr(s.test)
        if c is not None:
            return f'(if {c} then {tr(s.body + rest, sent)} else {tr(s.orelse + rest, sent)})'
        t = s.test
        if (isinstance(t, ast.Compare) and isinstance(t.left, ast.Name) and t.left.id == 'pit_token'
                and len(t.ops) == 1 and isinstance(t.ops[0], (ast.Is, ast.IsNot))
                and isinstance(t.comparators[0], ast.Constant) and t.comparators[0].value is None):
            a, b = tr(s.body + rest, sent), tr(s.orelse + rest, sent)
            if a != b:
                abort('the two PIT-token branches of reply differ in what they send/return')
            return a
        abort('unsupported test in reply: ' + ast.dump(s.test))
    k = self_call(s)
    if k == 'logger':
        return tr(rest, sent)
    if k in SENDS:
        if sent:
            abort('reply sends more than once')
        return f'(if running then {tr(rest, True)} else Err E_NETWORK)'
    abort('unsupported statement in reply: ' + ast.dump(s)[:200])


def check_sender(name):
    fn = ast.parse(textwrap.dedent(inspect.getsource(getattr(appv2.NDNApp, name)))).body[0]
    body = fn.body
    if body and isinstance(body[0], ast.Expr) and isinstance(body[0].value, ast.Constant) and isinstance(body[0].value.value, str):
        body = body[1:]
    g = body[0] if body else None
    t = g.test if isinstance(g, ast.If) else None
    if not (t is not None and isinstance(t, ast.UnaryOp) and isinstance(t.op, ast.Not)
            and isinstance(t.operand, ast.Attribute) and t.operand.attr == 'running'
            and is_attr(t.operand.value, 'self', 'face') and not g.orelse and len(g.body) == 1):
        abort(f'{name} does not start with `if not self.face.running:`')
    r = g.body[0]
    e = r.exc if isinstance(r, ast.Raise) else None
    f = e.func if isinstance(e, ast.Call) else e
    if not (f is not None and ((isinstance(f, ast.Attribute) and f.attr == 'NetworkError')
                               or (isinstance(f, ast.Name) and f.id == 'NetworkError'))):
        abort(f'{name} does not raise NetworkError when the face is down')
    sends = 0
    for st in body[1:]:
        if isinstance(st, ast.Return):
            if st.value is not None and not (isinstance(st.value, ast.Constant) and st.value.value is None):
                abort(f'{name} returns a value (reply ignores it)')
            abort(f'{name}: unsupported early return')
        if not isinstance(st, (ast.Assign, ast.AnnAssign, ast.Expr)):
            abort(f'{name}: unsupported statement ' + ast.dump(st)[:120])
        for n in ast.walk(st):
            if (isinstance(n, ast.Call) and isinstance(n.func, ast.Attribute) and n.func.attr == 'send'
                    and is_attr(n.func.value, 'self', 'face')):
                sends += 1
    if sends != 1:
        abort(f'{name} calls face.send {sends} times')


def deadline_def(fn):
    for s in ast.walk(fn):
        if isinstance(s, ast.If) and isinstance(s.test, ast.Compare) and is_attr(s.test.left, 'param', 'lifetime'):
            t = s.test
            if not (len(t.ops) == 1 and isinstance(t.ops[0], ast.IsNot) and isinstance(t.comparators[0], ast.Constant)
                    and t.comparators[0].value is None and len(s.body) == 1 and len(s.orelse) == 1):
                abort('unexpected shape of the lifetime test')

            def rhs(a):
                if not (isinstance(a, ast.Assign) and len(a.targets) == 1 and isinstance(a.targets[0], ast.Name)
                        and a.targets[0].id == 'deadline' and isinstance(a.value, ast.BinOp)
                        and isinstance(a.value.op, ast.Add) and is_ts_call(a.value.left)):
                    abort('unexpected deadline assignment')
                r = a.value.right
                if is_attr(r, 'param', 'lifetime'):
                    return 'l'
                if isinstance(r, ast.Name) and r.id == 'DEFAULT_LIFETIME':
                    return 'ConstsApp.DEFAULT_LIFETIME'
                abort('unexpected deadline summand')
            return (f'Definition deadline_gen (life : option N) (now : N) : N :=\n'
                    f'  match life with Some l => now + {rhs(s.body[0])} | None => now + {rhs(s.orelse[0])} end.')
    abort('deadline computation not found in _on_interest')


def main():
    src = textwrap.dedent(inspect.getsource(appv2.NDNApp._on_interest))
    fn = ast.parse(src).body[0]
    reply = [n for n in ast.walk(fn) if isinstance(n, ast.FunctionDef) and n.name == 'reply']
    if len(reply) != 1:
        abort('reply closure not found')
    body = reply[0].body
    if body and isinstance(body[0], ast.Expr) and isinstance(body[0].value, ast.Constant) and isinstance(body[0].value.value, str):
        body = body[1:]
    s0 = body[0] if body else None
    if not (isinstance(s0, ast.Assign) and len(s0.targets) == 1 and isinstance(s0.targets[0], ast.Name)
            and s0.targets[0].id == 'now' and is_ts_call(s0.value)):
        abort('reply does not start with now = utils.timestamp()')
    for n in ast.walk(reply[0]):
        if isinstance(n, ast.Assign) and n is not s0:
            abort('reply assigns a variable')
    for name in sorted(SENDS):
        check_sender(name)
    out = ['(* GENERATED by tools/gen_reply_closure.py from ndn.appv2.NDNApp._on_interest -- do not edit *)',
           'From NDN Require Import Base.Prelude Model.Dispatch.',
           'From NDN Require Generated.ConstsApp.', 'Module ConstsApp := Generated.ConstsApp.',
           'Local Open Scope N_scope.', '',
           deadline_def(fn), '',
           'Definition reply_gen (deadline now : N) (running : bool) : res (bool * retval) :=',
           '  ' + tr(body[1:], False) + '.']
    sys.stdout.write('\n'.join(out) + '\n')


main()
