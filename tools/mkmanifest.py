#!/usr/bin/env python3
"""Assemble MANIFEST.json from manifest.d/*.json fragments (one per claimed property) and
manifest.d/not_applicable.json; every property of properties.jsonl is either claimed or listed."""
import glob
import json
import os

V = os.path.dirname(os.path.dirname(os.path.abspath(__file__)))
props = [json.loads(l)['id'] for l in open(os.path.join(V, 'properties.jsonl'))]
checks = []
for f in sorted(glob.glob(os.path.join(V, 'manifest.d', 'C*.json'))):
    c = json.load(open(f))
    pid = c['property_id']
    c.setdefault('quick_cmd', f'./check {pid} --tier quick')
    c.setdefault('thorough_cmd', f'./check {pid} --tier thorough')
    c.setdefault('evidence_file', f'/verif/evidence/{pid}.json')
    c.setdefault('replay_cmd_template', f'./check {pid} --replay {{path}}')
    c.setdefault('engine', 'coq-model+extracted-correspondence')
    checks.append(c)
claimed = {c['property_id'] for c in checks}
na_path = os.path.join(V, 'manifest.d', 'not_applicable.json')
na = json.load(open(na_path)) if os.path.exists(na_path) else {}
not_app = []
for p in props:
    if p not in claimed:
        not_app.append({'property_id': p, 'reason': na.get(p, 'not yet claimed: model/theorems for this property are still being built (see DESIGN.md section 3); no check is registered rather than claiming it on testing alone')})
m = {
    'version': 1,
    'setup_cmd': './check --setup',
    'hooks': {
        'guard': 'NDN_VERIF_HOOKS',
        'enable': 'none needed: the harness drives the unmodified library (clocks, nonces, faces are monkey-patched from outside)',
        'baseline_off_cmd': 'cd /repo && /venv/bin/python -m pytest -ra -q -p no:cacheprovider --timeout=900',
        'source_commits': [],
        'add_only': True,
    },
    'engines': [{
        'name': 'coq-model+extracted-correspondence',
        'path': '/verif/check',
        'serves_properties': sorted(claimed),
        'kind_free_text': 'Coq 8.16 theorems over executable Gallina models; models tied to /repo on every run by '
                          'T1 reflection + T2 ast translation (regenerated, bridge lemmas re-checked) and T3 '
                          'differential runs of the OCaml-extracted model against the implementation',
    }],
    'checks': checks,
    'not_applicable': not_app,
    'notes': 'See DESIGN.md. known_findings.json lists recorded defects; evidence/*.json is rewritten by every run.',
}
with open(os.path.join(V, 'MANIFEST.json'), 'w') as f:
    json.dump(m, f, indent=1)
    f.write('\n')
print('claimed', sorted(claimed), 'unclaimed', len(not_app))
