#!/usr/bin/env python3
"""Print the findings (fixed / known) of known_findings.json + known_findings.d/*.json as a markdown table."""
import glob
import json
import os
V = os.path.dirname(os.path.dirname(os.path.abspath(__file__)))
rows = []
for f in [os.path.join(V, 'known_findings.json')] + sorted(glob.glob(os.path.join(V, 'known_findings.d', '*.json'))):
    for e in json.load(open(f)).get('findings', []):
        rows.append(e)
rows.sort(key=lambda e: (e['property'], e['status'], e['id']))
print('| property | id | status | commit | site / class | what |')
print('|---|---|---|---|---|---|')
for e in rows:
    what = e.get('what', '').replace('|', '/').replace('\n', ' ')
    if len(what) > 260:
        what = what[:257] + '...'
    print(f"| {e['property']} | {e['id']} | {e['status']} | {e.get('commit', '')[:7]} | {e.get('site', '')} / {e.get('class', '')} | {what} |")
print()
print(f'{sum(1 for e in rows if e["status"] == "fixed")} fixed, {sum(1 for e in rows if e["status"] == "known")} known')
