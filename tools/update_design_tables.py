#!/usr/bin/env python3
"""Regenerate the generated tables of DESIGN.md in place: the findings table of 9.4 (tools/findings_table.py), the seeded
table of 9.5 and its one-line summary (tools/seeded_table.py [--summary])."""
import os
import re
import subprocess
import sys
V = os.path.dirname(os.path.dirname(os.path.abspath(__file__)))


def out(*a):
    return subprocess.run([sys.executable] + list(a), cwd=V, capture_output=True, text=True, check=True).stdout


def replace_table(lines, header_prefix, new_block):
    i = next(k for k, l in enumerate(lines) if l.startswith(header_prefix))
    j = i
    while j < len(lines) and lines[j].startswith('|'):
        j += 1
    return lines[:i] + new_block + lines[j:]


s = open(os.path.join(V, 'DESIGN.md')).read().split('\n')
ft = out('tools/findings_table.py').rstrip('\n').split('\n')
tail = ft[-1]                      # "N fixed, M known"
ft_table = [l for l in ft if l.startswith('|')]
s = replace_table(s, '| property | id | status | commit | site / class | what |', ft_table)
s = [tail if re.fullmatch(r'\d+ fixed, \d+ known', l) else l for l in s]
st = [l for l in out('tools/seeded_table.py').split('\n') if l.startswith('|')]
s = replace_table(s, '| seed | property | needs, to manifest | detected by the quick check |', st)
summ = out('tools/seeded_table.py', '--summary').strip()
s = [summ if re.match(r'^\d+ seeds: \d+ were reported at once', l) else l for l in s]
open(os.path.join(V, 'DESIGN.md'), 'w').write('\n'.join(s))
print(tail, '|', summ[:90])
