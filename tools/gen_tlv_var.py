#!/usr/bin/env python3
"""T2: fail-closed Python-ast -> Gallina translator for src/ndn/encoding/tlv_var.py.

Understands exactly the subset used in that file: integer literals/arithmetic/comparisons,
if/elif/else, return (incl. tuples), tuple-unpacking assignment from a call, indexing, slices,
struct.pack / pack_into / unpack with the single/double-field big-endian formats, memoryview(),
len(), raise of ValueError/IndexError.  Anything else aborts (exit 1): the build step then emits
a Generated file that cannot type-check, so every dependent obligation breaks.

Output goes to stdout (theories/Generated/TlvVarGen.v).
"""
import ast
import os
import sys

OUTPUT = 'TlvVarGen.v'
SRC = os.path.join(os.environ.get('VERIF_REPO_SRC', '/repo/src'), 'ndn/encoding/tlv_var.py')

TRANSLATE = ['get_tl_num_size', 'write_tl_num', 'pack_uint_bytes', 'parse_tl_num',
             'parse_and_check_tl', 'shrink_length']
SKIP = ['read_tl_num_from_stream']   # async; modelled in Model/Stream.v, tied by T3 (C06)

FMT = {'B': 'FB', 'H': 'FH', 'I': 'FI', 'Q': 'FQ'}
EXC = {'ValueError': 'EValue', 'IndexError': 'EIndex', 'TypeError': 'EType'}


class Abort(Exception):
    pass


def fail(node, why):
    raise Abort(f'unsupported construct at tlv_var.py:{getattr(node, "lineno", "?")}: {why}')


def fmt_list(node):
    if not (isinstance(node, ast.Constant) and isinstance(node.value, str) and node.value.startswith('!')):
        fail(node, 'struct format must be a literal big-endian format')
    try:
        return '[' + '; '.join(FMT[c] for c in node.value[1:]) + ']', len(node.value) - 1
    except KeyError:
        fail(node, f'struct format {node.value!r}')


class Fn:
    """Translates one function body into the [res] monad."""

    def __init__(self, fd, mutating):
        self.fd = fd
        self.mutating = mutating     # name -> index of the buffer parameter it mutates
        self.tmp = 0
        self.params = [a.arg for a in fd.args.args]
        self.mut_param = None
        self.buffers = set()

    def fresh(self):
        self.tmp += 1
        return f't{self.tmp}'

    # expressions: returns (binds, text) ; binds = list of "do x <- e ;;" strings
    def expr(self, e):
        if isinstance(e, ast.Constant):
            if isinstance(e.value, bool) or not isinstance(e.value, int):
                fail(e, f'constant {e.value!r}')
            return [], f'{e.value}%Z'
        if isinstance(e, ast.Name):
            return [], e.id
        if isinstance(e, ast.BinOp):
            ops = {ast.Add: '+', ast.Sub: '-', ast.Mult: '*'}
            if type(e.op) not in ops:
                fail(e, 'binary operator')
            b1, l = self.expr(e.left)
            b2, r = self.expr(e.right)
            return b1 + b2, f'({l} {ops[type(e.op)]} {r})'
        if isinstance(e, ast.UnaryOp) and isinstance(e.op, ast.USub):
            b, x = self.expr(e.operand)
            return b, f'(- {x})'
        if isinstance(e, ast.Compare):
            if len(e.ops) != 1:
                fail(e, 'chained comparison')
            ops = {ast.LtE: '<=?', ast.Lt: '<?', ast.Eq: '=?', ast.NotEq: None, ast.GtE: '>=?', ast.Gt: '>?'}
            if type(e.ops[0]) not in ops:
                fail(e, 'comparison operator')
            b1, l = self.expr(e.left)
            b2, r = self.expr(e.comparators[0])
            if isinstance(e.ops[0], ast.NotEq):
                return b1 + b2, f'(negb ({l} =? {r}))'
            return b1 + b2, f'({l} {ops[type(e.ops[0])]} {r})'
        if isinstance(e, ast.Tuple):
            bs, xs = [], []
            for el in e.elts:
                b, x = self.expr(el)
                bs += b
                xs.append(x)
            return bs, '(' + ', '.join(xs) + ')'
        if isinstance(e, ast.Subscript):
            return self.subscript(e)
        if isinstance(e, ast.Call):
            return self.call(e)
        fail(e, type(e).__name__)

    def opt(self, e):
        if e is None:
            return [], 'None'
        b, x = self.expr(e)
        return b, f'(Some {x})'

    def subscript(self, e):
        # struct.unpack(fmt, buf)[0]
        if isinstance(e.value, ast.Call) and self.is_struct(e.value, 'unpack'):
            if not (isinstance(e.slice, ast.Constant) and e.slice.value == 0):
                fail(e, 'unpack result index')
            fl, n = fmt_list(e.value.args[0])
            if n != 1:
                fail(e, 'unpack of multi-field format')
            b, buf = self.expr(e.value.args[1])
            t = self.fresh()
            return b + [f'do {t} <- struct_unpack1 {fl[1:-1]} {buf} ;;'], t
        bb, base = self.expr(e.value)
        if isinstance(e.slice, ast.Slice):
            if e.slice.step is not None:
                fail(e, 'slice step')
            b1, lo = self.opt(e.slice.lower)
            b2, hi = self.opt(e.slice.upper)
            return bb + b1 + b2, f'(py_slice {base} {lo} {hi})'
        b1, i = self.expr(e.slice)
        t = self.fresh()
        return bb + b1 + [f'do {t} <- py_index {base} {i} ;;'], t

    @staticmethod
    def is_struct(c, name):
        return (isinstance(c.func, ast.Attribute) and isinstance(c.func.value, ast.Name)
                and c.func.value.id == 'struct' and c.func.attr == name)

    def call(self, c):
        if c.keywords:
            fail(c, 'keyword arguments')
        if self.is_struct(c, 'pack'):
            fl, n = fmt_list(c.args[0])
            if len(c.args) - 1 != n:
                fail(c, 'pack arity')
            bs, xs = [], []
            for a in c.args[1:]:
                b, x = self.expr(a)
                bs += b
                xs.append(x)
            t = self.fresh()
            return bs + [f'do {t} <- struct_pack {fl} [{"; ".join(xs)}] ;;'], t
        if isinstance(c.func, ast.Name):
            f = c.func.id
            if f == 'memoryview' and len(c.args) == 1:
                return self.expr(c.args[0])
            if f == 'len' and len(c.args) == 1:
                b, x = self.expr(c.args[0])
                return b, f'(py_len {x})'
            if f in TRANSLATE:
                bs, xs = [], []
                for a in c.args:
                    b, x = self.expr(a)
                    bs += b
                    xs.append(x)
                # defaults: only `offset=0`
                t = self.fresh()
                if f in self.mutating:
                    idx = self.mutating[f]
                    if not isinstance(c.args[idx], ast.Name):
                        fail(c, 'mutated buffer argument must be a variable')
                    bufname = c.args[idx].id
                    return bs + [f"do pr <- {f} {' '.join(xs)} ;; let '({t}, {bufname}) := pr in"], t
                return bs + [f"do {t} <- {f} {' '.join(xs)} ;;"], t
        fail(c, 'call')

    # statements
    def block(self, stmts):
        if not stmts:
            fail(self.fd, 'fall-through without return')
        s, rest = stmts[0], stmts[1:]
        if isinstance(s, ast.Expr) and isinstance(s.value, ast.Constant) and isinstance(s.value.value, str):
            return self.block(rest)   # docstring
        if isinstance(s, ast.Return):
            if rest:
                fail(s, 'code after return')
            b, x = self.expr(s.value)
            ret = f'({x}, {self.mut_param})' if self.mut_param else x
            return '\n'.join(b + [f'Ok {ret}'])
        if isinstance(s, ast.Raise):
            if rest:
                fail(s, 'code after raise')
            if not (isinstance(s.exc, ast.Call) and isinstance(s.exc.func, ast.Name) and s.exc.func.id in EXC):
                fail(s, 'raise of unknown exception')
            return f'Err {EXC[s.exc.func.id]}'
        if isinstance(s, ast.If):
            b, c = self.expr(s.test)
            then = self.block(s.body + (rest if not self.terminates(s.body) else []))
            if s.orelse:
                els = self.block(s.orelse + (rest if not self.terminates(s.orelse) else []))
            else:
                els = self.block(rest)
            return '\n'.join(b + [f'if {c} then (', then, ') else (', els, ')'])
        if isinstance(s, ast.Assign):
            if len(s.targets) != 1:
                fail(s, 'multiple assignment targets')
            tgt = s.targets[0]
            b, x = self.expr(s.value)
            if isinstance(tgt, ast.Name):
                return '\n'.join(b + [f'let {tgt.id} := {x} in', self.block(rest)])
            if isinstance(tgt, ast.Tuple) and all(isinstance(t, ast.Name) for t in tgt.elts):
                names = ', '.join(t.id for t in tgt.elts)
                return '\n'.join(b + [f"let '({names}) := {x} in", self.block(rest)])
            fail(s, 'assignment target')
        if isinstance(s, ast.Expr) and isinstance(s.value, ast.Call):
            c = s.value
            if self.is_struct(c, 'pack_into'):
                fl, n = fmt_list(c.args[0])
                if len(c.args) - 3 != n or not isinstance(c.args[1], ast.Name):
                    fail(c, 'pack_into shape')
                buf = c.args[1].id
                b0, off = self.expr(c.args[2])
                bs, xs = list(b0), []
                for a in c.args[3:]:
                    b, x = self.expr(a)
                    bs += b
                    xs.append(x)
                return '\n'.join(bs + [f'do {buf} <- struct_pack_into {fl} {buf} {off} [{"; ".join(xs)}] ;;',
                                       self.block(rest)])
            if isinstance(c.func, ast.Name) and c.func.id in self.mutating:
                b, _ = self.expr(c)
                return '\n'.join(b + [self.block(rest)])
        fail(s, type(s).__name__)

    def terminates(self, stmts):
        last = stmts[-1]
        if isinstance(last, (ast.Return, ast.Raise)):
            return True
        if isinstance(last, ast.If) and last.orelse:
            return self.terminates(last.body) and self.terminates(last.orelse)
        return False

    def find_mutated_param(self):
        for n in ast.walk(self.fd):
            if isinstance(n, ast.Call) and self.is_struct(n, 'pack_into'):
                if isinstance(n.args[1], ast.Name) and n.args[1].id in self.params:
                    return n.args[1].id
        return None

    def translate(self):
        fd = self.fd
        if fd.args.vararg or fd.args.kwarg or fd.args.kwonlyargs:
            fail(fd, 'parameter kinds')
        for d in fd.args.defaults:
            if not (isinstance(d, ast.Constant) and d.value == 0):
                fail(fd, 'default value other than 0')
        self.mut_param = self.find_mutated_param()
        body = self.block(fd.body)
        types = []
        for a in fd.args.args:
            ann = ast.unparse(a.annotation) if a.annotation else ''
            if ann == 'int':
                types.append(f'({a.arg} : Z)')
            elif ann in ('BinaryStr', 'VarBinaryStr'):
                types.append(f'({a.arg} : pybuf)')
            else:
                fail(a, f'parameter annotation {ann!r}')
        return f"Definition {fd.name} {' '.join(types)} :=\n{body}."


def main():
    src = open(SRC).read()
    tree = ast.parse(src)
    fns = [n for n in tree.body if isinstance(n, (ast.FunctionDef, ast.AsyncFunctionDef))]
    names = [f.name for f in fns]
    if sorted(names) != sorted(TRANSLATE + SKIP):
        raise Abort(f'function set of tlv_var.py changed: {names}')
    for n in tree.body:
        if not isinstance(n, (ast.FunctionDef, ast.AsyncFunctionDef, ast.Import, ast.ImportFrom, ast.Assign, ast.Expr)):
            raise Abort(f'unexpected top-level statement at line {n.lineno}')
    out = ['(* GENERATED by tools/gen_tlv_var.py from src/ndn/encoding/tlv_var.py -- do not edit *)',
           'From NDN Require Import Base.Prelude Base.PyPrim.',
           'Local Open Scope Z_scope.', '']
    mutating = {}
    for f in fns:
        if f.name in SKIP:
            if not isinstance(f, ast.AsyncFunctionDef):
                raise Abort(f'{f.name} is no longer async')
            continue
        if isinstance(f, ast.AsyncFunctionDef):
            raise Abort(f'{f.name} became async')
        t = Fn(f, mutating)
        text = t.translate()
        if t.mut_param:
            mutating[f.name] = t.params.index(t.mut_param)
        out.append(text)
        out.append('')
    sys.stdout.write('\n'.join(out))


if __name__ == '__main__':
    try:
        main()
    except Abort as e:
        sys.stderr.write(f'ABORT: {e}\n')
        print(f'ABORT: {e}')
        sys.exit(1)
