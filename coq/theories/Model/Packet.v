(* Packet-level decoders: parse_interest / parse_data (ndn_format_0_3.py), parse_lp_packet_v2
   (ndnlp_v2.py), parse_certificate (security_v2.py), built from the generic interpreter applied to
   the descriptors reflected from the source on this run (Generated/Schemas.v). *)
From NDN Require Import Base.Prelude Model.TlvVar Model.Name Model.Tlv Spec.StrictTlv.
From NDN Require Import Generated.Schemas.
Local Open Scope N_scope.

Definition TYPE_INTEREST : N := 5.
Definition TYPE_DATA : N := 6.
Definition TYPE_LP_PACKET : N := 100.

Definition depth_of (fs : list field) : nat := S (fields_depth fs).

(* value of the first field with Type t (fields are addressed by Type number, never by position) *)
Fixpoint field_value (fs : list field) (vs : list value) (t : N) : value :=
  match fs, vs with
  | (t', _) :: fs', v :: vs' => if t' =? t then v else field_value fs' vs' t
  | _, _ => VNone
  end.

Definition require_name (fs : list field) (r : res (list value)) : res (list value) :=
  do vs <- r ;;
  match field_value fs vs TYPE_NAME with VNone => Err EDecode | _ => Ok vs end.

Definition gen_decode (parse : nat -> list field -> bool -> bytes -> res (list value))
           (outer : N) (fs : list field) (ic : bool) (w : bytes) : res (list value) :=
  do v <- parse_and_check_tl w outer ;; parse (depth_of fs) fs ic v.

(* library decoders *)
Definition dec_interest (w : bytes) : res (list value) :=
  require_name ndn_format_0_3_InterestPacketValue
    (gen_decode parse_model TYPE_INTEREST ndn_format_0_3_InterestPacketValue false w).
Definition dec_data (w : bytes) : res (list value) :=
  require_name ndn_format_0_3_DataPacketValue
    (gen_decode parse_model TYPE_DATA ndn_format_0_3_DataPacketValue false w).
Definition dec_cert (w : bytes) : res (list value) :=
  require_name security_v2_CertificateV2Value
    (gen_decode parse_model TYPE_DATA security_v2_CertificateV2Value false w).

Definition LP_FRAG_INDEX : N := 82.
Definition LP_FRAG_COUNT : N := 83.
Definition no_fragmentation (fs : list field) (r : res (list value)) : res (list value) :=
  do vs <- r ;;
  match field_value fs vs LP_FRAG_INDEX, field_value fs vs LP_FRAG_COUNT with
  | VNone, VNone => Ok vs
  | _, _ => Err EDecode
  end.
Definition dec_lp (w : bytes) : res (list value) :=
  no_fragmentation ndnlp_v2_LpPacketValue
    (gen_decode parse_model TYPE_LP_PACKET ndnlp_v2_LpPacketValue true w).

(* the strict readers of the same formats (specification side) *)
Definition strict_interest (w : bytes) : res (list value) :=
  require_name ndn_format_0_3_InterestPacketValue
    (gen_decode strict_model TYPE_INTEREST ndn_format_0_3_InterestPacketValue false w).
Definition strict_data (w : bytes) : res (list value) :=
  require_name ndn_format_0_3_DataPacketValue
    (gen_decode strict_model TYPE_DATA ndn_format_0_3_DataPacketValue false w).
Definition strict_cert (w : bytes) : res (list value) :=
  require_name security_v2_CertificateV2Value
    (gen_decode strict_model TYPE_DATA security_v2_CertificateV2Value false w).
Definition strict_lp (w : bytes) : res (list value) :=
  no_fragmentation ndnlp_v2_LpPacketValue
    (gen_decode strict_model TYPE_LP_PACKET ndnlp_v2_LpPacketValue true w).
