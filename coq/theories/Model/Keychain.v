(* Executable model of ndn.security.keychain.keychain_sqlite3 (KeychainSqlite3, Identity, Key) on top of
   ndn.security.tpm.tpm_file.TpmFile — definitions only.

   * The three tables of INITIALIZE_SQL are lists of rows in rowid order; one generic row type serves
     the three tables (identities: parent 0, keys: parent = identity row id, certificates: parent =
     key row id), because the nine triggers are three copies of the same three triggers.
   * Every public method is a program in the monad [M] (state + Python exception).  Each effect the
     storage can refuse — a writing SQL statement, commit, TpmFile.save_key / delete_key / get_signer —
     first calls [tick]; [flt = Some k] makes the (k+1)-th effect of the operation throw instead of
     running (the injected storage failure).  SELECTs and os.path.exists are reads, not fault points.
   * [db] is what the open connection sees (including an uncommitted transaction), [disk] what is
     committed; close/reopen keeps [disk], the key files, and drops the signer cache.
   * Names are lists of abstract component identifiers; name[:-2] is [drop2].  Key material and
     certificate blobs are abstract numbers handed in by the harness (0 = the self-signed certificate
     made by new_key). *)
From NDN Require Import Base.Prelude.
Local Open Scope N_scope.

Definition name := list N.
Definition name_eqb : name -> name -> bool := list_eqb N.eqb.
Definition drop2 (n : name) : name := firstn (length n - 2) n.          (* n[:-2] *)
Definition C_KEY : N := 0.                                                (* security_v2.KEY_COMPONENT  *)
Definition C_SELF : N := 1.                                               (* security_v2.SELF_COMPONENT *)

Definition EFault : err := EOther 1.        (* the injected storage failure *)
Definition EIntegrity : err := EOther 2.    (* sqlite3.IntegrityError *)

(* ---------------------------------------------------------------------------------------------- *)
(* Tables and the SQL statements used by the code                                                    *)

Record row := mkRow { r_id : N; r_par : N; r_name : name; r_val : N; r_def : bool }.
Definition rows := list row.
Record tables := mkT { t_ids : rows; t_keys : rows; t_certs : rows }.
Definition empty_tables : tables := mkT [] [] [].

Definition set_def (r : row) (b : bool) : row := mkRow (r_id r) (r_par r) (r_name r) (r_val r) b.
Definition has_name (n : name) (r : row) : bool := name_eqb (r_name r) n.
Definition in_scope (p : N) (r : row) : bool := r_par r =? p.
Definition is_def_in (p : N) (r : row) : bool := r_def r && in_scope p r.

(* INTEGER PRIMARY KEY without AUTOINCREMENT: max(rowid)+1 (ids of deleted rows are reused) *)
Definition max_id (l : rows) : N := fold_right (fun r a => N.max (r_id r) a) 0 l.
Definition next_id (l : rows) : N := max_id l + 1.

Definition r_find (n : name) (l : rows) : option row := find (has_name n) l.
Definition scope_has_def (p : N) (l : rows) : bool := existsb (is_def_in p) l.
Definition scope_default (p : N) (l : rows) : option row := find (is_def_in p) l.

(* INSERT (parent, name, value): the UNIQUE index on the name; is_default defaults to 0, so the
   BEFORE INSERT trigger (WHEN NEW.is_default=1) never fires; the AFTER INSERT trigger makes the new row
   the default when its scope has none (its inner UPDATE ... WHERE name=NEW.name hits the new row only). *)
Definition r_insert (p : N) (n : name) (v : N) (l : rows) : res rows :=
  if existsb (has_name n) l then Err EIntegrity
  else Ok (l ++ [mkRow (next_id l) p n v (negb (scope_has_def p l))]).

(* UPDATE t SET is_default=1 WHERE name=?  with the BEFORE UPDATE trigger
   (WHEN NEW.is_default=1 AND OLD.is_default=0: clear the flag in the scope of the row).
   No matching row: nothing happens and nothing is reported. *)
Definition r_set_default (n : name) (l : rows) : rows :=
  match r_find n l with
  | None => l
  | Some r =>
      if r_def r then l
      else map (fun x => if r_id x =? r_id r then set_def x true
                         else if in_scope (r_par r) x then set_def x false else x) l
  end.

Definition r_delete_name (n : name) (l : rows) : rows := filter (fun r => negb (has_name n r)) l.
Definition r_delete_scope (p : N) (l : rows) : rows := filter (fun r => negb (in_scope p r)) l.

Definition sql_insert_identity (n : name) (t : tables) : res tables :=
  do l <- r_insert 0 n 0 (t_ids t) ;; Ok (mkT l (t_keys t) (t_certs t)).
Definition sql_insert_key (iid : N) (n : name) (bits : N) (t : tables) : res tables :=
  do l <- r_insert iid n bits (t_keys t) ;; Ok (mkT (t_ids t) l (t_certs t)).
(* INSERT INTO certificates (key_id, ...) VALUES ((SELECT id FROM keys WHERE key_name=?), ...):
   unknown key -> NULL in a NOT NULL column -> IntegrityError *)
Definition sql_insert_cert (kn cn : name) (data : N) (t : tables) : res tables :=
  match r_find kn (t_keys t) with
  | None => Err EIntegrity
  | Some k => do l <- r_insert (r_id k) cn data (t_certs t) ;; Ok (mkT (t_ids t) (t_keys t) l)
  end.
Definition sql_default_identity (n : name) (t : tables) : res tables :=
  Ok (mkT (r_set_default n (t_ids t)) (t_keys t) (t_certs t)).
Definition sql_default_key (n : name) (t : tables) : res tables :=
  Ok (mkT (t_ids t) (r_set_default n (t_keys t)) (t_certs t)).
Definition sql_default_cert (n : name) (t : tables) : res tables :=
  Ok (mkT (t_ids t) (t_keys t) (r_set_default n (t_certs t))).
(* foreign keys are not enforced (PRAGMA foreign_keys is off): no cascade happens in SQLite *)
Definition sql_delete_identity (n : name) (t : tables) : res tables :=
  Ok (mkT (r_delete_name n (t_ids t)) (t_keys t) (t_certs t)).
Definition sql_delete_key (n : name) (t : tables) : res tables :=
  Ok (mkT (t_ids t) (r_delete_name n (t_keys t)) (t_certs t)).
Definition sql_delete_cert (n : name) (t : tables) : res tables :=
  Ok (mkT (t_ids t) (t_keys t) (r_delete_name n (t_certs t))).
Definition sql_delete_certs_of (kid : N) (t : tables) : res tables :=
  Ok (mkT (t_ids t) (t_keys t) (r_delete_scope kid (t_certs t))).

(* ---------------------------------------------------------------------------------------------- *)
(* The Mapping views (SELECTs)                                                                       *)

Definition v_iter (p : N) (l : rows) : list name := map r_name (filter (in_scope p) l).
Definition v_len (p : N) (l : rows) : nat := length (filter (in_scope p) l).
Definition v_get (p : N) (n : name) (l : rows) : res row :=          (* WHERE name=? AND parent=? *)
  match find (fun r => has_name n r && in_scope p r) l with Some r => Ok r | None => Err EKey end.
Definition v_contains (p : N) (n : name) (l : rows) : bool := is_ok (v_get p n l).   (* Mapping.__contains__ *)
Definition v_default (p : N) (l : rows) : res row :=
  match scope_default p l with Some r => Ok r | None => Err EKey end.

Definition kc_get (n : name) (t : tables) : res row := v_get 0 n (t_ids t).
Definition kc_contains (n : name) (t : tables) : bool := v_contains 0 n (t_ids t).
Definition id_get (i : row) (n : name) (t : tables) : res row := v_get (r_id i) n (t_keys t).
Definition key_get (k : row) (n : name) (t : tables) : res row := v_get (r_id k) n (t_certs t).

(* ---------------------------------------------------------------------------------------------- *)
(* State, exceptions, fault injection                                                                *)

Inductive signer := SgNone | SgDigest | SgKey (material : N) (locator : name).

Definition ckey := (name * name)%type.                                   (* (key name, key locator) *)
Definition ckey_eqb (a b : ckey) : bool := name_eqb (fst a) (fst b) && name_eqb (snd a) (snd b).

(* what persists / is observable *)
Record cst := mkC {
  db : tables;                       (* as seen through the connection *)
  disk : tables;                     (* committed *)
  tpm : list (name * N);             (* key files: key name -> private key material *)
  cache : list (ckey * signer)       (* KeychainSqlite3._signer_cache *)
}.
(* ... plus the fault injector: effects left before the injected failure *)
Record st := mkSt { core : cst; flt : option nat }.
Definition init_core : cst := mkC empty_tables empty_tables [] [].
Definition init_st : st := mkSt init_core None.

Definition M (A : Type) := st -> res A * st.
Definition ret {A} (a : A) : M A := fun s => (Ok a, s).
Definition throw {A} (e : err) : M A := fun s => (Err e, s).
Definition mbind {A B} (m : M A) (f : A -> M B) : M B :=
  fun s => match m s with (Ok a, s') => f a s' | (Err e, s') => (Err e, s') end.
Notation "'mdo' x <- m ;; k" := (mbind m (fun x => k))
  (at level 200, x pattern, m at level 100, k at level 200, right associativity).
Notation "m1 >> m2" := (mbind m1 (fun _ => m2)) (at level 190, right associativity).
(* a read of the core state / an update of it (neither is a fault point) *)
Definition getc {A} (f : cst -> res A) : M A := fun s => (f (core s), s).
Definition updc (f : cst -> cst) : M unit := fun s => (Ok tt, mkSt (f (core s)) (flt s)).
Definition reads {A} (f : tables -> A) : M A := getc (fun c => Ok (f (db c))).
Definition readr {A} (f : tables -> res A) : M A := getc (fun c => f (db c)).
Definition mwhen (b : bool) (m : M unit) : M unit := if b then m else ret tt.
Fixpoint mfor {A} (l : list A) (f : A -> M unit) : M unit :=
  match l with [] => ret tt | x :: r => f x >> mfor r f end.

Definition set_db (t : tables) (c : cst) : cst := mkC t (disk c) (tpm c) (cache c).
Definition set_tpm (x : list (name * N)) (c : cst) : cst := mkC (db c) (disk c) x (cache c).
Definition set_cache (x : list (ckey * signer)) (c : cst) : cst := mkC (db c) (disk c) (tpm c) x.
Definition set_flt (f : option nat) (s : st) : st := mkSt (core s) f.

Definition tick : M unit := fun s =>
  match flt s with
  | Some O => (Err EFault, set_flt None s)
  | Some (S k) => (Ok tt, set_flt (Some k) s)
  | None => (Ok tt, s)
  end.

(* One failure per operation: an effect that fails by itself (constraint violation, missing key file)
   disarms the injector, so the cleanup code that runs afterwards is not failed a second time. *)
Definition disarm {A} (e : err) : M A := fun s => (Err e, set_flt None s).
(* conn.execute(<INSERT/UPDATE/DELETE>): a failing statement changes nothing *)
Definition sql_w (f : tables -> res tables) : M unit :=
  tick >> fun s => match f (db (core s)) with
                   | Ok t => updc (set_db t) s
                   | Err e => disarm e s
                   end.
Definition do_commit (c : cst) : cst := mkC (db c) (db c) (tpm c) (cache c).
Definition do_rollback (c : cst) : cst := set_db (disk c) c.
Definition commit : M unit := tick >> updc do_commit.
Definition rollback (s : st) : st := mkSt (do_rollback (core s)) (flt s).
(* "with self.conn: body" — commit on success, rollback on exception (also when the commit raises) *)
Definition with_conn {A} (body : M A) : M A := fun s =>
  match body s with
  | (Ok a, s1) => match commit s1 with
                  | (Ok _, s2) => (Ok a, s2)
                  | (Err e, s2) => (Err e, rollback s2)
                  end
  | (Err e, s1) => (Err e, rollback s1)
  end.
(* try: body / except Exception: handler; raise *)
Definition on_error {A} (body : M A) (handler : M unit) : M A := fun s =>
  match body s with
  | (Ok a, s1) => (Ok a, s1)
  | (Err e, s1) => match handler s1 with (Ok _, s2) => (Err e, s2) | (Err e', s2) => (Err e', s2) end
  end.

Definition tpm_exists (k : name) : M bool := getc (fun c => Ok (al_mem name_eqb (tpm c) k)).
Definition tpm_save (k : name) (m : N) : M unit :=
  tick >> updc (fun c => set_tpm (al_set name_eqb (tpm c) k m) c).
(* os.remove; FileNotFoundError is swallowed *)
Definition tpm_delete (k : name) : M unit :=
  tick >> updc (fun c => set_tpm (al_del name_eqb (tpm c) k) c).
(* TpmFile.get_signer: KeyError when the file does not exist *)
Definition tpm_read (k : name) : M N :=
  tick >> fun s => match al_get name_eqb (tpm (core s)) k with Some m => ret m s | None => disarm EKey s end.
Definition cache_reset : M unit := updc (set_cache []).

(* ---------------------------------------------------------------------------------------------- *)
(* Public methods                                                                                   *)

Inductive rv := RNone | RIdent (n : name) (d : bool) | RKey (n : name) (bits : N) (d : bool) | RSigner (g : signer).
Definition rv_ident (r : row) : rv := RIdent (r_name r) (r_def r).
Definition rv_key (r : row) : rv := RKey (r_name r) (r_val r) (r_def r).

Definition set_default_identity (n : name) : M unit := with_conn (sql_w (sql_default_identity n)).
(* Identity.set_default_key / Key.set_default_cert: the UPDATE is by name only (not scoped) *)
Definition set_default_key_raw (n : name) : M unit := with_conn (sql_w (sql_default_key n)).
Definition set_default_cert_raw (n : name) : M unit := with_conn (sql_w (sql_default_cert n)).

Inductive kidspec := KidRandom (candidates : list N) | KidExplicit (kid : N).

(* Tpm.construct_key_name, key_id_type='random': draw until the name is not in the TPM.  The harness
   supplies the draws; running out of them is not a behaviour of the code (EFuel). *)
Fixpoint pick_kid (idn : name) (cands : list N) (files : list (name * N)) : res N :=
  match cands with
  | [] => Err EFuel
  | c :: r => if al_mem name_eqb files (idn ++ [C_KEY; c]) then pick_kid idn r files else Ok c
  end.

(* TpmFile.generate_key (ktype 0 = 'ec', 1 = 'rsa', anything else: ValueError) *)
Definition generate_key (idn : name) (ktype : N) (ks : kidspec) (material : N) : M name :=
  if 2 <=? ktype then throw EValue else
  mdo kid <- (match ks with
              | KidExplicit c => ret c
              | KidRandom cands => getc (fun c => pick_kid idn cands (tpm c))
              end) ;;
  let kn := idn ++ [C_KEY; kid] in
  mdo ex <- tpm_exists kn ;;
  if ex then throw EKey else tpm_save kn material >> ret kn.

Definition new_key (idn : name) (ktype : N) (ks : kidspec) (material ver : N) : M rv :=
  mdo present <- reads (kc_contains idn) ;;
  if negb present then throw EKey else
  mdo ident <- readr (kc_get idn) ;;
  mdo kn <- generate_key idn ktype ks material ;;
  on_error
    (tpm_read kn >>                                          (* signer for self_sign *)
     with_conn (sql_w (sql_insert_key (r_id ident) kn material) >>
                sql_w (sql_insert_cert kn (kn ++ [C_SELF; ver]) 0)))
    (tpm_delete kn) >>
  mdo hd <- reads (fun t => scope_has_def (r_id ident) (t_keys t)) ;;
  mwhen (negb hd) (set_default_key_raw kn) >>
  mdo k <- readr (id_get ident kn) ;;
  ret (rv_key k).

Definition ensure_default_identity (n : name) : M unit :=
  mdo hd <- reads (fun t => scope_has_def 0 (t_ids t)) ;;
  mwhen (negb hd) (set_default_identity n).

Definition new_identity (n : name) : M rv :=
  mdo present <- reads (kc_contains n) ;;
  if present then throw EKey else
  with_conn (sql_w (sql_insert_identity n)) >>
  ensure_default_identity n >>
  mdo i <- readr (kc_get n) ;; ret (rv_ident i).

Definition touch_identity (n : name) (cands : list N) (material ver : N) : M rv :=
  mdo present <- reads (kc_contains n) ;;
  mwhen (negb present)
    (with_conn (sql_w (sql_insert_identity n) >> new_key n 0 (KidRandom cands) material ver >> ret tt)) >>
  ensure_default_identity n >>
  mdo i <- readr (kc_get n) ;; ret (rv_ident i).

Definition import_cert (kn cn : name) (data : N) : M rv :=
  with_conn (sql_w (sql_insert_cert kn cn data)) >> ret RNone.

Definition del_cert (cn : name) : M rv :=
  with_conn (sql_w (sql_delete_cert cn)) >> cache_reset >> ret RNone.

Definition del_key (kn : name) : M rv :=
  mdo ident <- readr (kc_get (drop2 kn)) ;;
  mdo k <- readr (id_get ident kn) ;;
  cache_reset >>
  tpm_delete kn >>
  with_conn (sql_w (sql_delete_certs_of (r_id k)) >> sql_w (sql_delete_key kn)) >>
  ret RNone.

Definition del_identity (n : name) : M rv :=
  mdo ident <- readr (kc_get n) ;;
  mdo keys <- reads (fun t => v_iter (r_id ident) (t_keys t)) ;;
  mfor keys (fun kn => del_key kn >> ret tt) >>
  with_conn (sql_w (sql_delete_identity n)) >>
  cache_reset >> ret RNone.

(* kc[idn].set_default_key(kn), kc[idn][kn].set_default_cert(cn), kc[idn].del_key(kn), kc[idn][kn].del_cert(cn) *)
Definition id_set_default_key (idn kn : name) : M rv :=
  mdo _ <- readr (kc_get idn) ;; set_default_key_raw kn >> ret RNone.
Definition key_set_default_cert (idn kn cn : name) : M rv :=
  mdo i <- readr (kc_get idn) ;; mdo _ <- readr (id_get i kn) ;; set_default_cert_raw cn >> ret RNone.
Definition id_del_key (idn kn : name) : M rv :=
  mdo _ <- readr (kc_get idn) ;; del_key kn.
Definition key_del_cert (idn kn cn : name) : M rv :=
  mdo i <- readr (kc_get idn) ;; mdo _ <- readr (id_get i kn) ;; del_cert cn.
Definition kc_set_default_identity (n : name) : M rv := set_default_identity n >> ret RNone.

(* sign_args as far as the keychain reads them.  A name that is empty is falsy in Python and is
   treated like an absent one when given as a list; the harness never passes such a value. *)
Record sign_args := mkArgs {
  a_nosig : bool; a_digest : bool;
  a_cert : option name; a_key : option name; a_ident : option name; a_locator : option name }.

Definition default_cert_name (k : row) (t : tables) : res name :=
  do c <- v_default (r_id k) (t_certs t) ;; Ok (r_name c).

(* the (key name, certificate name) that sign_args select; only reads *)
Definition resolve_args (a : sign_args) (t : tables) : res (name * name) :=
  match a_cert a with
  | Some cn => Ok (drop2 cn, cn)
  | None =>
    match a_key a with
    | Some kn =>
        do i <- kc_get (drop2 kn) t ;;
        do k <- id_get i kn t ;;
        do cn <- default_cert_name k t ;; Ok (kn, cn)
    | None =>
        do i <- (match a_ident a with
                 | Some idn => kc_get idn t
                 | None => v_default 0 (t_ids t)
                 end) ;;
        do k <- v_default (r_id i) (t_keys t) ;;
        do cn <- default_cert_name k t ;; Ok (r_name k, cn)
    end
  end.

Definition get_signer (a : sign_args) : M rv :=
  if a_nosig a then ret (RSigner SgNone) else
  if a_digest a then ret (RSigner SgDigest) else
  mdo kc <- readr (resolve_args a) ;;
  let kn := fst kc in
  let loc := match a_locator a with Some l => l | None => snd kc end in
  mdo hit <- getc (fun c => Ok (al_get ckey_eqb (cache c) (kn, loc))) ;;
  match hit with
  | Some g => ret (RSigner g)
  | None =>
      mdo m <- tpm_read kn ;;
      let g := SgKey m loc in
      updc (fun c => set_cache (al_set ckey_eqb (cache c) (kn, loc) g) c) >> ret (RSigner g)
  end.

(* shutdown() + KeychainSqlite3(path, TpmFile(dir)) *)
Definition do_reopen (c : cst) : cst := mkC (disk c) (disk c) (tpm c) [].
Definition reopen : M rv := updc do_reopen >> ret RNone.

(* ---------------------------------------------------------------------------------------------- *)
(* Operations and histories                                                                         *)

Inductive op :=
| ONewIdentity (n : name)
| OTouchIdentity (n : name) (cands : list N) (material ver : N)
| ONewKey (idn : name) (ktype : N) (ks : kidspec) (material ver : N)
| OImportCert (kn cn : name) (data : N)
| OSetDefaultIdentity (n : name)
| OSetDefaultKey (idn kn : name)
| OSetDefaultCert (idn kn cn : name)
| ODelCert (cn : name)
| ODelKey (kn : name)
| ODelIdentity (n : name)
| OIdDelKey (idn kn : name)
| OKeyDelCert (idn kn cn : name)
| OGetSigner (a : sign_args)
| OReopen.

Definition op_sem (o : op) : M rv :=
  match o with
  | ONewIdentity n => new_identity n
  | OTouchIdentity n c m v => touch_identity n c m v
  | ONewKey i t ks m v => new_key i t ks m v
  | OImportCert k c d => import_cert k c d
  | OSetDefaultIdentity n => kc_set_default_identity n
  | OSetDefaultKey i k => id_set_default_key i k
  | OSetDefaultCert i k c => key_set_default_cert i k c
  | ODelCert c => del_cert c
  | ODelKey k => del_key k
  | ODelIdentity n => del_identity n
  | OIdDelKey i k => id_del_key i k
  | OKeyDelCert i k c => key_del_cert i k c
  | OGetSigner a => get_signer a
  | OReopen => reopen
  end.

(* one operation, optionally with a storage failure at its (k+1)-th effect; between operations only the
   core state exists *)
Definition run_op (fault : option nat) (o : op) (c : cst) : res rv * cst :=
  let (r, s') := op_sem o (mkSt c fault) in (r, core s').
Definition step (c : cst) (fo : option nat * op) : cst := snd (run_op (fst fo) (snd fo) c).
Definition run_from (c : cst) (h : list (option nat * op)) : cst := fold_left step h c.
Definition run (h : list (option nat * op)) : cst := run_from init_core h.

(* ---------------------------------------------------------------------------------------------- *)
(* What an observer sees through the public API (used by the correspondence check)                   *)

Record ocert := mkOC { oc_name : name; oc_data : N; oc_def : bool }.
Record okey := mkOK { ok_name : name; ok_bits : N; ok_def : bool; ok_len : nat; ok_certs : list ocert;
                      ok_default : option name }.
Record oident := mkOI { oi_name : name; oi_def : bool; oi_len : nat; oi_keys : list okey; oi_default : option name }.
Record obs := mkObs { o_len : nat; o_ids : list oident; o_default : option name; o_tpm : list (name * N) }.

Definition opt_name (r : res row) : option name := match r with Ok x => Some (r_name x) | Err _ => None end.

Definition observe_key (t : tables) (i : row) (kn : name) : option okey :=
  match id_get i kn t with
  | Err _ => None
  | Ok k =>
      let cs := v_iter (r_id k) (t_certs t) in
      Some (mkOK (r_name k) (r_val k) (r_def k) (v_len (r_id k) (t_certs t))
              (flat_map (fun cn => match key_get k cn t with
                                   | Ok c => [mkOC (r_name c) (r_val c) (r_def c)] | Err _ => [] end) cs)
              (opt_name (v_default (r_id k) (t_certs t))))
  end.
Definition observe_ident (t : tables) (n : name) : option oident :=
  match kc_get n t with
  | Err _ => None
  | Ok i =>
      let ks := v_iter (r_id i) (t_keys t) in
      Some (mkOI (r_name i) (r_def i) (v_len (r_id i) (t_keys t))
              (flat_map (fun kn => match observe_key t i kn with Some k => [k] | None => [] end) ks)
              (opt_name (v_default (r_id i) (t_keys t))))
  end.
Definition observe (s : cst) : obs :=
  let t := db s in
  mkObs (v_len 0 (t_ids t))
        (flat_map (fun n => match observe_ident t n with Some i => [i] | None => [] end) (v_iter 0 (t_ids t)))
        (opt_name (v_default 0 (t_ids t)))
        (tpm s).
