(* Model of ndn.name_tree.NameTrie (a pygtrie.Trie keyed by lists of encoded components) as the
   library uses it: setdefault / item assignment / del / prefixes / longest_prefix / len.
   A node carries an optional value (pygtrie's _NOVAL = None) and a dict of children keyed by the
   component bytes (NameTrie._path_from_key turns every component into bytes / a read-only
   memoryview, both of which hash and compare as their byte content).
   Definitions only. *)
From NDN Require Import Base.Prelude.

Definition tkey := list bytes.      (* a FormalName: encoded components *)

Section Trie.
  Context {V : Type}.

  Inductive trie := Node (val : option V) (ch : list (bytes * trie)).

  Definition t_val (t : trie) : option V := match t with Node v _ => v end.
  Definition t_ch (t : trie) : list (bytes * trie) := match t with Node _ c => c end.
  Definition t_empty : trie := Node None [].

  (* children dict: lookup = first match, assignment = update in place / append, deletion = remove
     the key (a dict holds a key once; removing every match keeps that true without an invariant) *)
  Definition ch_get (l : list (bytes * trie)) (c : bytes) : option trie := al_get bytes_eqb l c.
  Definition ch_set (l : list (bytes * trie)) (c : bytes) (s : trie) := al_set bytes_eqb l c s.
  Definition ch_del (l : list (bytes * trie)) (c : bytes) : list (bytes * trie) :=
    filter (fun p => negb (bytes_eqb c (fst p))) l.

  (* Trie._get_node: KeyError when a step is missing *)
  Fixpoint t_find (t : trie) (k : tkey) : option trie :=
    match k with
    | [] => Some t
    | c :: k' => match ch_get (t_ch t) c with None => None | Some s => t_find s k' end
    end.

  (* value stored under key k (None: no node, or a node without value) *)
  Definition t_get (t : trie) (k : tkey) : option V :=
    match t_find t k with Some n => t_val n | None => None end.

  (* Trie._set_node(key, value, only_if_missing): creates the path (children.require) *)
  Fixpoint t_set_node (t : trie) (k : tkey) (v : V) (only_if_missing : bool) : trie :=
    match k with
    | [] => match t_val t with
            | Some _ => if only_if_missing then t else Node (Some v) (t_ch t)
            | None => Node (Some v) (t_ch t)
            end
    | c :: k' =>
        let sub := match ch_get (t_ch t) c with Some s => s | None => t_empty end in
        Node (t_val t) (ch_set (t_ch t) c (t_set_node sub k' v only_if_missing))
    end.

  (* trie.setdefault(key, default) -> (trie', the value now stored there) *)
  Definition t_setdefault (t : trie) (k : tkey) (d : V) : trie * V :=
    let t' := t_set_node t k d true in
    (t', match t_get t k with Some x => x | None => d end).

  (* trie[key] = v, also used for "mutate the object stored at key" *)
  Definition t_set (t : trie) (k : tkey) (v : V) : trie := t_set_node t k v false.

  Definition t_is_empty (t : trie) : bool :=
    match t with Node None [] => true | _ => false end.

  (* del trie[key]: KeyError when there is no node, ShortKeyError (a KeyError) when the node has no
     value; then Trie._pop_value: clear the value and remove nodes that became empty, bottom-up,
     never the root.  Nothing is modified when it raises. *)
  Fixpoint t_del (t : trie) (k : tkey) : res trie :=
    match k with
    | [] => match t_val t with None => Err EKey | Some _ => Ok (Node None (t_ch t)) end
    | c :: k' =>
        match ch_get (t_ch t) c with
        | None => Err EKey
        | Some s =>
            do s' <- t_del s k' ;;
            Ok (Node (t_val t) (if t_is_empty s' then ch_del (t_ch t) c else ch_set (t_ch t) c s'))
        end
    end.

  (* trie.prefixes(key): the (key, value) steps with a value on the walk towards key, root first;
     the walk stops silently (KeyError swallowed) at the first missing child.
     acc = path walked so far, reversed. *)
  Fixpoint t_prefixes (t : trie) (k : tkey) (acc : tkey) : list (tkey * V) :=
    (match t_val t with Some v => [(rev acc, v)] | None => [] end) ++
    match k with
    | [] => []
    | c :: k' => match ch_get (t_ch t) c with None => [] | Some s => t_prefixes s k' (c :: acc) end
    end.

  (* trie.longest_prefix(key): the last step yielded by prefixes, or the falsy _NoneStep *)
  Definition t_longest_prefix (t : trie) (k : tkey) : option (tkey * V) :=
    match rev (t_prefixes t k []) with [] => None | x :: _ => Some x end.

  (* all items (depth first, children in dict order) / len(trie) *)
  Fixpoint t_items (t : trie) (acc : tkey) : list (tkey * V) :=
    match t with
    | Node v ch =>
        (match v with Some x => [(rev acc, x)] | None => [] end) ++
        (fix go (l : list (bytes * trie)) : list (tkey * V) :=
           match l with
           | [] => []
           | (c, s) :: r => t_items s (c :: acc) ++ go r
           end) ch
    end.
  Definition t_len (t : trie) : nat := length (t_items t []).

  (* no empty node below the root: what _pop_value maintains (memory is given back on delete) *)
  Fixpoint t_pruned (t : trie) : bool :=
    match t with
    | Node _ ch =>
        (fix go (l : list (bytes * trie)) : bool :=
           match l with
           | [] => true
           | (_, s) :: r => negb (t_is_empty s) && t_pruned s && go r
           end) ch
    end.
End Trie.
Arguments trie V : clear implicits.
