(* Field collection of TlvModelMeta.__new__ (tlv_model.py): how the ordered field list [_encoded_fields] of a
   model class is put together from its body.  Definitions only.

   A class body is the sequence of its attributes in definition order; only two kinds matter:
     name = <Field>            -> [BOwn name field rest]
     _x   = IncludeBase(Base)  -> [BIncl base rest]   where [base] is the body of the (direct) base class
   (Python keeps one entry per attribute name in the class namespace, so the own names of ONE body are pairwise
   distinct; nothing below needs that.)  The metaclass walks the body once with the list built so far and a
   name -> position dictionary: a name that is not there yet is appended, a name that is there is replaced at
   its recorded position.  [al_set] of Base/Prelude is exactly that step ("update in place, insert at end").
   An IncludeBase does this step for every field of the base's already collected list, in order. *)
From NDN Require Import Base.Prelude.
Local Open Scope N_scope.

Section Collect.
  Context {A : Type}.                      (* the field objects; the collection never looks inside *)

  Inductive body :=
  | BNil
  | BOwn (name : N) (fld : A) (rest : body)
  | BIncl (base : body) (rest : body).

  Definition put (acc : list (N * A)) (p : N * A) : list (N * A) := al_set N.eqb acc (fst p) (snd p).
  Definition put_all (l acc : list (N * A)) : list (N * A) := fold_left put l acc.

  Fixpoint collect_into (b : body) (acc : list (N * A)) : list (N * A) :=
    match b with
    | BNil => acc
    | BOwn n a r => collect_into r (put acc (n, a))
    | BIncl base r => collect_into r (put_all (collect_into base []) acc)
    end.

  (* cls._encoded_fields as (name, field) pairs *)
  Definition collect (b : body) : list (N * A) := collect_into b [].
End Collect.
Arguments body : clear implicits.
