(* Executable model of ndn/app_support/svs/sync.py (SvsInst), definitions only.

   Faithful to the code as it is after the two `fix:` commits of branch fix/C18
   (aggregate reads agg_sv; a vector with an entry lacking SeqNo is ignored).  The behaviour
   before those commits is kept as [aggregate_v0] / [sync_handler_v0] in Properties/C18Findings.v.

   Representation
   * node ids are the bytes of the encoded node name (what the code uses as dict key);
   * Python dicts local_sv / agg_sv / rsv_dict are association lists with dict order
     (update in place, insert at end);
   * time is counted in ticks (N); the harness fixes the tick and uses intervals for which the
     float arithmetic of sample_*_timer is exact to well below one tick;
   * the decoded StateVec is an input (list of [wire_entry]); decoding itself is done by the real
     ndn classes in the harness adapter and its outcome is the [recv_class] of the event;
   * `secrets.randbits(16)` and `time.time()` are inputs of the events. *)
From NDN Require Import Base.Prelude.
Local Open Scope N_scope.

Definition node_id := bytes.
Definition sv := list (node_id * N).

Definition sv_find (v : sv) (k : node_id) : option N := al_get bytes_eqb v k.
Definition sv_get (v : sv) (k : node_id) : N :=            (* dict.get(k, 0) *)
  match sv_find v k with Some x => x | None => 0 end.
Definition sv_set (v : sv) (k : node_id) (x : N) : sv := al_set bytes_eqb v k x.   (* d[k] = x *)
Definition sv_mem (v : sv) (k : node_id) : bool := al_mem bytes_eqb v k.

(* one decoded StateVecEntry: node_id = None when the Name element is absent or the name is empty
   (`not rsv.node_id`), seq_no = None when the SeqNo element is absent *)
Definition wire_entry := (option node_id * option N)%type.

Inductive svs_mode := Steady | Suppression.

Record cfg := { c_self : node_id; c_sync_interval : N; c_sup_interval : N }.

Record st := {
  local : sv;            (* local_sv *)
  agg : sv;              (* agg_sv *)
  mode : svs_mode;       (* state *)
  self_seq : N;
  next_timing : N        (* next_sync_timing *)
}.

(* what one event makes visible outside the instance *)
Record out := {
  o_cb : bool;           (* on_missing_data called *)
  o_emit : option sv;    (* ndn_app.express called with this vector (dict order) *)
  o_raise : bool;        (* the handler raised *)
  o_tag : N              (* branch taken, for the exploration statistics only *)
}.
Definition quiet (tag : N) : out := {| o_cb := false; o_emit := None; o_raise := false; o_tag := tag |}.

(* sample_sync_timer / sample_sup_timer; r = secrets.randbits(16) *)
Definition sync_jitter_den : N := 327680.
Definition sup_jitter_den : N := 65536.
Definition sample_sync_timer (c : cfg) (r : N) : N :=
  c_sync_interval c + r * c_sync_interval c / sync_jitter_den - c_sync_interval c / 10.
Definition sample_sup_timer (c : cfg) (r : N) : N :=
  c_sup_interval c + r * c_sup_interval c / sup_jitter_den - c_sup_interval c / 2.

(* first loop of sync_handler: rsv_dict, or None when the vector is dropped
   (`return` on over-claim for the own node, or on a missing sequence number) *)
Fixpoint build_rsv (self : node_id) (sseq : N) (es : list wire_entry) (acc : sv) : option sv :=
  match es with
  | [] => Some acc
  | (None, _) :: r => build_rsv self sseq r acc                     (* if not rsv.node_id: continue *)
  | (Some _, None) :: _ => None                                     (* rsv_seq is None: return *)
  | (Some id, Some q) :: r =>
      if bytes_eqb id self && (sseq <? q) then None                 (* remote has more local data *)
      else build_rsv self sseq r (sv_set acc id q)
  end.

(* len(rsv_dict.keys() - local_sv.keys()) > 0 *)
Definition has_new_key (rsv loc : sv) : bool := existsb (fun p => negb (sv_mem loc (fst p))) rsv.

(* second loop: merge into local_sv, computing need_notif / need_fetch *)
Fixpoint merge_loop (rsv loc : sv) (notif fetch : bool) : sv * bool * bool :=
  match rsv with
  | [] => (loc, notif, fetch)
  | (id, q) :: r =>
      let l := sv_get loc id in
      if l <? q then merge_loop r (sv_set loc id q) notif true
      else if q <? l then merge_loop r loc true fetch
      else merge_loop r loc notif fetch
  end.

(* aggregate(rsv_dict), fixed code: agg_sv[id] = max(agg_sv.get(id, 0), seq) *)
Fixpoint aggregate (rsv ag : sv) : sv :=
  match rsv with
  | [] => ag
  | (id, q) :: r => aggregate r (sv_set ag id (N.max (sv_get ag id) q))
  end.

Definition handle_vector (c : cfg) (s : st) (now r : N) (es : list wire_entry) : st * out :=
  match es with
  | [] => (s, quiet 2)                                              (* not remote_sv_pkt.entries *)
  | _ =>
    match build_rsv (c_self c) (self_seq s) es [] with
    | None => (s, quiet 3)
    | Some rsv =>
        let '(loc, notif, fetch) := merge_loop rsv (local s) (has_new_key rsv (local s)) false in
        let s' :=
          match notif, mode s with
          | _, Suppression =>
              {| local := loc; agg := aggregate rsv (agg s); mode := Suppression;
                 self_seq := self_seq s; next_timing := next_timing s |}
          | true, Steady =>
              {| local := loc; agg := rsv; mode := Suppression;
                 self_seq := self_seq s; next_timing := now + sample_sup_timer c r |}
          | false, Steady =>
              {| local := loc; agg := agg s; mode := Steady;
                 self_seq := self_seq s; next_timing := now + sample_sync_timer c r |}
          end in
        (s', {| o_cb := fetch; o_emit := None; o_raise := false;
                o_tag := match notif, mode s with _, Suppression => 6 | true, _ => 5 | false, _ => 7 end |})
    end
  end.

(* outcome of the part of sync_handler that precedes the comparison *)
Inductive recv_class :=
| RBadLen                        (* len(name) != len(base_prefix) + 2 *)
| RParseFail                     (* StateVecWrapper.parse raised DecodeError / IndexError: caught *)
| RParseRaise                    (* it raised something else: propagates out of the handler *)
| RNoVec                         (* val is None *)
| RVec (es : list wire_entry).

Definition sync_handler (c : cfg) (s : st) (now r : N) (x : recv_class) : st * out :=
  match x with
  | RBadLen => (s, quiet 0)
  | RParseFail => (s, quiet 1)
  | RParseRaise => (s, {| o_cb := false; o_emit := None; o_raise := true; o_tag := 8 |})
  | RNoVec => (s, quiet 2)
  | RVec es => handle_vector c s now r es
  end.

(* the TimeoutError branch of on_timer *)
Definition needs_sync (loc ag : sv) : bool := existsb (fun p => sv_get ag (fst p) <? snd p) loc.
Definition timer_fire (c : cfg) (s : st) (now r : N) : st * out :=
  let necessary := match mode s with Suppression => needs_sync (local s) (agg s) | Steady => true end in
  ({| local := local s; agg := agg s; mode := Steady; self_seq := self_seq s;
      next_timing := now + sample_sync_timer c r |},
   {| o_cb := false; o_emit := if necessary then Some (local s) else None; o_raise := false;
      o_tag := match mode s, necessary with Steady, _ => 10 | _, true => 11 | _, false => 12 end |}).

(* new_data() *)
Definition new_data (c : cfg) (s : st) : st :=
  {| local := sv_set (local s) (c_self c) (self_seq s + 1); agg := agg s; mode := Steady;
     self_seq := self_seq s + 1; next_timing := 0 |}.

(* __init__(last_used_seq_num = last); k calls of new_data() before start(); start().
   The timer task begins with next_sync_timing = 0.0, i.e. the timer is due at once. *)
Definition construct (last : N) : st :=
  {| local := []; agg := []; mode := Steady; self_seq := last; next_timing := 0 |}.
Definition start (c : cfg) (s : st) : st :=
  {| local := sv_set (local s) (c_self c) (self_seq s); agg := agg s; mode := mode s;
     self_seq := self_seq s; next_timing := next_timing s |}.
Definition init (c : cfg) (last : N) (k : nat) : st := start c (Nat.iter k (new_data c) (construct last)).

(* events of a running instance.  [EClock now r]: the clock reaches [now]; the timer task waits with
   timeout max(next_sync_timing - now, 0), so it fires iff next_timing <= now. *)
Inductive event :=
| ERecv (now r : N) (x : recv_class)
| EPublish
| EClock (now r : N).

Definition step (c : cfg) (s : st) (e : event) : st * out :=
  match e with
  | ERecv now r x => sync_handler c s now r x
  | EPublish => (new_data c s, quiet 9)
  | EClock now r => if next_timing s <=? now then timer_fire c s now r else (s, quiet 13)
  end.

Definition run (c : cfg) (s : st) (h : list event) : st := fold_left (fun s e => fst (step c s e)) h s.
