(* C05, incoming Interests whose validator SUSPENDS while the application changes its routes.
   _on_interest (appv2.py / app.py): the route node found when the Interest arrives is captured by the closure
   submit_interest; the validator that is awaited and the callback that is called afterwards are both read from that
   node object.  attach_handler / set_interest_filter create a node, detach_handler / unset_interest_filter delete the
   table entry (the captured node object lives on); `app.int_validator` (legacy) is read when submit_interest starts.
   Definitions only. *)
From NDN Require Import Base.Prelude Spec.ExpressSpec Model.ExpressPipeline.
Local Open Scope N_scope.

Inductive gev :=
| GAttach (p : name) (hasv : bool)          (* a fresh handler id per successful attachment *)
| GDetach (p : name)
| GSetDefault (own : bool)
| GArrive (k : inc) (suspends : bool)       (* suspends = false: a consulted validator answers k_verdict at once *)
| GVerdict (kid v : N).                     (* the suspended validator of Interest kid answers v *)

(* a suspended validation: Interest id, the captured route (prefix, handler, has validator), the Interest *)
Definition susp := (N * ((name * (N * bool)) * inc))%type.

Record gst := mkG {
  g_fib : list (name * (N * bool));
  g_next : N;
  g_dflt : bool;
  g_susp : list susp;
  g_hc : list (N * inc);                    (* handler calls: handler id, the Interest with the verdict it got *)
  g_iv : list N;                            (* consultations of application-supplied validators *)
  g_att : list (N * (name * bool))          (* every attachment ever made: handler id -> prefix, has validator *)
}.
Definition g_init : gst := mkG [] 0 false [] [] [] [].

Definition set_verdict (k : inc) (v : N) : inc :=
  mkInc k.(k_id) k.(k_name) k.(k_params) k.(k_sig) k.(k_digest_ok) v.

Fixpoint susp_take (l : list susp) (kid : N) : option (susp * list susp) :=
  match l with
  | [] => None
  | x :: r => if fst x =? kid then Some (x, r)
              else match susp_take r kid with Some (y, r') => Some (y, x :: r') | None => None end
  end.

Definition g_apply (fe : frontend) (s : gst) (e : gev) : gst :=
  match e with
  | GAttach p hasv =>
      if al_mem name_eqb s.(g_fib) p then s
      else mkG (s.(g_fib) ++ [(p, (s.(g_next), hasv))]) (s.(g_next) + 1) s.(g_dflt) s.(g_susp) s.(g_hc) s.(g_iv)
               (s.(g_att) ++ [(s.(g_next), (p, hasv))])
  | GDetach p => mkG (al_del name_eqb s.(g_fib) p) s.(g_next) s.(g_dflt) s.(g_susp) s.(g_hc) s.(g_iv) s.(g_att)
  | GSetDefault own => mkG s.(g_fib) s.(g_next) own s.(g_susp) s.(g_hc) s.(g_iv) s.(g_att)
  | GArrive k suspends =>
      if gate_consults fe s.(g_dflt) s.(g_fib) k && suspends then
        match lpm s.(g_fib) k.(k_name) with
        | Some r => mkG s.(g_fib) s.(g_next) s.(g_dflt) (s.(g_susp) ++ [(k.(k_id), (r, k))]) s.(g_hc)
                        (s.(g_iv) ++ [k.(k_id)]) s.(g_att)
        | None => s
        end
      else
        let iv := if gate_consults fe s.(g_dflt) s.(g_fib) k then s.(g_iv) ++ [k.(k_id)] else s.(g_iv) in
        match gate fe s.(g_dflt) s.(g_fib) k with
        | Some (h, _) => mkG s.(g_fib) s.(g_next) s.(g_dflt) s.(g_susp) (s.(g_hc) ++ [(h, k)]) iv s.(g_att)
        | None => mkG s.(g_fib) s.(g_next) s.(g_dflt) s.(g_susp) s.(g_hc) iv s.(g_att)
        end
  | GVerdict kid v =>
      match susp_take s.(g_susp) kid with
      | None => s
      | Some ((_, ((_, (h, _)), k)), rest) =>
          (* `if valid == PASS or valid == ALLOW_BYPASS` (appv2) / `if not valid: drop` (legacy), then node.callback *)
          if pass fe v
          then mkG s.(g_fib) s.(g_next) s.(g_dflt) rest (s.(g_hc) ++ [(h, set_verdict k v)]) s.(g_iv) s.(g_att)
          else mkG s.(g_fib) s.(g_next) s.(g_dflt) rest s.(g_hc) s.(g_iv) s.(g_att)
      end
  end.

Definition g_run (fe : frontend) (evs : list gev) : gst := fold_left (g_apply fe) evs g_init.
