(* What the decoders REPORT as covered by a signature / a parameters digest (SignaturePtrs of
   parse_interest / parse_data / parse_certificate).

   TlvModel.parse walks the declared fields of the packet value; the declared order contains, besides the
   wire fields, *offset markers*.  Every marker lying between the previous position and the field that an
   incoming element is assigned to records the offset of that element ("skipping_process").  The
   SignatureValue field then reports  wire[signature-start marker : offset of SignatureValue]  and its own
   value; the Interest's Name field reports its components other than ParametersSha256 and the value of that
   component; the digest range is  wire[digest-start marker : digest-end marker]  where the end marker is
   declared last and therefore never recorded while parsing (None = end of the wire).

   The model keeps, for every element of the lenient split, the raw bytes it occupies; a marker is the INDEX
   of an element, and wire[marker a : offset of element b] is the concatenation of the raw bytes of elements
   a .. b-1 (offsets are the running sums of those lengths).  The declared order is the layout reflected
   from the source on this run (Generated/Schemas.v, [*_layout]: inl Type | inr marker code). *)
From NDN Require Import Base.Prelude Model.TlvVar Model.Name Model.Tlv.
Local Open Scope N_scope.

(* the lenient split of Model/Tlv.v, keeping the raw bytes of each element *)
Fixpoint elements_raw (fuel : nat) (w : bytes) : res (list (elem * bytes)) :=
  match w with
  | [] => Ok []
  | _ =>
      match fuel with
      | O => Err EFuel
      | S f =>
          do tp <- tl_dec w ;;
          let '(t, st) := tp in
          do lp <- tl_dec (skipn st w) ;;
          let '(l, sl) := lp in
          let body := skipn (st + sl) w in
          let k := N.to_nat (N.min l (N.of_nat (length body))) in
          do r <- elements_raw f (skipn k body) ;;
          Ok ((Elem t l (firstn k body), firstn (st + sl + k) w) :: r)
      end
  end.
Definition split_raw (w : bytes) : res (list (elem * bytes)) := elements_raw (S (length w)) w.

Definition layout := list (N + N).

(* first index >= pos (counted from [i]) whose entry is the wire field of Type t *)
Fixpoint find_field (lay : layout) (i pos : nat) (t : N) : option nat :=
  match lay with
  | [] => None
  | x :: r =>
      if (pos <=? i)%nat && match x with inl t' => t' =? t | inr _ => false end then Some i
      else find_field r (S i) pos t
  end.

(* markers with index in [from, to) record [at] *)
Fixpoint set_marks (lay : layout) (i from to at_ : nat) (marks : list (N * nat)) : list (N * nat) :=
  match lay with
  | [] => marks
  | x :: r =>
      let marks' := match x with
                    | inr k => if (from <=? i)%nat && (i <? to)%nat then (k, at_) :: marks else marks
                    | inl _ => marks
                    end in
      set_marks r (S i) from to at_ marks'
  end.

Fixpoint get_mark (k : N) (marks : list (N * nat)) : option nat :=
  match marks with
  | [] => None
  | (k', v) :: r => if k' =? k then Some v else get_mark k r
  end.

(* the walk: for every element that is assigned to a field, (index of the element, its Type, markers
   recorded so far).  An element that is not found from the current position on is skipped when its Type is
   even and refused when it is odd.  (No top-level field of the packet values is repeated or a map:
   the position moves past a field once it is filled.) *)
Fixpoint walk (lay : layout) (idx : nat) (ts : list N) (pos : nat) (marks : list (N * nat))
  : res (list (nat * N * list (N * nat))) :=
  match ts with
  | [] => Ok []
  | t :: r =>
      match find_field lay 0 pos t with
      | Some i =>
          let m' := set_marks lay 0 pos i idx marks in
          do rest <- walk lay (S idx) r (S i) m' ;;
          Ok ((idx, t, m') :: rest)
      | None => if N.odd t then Err EDecode else walk lay (S idx) r pos marks
      end
  end.

Fixpoint event_of (t : N) (ev : list (nat * N * list (N * nat))) : option (nat * list (N * nat)) :=
  match ev with
  | [] => None
  | (i, t', m) :: r => if t' =? t then Some (i, m) else event_of t r
  end.

Fixpoint last_marks (m0 : list (N * nat)) (ev : list (nat * N * list (N * nat))) : list (N * nat) :=
  match ev with
  | [] => m0
  | (_, _, m) :: r => last_marks m r
  end.

(* raw bytes of elements a .. b-1 *)
Definition raws_between (raws : list bytes) (a b : nat) : bytes := concat (firstn (b - a) (skipn a raws)).
Definition raws_from (raws : list bytes) (a : nat) : bytes := concat (skipn a raws).

Record ptrs := Ptrs { p_sig_covered : list bytes; p_sig_value : option bytes;
                      p_dig_covered : list bytes; p_dig_value : option bytes }.

Definition MARK_SIG_START : N := 1.
Definition MARK_DIG_START : N := 2.
Definition MARK_DIG_END : N := 3.

(* SignatureValueField.parse_from for the element of Type [tsig] *)
Definition sig_part (tsig : N) (raws : list (elem * bytes)) (ev : list (nat * N * list (N * nat)))
  : list bytes * option bytes :=
  match event_of tsig ev with
  | Some (i, m) =>
      (match get_mark MARK_SIG_START m with
       | Some a => [raws_between (map snd raws) a i]
       | None => []
       end,
       option_map (fun er => e_payload (fst er)) (nth_error raws i))
  | None => ([], None)
  end.

(* parse_data / parse_certificate *)
Definition ptrs_data_with (lay : layout) (v : bytes) : res ptrs :=
  do raws <- split_raw v ;;
  do ev <- walk lay 0 (map (fun er => e_type (fst er)) raws) 0 [] ;;
  let '(cov, sv) := sig_part 23 raws ev in
  Ok (Ptrs cov sv [] None).

(* InterestNameField.parse_from: components other than ParametersSha256 are reported as covered, the value of
   a ParametersSha256 component as the digest (the last one wins) *)
Fixpoint name_parts (comps : list bytes) (cov : list bytes) (dig : option bytes) : res (list bytes * option bytes) :=
  match comps with
  | [] => Ok (cov, dig)
  | c :: r =>
      do t <- comp_get_type c ;;
      if t =? TYPE_PARAMETERS_SHA256 then do v <- comp_get_value c ;; name_parts r cov (Some v)
      else name_parts r (cov ++ [c]) dig
  end.

(* parse_interest *)
Definition ptrs_interest_with (lay : layout) (v : bytes) : res ptrs :=
  do raws <- split_raw v ;;
  do ev <- walk lay 0 (map (fun er => e_type (fst er)) raws) 0 [] ;;
  do np <- match event_of TYPE_NAME ev with
           | Some (i, _) =>
               match nth_error raws i with
               | Some (_, raw) => do nd <- name_decode raw ;; name_parts (fst nd) [] None
               | None => Err EIndex
               end
           | None => Ok ([], None)
           end ;;
  let '(ncov, dig) := np in
  let '(cov, sv) := sig_part 46 raws ev in
  let fin := last_marks [] ev in
  let all := map snd raws in
  let lo := match get_mark MARK_DIG_START fin with Some a => a | None => O end in
  let dcov := match get_mark MARK_DIG_END fin with
              | Some b => raws_between all lo b
              | None => raws_from all lo
              end in
  Ok (Ptrs (ncov ++ cov) sv [dcov] dig).
