(* Generic model of encoding/tlv_model.py: TlvModel descriptors, values, the two encode passes
   (encoded_length / encode) and TlvModel.parse.

   Descriptors contain only the fields that occupy wire space (UintField, BoolField, BytesField,
   NameField, ModelField, RepeatedField, MapField); ProcedureArgument/OffsetMarker fields have no
   wire presence and are handled in the packet-level models.

   parse = split the wire into top-level elements exactly as the scan loop reads them
   ([elements], which keeps the *declared* length and the possibly truncated payload, because
   python slices truncate silently) and then assign elements to fields as the loop does
   ([assign_with]: forward search from the current field position, critical-bit rule, the special
   treatment of RepeatedField and MapField).  Error *classes* may differ from the Python when a wire
   contains several independent errors (split first, assign second); accept/reject and all values are
   the same, which is what the correspondence compares. *)
From NDN Require Import Base.Prelude Base.Utf8 Model.TlvVar Model.Name.
Local Open Scope N_scope.

Inductive fkind :=
| KUint (fixed : option N)
| KBool
| KBytes (is_string : bool)
| KName
| KModel (fs : list (N * fkind)) (ignore_critical : bool)
| KRepeated (elem : fkind)
| KMap (key : fkind) (vtype : N) (val : fkind).
Definition field := (N * fkind)%type.

Inductive value :=
| VNone
| VUint (n : N)
| VTrue
| VBytes (b : bytes)              (* bytes, or the UTF-8 bytes of a str for is_string fields *)
| VName (n : list bytes)
| VModel (l : list value)
| VList (l : list value)
| VMap (l : list (value * value)).

(* ---- elements ------------------------------------------------------------------------------- *)
Record elem := Elem { e_type : N; e_dlen : N (* declared Length *); e_payload : bytes }.

Definition tlv (t : N) (p : bytes) : bytes := tl_enc t ++ tl_enc (N.of_nat (length p)) ++ p.

(* the TL reading of the scan loop; payload = wire[offset:offset+length] (truncating slice) *)
Fixpoint elements (fuel : nat) (w : bytes) : res (list elem) :=
  match w with
  | [] => Ok []
  | _ =>
      match fuel with
      | O => Err EFuel
      | S f =>
          do tp <- tl_dec w ;;
          let '(t, st) := tp in
          do lp <- tl_dec (skipn st w) ;;
          let '(l, sl) := lp in
          let body := skipn (st + sl) w in
          let k := N.to_nat (N.min l (N.of_nat (length body))) in
          do r <- elements f (skipn k body) ;;
          Ok (Elem t l (firstn k body) :: r)
      end
  end.
Definition split_wire (w : bytes) : res (list elem) := elements (S (length w)) w.

(* ---- encoding --------------------------------------------------------------------------------- *)
Definition fixed_width (fx : option N) (n : N) : res nat :=
  match fx with
  | None => Ok (nni_width n)
  | Some 1 => Ok 1%nat | Some 2 => Ok 2%nat | Some 4 => Ok 4%nat | Some 8 => Ok 8%nat
  | Some _ => Err EValue
  end.

Fixpoint rconcat {A} (f : A -> res bytes) (l : list A) : res bytes :=
  match l with [] => Ok [] | x :: r => do a <- f x ;; do t <- rconcat f r ;; Ok (a ++ t) end.

Fixpoint enc_fields_with (ev : N -> fkind -> value -> res bytes) (fs : list field) (vs : list value) : res bytes :=
  match fs, vs with
  | [], [] => Ok []
  | (t, k) :: fs', v :: vs' => do a <- ev t k v ;; do r <- enc_fields_with ev fs' vs' ;; Ok (a ++ r)
  | _, _ => Err EType
  end.

(* Field.encode_into for one field of Type [t]; [d] bounds the nesting depth *)
Fixpoint enc_val (d : nat) (t : N) (k : fkind) (v : value) : res bytes :=
  match d with
  | O => Err EFuel
  | S d' =>
      match k, v with
      | _, VNone => Ok []
      | KUint fx, VUint n =>
          do w <- fixed_width fx n ;;
          if 256 ^ N.of_nat w <=? n then Err EValue
          else do th <- tl_enc_r t ;; Ok (th ++ [N.of_nat w] ++ N_to_be w n)
      | KBool, VTrue => do th <- tl_enc_r t ;; Ok (th ++ [0])
      | KBytes _, VBytes b => do th <- tl_enc_r t ;; Ok (th ++ tl_enc (N.of_nat (length b)) ++ b)
      | KName, VName n => Ok (name_encode n)
      | KModel fs _, VModel vs =>
          do inner <- enc_fields_with (enc_val d') fs vs ;;
          do th <- tl_enc_r t ;; Ok (th ++ tl_enc (N.of_nat (length inner)) ++ inner)
      | KRepeated e, VList l => rconcat (enc_val d' t e) l
      | KMap kk vt vk, VMap l =>
          rconcat (fun kv => do a <- enc_val d' t kk (fst kv) ;; do b <- enc_val d' vt vk (snd kv) ;; Ok (a ++ b)) l
      | _, _ => Err EType
      end
  end.

Definition encode_model (d : nat) (fs : list field) (vs : list value) : res bytes :=
  enc_fields_with (enc_val d) fs vs.

(* the first pass: Field.encoded_length, computed arithmetically as the Python does *)
Fixpoint rsum {A} (f : A -> res N) (l : list A) : res N :=
  match l with [] => Ok 0 | x :: r => do a <- f x ;; do t <- rsum f r ;; Ok (a + t) end.

Fixpoint elen_fields_with (el : N -> fkind -> value -> res N) (fs : list field) (vs : list value) : res N :=
  match fs, vs with
  | [], [] => Ok 0
  | (t, k) :: fs', v :: vs' => do a <- el t k v ;; do r <- elen_fields_with el fs' vs' ;; Ok (a + r)
  | _, _ => Err EType
  end.

Fixpoint elen_val (d : nat) (t : N) (k : fkind) (v : value) : res N :=
  match d with
  | O => Err EFuel
  | S d' =>
      match k, v with
      | _, VNone => Ok 0
      | KUint fx, VUint n =>
          do w <- fixed_width fx n ;;
          if 256 ^ N.of_nat w <=? n then Err EValue else Ok (N.of_nat (tl_size t) + 1 + N.of_nat w)
      | KBool, VTrue => Ok (N.of_nat (tl_size t) + 1)
      | KBytes _, VBytes b =>
          Ok (N.of_nat (tl_size t) + N.of_nat (tl_size (N.of_nat (length b))) + N.of_nat (length b))
      | KName, VName n =>
          let l := N.of_nat (name_value_length n) in Ok (l + 1 + N.of_nat (tl_size l))
      | KModel fs _, VModel vs =>
          do l <- elen_fields_with (elen_val d') fs vs ;;
          Ok (N.of_nat (tl_size t) + N.of_nat (tl_size l) + l)
      | KRepeated e, VList l => rsum (elen_val d' t e) l
      | KMap kk vt vk, VMap l =>
          rsum (fun kv => do a <- elen_val d' t kk (fst kv) ;; do b <- elen_val d' vt vk (snd kv) ;; Ok (a + b)) l
      | _, _ => Err EType
      end
  end.

Definition encoded_length_model (d : nat) (fs : list field) (vs : list value) : res N :=
  elen_fields_with (elen_val d) fs vs.

(* ---- parsing ------------------------------------------------------------------------------------ *)
Definition is_listlike (k : fkind) : bool :=
  match k with KRepeated _ | KMap _ _ _ => true | _ => false end.

(* the field search of the scan loop: first field at index >= pos whose Type is t *)
Fixpoint find_from (fs : list field) (idx pos : nat) (t : N) : option (nat * fkind) :=
  match fs with
  | [] => None
  | (t', k) :: r =>
      if Nat.leb pos idx && (t' =? t) then Some (idx, k) else find_from r (S idx) pos t
  end.

Fixpoint upd {A} (l : list A) (i : nat) (f : A -> A) : list A :=
  match l, i with
  | [], _ => []
  | x :: r, O => f x :: r
  | x :: r, S i' => x :: upd r i' f
  end.

Definition value_eqb_flat (a b : value) : bool :=   (* map keys are uint or bytes *)
  match a, b with
  | VUint x, VUint y => x =? y
  | VBytes x, VBytes y => bytes_eqb x y
  | _, _ => false
  end.

Fixpoint map_store (l : list (value * value)) (k v : value) : list (value * value) :=
  match l with
  | [] => [(k, v)]
  | (k', v') :: r => if value_eqb_flat k k' then (k', v) :: r else (k', v') :: map_store r k v
  end.

(* Name.decode on the payload of a Name element: the component list; every component must lie
   inside the Name (IndexError otherwise, after the fix) *)
Fixpoint name_components (fuel : nat) (p : bytes) : res (list bytes) :=
  match p with
  | [] => Ok []
  | _ =>
      match fuel with
      | O => Err EFuel
      | S f =>
          do tp <- tl_dec p ;;
          do lp <- tl_dec (skipn (snd tp) p) ;;
          let tot := N.of_nat (snd tp + snd lp) + fst lp in
          if N.of_nat (length p) <? tot then Err EIndex
          else let k := N.to_nat tot in
               do r <- name_components f (skipn k p) ;; Ok (firstn k p :: r)
      end
  end.

(* state of the scan loop: after a map key the loop looks for that key's value element, skipping
   unrecognised non-critical elements *)
Inductive pstate := PNormal | PAwait (i : nat) (key : value) (vt : N) (vk : fkind).

Fixpoint assign_with (pv : fkind -> elem -> res value) (fs : list field) (ic : bool)
         (st : pstate) (pos : nat) (els : list elem) (acc : list value) {struct els} : res (list value) :=
  match els with
  | [] => match st with PNormal => Ok acc | PAwait _ _ _ _ => Err EIndex end
  | e :: r =>
      match st with
      | PAwait i key vt vk =>
          if e_type e =? vt then
            do x <- pv vk e ;;
            assign_with pv fs ic PNormal i r
              (upd acc i (fun old => match old with VMap l => VMap (map_store l key x) | _ => VMap [(key, x)] end))
          else if N.odd (e_type e) && negb ic then Err EDecode
          else assign_with pv fs ic st pos r acc
      | PNormal =>
          match find_from fs 0 pos (e_type e) with
          | Some (i, k) =>
              match k with
              | KRepeated ek =>
                  do x <- pv ek e ;;
                  assign_with pv fs ic PNormal i r
                    (upd acc i (fun old => match old with VList l => VList (l ++ [x]) | _ => VList [x] end))
              | KMap kk vt vk => do key <- pv kk e ;; assign_with pv fs ic (PAwait i key vt vk) i r acc
              | _ => do x <- pv k e ;; assign_with pv fs ic PNormal (S i) r (upd acc i (fun _ => x))
              end
          | None =>
              if N.odd (e_type e) && negb ic then Err EDecode
              else assign_with pv fs ic PNormal pos r acc
          end
      end
  end.

Definition blank (fs : list field) : list value := map (fun _ => VNone) fs.

(* Field.parse_from for one element *)
Fixpoint parse_val (d : nat) (k : fkind) (e : elem) : res value :=
  match d with
  | O => Err EFuel
  | S d' =>
      let p := e_payload e in
      let l := e_dlen e in
      match k with
      | KUint _ =>
          if (l =? 1) || (l =? 2) || (l =? 4) || (l =? 8) then
            if N.of_nat (length p) =? l then Ok (VUint (be_to_N p)) else Err EStruct
          else Err EValue
      | KBool => Ok VTrue
      | KBytes s => if s then (if utf8_valid p then Ok (VBytes p) else Err EUnicode) else Ok (VBytes p)
      | KName =>
          if negb (e_type e =? TYPE_NAME) then Err EValue
          else if N.of_nat (length p) <? l then Err EIndex
          else do n <- name_components (S (length p)) p ;; Ok (VName n)
      | KModel fs ic =>
          do els <- split_wire p ;;
          do vs <- assign_with (parse_val d') fs ic PNormal 0 els (blank fs) ;;
          Ok (VModel vs)
      | KRepeated _ | KMap _ _ _ => Err EType
      end
  end.

(* TlvModel.parse(wire, ignore_critical) *)
Definition parse_model (d : nat) (fs : list field) (ic : bool) (w : bytes) : res (list value) :=
  do els <- split_wire w ;;
  assign_with (parse_val d) fs ic PNormal 0 els (blank fs).

(* nesting depth of a descriptor (fuel for the functions above) *)
Fixpoint kdepth (k : fkind) : nat :=
  match k with
  | KModel fs _ => S ((fix go (l : list field) : nat :=
                         match l with [] => O | (_, k') :: r => Nat.max (kdepth k') (go r) end) fs)
  | KRepeated e => S (kdepth e)
  | KMap a _ b => S (Nat.max (kdepth a) (kdepth b))
  | _ => 1%nat
  end.
Definition fields_depth (fs : list field) : nat := kdepth (KModel fs false).
