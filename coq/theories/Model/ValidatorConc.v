(* C14 — SEVERAL validations in flight on ONE validator instance (one key storage).
   Definitions only.  Same code as Model/Validator.v (lvs_validator / CascadeChecker.validate), but a
   validation is a coroutine: it runs until its next `await app.express_interest(cert_name, ...)`, and other
   validations of the same instance run while it waits.  What is shared is exactly what the instance
   owns: the key storage.

     thread   = one top-level `await validator(name, sig_ptrs)`;
     frames   = the suspended `validate` calls of that thread, innermost first: (p, cn) = validate(p) waits
                for the certificate cn = p's KeyLocator; the frame below is the packet whose certificate p is
                (validate(p) was called as `validator` by _wait_for_data of the enclosing express_interest);
     events   = CStart p      a new validation starts and runs to its first fetch (or to its verdict);
                CResume tid   the fetch thread tid waits for completes (Data: the certificate is validated
                              by next_level, which may fetch again; Nack / no answer: `return False`);
                CDeliver cn   what NDNApp does when the answer for cn arrives: every validation waiting for cn
                              resumes, in the order in which the Interests were expressed (one Data satisfies
                              all pending Interests of that name);
                CExpire       the Interests that nobody answers time out (in the order expressed).
   An exception raised by express_interest itself (NetworkError of face.send: [FFail]) does not suspend.
   No fuel: every step is a bounded piece of work; a certificate loop shows as a thread that waits again
   after every answer. *)
From NDN Require Import Base.Prelude Model.Validator.
Local Open Scope N_scope.

Definition frame := (pkt * vname)%type.

Inductive tstate :=
| TWait (stack : list frame)          (* suspended in the fetch of the top frame; never empty *)
| TDone (r : res bool).               (* verdict / exception delivered to the caller *)

Record thread := { th_pkt : pkt; th_state : tstate; th_sent : list vname }.

(* What validate(q) does before it would have to fetch:  inl verdict  |  inr cert_name (not the anchor, not cached) *)
Definition local_verdict (w : world) (c : cfg) (st : cache) (q : pkt) : res bool + vname :=
  match key_locator q with
  | None => inl (Ok false)
  | Some cn =>
    match name_check c (p_name q) cn with
    | Err e => inl (Err e)
    | Ok false => inl (Ok false)
    | Ok true =>
      if name_eqb cn (c_anchor_name c) then inl (check_key w (c_anchor_key c) q)
      else match truthy (cache_load st cn) with
           | Some k => inl (verify_sig w k q)
           | None => inr cn
           end
    end
  end.

(* validate(q) ended with [r]; the frames above it continue: the frame (p, cn) had fetched q as certificate cn.
     exception         -> escapes express_interest, and validate(p), unchanged
     False             -> ValidationFailure, caught: validate(p) returns False
     True              -> `if key_bits: storage.save(cert_name, key_bits)`; `if not key_bits: return False`;
                          `return self._verify_sig(key_bits, sig_ptrs)`                                      *)
Fixpoint unwind (w : world) (q : pkt) (r : res bool) (stack : list frame) (st : cache) : res bool * cache :=
  match stack with
  | [] => (r, st)
  | (p, cn) :: rest =>
      match r with
      | Ok true =>
          match truthy (p_content q) with
          | Some k => unwind w p (verify_sig w k p) rest (cache_save st cn k)
          | None => unwind w p (Ok false) rest st
          end
      | Ok false => unwind w p (Ok false) rest st
      | Err e => unwind w p (Err e) rest st
      end
  end.

(* next_level(q) is called with the frames [stack] above it; runs to the next suspension.
   Result: new thread state, storage, Interests expressed (at most one) *)
Definition advance (w : world) (c : cfg) (q : pkt) (stack : list frame) (st : cache)
  : tstate * cache * list vname :=
  match local_verdict w c st q with
  | inl r => let '(r', st') := unwind w q r stack st in (TDone r', st', [])
  | inr cn =>
      match w_fetch w cn with
      | FFail e => let '(r', st') := unwind w q (Err e) stack st in (TDone r', st', [cn])
      | _ => (TWait ((q, cn) :: stack), st, [cn])
      end
  end.

(* the pending fetch of a waiting thread completes with what the world answers for that name *)
Definition resume (w : world) (c : cfg) (th : thread) (st : cache) : thread * cache :=
  match th_state th with
  | TWait ((p, cn) :: rest) =>
      match w_fetch w cn with
      | FData d =>
          let '(ts, st', sent) := advance w c d ((p, cn) :: rest) st in
          ({| th_pkt := th_pkt th; th_state := ts; th_sent := th_sent th ++ sent |}, st')
      | FNack | FTimeout =>
          let '(r, st') := unwind w p (Ok false) rest st in
          ({| th_pkt := th_pkt th; th_state := TDone r; th_sent := th_sent th |}, st')
      | FFail e =>                                  (* not produced by [advance]: such a fetch does not suspend *)
          let '(r, st') := unwind w p (Err e) rest st in
          ({| th_pkt := th_pkt th; th_state := TDone r; th_sent := th_sent th |}, st')
      end
  | _ => (th, st)
  end.

(* ---------------------------------------------------------------- one instance, many threads --- *)
(* cs_queue: threads with an outstanding Interest, in the order the Interests were expressed *)
Record cstate := { cs_cache : cache; cs_threads : list thread; cs_queue : list nat }.

Inductive cev :=
| CStart (p : pkt)
| CResume (tid : nat)
| CDeliver (cn : vname)
| CExpire.

Definition waiting_on (th : thread) : option vname :=
  match th_state th with TWait ((_, cn) :: _) => Some cn | _ => None end.

Definition set_nth {A} (l : list A) (i : nat) (a : A) : list A := firstn i l ++ a :: skipn (S i) l.

Definition dequeue (q : list nat) (tid : nat) : list nat := filter (fun t => negb (Nat.eqb t tid)) q.

Definition requeue (q : list nat) (tid : nat) (th : thread) : list nat :=
  match waiting_on th with Some _ => dequeue q tid ++ [tid] | None => dequeue q tid end.

Definition resume_tid (w : world) (c : cfg) (cs : cstate) (tid : nat) : cstate :=
  match nth_error (cs_threads cs) tid with
  | None => cs
  | Some th =>
      match waiting_on th with
      | None => cs
      | Some _ =>
          let '(th', st') := resume w c th (cs_cache cs) in
          {| cs_cache := st'; cs_threads := set_nth (cs_threads cs) tid th'; cs_queue := requeue (cs_queue cs) tid th' |}
      end
  end.

Definition waits_for (cs : cstate) (sel : vname -> bool) (tid : nat) : bool :=
  match nth_error (cs_threads cs) tid with
  | Some th => match waiting_on th with Some cn => sel cn | None => false end
  | None => false
  end.

Definition silent (w : world) (cn : vname) : bool :=
  match w_fetch w cn with FTimeout => true | _ => false end.

Definition cstep (w : world) (c : cfg) (cs : cstate) (e : cev) : cstate :=
  match e with
  | CStart p =>
      let '(ts, st', sent) := advance w c p [] (cs_cache cs) in
      let th := {| th_pkt := p; th_state := ts; th_sent := sent |} in
      {| cs_cache := st'; cs_threads := cs_threads cs ++ [th];
         cs_queue := requeue (cs_queue cs) (length (cs_threads cs)) th |}
  | CResume tid => resume_tid w c cs tid
  | CDeliver cn =>                  (* the set of waiters is fixed when the answer arrives; no answer: nothing *)
      if silent w cn then cs
      else fold_left (resume_tid w c) (filter (waits_for cs (name_eqb cn)) (cs_queue cs)) cs
  | CExpire =>
      fold_left (resume_tid w c) (filter (waits_for cs (silent w)) (cs_queue cs)) cs
  end.

Definition cinit (st : cache) : cstate := {| cs_cache := st; cs_threads := []; cs_queue := [] |}.

(* state after every event (the harness compares the pending Interests after each event) *)
Fixpoint crun (w : world) (c : cfg) (cs : cstate) (evs : list cev) : list cstate :=
  match evs with
  | [] => []
  | e :: r => let cs' := cstep w c cs e in cs' :: crun w c cs' r
  end.

Definition cfinal (w : world) (c : cfg) (cs : cstate) (evs : list cev) : cstate := fold_left (cstep w c) evs cs.

(* ---------------------------------------------------------------- one validation on its own ---- *)
(* every fetch is answered before anything else happens ([fuel] answers at most) *)
Fixpoint drive (w : world) (c : cfg) (fuel : nat) (th : thread) (st : cache) : thread * cache :=
  match th_state th with
  | TDone _ => (th, st)
  | TWait _ =>
      match fuel with
      | O => (th, st)
      | S f => let '(th', st') := resume w c th st in drive w c f th' st'
      end
  end.

Definition start_thread (w : world) (c : cfg) (pk q : pkt) (stack : list frame) (pre : list vname) (st : cache)
  : thread * cache :=
  let '(ts, st', sent) := advance w c q stack st in
  ({| th_pkt := pk; th_state := ts; th_sent := pre ++ sent |}, st').

Definition run_alone (w : world) (c : cfg) (fuel : nat) (st : cache) (p : pkt) : thread * cache :=
  let '(th, st') := start_thread w c p p [] [] st in drive w c fuel th st'.
