(* C06 (A) — stream framing.  Model of
     asyncio.StreamReader            {buffer, eof}; feed_data / feed_eof / readexactly
     encoding/tlv_var.py             read_tl_num_from_stream
     transport/stream_face.py        StreamFace.run, StreamFace.shutdown
     transport/udp_face.py           PacketHandler.datagram_received

   A coroutine that reads from a StreamReader is a tree [rd A]: it returns, raises, or awaits
   [reader.readexactly(n)] and continues with the bytes it got.  [run_one] runs such a coroutine
   against the bytes buffered so far; like asyncio's readexactly it consumes nothing until the
   [n] bytes are there, so a suspended coroutine is just the [Read n k] node it waits at: the
   machine is resumable over chunk events without any other hidden state.

   Definitions only; proofs are in Proofs/Stream*.v. *)
From NDN Require Import Base.Prelude Model.TlvVar.
Local Open Scope N_scope.

(* ---- coroutines over a StreamReader -------------------------------------------------------- *)
Inductive rd (A : Type) : Type :=
| Ret (a : A)                          (* return a *)
| Fail (e : err)                       (* raise e (anything but IncompleteReadError) *)
| Read (n : N) (k : bytes -> rd A).    (* x = await reader.readexactly(n) ; k x *)
Arguments Ret {A} a.
Arguments Fail {A} e.
Arguments Read {A} n k.

Fixpoint rbind {A B} (m : rd A) (f : A -> rd B) : rd B :=
  match m with
  | Ret a => f a
  | Fail e => Fail e
  | Read n k => Read n (fun x => rbind (k x) f)
  end.

(* struct.unpack('!H' / '!I' / '!Q', buf)[0]: the buffer must have exactly the format's size *)
Definition unpack_exact (k : nat) (buf : bytes) : res N :=
  if Nat.eqb (length buf) k then Ok (be_to_N buf) else Err EStruct.

(* buf = await reader.readexactly(k); bio.write(buf); return struct.unpack(fmt_k, buf)[0] *)
Definition read_ext (k : nat) (bio : bytes) : rd (N * bytes) :=
  Read (N.of_nat k) (fun buf =>
    let bio := bio ++ buf in
    match unpack_exact k buf with Ok v => Ret (v, bio) | Err e => Fail e end).

(* read_tl_num_from_stream(reader, bio) -> value ; the BytesIO [bio] is threaded explicitly *)
Definition read_tl_num (bio : bytes) : rd (N * bytes) :=
  Read 1 (fun buf =>
    let bio := bio ++ buf in
    match buf with
    | [] => Fail EIndex                      (* buf[0]; cannot happen: readexactly(1) gives 1 byte *)
    | num :: _ =>
        if num <=? 252 then Ret (num, bio)
        else if num =? 253 then read_ext 2 bio
        else if num =? 254 then read_ext 4 bio
        else read_ext 8 bio
    end).

(* what the face hands to its callback: (typ, buf) = Type number and the whole packet with TL *)
Definition pkt := (N * bytes)%type.

(* body of the [try:] in StreamFace.run up to the create_task: one packet *)
Definition run_body : rd pkt :=
  rbind (read_tl_num []) (fun '(typ, bio) =>
  rbind (read_tl_num bio) (fun '(siz, bio) =>
  Read siz (fun body => Ret (typ, bio ++ body)))).

(* ---- running a coroutine against the buffered bytes ------------------------------------------ *)
Inductive outcome (A : Type) : Type :=
| ODone (a : A) (rest : bytes)          (* finished; [rest] stays in the reader's buffer *)
| OBlocked (m : rd A) (buf : bytes)     (* suspended at m = Read n _, fewer than n bytes buffered *)
| OFail (e : err).
Arguments ODone {A} a rest.
Arguments OBlocked {A} m buf.
Arguments OFail {A} e.

(* readexactly(n): n = 0 returns b'' at once; otherwise waits until n bytes are buffered, then
   takes exactly n.  [N.to_nat n] is only evaluated when n <= length buf (never on an
   attacker-chosen length that is not backed by data). *)
Fixpoint run_one {A} (m : rd A) (buf : bytes) : outcome A :=
  match m with
  | Ret a => ODone a buf
  | Fail e => OFail e
  | Read n k =>
      if n <=? N.of_nat (length buf)
      then run_one (k (firstn (N.to_nat n) buf)) (skipn (N.to_nat n) buf)
      else OBlocked m buf
  end.

(* ---- StreamFace ------------------------------------------------------------------------------- *)
(* state of the [run()] coroutine between two events *)
Inductive cstate :=
| CBlocked (m : rd pkt)     (* suspended inside the try block at a readexactly *)
| CFinished                 (* left the while loop: run() returned *)
| CCrashed (e : err)        (* an exception escaped run() *)
| COutOfFuel.               (* model artefact, excluded by Proofs/StreamPump.v: never happens *)

Record face := Face {
  f_running : bool;         (* self.running *)
  f_co : cstate;
  f_buf : bytes;            (* reader._buffer *)
  f_eof : bool;             (* reader._eof *)
  f_closed : bool           (* shutdown() has run (writer.close()) *)
}.

(* which exceptions the [except] clause of StreamFace.run lists (reflected from the source into
   Generated/ReceiveGen.v and compared in Proofs/ReceiveBridge.v; [run_cfg_src] is the text as of this tree) *)
Record run_cfg := RunCfg { catch_incomplete : bool; catch_reset : bool }.
Definition run_cfg_src : run_cfg := RunCfg true true.

(* the loop  while self.running: try: <run_body>; create_task(callback(typ, buf))  run as far as
   the buffered bytes allow.  The list is the packets handed to the callback, in order. *)
Fixpoint pump (fuel : nat) (running : bool) (m : rd pkt) (buf : bytes) : list pkt * cstate * bytes :=
  match fuel with
  | O => ([], COutOfFuel, buf)
  | S f =>
      match run_one m buf with
      | ODone p rest =>
          if running
          then let '(ps, c, b) := pump f running run_body rest in (p :: ps, c, b)
          else ([p], CFinished, rest)
      | OBlocked m' b => ([], CBlocked m', b)
      | OFail e => ([], CCrashed e, buf)
      end
  end.

Inductive event :=
| Feed (c : bytes)     (* transport: reader.feed_data(c) *)
| Eof                  (* transport: reader.feed_eof() *)
| Reset                (* transport: reader.set_exception(ConnectionResetError()) *)
| Shutdown.            (* application: face.shutdown() *)

Definition shutdown (f : face) : face :=
  Face false (f_co f) (f_buf f) (f_eof f) true.

(* a pending readexactly raises [exc]; the except clause either lists it (-> self.shutdown(); the
   while condition is now false and run() returns) or not (-> the exception escapes run()) *)
Definition raise_in_run (caught : bool) (e : err) (f : face) : face :=
  if caught then Face false CFinished (f_buf f) (f_eof f) true
  else Face (f_running f) (CCrashed e) (f_buf f) (f_eof f) (f_closed f).

(* EOther 1 = asyncio.IncompleteReadError, EOther 2 = ConnectionResetError *)
Definition EIncomplete := EOther 1.
Definition EConnReset := EOther 2.

Definition step (cfg : run_cfg) (f : face) (e : event) : face * list pkt :=
  match e with
  | Feed c =>
      if f_eof f then (f, [])       (* asyncio: "feed_data after feed_eof" is a protocol error *)
      else
        let buf := f_buf f ++ c in
        match f_co f with
        | CBlocked m =>
            let '(ps, co, b) := pump (2 + length buf) (f_running f) m buf in
            (Face (f_running f) co b false (f_closed f), ps)
        | co => (Face (f_running f) co buf false (f_closed f), [])
        end
  | Eof =>
      match f_co f with
      | CBlocked _ =>
          (* readexactly: incomplete = bytes(buffer); buffer.clear(); raise IncompleteReadError *)
          (raise_in_run (catch_incomplete cfg) EIncomplete (Face (f_running f) (f_co f) [] true (f_closed f)), [])
      | _ => (Face (f_running f) (f_co f) (f_buf f) true (f_closed f), [])
      end
  | Reset =>
      match f_co f with
      | CBlocked _ => (raise_in_run (catch_reset cfg) EConnReset f, [])
      | _ => (f, [])
      end
  | Shutdown => (shutdown f, [])
  end.

(* after open(): running, run() suspended at the first readexactly(1) *)
Definition face_init : face := Face true (CBlocked run_body) [] false false.

(* an event history; the answer lists what was handed to the callback after each event *)
Fixpoint run_events (cfg : run_cfg) (f : face) (evs : list event) : face * list (list pkt) :=
  match evs with
  | [] => (f, [])
  | e :: r =>
      let '(f1, out) := step cfg f e in
      let '(f2, outs) := run_events cfg f1 r in
      (f2, out :: outs)
  end.

(* ---- except clauses --------------------------------------------------------------------------------- *)
(* isinstance(e, c) for the classes of [err]: UnicodeDecodeError is a ValueError *)
Definition err_isa (e c : err) : bool :=
  err_eqb e c || (err_eqb e EUnicode && err_eqb c EValue).
(* does `except tuple:` catch e *)
Definition catches (tuple : list err) (e : err) : bool := existsb (err_isa e) tuple.

(* ---- UdpFace.PacketHandler.datagram_received ------------------------------------------------------ *)
(* one datagram = at most one callback, with the datagram as it is.  [caught] = the except tuple of the
   try around parse_tl_num ([] = no try: before commit 5f0a2b3); an exception that is not caught leaves
   the protocol callback and reaches the event loop's exception handler. *)
Definition datagram_received (caught : list err) (data : bytes) : res (option pkt) :=
  match tl_dec data with
  | Ok (typ, _) => Ok (Some (typ, data))
  | Err e => if catches caught e then Ok None else Err e
  end.
