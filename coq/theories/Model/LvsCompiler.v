(* Light VerSec, layer 2: light_versec/compiler.py, pass by pass, as fixed on branch fix/LVS
   (constraints resolved after all rule names are numbered; every inlined copy of a rule gets
   fresh temporary tag numbers; temporary numbers are not part of the merging key).
   Python mutates Pattern.id strings in place ("x" -> "3", "_" -> "-2", a constrained temporary
   -> "-1 -2"); the model uses a second, numbered AST instead.  Definitions only. *)
From NDN Require Import Base.Prelude Base.Text Model.TlvVar Model.Name Model.LvsAst Model.LvsChecker.
Local Open Scope N_scope.

(* ---- numbered AST ------------------------------------------------------------------------ *)
Inductive ncomp := NLit (c : bytes) | NPat (t : Z) | NRef (r : ident).    (* t < 0: temporary *)
Inductive narg := NALit (c : bytes) | NAPat (t : N).
Inductive nopt := NOLit (c : bytes) | NOPat (t : N) | NOFn (f : ident) (args : list narg).
Record ncons := { nc_pat : list Z; nc_opts : list nopt }.      (* pat: the ids of "-1 -2" *)
Record nrule := { nr_id : ident; nr_name : list ncomp; nr_cons : list (list ncons); nr_sign : list ident }.

Definition str_leb (a b : str) : bool := match bytes_cmp a b with Gt => false | _ => true end.
Definition always_sortable {K} (_ : list K) : bool := true.

Fixpoint map_acc {S A B} (f : S -> A -> S * B) (s : S) (l : list A) : S * list B :=
  match l with
  | [] => (s, [])
  | x :: r => let '(s1, y) := f s x in let '(s2, ys) := map_acc f s1 r in (s2, y :: ys)
  end.

(* ---- _sort_rule_references ----------------------------------------------------------------- *)
Definition set_rule_id (r : rule) (i : ident) : rule :=
  {| r_id := i; r_name := r_name r; r_cons := r_cons r; r_sign := r_sign r |}.

(* rule.id.id += f'#{temp_rule_number}' for temporary rules, in file order *)
Fixpoint rename_temp_rules (k : N) (rs : list rule) : list rule :=
  match rs with
  | [] => []
  | r :: t =>
      if is_temp_rule (r_id r) then set_rule_id r (r_id r ++ ch_hash :: dec_print k) :: rename_temp_rules (k + 1) t
      else r :: rename_temp_rules k t
  end.

Definition refs_of (r : rule) : list ident :=
  flat_map (fun c => match c with CRef i => [i] | _ => [] end) (r_name r).

Definition adj_add (adj : list (ident * list ident)) (k v : ident) : list (ident * list ident) :=
  match al_get ident_eqb adj k with
  | Some l => al_set ident_eqb adj k (l ++ [v])
  | None => adj
  end.

Definition sort_rule_references (rules0 : list rule) : res (list rule * list ident) :=
  let rules := rename_temp_rules 1 rules0 in
  let ids := dedup ident_eqb (map r_id rules) in
  do adj <- rfold (fun adj r =>
                     rfold (fun adj c =>
                              if negb (existsb (ident_eqb c) ids) then Err ESemantic     (* non-existing rule *)
                              else if is_temp_rule c then Err ESemantic                  (* temporary rule *)
                              else Ok (adj_add adj (r_id r) c)) (refs_of r) adj)
                  rules (map (fun i => (i, [])) ids) ;;
  do order <- top_order ident_eqb str_leb always_sortable ids adj ;;
  Ok (flat_map (fun rid => filter (fun r => ident_eqb (r_id r) rid) rules) order, order).

(* ---- _gen_pattern_numbers ------------------------------------------------------------------ *)
Record numst := {
  ns_named : list (ident * N);       (* named_pats, insertion order *)
  ns_next_named : N;
  ns_next_temp : N                   (* next temporary id is -(ns_next_temp) *)
}.
Definition temp_pats := list (ident * list Z).

Definition number_comp (s : numst * temp_pats) (c : comp) : (numst * temp_pats) * ncomp :=
  let '(st, tp) := s in
  match c with
  | CLit v => (s, NLit v)
  | CRef r => (s, NRef r)
  | CPat pid =>
      if is_temp_pat pid then
        let t := (- Z.of_N (ns_next_temp st))%Z in
        let st' := {| ns_named := ns_named st; ns_next_named := ns_next_named st; ns_next_temp := ns_next_temp st + 1 |} in
        let tp' := match al_get ident_eqb tp pid with
                   | Some l => al_set ident_eqb tp pid (l ++ [t])
                   | None => tp ++ [(pid, [t])]
                   end in
        ((st', tp'), NPat t)
      else
        match al_get ident_eqb (ns_named st) pid with
        | Some n => (s, NPat (Z.of_N n))
        | None =>
            let n := ns_next_named st in
            (({| ns_named := ns_named st ++ [(pid, n)]; ns_next_named := n + 1; ns_next_temp := ns_next_temp st |}, tp),
             NPat (Z.of_N n))
        end
  end.

(* first pass over one rule: its numbered name and its temp_pats *)
Definition number_rule_name (st : numst) (r : rule) : numst * (list ncomp * temp_pats) :=
  let '((st', tp), nm) := map_acc number_comp (st, []) (r_name r) in (st', (nm, tp)).

Definition resolve_named (named : list (ident * N)) (p : ident) : res N :=
  match al_get ident_eqb named p with
  | Some n => Ok n
  | None => Err ESemantic                                   (* KeyError -> "never occurs before" *)
  end.

Definition resolve_arg (named : list (ident * N)) (a : arg) : res narg :=
  match a with
  | ALit c => Ok (NALit c)
  | APat p => if is_temp_pat p then Err ESemantic else do n <- resolve_named named p ;; Ok (NAPat n)
  end.

Definition resolve_opt (named : list (ident * N)) (o : opt) : res nopt :=
  match o with
  | OLit c => Ok (NOLit c)
  | OPat p => if is_temp_pat p then Err ESemantic else do n <- resolve_named named p ;; Ok (NOPat n)
  | OFn f args => do l <- rmap (resolve_arg named) args ;; Ok (NOFn f l)
  end.

Definition resolve_cons (named : list (ident * N)) (tp : temp_pats) (tc : tagcons) : res ncons :=
  do pat <- (if is_temp_pat (tc_pat tc) then
               match al_get ident_eqb tp (tc_pat tc) with
               | Some l => Ok l
               | None => Err ESemantic
               end
             else do n <- resolve_named named (tc_pat tc) ;; Ok [Z.of_N n]) ;;
  do opts <- rmap (resolve_opt named) (tc_opts tc) ;;
  Ok {| nc_pat := pat; nc_opts := opts |}.

Definition gen_pattern_numbers (rules : list rule) : res (list nrule * numst) :=
  let '(st, names) := map_acc number_rule_name
                        {| ns_named := []; ns_next_named := 1; ns_next_temp := 1 |} rules in
  do nrules <- rmap (fun rn =>
                       let '(r, (nm, tp)) := rn in
                       do rcons <- rmap (rmap (resolve_cons (ns_named st) tp)) (r_cons r) ;;
                       Ok {| nr_id := r_id r; nr_name := nm; nr_cons := rcons; nr_sign := r_sign r |})
                    (combine rules names) ;;
  Ok (nrules, st).

(* ---- _replicate_rules ----------------------------------------------------------------------- *)
Record chain := { ch_id : ident; ch_name : list ncomp; ch_cons : list ncons; ch_sign : list ident }.

(* _rename_temp_tags: mapping and the next temporary counter are threaded *)
Definition fresh (s : list (Z * Z) * N) (t : Z) : (list (Z * Z) * N) * Z :=
  match al_get Z.eqb (fst s) t with
  | Some t' => (s, t')
  | None => let t' := (- Z.of_N (snd s))%Z in ((fst s ++ [(t, t')], snd s + 1), t')
  end.

Definition rename_comp (s : list (Z * Z) * N) (c : ncomp) : (list (Z * Z) * N) * ncomp :=
  match c with
  | NPat t => if (t <? 0)%Z then let '(s', t') := fresh s t in (s', NPat t') else (s, c)
  | _ => (s, c)
  end.

Definition rename_cons (s : list (Z * Z) * N) (c : ncons) : (list (Z * Z) * N) * ncons :=
  match nc_pat c with
  | t :: _ => if (t <? 0)%Z then
                let '(s', l) := map_acc fresh s (nc_pat c) in (s', {| nc_pat := l; nc_opts := nc_opts c |})
              else (s, c)
  | [] => (s, c)
  end.

Definition rename_temp_tags (k : N) (rc : chain) : N * (list ncomp * list ncons) :=
  let '(s1, nm) := map_acc rename_comp ([], k) (ch_name rc) in
  let '(s2, cs) := map_acc rename_cons s1 (ch_cons rc) in
  (snd s2, (nm, cs)).

Definition init_chains (r : nrule) : list chain :=
  let sc := isort str_leb (nr_sign r) in
  match nr_cons r with
  | [] => [{| ch_id := nr_id r; ch_name := []; ch_cons := []; ch_sign := sc |}]
  | css => map (fun cs => {| ch_id := nr_id r; ch_name := []; ch_cons := cs; ch_sign := sc |}) css
  end.

Definition inline_ref (rid : ident) (cur : list chain) (k : N) (ref_chain : chain) : N * list chain :=
  map_acc (fun k ch =>
             let '(k', (rn, rcs)) := rename_temp_tags k ref_chain in
             (k', {| ch_id := rid; ch_name := ch_name ch ++ rn; ch_cons := ch_cons ch ++ rcs; ch_sign := ch_sign ch |}))
          k cur.

Definition replicate_comp (rep : list (ident * list chain)) (rid : ident) (s : list chain * N) (c : ncomp)
  : res (list chain * N) :=
  match c with
  | NRef r =>
      match al_get ident_eqb rep r with
      | None => Err EKey
      | Some refs =>
          let '(k', groups) := map_acc (inline_ref rid (fst s)) (snd s) refs in
          Ok (concat groups, k')
      end
  | _ => Ok (map (fun ch => {| ch_id := ch_id ch; ch_name := ch_name ch ++ [c]; ch_cons := ch_cons ch; ch_sign := ch_sign ch |}) (fst s),
             snd s)
  end.

Definition replicate_rules (nrules : list nrule) (k0 : N) : res (list (ident * list chain)) :=
  do r <- rfold (fun (s : list (ident * list chain) * N) nr =>
                   do cs <- rfold (replicate_comp (fst s) (nr_id nr)) (nr_name nr) (init_chains nr, snd s) ;;
                   let rep' := match al_get ident_eqb (fst s) (nr_id nr) with
                               | Some old => al_set ident_eqb (fst s) (nr_id nr) (old ++ fst cs)
                               | None => fst s ++ [(nr_id nr, fst cs)]
                               end in
                   Ok (rep', snd cs)) nrules ([], k0) ;;
  Ok (fst r).

(* ---- RuleChain.pattern_movement --------------------------------------------------------------- *)
Definition dec_z (z : Z) : str :=
  if (z <? 0)%Z then ch_minus :: dec_print (Z.to_N (- z)) else dec_print (Z.to_N z).

Definition enc_arg (a : narg) : ufarg * str :=
  match a with
  | NALit c => ({| ua_value := Some c; ua_tag := None |}, [118; 61] ++ hex_print c)          (* 'v=' *)
  | NAPat t => ({| ua_value := None; ua_tag := Some t |}, [116; 61] ++ dec_print t)          (* 't=' *)
  end.

Definition enc_opt (o : nopt) : copt * str :=
  match o with
  | NOLit c => ({| co_value := Some c; co_tag := None; co_fn := None |}, [118; 61] ++ hex_print c ++ [44])
  | NOPat t => ({| co_value := None; co_tag := Some t; co_fn := None |}, [116; 61] ++ dec_print t ++ [44])
  | NOFn f args =>
      let l := map enc_arg args in
      ({| co_value := None; co_tag := None; co_fn := Some {| uf_id := Some f; uf_args := map fst l |} |},
       f ++ [40] ++ concat (map snd l) ++ [41; 44])
  end.

Definition enc_cons (c : ncons) : pcons * str :=
  let l := map enc_opt (nc_opts c) in (map fst l, [123] ++ concat (map snd l) ++ [125]).

Definition zmem (t : Z) (l : list Z) : bool := existsb (Z.eqb t) l.

Definition pattern_movement (rc : chain) (tag : Z) (prev : list Z) : Z * list pcons * str :=
  if (0 <=? tag)%Z && zmem tag prev then (tag, [], dec_z tag ++ [58]) else       (* only a named tag can have been matched before *)
  let l := map enc_cons (filter (fun c => zmem tag (nc_pat c)) (ch_cons rc)) in
  (tag, map fst l, (if (0 <=? tag)%Z then dec_z tag else [ch_minus]) ++ [58] ++ concat (map snd l)).

(* ---- _generate_node ---------------------------------------------------------------------------- *)
Record gnode := {
  g_parent : option N; g_rule : list ident; g_vedges : list vedge; g_pedges : list pedge;
  g_sign : list ident                          (* rule names, replaced by _fix_signing_references *)
}.
Record gst := { gs_pool : list gnode; gs_rids : list (ident * list N); gs_tti : N }.

Definition rids_add (r : list (ident * list N)) (k : ident) (v : N) : list (ident * list N) :=
  match al_get ident_eqb r k with
  | Some l => al_set ident_eqb r k (l ++ [v])
  | None => r ++ [(k, [v])]
  end.

Fixpoint set_nth {A} (l : list A) (i : nat) (x : A) : list A :=
  match l, i with
  | [], _ => []
  | _ :: r, O => x :: r
  | y :: r, S j => y :: set_nth r j x
  end.

Definition bytes_leb (a b : bytes) : bool := match bytes_cmp a b with Gt => false | _ => true end.
Definition lit_at (rc : chain) (depth : nat) : option bytes :=
  match nth_error (ch_name rc) depth with Some (NLit v) => Some v | _ => None end.
Definition pat_at (rc : chain) (depth : nat) : option Z :=
  match nth_error (ch_name rc) depth with Some (NPat t) => Some t | _ => None end.

Definition empty_gnode : gnode := {| g_parent := None; g_rule := []; g_vedges := []; g_pedges := []; g_sign := [] |}.

Fixpoint gen_node (fuel : nat) (depth : nat) (context : list chain) (parent : option N) (prev : list Z) (st : gst)
  : res (N * gst) :=
  match fuel with
  | O => Err EFuel
  | S f =>
      let idn := length (gs_pool st) in
      let id := N.of_nat idn in
      let ended := filter (fun rc => (depth =? length (ch_name rc))%nat) context in
      let ctx1 := filter (fun rc => negb (depth =? length (ch_name rc))%nat) context in
      let st1 := {| gs_pool := gs_pool st ++ [empty_gnode];
                    gs_rids := fold_left (fun r rc => rids_add r (ch_id rc) id) ended (gs_rids st);
                    gs_tti := gs_tti st |} in
      (* value movements *)
      let v_list := isort bytes_leb (dedup bytes_eqb (flat_map (fun rc => match lit_at rc depth with Some v => [v] | None => [] end) ctx1)) in
      do rv <- rfold (fun (s : list vedge * gst) v =>
                        let nc := filter (fun rc => match lit_at rc depth with Some w => bytes_eqb w v | None => false end) ctx1 in
                        do r <- gen_node f (S depth) nc (Some id) prev (snd s) ;;
                        Ok (fst s ++ [{| ve_dest := Some (fst r); ve_value := Some v |}], snd r))
                     v_list ([], st1) ;;
      (* pattern movements *)
      let p_moves := flat_map (fun rc => match pat_at rc depth with
                                         | Some t => [(pattern_movement rc t prev, rc)]
                                         | None => [] end) ctx1 in
      let strs := isort str_leb (dedup str_eqb (map (fun pm => snd (fst pm)) p_moves)) in
      do rp <- rfold (fun (s : list pedge * gst) key =>
                        let grp := filter (fun pm => str_eqb (snd (fst pm)) key) p_moves in
                        match grp with
                        | [] => Err (EOther 9)                                 (* assert len(new_context) > 0 *)
                        | pm :: _ =>
                            let tag := fst (fst (fst pm)) in
                            let pcs := snd (fst (fst pm)) in
                            let '(etag, tti') := if (0 <=? tag)%Z then (Z.to_N tag, gs_tti (snd s))
                                                 else (gs_tti (snd s) + 1, gs_tti (snd s) + 1) in
                            let st' := {| gs_pool := gs_pool (snd s); gs_rids := gs_rids (snd s); gs_tti := tti' |} in
                            do r <- gen_node f (S depth) (map snd grp) (Some id) (tag :: prev) st' ;;
                            Ok (fst s ++ [{| pe_dest := Some (fst r); pe_tag := Some etag; pe_cons := pcs |}], snd r)
                        end)
                     strs ([], snd rv) ;;
      let nd := {| g_parent := parent; g_rule := map ch_id ended; g_vedges := fst rv; g_pedges := fst rp;
                   g_sign := flat_map ch_sign ended |} in
      let stf := snd rp in
      Ok (id, {| gs_pool := set_nth (gs_pool stf) idn nd; gs_rids := gs_rids stf; gs_tti := gs_tti stf |})
  end.

(* ---- the same builder, structured for proofs: a recursive [gen_tree] producing an inductive tree,
   followed by a preorder [flatten] that allocates node ids and temporary edge tags exactly as the
   node pool of _generate_node does (DESIGN section 6: same observable output, checked on every run
   against the implementation; [compile_pool] below keeps the pool version for cross-checking) ---- *)
Inductive ptree := PNode (ended : list chain) (vs : vlist) (ps : plist)     (* ended: the chains that end at this node *)
with vlist := VNil | VCons (v : bytes) (t : ptree) (r : vlist)
with plist := PNil | PCons (tag : Z) (cons : list pcons) (t : ptree) (r : plist).

Fixpoint vlist_of (l : list (bytes * ptree)) : vlist :=
  match l with [] => VNil | (v, t) :: r => VCons v t (vlist_of r) end.
Fixpoint plist_of (l : list (Z * list pcons * ptree)) : plist :=
  match l with [] => PNil | (tag, cs, t) :: r => PCons tag cs t (plist_of r) end.

Definition ended_at (depth : nat) (context : list chain) : list chain :=
  filter (fun rc => (depth =? length (ch_name rc))%nat) context.
Definition going_on (depth : nat) (context : list chain) : list chain :=
  filter (fun rc => negb (depth =? length (ch_name rc))%nat) context.
Definition v_moves (depth : nat) (ctx1 : list chain) : list bytes :=
  isort bytes_leb (dedup bytes_eqb (flat_map (fun rc => match lit_at rc depth with Some v => [v] | None => [] end) ctx1)).
Definition v_group (depth : nat) (ctx1 : list chain) (v : bytes) : list chain :=
  filter (fun rc => match lit_at rc depth with Some w => bytes_eqb w v | None => false end) ctx1.
Definition p_moves (depth : nat) (prev : list Z) (ctx1 : list chain) : list (Z * list pcons * str * chain) :=
  flat_map (fun rc => match pat_at rc depth with
                      | Some t => [(pattern_movement rc t prev, rc)]
                      | None => [] end) ctx1.
Definition p_keys (pms : list (Z * list pcons * str * chain)) : list str :=
  isort str_leb (dedup str_eqb (map (fun pm => snd (fst pm)) pms)).
Definition p_group (pms : list (Z * list pcons * str * chain)) (key : str) : list (Z * list pcons * str * chain) :=
  filter (fun pm => str_eqb (snd (fst pm)) key) pms.

Fixpoint gen_tree (fuel : nat) (depth : nat) (context : list chain) (prev : list Z) : res ptree :=
  match fuel with
  | O => Err EFuel
  | S f =>
      let ended := ended_at depth context in
      let ctx1 := going_on depth context in
      do vs <- rmap (fun v => do t <- gen_tree f (S depth) (v_group depth ctx1 v) prev ;; Ok (v, t)) (v_moves depth ctx1) ;;
      let pms := p_moves depth prev ctx1 in
      do ps <- rmap (fun key => match p_group pms key with
                                | [] => Err (EOther 9)
                                | (pm :: _) as grp =>
                                    let tag := fst (fst (fst pm)) in
                                    do t <- gen_tree f (S depth) (map snd grp) (tag :: prev) ;;
                                    Ok (tag, snd (fst (fst pm)), t)
                                end) (p_keys pms) ;;
      Ok (PNode ended (vlist_of vs) (plist_of ps))
  end.

(* preorder numbering: this node gets [id], its subtrees the ids after it; a temporary edge gets the
   next temporary tag before its subtree is numbered *)
Fixpoint flatten (t : ptree) (parent : option N) (id : nat) (tti : N) {struct t} : list gnode * N :=
  match t with
  | PNode ended vs ps =>
      let '(ves, sub1, nid1, tti1) := flatten_vs vs id (S id) tti in
      let '(pes, sub2, nid2, tti2) := flatten_ps ps id nid1 tti1 in
      ({| g_parent := parent; g_rule := map ch_id ended; g_vedges := ves; g_pedges := pes;
          g_sign := flat_map ch_sign ended |} :: sub1 ++ sub2, tti2)
  end
with flatten_vs (l : vlist) (src : nat) (nid : nat) (tti : N) {struct l} : list vedge * list gnode * nat * N :=
  match l with
  | VNil => ([], [], nid, tti)
  | VCons v c r =>
      let '(sub, tti') := flatten c (Some (N.of_nat src)) nid tti in
      let '(es, subs, nid', tti'') := flatten_vs r src (nid + length sub) tti' in
      ({| ve_dest := Some (N.of_nat nid); ve_value := Some v |} :: es, sub ++ subs, nid', tti'')
  end
with flatten_ps (l : plist) (src : nat) (nid : nat) (tti : N) {struct l} : list pedge * list gnode * nat * N :=
  match l with
  | PNil => ([], [], nid, tti)
  | PCons tag cs c r =>
      let '(etag, tti0) := if (0 <=? tag)%Z then (Z.to_N tag, tti) else (tti + 1, tti + 1) in
      let '(sub, tti') := flatten c (Some (N.of_nat src)) nid tti0 in
      let '(es, subs, nid', tti'') := flatten_ps r src (nid + length sub) tti' in
      ({| pe_dest := Some (N.of_nat nid); pe_tag := Some etag; pe_cons := cs |} :: es, sub ++ subs, nid', tti'')
  end.

(* rule_node_ids: for every node in id order, for every rule name ending there *)
Definition rids_of (pool : list gnode) : list (ident * list N) :=
  snd (fold_left (fun (s : N * list (ident * list N)) g =>
                    (fst s + 1, fold_left (fun r rid => rids_add r rid (fst s)) (g_rule g) (snd s)))
                 pool (0, [])).

(* ---- _fix_signing_references --------------------------------------------------------------------- *)
Definition fix_signing (rids : list (ident * list N)) (i : nat) (g : gnode) : res node :=
  do sc <- rfold (fun acc rid => match al_get ident_eqb rids rid with
                                 | Some l => Ok (acc ++ l)
                                 | None => Err ESemantic                   (* Signed by a non-existing key *)
                                 end) (g_sign g) [] ;;
  Ok {| n_id := Some (N.of_nat i); n_parent := g_parent g; n_rule := g_rule g; n_vedges := g_vedges g;
        n_pedges := g_pedges g; n_sign := isort N.leb sc |}.

Fixpoint fix_all (rids : list (ident * list N)) (i : nat) (l : list gnode) : res (list node) :=
  match l with
  | [] => Ok []
  | g :: r => do n <- fix_signing rids i g ;; do ns <- fix_all rids (S i) r ;; Ok (n :: ns)
  end.

(* ---- compile ----------------------------------------------------------------------------------------- *)
Definition insert_by_key {V} (x : ident * V) (l : list (ident * V)) : list (ident * V) :=
  (fix ins l := match l with
                | [] => [x]
                | y :: r => if str_leb (fst x) (fst y) then x :: l else y :: ins r
                end) l.
Definition sort_by_key {V} (l : list (ident * V)) : list (ident * V) := fold_right insert_by_key [] l.

Definition max_chain_len (l : list chain) : nat := fold_left (fun a c => Nat.max a (length (ch_name c))) l O.

Definition chains_of (rules0 : lvsfile) : res (list chain * numst) :=
  do sr <- sort_rule_references rules0 ;;
  do nr <- gen_pattern_numbers (fst sr) ;;
  let '(nrules, st) := nr in
  do rep <- replicate_rules nrules (ns_next_temp st) ;;
  Ok (concat (map snd (sort_by_key rep)), st).

Definition model_of (st : numst) (pool : list gnode) (rids : list (ident * list N)) (start : N) : res lvsmodel :=
  do nodes <- fix_all rids 0 pool ;;
  Ok {| m_version := Some LVS_VERSION; m_start := Some start; m_npc := Some (N.of_nat (length (ns_named st)));
        m_nodes := nodes;
        m_symbols := map (fun p => {| ts_tag := Some (snd p); ts_ident := Some (fst p) |}) (ns_named st) |}.

Definition compile (rules0 : lvsfile) : res lvsmodel :=
  do cs <- chains_of rules0 ;;
  let '(chains, st) := cs in
  do t <- gen_tree (S (max_chain_len chains)) 0 chains [] ;;
  let pool := fst (flatten t None O (N.of_nat (length (ns_named st)))) in
  model_of st pool (rids_of pool) 0.

(* the node-pool formulation of _generate_node (same output; cross-checked by the harness) *)
Definition compile_pool (rules0 : lvsfile) : res lvsmodel :=
  do cs <- chains_of rules0 ;;
  let '(chains, st) := cs in
  do g <- gen_node (S (max_chain_len chains)) 0 chains None []
            {| gs_pool := []; gs_rids := []; gs_tti := N.of_nat (length (ns_named st)) |} ;;
  model_of st (gs_pool (snd g)) (gs_rids (snd g)) (fst g).
