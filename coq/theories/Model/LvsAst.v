(* Light VerSec, layer 0: data.
   (a) the AST produced by light_versec/parser.py (dataclasses ComponentValue / Pattern / RuleId /
       FnCall / TagConstraint / Rule / LvsFile);
   (b) the binary model of light_versec/binary.py (LvsModel, Node, ValueEdge, PatternEdge,
       PatternConstraint, ConstraintOption, UserFnCall, UserFnArg, TagSymbol).  Every TLV field
       that can be absent after parsing is an [option]; TLV bytes themselves are not modelled
       (the codec round trip is property C08).
   Definitions only. *)
From NDN Require Import Base.Prelude Base.Text.
Local Open Scope N_scope.

(* identifiers are kept exactly as the lexer delivers them: rule ids include the leading '#',
   function ids the leading '$' *)
Definition ident := str.
Definition ident_eqb : ident -> ident -> bool := list_eqb N.eqb.

Definition ch_hash : N := 35.        (* '#' *)
Definition ch_us : N := 95.          (* '_' *)
Definition ch_minus : N := 45.       (* '-' *)

(* pid[0] == '_' *)
Definition is_temp_pat (p : ident) : bool :=
  match p with c :: _ => c =? ch_us | [] => false end.
(* rule.id.id[1] == '_' *)
Definition is_temp_rule (r : ident) : bool :=
  match r with _ :: c :: _ => c =? ch_us | _ => false end.

(* ---- (a) parser AST --------------------------------------------------------------------- *)
Inductive comp := CLit (c : bytes) | CPat (p : ident) | CRef (r : ident).
Inductive arg := ALit (c : bytes) | APat (p : ident).
Inductive opt := OLit (c : bytes) | OPat (p : ident) | OFn (f : ident) (args : list arg).
Record tagcons := { tc_pat : ident; tc_opts : list opt }.
Record rule := {
  r_id : ident;
  r_name : list comp;
  r_cons : list (list tagcons);     (* disjunction of constraint sets *)
  r_sign : list ident               (* any of these rules may sign *)
}.
Definition lvsfile := list rule.

(* ---- (b) binary model ------------------------------------------------------------------- *)
Record ufarg := { ua_value : option bytes; ua_tag : option N }.
Record ufcall := { uf_id : option ident; uf_args : list ufarg }.
Record copt := { co_value : option bytes; co_tag : option N; co_fn : option ufcall }.
Definition pcons := list copt.                       (* PatternConstraint.options *)
Record pedge := { pe_dest : option N; pe_tag : option N; pe_cons : list pcons }.
Record vedge := { ve_dest : option N; ve_value : option bytes }.
Record node := {
  n_id : option N;
  n_parent : option N;
  n_rule : list ident;
  n_vedges : list vedge;
  n_pedges : list pedge;
  n_sign : list N
}.
Record tagsym := { ts_tag : option N; ts_ident : option ident }.
Record lvsmodel := {
  m_version : option N;
  m_start : option N;
  m_npc : option N;                  (* named_pattern_cnt *)
  m_nodes : list node;
  m_symbols : list tagsym
}.

(* self.model.nodes[i] for an id that may be attacker chosen: compare before converting *)
Definition get_node (m : lvsmodel) (i : N) : option node :=
  if i <? N.of_nat (length (m_nodes m)) then nth_error (m_nodes m) (N.to_nat i) else None.

(* module specific exception classes *)
Definition ELvsModel : err := EOther 1.     (* checker.LvsModelError *)
Definition ESemantic : err := EOther 2.     (* compiler.SemanticError *)
