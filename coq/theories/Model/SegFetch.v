(* Model of app_support/segment_fetcher.py (the async generator [segment_fetcher] and its inner
   [retry]) as a function of a producer oracle.

   * name components are their TLV bytes (Model/Name.v): [Component.get_type], [Component.to_number],
     [Component.from_segment] are the C09 model functions, so non-canonical components, the byte-wise
     FinalBlockId comparison and every Python exception of those helpers are reproduced literally;
   * [app.express_interest(name, validator=…, can_be_prefix=…, must_be_fresh=…, lifetime=…)] followed by
     [await] is one question to the oracle: the oracle says what the n-th Interest with these parameters
     is answered with (Data, or an exception raised by the awaited coroutine);
   * the result is the ordered trace of effects (Interest expressed + its outcome, content yielded)
     and how the generator ended.
   Faithful, branch by branch; definitions only. *)
From NDN Require Import Base.Prelude Model.TlvVar Model.Name.
Local Open Scope N_scope.

Definition TYPE_SEGMENT : N := 50.
(* keyword defaults of segment_fetcher (tied by Proofs/ConstsSegFetchAgree.v) *)
Definition DEFAULT_TIMEOUT : N := 4000.
Definition DEFAULT_RETRY_TIMES : nat := 3.
Definition DEFAULT_MUST_BE_FRESH : bool := true.

(* exceptions that can leave the generator *)
Inductive exc :=
| XTimeout            (* ndn.types.InterestTimeout *)
| XNack               (* ndn.types.InterestNack *)
| XValFail            (* ndn.types.ValidationFailure *)
| XOther (n : N)      (* anything else raised by express_interest / the coroutine (InterestCanceled, NetworkError, …) *)
| XPy (e : err).      (* raised by the fetcher's own code: IndexError on an empty name, struct.error, … *)

(* what one express_interest + await produces: (name, meta.final_block_id, content) or an exception *)
Inductive response :=
| RData (nm : name) (content : bytes) (fbid : option bytes)
| RExc (x : exc).

(* the keyword arguments the fetcher passes on every call (validator is passed through unchanged and
   is checked directly by the harness) *)
Record request := mkReq { rq_name : name; rq_cbp : bool; rq_mbf : bool; rq_lifetime : N }.

Definition req_eqb (a b : request) : bool :=
  name_eqb (rq_name a) (rq_name b) && Bool.eqb (rq_cbp a) (rq_cbp b) && Bool.eqb (rq_mbf a) (rq_mbf b)
  && (rq_lifetime a =? rq_lifetime b).

Record config := mkCfg { retry_times : nat; lifetime : N; must_be_fresh : bool }.

(* [o rq n]: the outcome of the (n+1)-th Interest with parameters [rq] from now on *)
Definition oracle := request -> nat -> response.
Definition shift (o : oracle) (rq : request) : oracle :=
  fun r n => if req_eqb r rq then o r (S n) else o r n.

Inductive event :=
| EvAsk (rq : request) (r : response)    (* Interest expressed and awaited, with its outcome *)
| EvYield (content : bytes).             (* content handed to the consumer *)

Inductive ending := Completed | Raised (x : exc) | OutOfFuel.

(* retry(first): [budget] = retry_times - trial_times.  The Python raises when
   trial_times >= retry_times after incrementing, i.e. at least one Interest is always sent and a
   timeout is re-raised as soon as the remaining budget is <= 1. *)
Fixpoint retry (budget : nat) (o : oracle) (rq : request)
  : oracle * list event * (exc + (name * bytes * option bytes)) :=
  let r := o rq O in
  let o' := shift o rq in
  match r with
  | RData nm c fb => (o', [EvAsk rq r], inr (nm, c, fb))
  | RExc XTimeout =>
      match budget with
      | S (S _ as b') => let '(o2, ev, res) := retry b' o' rq in (o2, EvAsk rq r :: ev, res)
      | _ => (o', [EvAsk rq r], inl XTimeout)
      end
  | RExc x => (o', [EvAsk rq r], inl x)
  end.

Definition mk_req (cfg : config) (nm : name) (first : bool) : request :=
  mkReq nm first (must_be_fresh cfg) (lifetime cfg).

(* name[-1] *)
Definition last_comp (nm : name) : res bytes :=
  match rev nm with [] => Err EIndex | c :: _ => Ok c end.
(* name[-1] = c *)
Definition set_last (nm : name) (c : bytes) : res name :=
  match nm with [] => Err EIndex | _ => Ok (removelast nm ++ [c]) end.
(* Component.from_segment *)
Definition comp_from_segment (n : N) : res bytes := comp_from_number (Z.of_N n) TYPE_SEGMENT.
(* meta.final_block_id == name[-1] : bytes equality, None is never equal *)
Definition fb_eq (fb : option bytes) (c : bytes) : bool :=
  match fb with Some b => bytes_eqb b c | None => false end.

Definition after (ev : list event) (r : list event * ending) : list event * ending :=
  (ev ++ fst r, snd r).

(* the "Following Interests" loop; one unit of fuel per segment *)
Fixpoint seg_loop (fuel : nat) (cfg : config) (o : oracle) (nm : name) (seg_no : N) : list event * ending :=
  match fuel with
  | O => ([], OutOfFuel)
  | S f =>
      match comp_from_segment seg_no with
      | Err e => ([], Raised (XPy e))
      | Ok c =>
      match set_last nm c with
      | Err e => ([], Raised (XPy e))
      | Ok nm1 =>
          let '(o1, ev, r) := retry (retry_times cfg) o (mk_req cfg nm1 false) in
          match r with
          | inl x => (ev, Raised x)
          | inr (nm2, content, fb) =>
              let ev1 := ev ++ [EvYield content] in
              match last_comp nm2 with
              | Err e => (ev1, Raised (XPy e))
              | Ok lc =>
                  if fb_eq fb lc then (ev1, Completed)
                  else after ev1 (seg_loop f cfg o1 nm2 (seg_no + 1))
              end
          end
      end end
  end.

(* segment_fetcher(app, name, timeout, retry_times, validator, must_be_fresh); [nm0] is the
   normalised name (Name.normalize is C09) *)
Definition segment_fetcher (fuel : nat) (cfg : config) (o : oracle) (nm0 : name) : list event * ending :=
  let '(o1, ev, r) := retry (retry_times cfg) o (mk_req cfg nm0 true) in
  match r with
  | inl x => (ev, Raised x)
  | inr (nm, content, fb) =>
      match last_comp nm with
      | Err e => (ev, Raised (XPy e))
      | Ok lc =>
      match comp_get_type lc with
      | Err e => (ev, Raised (XPy e))
      | Ok t =>
          if negb (t =? TYPE_SEGMENT) then (ev ++ [EvYield content], Completed)
          else
            match comp_to_number lc with
            | Err e => (ev, Raised (XPy e))
            | Ok num =>
                if num =? 0 then
                  let ev1 := ev ++ [EvYield content] in
                  if fb_eq fb lc then (ev1, Completed)
                  else after ev1 (seg_loop fuel cfg o1 nm 1)
                else after ev (seg_loop fuel cfg o1 nm 0)
            end
      end end
  end.

(* observations *)
Fixpoint yields (ev : list event) : list bytes :=
  match ev with
  | [] => []
  | EvYield c :: r => c :: yields r
  | EvAsk _ _ :: r => yields r
  end.
Fixpoint asked (ev : list event) : list request :=
  match ev with
  | [] => []
  | EvYield _ :: r => asked r
  | EvAsk q _ :: r => q :: asked r
  end.
Definition observe (r : list event * ending) : list bytes * ending := (yields (fst r), snd r).
