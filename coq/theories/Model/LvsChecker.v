(* Light VerSec, layer 1: light_versec/checker.py (and compiler.top_order, which the checker
   re-uses for the signing graph).  Faithful to the code as fixed on branch fix/LVS:
   - Checker._sanity_check: dfs with the parent compared in every case (root: no parent),
     missing start id -> LvsModelError, option shape tested with "is not None";
   - Checker._match: the iterative machine (cur, edge_index, edge_indices, context, matches);
     a pattern edge whose tag is already bound still evaluates the edge's constraints;
   - Checker._check_cons, Checker.match, Checker._context_to_name, Checker.check.
   Definitions only. *)
From NDN Require Import Base.Prelude Base.Text Model.TlvVar Model.Name Model.LvsAst.
Local Open Scope N_scope.

(* ---- small helpers ---------------------------------------------------------------------- *)
Fixpoint rfold {A B} (f : A -> B -> res A) (l : list B) (a : A) : res A :=
  match l with
  | [] => Ok a
  | x :: r => do a' <- f a x ;; rfold f r a'
  end.

Definition optN_eqb (a b : option N) : bool :=
  match a, b with
  | Some x, Some y => x =? y
  | None, None => true
  | _, _ => false
  end.

Definition nonempty {A} (o : option (list A)) : bool :=
  match o with Some (_ :: _) => true | _ => false end.
Definition is_some {A} (o : option A) : bool := match o with Some _ => true | None => false end.

Definition add_set {K} (eqb : K -> K -> bool) (l : list K) (k : K) : list K :=
  if existsb (eqb k) l then l else l ++ [k].

(* ---- compiler.top_order ------------------------------------------------------------------
   nodes: the (duplicate free) node set; graph: adjacency lists.  [sortable] stands for the
   TypeError list.sort() raises when the keys of one round cannot be compared (None among node
   ids); it is constantly true for strings. *)
Section TopOrder.
  Context {K : Type} (keqb : K -> K -> bool) (kleb : K -> K -> bool) (sortable : list K -> bool).

  Fixpoint insert_sorted (x : K) (l : list K) : list K :=
    match l with
    | [] => [x]
    | y :: r => if kleb x y then x :: l else y :: insert_sorted x r
    end.
  Definition isort (l : list K) : list K := fold_right insert_sorted [] l.

  Definition deg_add (deg : list (K * Z)) (k : K) (d : Z) : list (K * Z) :=
    match al_get keqb deg k with
    | Some v => al_set keqb deg k (v + d)%Z
    | None => deg
    end.

  Definition count_src (nodes : list K) (deg : list (K * Z)) (e : K * list K) : res (list (K * Z)) :=
    rfold (fun dg dst =>
             if existsb (keqb (fst e)) nodes && existsb (keqb dst) nodes then Ok (deg_add dg dst 1%Z)
             else Err ESemantic) (snd e) deg.

  Definition process_node (graph : list (K * list K)) (st : list (K * Z) * list K) (n : K)
    : res (list (K * Z) * list K) :=
    match al_get keqb graph n with
    | None => Err EKey
    | Some outs =>
        let deg' := fold_left (fun dg n2 => deg_add dg n2 (-1)%Z) outs (fst st) in
        Ok (al_set keqb deg' n (-1)%Z, n :: snd st)
    end.

  (* [acc] is the list [ret] of the Python code in reverse, i.e. already [reversed(ret)] *)
  Fixpoint top_rounds (fuel : nat) (nnodes : nat) (graph : list (K * list K)) (deg : list (K * Z)) (acc : list K)
    : res (list K) :=
    if (nnodes <=? length acc)%nat then Ok acc else
    match fuel with
    | O => Err EFuel
    | S f =>
        let cur_round := map fst (filter (fun nd => (snd nd =? 0)%Z) deg) in
        match cur_round with
        | [] => Err ESemantic                                   (* Loop detected *)
        | _ =>
            if negb (sortable cur_round) then Err EType else
            do st <- rfold (process_node graph) (isort cur_round) (deg, acc) ;;
            top_rounds f nnodes graph (fst st) (snd st)
        end
    end.

  Definition top_order (nodes : list K) (graph : list (K * list K)) : res (list K) :=
    do deg <- rfold (count_src nodes) graph (map (fun n => (n, 0%Z)) nodes) ;;
    top_rounds (S (length nodes)) (length nodes) graph deg [].
End TopOrder.

(* ---- constants (tied to binary.py by Generated/ConstsLvs.v, see Proofs/LvsConstsAgree.v) ---- *)
Definition LVS_MIN_VERSION : N := 69632.     (* 0x00011000 *)
Definition LVS_VERSION : N := 69632.

(* ---- Checker._sanity_check --------------------------------------------------------------- *)
Record sacc := {
  sa_fns : list ident;                        (* _model_fns *)
  sa_indeg : list N;                          (* in_deg_nodes *)
  sa_adj : list (option N * list N)           (* adj_lst, keyed by node.id *)
}.

Definition version_ok (v : option N) : bool :=
  match v with
  | None => false
  | Some x => (LVS_MIN_VERSION <=? x) && (x <=? LVS_VERSION)
  end.

(* [not not ...].count(True) == 1 on (value, tag, fn) *)
Definition opt_shape_ok (op : copt) : bool :=
  match is_some (co_value op), is_some (co_tag op), is_some (co_fn op) with
  | true, false, false | false, true, false | false, false, true => true
  | _, _, _ => false
  end.

Definition check_option (a : sacc) (op : copt) : res sacc :=
  if negb (opt_shape_ok op) then Err ELvsModel else
  match co_fn op with
  | None => Ok a
  | Some fn =>
      match uf_id fn with
      | Some (c :: s) => Ok {| sa_fns := add_set ident_eqb (sa_fns a) (c :: s); sa_indeg := sa_indeg a; sa_adj := sa_adj a |}
      | _ => Err ELvsModel                                      (* not op.fn.fn_id *)
      end
  end.

Definition adj_append (adj : list (option N * list N)) (k : option N) (v : N) : list (option N * list N) :=
  match al_get optN_eqb adj k with
  | Some l => al_set optN_eqb adj k (l ++ [v])
  | None => adj
  end.

Definition check_signer (nn : N) (cur : N) (a : sacc) (k : N) : res sacc :=
  if nn <=? k then Err ELvsModel else
  Ok {| sa_fns := sa_fns a; sa_indeg := add_set N.eqb (sa_indeg a) k; sa_adj := adj_append (sa_adj a) (Some cur) k |}.

Fixpoint dfs (fuel : nat) (m : lvsmodel) (cur : N) (par : option N) (a : sacc) : res sacc :=
  match fuel with
  | O => Err EFuel                              (* Python: RecursionError *)
  | S f =>
      match get_node m cur with
      | None => Err ELvsModel                                         (* Non-existing node id *)
      | Some nd =>
          if negb (optN_eqb (n_id nd) (Some cur)) then Err ELvsModel else      (* Malformed node id *)
          if negb (optN_eqb (n_parent nd) par) then Err ELvsModel else         (* wrong parent *)
          do a1 <- rfold (fun a ve =>
                            match ve_dest ve with
                            | Some d => if nonempty (ve_value ve) then dfs f m d (Some cur) a else Err ELvsModel
                            | None => Err ELvsModel
                            end) (n_vedges nd) a ;;
          do a2 <- rfold (fun a pe =>
                            match pe_dest pe, pe_tag pe with
                            | Some d, Some _ =>
                                do a' <- dfs f m d (Some cur) a ;;
                                rfold (fun a cons => rfold check_option cons a) (pe_cons pe) a'
                            | _, _ => Err ELvsModel
                            end) (n_pedges nd) a1 ;;
          rfold (check_signer (N.of_nat (length (m_nodes m))) cur) (n_sign nd) a2
      end
  end.

Definition optN_leb (a b : option N) : bool :=
  match a, b with
  | Some x, Some y => x <=? y
  | _, _ => true
  end.
(* sorting a round that contains None next to something else raises TypeError *)
Definition ids_sortable (l : list (option N)) : bool :=
  match l with
  | [] | [_] => true
  | _ => forallb is_some l
  end.

Fixpoint dedup {K} (eqb : K -> K -> bool) (l : list K) : list K :=
  match l with
  | [] => []
  | x :: r => if existsb (eqb x) r then dedup eqb r else x :: dedup eqb r
  end.

(* result: (model functions, trust roots) *)
Definition sanity_check (fuel : nat) (m : lvsmodel) : res (list ident * list N) :=
  if negb (version_ok (m_version m)) then Err ELvsModel else
  let ids := dedup optN_eqb (map n_id (m_nodes m)) in
  let a0 := {| sa_fns := []; sa_indeg := []; sa_adj := map (fun i => (i, [])) ids |} in
  match m_start m with
  | None => Err ELvsModel
  | Some s =>
      do a <- dfs fuel m s None a0 ;;
      do _ <- top_order optN_eqb optN_leb ids_sortable ids
                (map (fun e => (fst e, map Some (snd e))) (sa_adj a)) ;;
      Ok (sa_fns a,
          filter (fun n => match get_node m n with Some nd => match n_sign nd with [] => true | _ => false end | None => false end)
                 (sa_indeg a))
  end.

(* the recursion depth needed never exceeds the number of nodes (Proofs/LvsSanity.v) *)
Definition sanity_fuel (m : lvsmodel) : nat := S (length (m_nodes m)).

(* ---- matching ---------------------------------------------------------------------------- *)
Definition ctx := list (N * bytes).                 (* dict[int, BinaryStr] in insertion order *)
Definition ctx_get (c : ctx) (t : N) : option bytes := al_get N.eqb c t.

Definition obytes_eqb (a : bytes) (b : option bytes) : bool :=
  match b with Some x => bytes_eqb a x | None => false end.

Section Match.
  (* user functions supplied by the application: None = not in the dictionary *)
  Variable ufn : ident -> option (bytes -> list (option bytes) -> res bool).
  Variable m : lvsmodel.

  Definition fn_arg (c : ctx) (a : ufarg) : option bytes :=          (* context.get(arg.tag, arg.value) *)
    match ua_tag a with
    | Some t => match ctx_get c t with Some v => Some v | None => ua_value a end
    | None => ua_value a
    end.

  Definition opt_sat (value : bytes) (c : ctx) (op : copt) : res bool :=
    match co_value op with
    | Some v => Ok (bytes_eqb value v)
    | None =>
        match co_tag op with
        | Some t => Ok (obytes_eqb value (ctx_get c t))
        | None =>
            match co_fn op with
            | None => Err EAttr                                         (* op.fn is None *)
            | Some fn =>
                match uf_id fn with
                | None => Err ELvsModel
                | Some fid =>
                    match ufn fid with
                    | None => Err ELvsModel                             (* User function undefined *)
                    | Some g => g value (map (fn_arg c) (uf_args fn))
                    end
                end
            end
        end
    end.

  Fixpoint any_opt (value : bytes) (c : ctx) (ops : list copt) : res bool :=
    match ops with
    | [] => Ok false
    | op :: r => do b <- opt_sat value c op ;; if b then Ok true else any_opt value c r
    end.

  Fixpoint check_cons (value : bytes) (c : ctx) (cs : list pcons) : res bool :=
    match cs with
    | [] => Ok true
    | k :: r => do b <- any_opt value c k ;; if b then check_cons value c r else Ok false
    end.

  (* edge_index: None stands for -1.  Stacks have their top at the head. *)
  Record mstate := {
    ms_cur : option N;
    ms_ei : option nat;
    ms_eis : list nat;               (* edge_indices *)
    ms_ctx : ctx;
    ms_ms : list (option N)          (* matches: None stands for -1 *)
  }.

  Definition backtrack (nd : node) (st : mstate) : mstate :=
    let '(ei, eis) := match ms_eis st with e :: r => (Some e, r) | [] => (ms_ei st, []) end in
    let '(c, mt) := match ms_ms st with
                    | Some t :: r => (al_del N.eqb (ms_ctx st) t, r)
                    | None :: r => (ms_ctx st, r)
                    | [] => (ms_ctx st, [])
                    end in
    {| ms_cur := n_parent nd; ms_ei := ei; ms_eis := eis; ms_ctx := c; ms_ms := mt |}.

  Definition with_ei (st : mstate) (ei : option nat) : mstate :=
    {| ms_cur := ms_cur st; ms_ei := ei; ms_eis := ms_eis st; ms_ctx := ms_ctx st; ms_ms := ms_ms st |}.

  Definition npc_leb (t : N) : res bool :=
    match m_npc m with Some k => Ok (t <=? k) | None => Err EType end.

  (* one iteration of "while cur is not None"; the second component is the yielded pair *)
  Definition mstep (name : list bytes) (cur : N) (st : mstate) : res (mstate * option (N * ctx)) :=
    match get_node m cur with
    | None => Err EIndex
    | Some nd =>
        let depth := length (ms_eis st) in
        if (depth =? length name)%nat then Ok (backtrack nd st, Some (cur, ms_ctx st)) else
        match ms_ei st with
        | None =>
            match n_vedges nd with
            | [] => Ok (with_ei st (Some O), None)
            | _ =>
                match nth_error name depth with
                | None => Err EIndex
                | Some value =>
                    match find (fun ve => obytes_eqb value (ve_value ve)) (n_vedges nd) with
                    | Some ve => Ok ({| ms_cur := ve_dest ve; ms_ei := None; ms_eis := O :: ms_eis st;
                                        ms_ctx := ms_ctx st; ms_ms := None :: ms_ms st |}, None)
                    | None => Ok (with_ei st (Some O), None)
                    end
                end
            end
        | Some i =>
            match nth_error (n_pedges nd) i with
            | None => Ok (backtrack nd st, None)
            | Some pe =>
                match nth_error name depth with
                | None => Err EIndex
                | Some value =>
                    let skip := Ok (with_ei st (Some (S i)), None) in
                    let bound := match pe_tag pe with Some t => ctx_get (ms_ctx st) t | None => None end in
                    match bound with
                    | Some w =>
                        if negb (bytes_eqb value w) then skip else
                        do ok <- check_cons value (ms_ctx st) (pe_cons pe) ;;
                        if negb ok then skip else
                        Ok ({| ms_cur := pe_dest pe; ms_ei := None; ms_eis := S i :: ms_eis st;
                               ms_ctx := ms_ctx st; ms_ms := None :: ms_ms st |}, None)
                    | None =>
                        do ok <- check_cons value (ms_ctx st) (pe_cons pe) ;;
                        if negb ok then skip else
                        match pe_tag pe with
                        | None => Err EType                             (* None <= int *)
                        | Some t =>
                            do named <- npc_leb t ;;
                            if named then
                              Ok ({| ms_cur := pe_dest pe; ms_ei := None; ms_eis := S i :: ms_eis st;
                                     ms_ctx := al_set N.eqb (ms_ctx st) t value; ms_ms := Some t :: ms_ms st |}, None)
                            else
                              Ok ({| ms_cur := pe_dest pe; ms_ei := None; ms_eis := S i :: ms_eis st;
                                     ms_ctx := ms_ctx st; ms_ms := None :: ms_ms st |}, None)
                        end
                    end
                end
            end
        end
    end.

  (* the generator, consumed by [f]: inl = go on with a new accumulator, inr = the consumer returns *)
  Fixpoint mrun {A R} (fuel : nat) (name : list bytes) (st : mstate)
           (f : A -> N -> ctx -> res (A + R)) (a : A) : res (A + R) :=
    match ms_cur st with
    | None => Ok (inl a)
    | Some cur =>
        match fuel with
        | O => Err EFuel
        | S k =>
            do r <- mstep name cur st ;;
            match snd r with
            | None => mrun k name (fst r) f a
            | Some y =>
                do x <- f a (fst y) (snd y) ;;
                match x with
                | inl a' => mrun k name (fst r) f a'
                | inr v => Ok (inr v)
                end
            end
        end
    end.

  Definition mstart (c : ctx) : mstate :=
    {| ms_cur := m_start m; ms_ei := None; ms_eis := []; ms_ctx := c; ms_ms := [] |}.

  (* all (node id, context) pairs _match yields, in order *)
  Definition match_all (fuel : nat) (name : list bytes) (c : ctx) : res (list (N * ctx)) :=
    do r <- mrun (R := unit) fuel name (mstart c) (fun acc nid cx => Ok (inl ((nid, cx) :: acc))) [] ;;
    match r with inl acc => Ok (rev acc) | inr _ => Ok [] end.

  (* if name and Component.get_type(name[-1]) == TYPE_IMPLICIT_SHA256: name = name[:-1] *)
  Definition strip_digest (name : list bytes) : res (list bytes) :=
    match rev name with
    | [] => Ok name
    | last :: _ =>
        do t <- comp_get_type last ;;
        if t =? TYPE_IMPLICIT_SHA256 then Ok (removelast name) else Ok name
    end.

  (* Checker._context_to_name; keys: Some ident (None when the symbol carries no identifier) *)
  Definition oident_eqb (a b : option ident) : bool :=
    match a, b with
    | Some x, Some y => ident_eqb x y
    | None, None => true
    | _, _ => false
    end.
  Definition symbols : list (option N * option ident) :=
    fold_left (fun d s => al_set optN_eqb d (ts_tag s) (ts_ident s)) (m_symbols m) [].
  Definition context_to_name (c : ctx) : list (option ident * bytes) :=
    let named := fold_left (fun d tv => match al_get optN_eqb symbols (Some (fst tv)) with
                                        | Some idn => al_set oident_eqb d idn (snd tv)
                                        | None => d end) c [] in
    fold_left (fun d tv => match al_get optN_eqb symbols (Some (fst tv)) with
                           | Some _ => d
                           | None => al_set oident_eqb d (Some (dec_print (fst tv))) (snd tv) end) c named.

  Definition pseudo_rule (nid : N) : ident := [ch_hash; ch_us] ++ dec_print nid.       (* "#_" + str(node_id) *)

  Definition node_rule_names (nid : N) : res (list ident) :=
    match get_node m nid with
    | None => Err EIndex
    | Some nd => Ok (match n_rule nd with [] => [pseudo_rule nid] | l => l end)
    end.

  (* Checker.match *)
  Definition lvs_match (fuel : nat) (name : list bytes) : res (list (list ident * list (option ident * bytes))) :=
    do nm <- strip_digest name ;;
    do r <- mrun (R := unit) fuel nm (mstart [])
              (fun acc nid cx => do rn <- node_rule_names nid ;; Ok (inl ((rn, context_to_name cx) :: acc))) [] ;;
    match r with inl acc => Ok (rev acc) | inr _ => Ok [] end.

  (* Checker.check *)
  Definition lvs_check (fuel : nat) (pkt key : list bytes) : res bool :=
    do p <- strip_digest pkt ;;
    do k <- strip_digest key ;;
    do r <- mrun fuel p (mstart [])
              (fun (_ : unit) pn cx =>
                 match get_node m pn with
                 | None => Err EIndex
                 | Some pnode =>
                     do r2 <- mrun fuel k (mstart cx)
                                (fun (_ : unit) kn _ => if existsb (N.eqb kn) (n_sign pnode) then Ok (inr tt) else Ok (inl tt)) tt ;;
                     match r2 with inl _ => Ok (inl tt) | inr _ => Ok (inr tt) end
                 end) tt ;;
    match r with inl _ => Ok false | inr _ => Ok true end.
End Match.

(* ---- the user functions used for execution: DEFAULT_USER_FNS and table driven ones ------- *)
Inductive fnimpl := FEq | FEqType | FTable (rows : list (bytes * list (option bytes))).
Definition fnenv := list (ident * fnimpl).

Definition obytes2_eqb (a b : option bytes) : bool :=
  match a, b with Some x, Some y => bytes_eqb x y | None, None => true | _, _ => false end.

(* all(Component.get_type(x) == Component.get_type(c) for x in args) *)
Fixpoint eq_type_all (c : bytes) (args : list (option bytes)) : res bool :=
  match args with
  | [] => Ok true
  | None :: _ => Err EType
  | Some x :: r =>
      do tx <- comp_get_type x ;;
      do tc <- comp_get_type c ;;
      if tx =? tc then eq_type_all c r else Ok false
  end.

Definition apply_fn (fi : fnimpl) (c : bytes) (args : list (option bytes)) : res bool :=
  match fi with
  | FEq => Ok (forallb (fun x => obytes_eqb c x) args)
  | FEqType => eq_type_all c args
  | FTable rows => Ok (existsb (fun row => bytes_eqb (fst row) c && list_eqb obytes2_eqb (snd row) args) rows)
  end.

Definition fnenv_lookup (e : fnenv) (f : ident) : option (bytes -> list (option bytes) -> res bool) :=
  option_map apply_fn (al_get ident_eqb e f).
