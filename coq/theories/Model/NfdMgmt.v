(* Model of the command/response helpers of app_support/nfd_mgmt.py:
     make_command_v2   (the command name of the signed-Interest format)
     make_command      (the four trailing components of the legacy command-Interest format)
     parse_response
   on the descriptors regenerated from the source (Generated/Schemas.v) and the generic TLV codec
   (Model/Tlv.v).  Nothing of the TLV layer is re-modelled here. *)
From NDN Require Import Base.Prelude Base.PyPrim Base.Text Base.Utf8 Model.TlvVar Model.Name Model.Tlv.
From NDN Require Generated.Schemas.
Local Open Scope N_scope.

Definition CP : list field := Generated.Schemas.nfd_mgmt_ControlParameters.
Definition CPV : list field := Generated.Schemas.nfd_mgmt_ControlParametersValue.
Definition CR : list field := Generated.Schemas.nfd_mgmt_ControlResponse.
Definition SI : list field := Generated.Schemas.ndn_format_0_3_SignatureInfo.

Definition depth_of (fs : list field) : nat := S (fields_depth fs).

(* "/localhost/nfd/" and "/localhop/nfd/" *)
Definition s_localhost_nfd : str := [47;108;111;99;97;108;104;111;115;116;47;110;102;100;47].
Definition s_localhop_nfd : str := [47;108;111;99;97;108;104;111;112;47;110;102;100;47].
Definition s_rib : str := [114;105;98].
Definition s_register : str := [114;101;103;105;115;116;101;114].
Definition s_unregister : str := [117;110] ++ s_register.

Definition RESPONSE_TYPE : N := 101.          (* 0x65 ControlResponse *)
Definition TYPE_SIGNATURE_INFO : N := 22.
Definition TYPE_SIGNATURE_VALUE : N := 23.

(* Name.from_str(f"/localhost/nfd/{module}/{command}") *)
Definition command_prefix (local : bool) (module command : str) : res name :=
  name_from_str ((if local then s_localhost_nfd else s_localhop_nfd) ++ module ++ [47] ++ command).

(* make_command_v2(module, command, face, **kwargs): [cpv] are the values of the ControlParametersValue
   fields in declaration order (VNone = keyword not given) *)
Definition make_command_v2 (local : bool) (module command : str) (cpv : list value) : res name :=
  do pre <- command_prefix local module command ;;
  do w <- encode_model (depth_of CP) CP [VModel cpv] ;;
  do c <- comp_from_bytes w (Z.of_N TYPE_GENERIC) ;;
  Ok (pre ++ [c]).

(* the parameters when only name=prefix is given (what register/unregister pass) *)
Definition params_of_prefix (prefix : name) : list value :=
  upd (blank CPV) 0 (fun _ => VName prefix).

(* what the forwarder reads back from the parameters component *)
Definition command_parameters (nm : name) : res (list value) :=
  match rev nm with
  | [] => Err EIndex
  | c :: _ =>
      do v <- comp_get_value c ;;
      do vs <- parse_model (depth_of CP) CP false v ;;
      match vs with [VModel ps] => Ok ps | _ => Err EDecode end
  end.

Section V1.
  (* SHA-256 is external (hashlib / pycryptodome); the harness compares with hashlib *)
  Variable sha256 : bytes -> bytes.

  (* SignatureInfo written by DigestSha256Signer(): only signature_type = 0 *)
  Definition digest_sig_info : res bytes :=
    encode_model (depth_of SI) SI (upd (blank SI) 0 (fun _ => VUint 0)).

  (* make_command(module, command, face, command_timestamp, **kwargs); [nonce] = gen_nonce_64() *)
  Definition make_command (local : bool) (module command : str) (cpv : list value) (ts nonce : N) : res name :=
    do ret <- make_command_v2 local module command cpv ;;
    do tsb <- struct_pack1 FQ (Z.of_N ts) ;;
    let ret := ret ++ [comp_enc TYPE_GENERIC tsb] in
    do nb <- struct_pack1 FQ (Z.of_N nonce) ;;
    let ret := ret ++ [comp_enc TYPE_GENERIC nb] in
    do si <- digest_sig_info ;;
    (* bytes([TypeNumber.SIGNATURE_INFO, len(buf)]) raises ValueError above 255 *)
    if 255 <? N.of_nat (length si) then Err EValue else
    let ret := ret ++ [comp_enc TYPE_GENERIC ([TYPE_SIGNATURE_INFO; N.of_nat (length si)] ++ si)] in
    let sv := [TYPE_SIGNATURE_VALUE] ++ tl_enc 32 ++ sha256 (concat ret) in
    Ok (ret ++ [comp_enc TYPE_GENERIC sv]).
End V1.

(* parse_response(buf): status code, status text and the values of the ControlParametersValue fields.
   [body_optional] = the code after "fix: parse_response accepts a ControlResponse without a body";
   with [false] it is the earlier behaviour (getattr(None, ...) -> AttributeError). *)
Definition parse_response_gen (body_optional : bool) (buf : option bytes) : res (value * value * list value) :=
  match buf with
  | None => Err EType                                  (* memoryview(None) *)
  | Some b =>
      do v <- parse_and_check_tl b RESPONSE_TYPE ;;
      do vs <- parse_model (depth_of CR) CR false v ;;
      match vs with
      | [sc; st; VModel ps] => Ok (sc, st, ps)
      | [sc; st; _] => if body_optional then Ok (sc, st, blank CPV) else Err EAttr
      | _ => Err EType
      end
  end.
Definition parse_response := parse_response_gen true.

(* the wire form of a response, as a forwarder produces it *)
Definition response_wire (sc st : value) (body : value) : res bytes :=
  do w <- encode_model (depth_of CR) CR [sc; st; body] ;;
  Ok (tlv RESPONSE_TYPE w).

(* ---- the status datasets and the other management models of nfd_mgmt.py (descriptors regenerated from the source) ----
   what an application does with a dataset: Cls.parse(wire) / obj.encode(), i.e. the generic codec on the class's
   descriptor, critical elements not ignored *)
Definition nfd_models : list (list field) :=
  [Generated.Schemas.nfd_mgmt_ControlParameters; Generated.Schemas.nfd_mgmt_ControlParametersValue;
   Generated.Schemas.nfd_mgmt_ControlResponse; Generated.Schemas.nfd_mgmt_CsInfo;
   Generated.Schemas.nfd_mgmt_FaceEventNotification; Generated.Schemas.nfd_mgmt_FaceEventNotificationValue;
   Generated.Schemas.nfd_mgmt_FaceQueryFilter; Generated.Schemas.nfd_mgmt_FaceQueryFilterValue;
   Generated.Schemas.nfd_mgmt_FaceStatus; Generated.Schemas.nfd_mgmt_FaceStatusMsg;
   Generated.Schemas.nfd_mgmt_FibEntry; Generated.Schemas.nfd_mgmt_FibStatus;
   Generated.Schemas.nfd_mgmt_GeneralStatus; Generated.Schemas.nfd_mgmt_NextHopRecord;
   Generated.Schemas.nfd_mgmt_RibEntry; Generated.Schemas.nfd_mgmt_RibStatus; Generated.Schemas.nfd_mgmt_Route;
   Generated.Schemas.nfd_mgmt_Strategy; Generated.Schemas.nfd_mgmt_StrategyChoice;
   Generated.Schemas.nfd_mgmt_StrategyChoiceMsg].

Definition dataset_wire (fs : list field) (vs : list value) : res bytes := encode_model (depth_of fs) fs vs.
Definition dataset_parse (fs : list field) (w : bytes) : res (list value) := parse_model (depth_of fs) fs false w.
