(* C10 — the link-layer envelope (NDNLPv2) as the library handles it.

   encoding/ndnlp_v2.py : parse_lp_packet_v2 (= Model/Packet.v [dec_lp]), parse_lp_packet,
                          parse_network_nack, make_network_nack
   appv2.py             : the unwrap prologue of NDNApp._receive, _put_raw_packet,
                          _put_raw_packet_with_pit_token, the [reply] closure of _on_interest
   app.py               : the unwrap prologue of NDNApp._receive (no PIT token in the v1 front-end)

   Everything is the generic TLV interpreter (Model/Tlv.v) applied to the descriptors reflected from
   the source on this run (Generated/Schemas.v); attributes are addressed through the Type numbers the
   T1 translator read behind the attribute *names* (Generated/ConstsLp.v), and the exception classes the
   envelope decoder's [except] clause catches are read from the AST of _receive.

   The rest of the reception pipeline (decoding of the network packet, PIT, dispatch, validation)
   belongs to other properties; here it is two abstract functions (Section variables):
     [dispatch s typ token data]   the part of _receive after the prologue, for a packet of Type [typ]
     [on_nack  s reason fragment]  parse_interest(fragment) followed by _on_nack(name, reason).

   Definitions only. *)
From NDN Require Import Base.Prelude Model.TlvVar Model.Name Model.Tlv Model.Packet.
From NDN Require Import Generated.Schemas.
From NDN Require Import Generated.ConstsLp.
Local Open Scope N_scope.

Definition lp_fields : list field := ndnlp_v2_LpPacketValue.
Definition lp_outer : list field := ndnlp_v2_LpPacket.
Definition nack_fields : list field := ndnlp_v2_NetworkNack.

(* ---- attribute access ----------------------------------------------------------------------- *)
Definition lp_attr (vs : list value) (t : N) : value := field_value lp_fields vs t.

(* lp_pkt.pit_token : None or the bytes (an empty token is a token) *)
Definition lp_token (vs : list value) : option bytes :=
  match lp_attr vs attr_pit_token with VBytes b => Some b | _ => None end.
Definition lp_fragment (vs : list value) : option bytes :=
  match lp_attr vs attr_fragment with VBytes b => Some b | _ => None end.
(* lp_pkt.nack : None | NetworkNack with nack_reason None | NetworkNack with a reason *)
Definition lp_nack (vs : list value) : option (option N) :=
  match lp_attr vs attr_nack with
  | VModel ns => Some (match field_value nack_fields ns attr_nack_reason with VUint r => Some r | _ => None end)
  | _ => None
  end.
(* a Nack header without NackReason means reason None (0)  [fix 361b618] *)
Definition nack_reason_of (n : option (option N)) : option N :=
  match n with
  | Some (Some r) => Some r
  | Some None => Some NACK_NONE
  | None => None
  end.

(* ---- building values: obj = Cls(); obj.attr = v ... -------------------------------------------- *)
Fixpoint aget (al : list (N * value)) (t : N) : value :=
  match al with [] => VNone | (t', v) :: r => if t' =? t then v else aget r t end.
Definition mk_vals (fs : list field) (al : list (N * value)) : list value :=
  map (fun f => aget al (fst f)) fs.

(* LpPacket().encode() with lp_packet = LpPacketValue(attrs) *)
Definition encode_lp (attrs : list (N * value)) : res bytes :=
  encode_model (depth_of lp_outer) lp_outer
    (mk_vals lp_outer [(attr_lp_packet, VModel (mk_vals lp_fields attrs))]).

(* ---- encoding/ndnlp_v2.py ------------------------------------------------------------------- *)
Definition parse_lp_packet_v2 (w : bytes) : res (list value) := dec_lp w.

(* with_tl=False: [v] is the value part of the LpPacket element *)
Definition parse_lp_value (v : bytes) : res (list value) :=
  no_fragmentation lp_fields (parse_model (depth_of lp_fields) lp_fields true v).
Definition parse_lp_packet_v2_gen (with_tl : bool) (w : bytes) : res (list value) :=
  if with_tl then parse_lp_packet_v2 w else parse_lp_value w.

(* parse_lp_packet(wire) -> (nack_reason | None, fragment | None) *)
Definition parse_lp_packet (w : bytes) : res (option N * option bytes) :=
  do vs <- parse_lp_packet_v2 w ;;
  Ok (nack_reason_of (lp_nack vs), lp_fragment vs).

(* parse_network_nack(wire): no fragmentation check; (None, None) when there is no Nack header *)
Definition parse_network_nack (w : bytes) : res (option N * option bytes) :=
  do vs <- gen_decode parse_model LP_PACKET lp_fields true w ;;
  match lp_nack vs with
  | Some r => Ok (nack_reason_of (Some r), lp_fragment vs)
  | None => Ok (None, None)
  end.

Definition make_network_nack (interest : bytes) (reason : N) : res bytes :=
  encode_lp [(attr_nack, VModel (mk_vals nack_fields [(attr_nack_reason, VUint reason)]));
             (attr_fragment, VBytes interest)].

(* ---- sending (appv2.py) --------------------------------------------------------------------- *)
Definition E_NETWORK : err := EOther 1.      (* ndn.types.NetworkError *)

(* _put_raw_packet(data): the wires handed to face.send *)
Definition put_raw_packet (running : bool) (data : bytes) : res (list bytes) :=
  if running then Ok [data] else Err E_NETWORK.

Definition wrap_with_token (data token : bytes) : res bytes :=
  encode_lp [(attr_pit_token, VBytes token); (attr_fragment, VBytes data)].

Definition put_raw_packet_with_pit_token (running : bool) (data token : bytes) : res (list bytes) :=
  if running then do w <- wrap_with_token data token ;; Ok [w] else Err E_NETWORK.

(* _put_raw_packet_with_pit_token_nocopy (kept "as a backup" for stream faces): the envelope header and the data
   are handed to face.send one after the other  [Length fixed in 6e6923f] *)
Definition put_raw_packet_with_pit_token_nocopy (running : bool) (data token : bytes) : res (list bytes) :=
  if running then
    do pt <- encode_model (depth_of lp_fields) lp_fields (mk_vals lp_fields [(attr_pit_token, VBytes token)]) ;;
    let frag_l := N.of_nat (length data) in
    let hdr_l := N.of_nat (length pt) + N.of_nat (tl_size FRAGMENT) + N.of_nat (tl_size frag_l) in
    let lp_l := hdr_l + frag_l in
    do a <- tl_enc_r LP_PACKET ;; do b <- tl_enc_r lp_l ;; do c <- tl_enc_r FRAGMENT ;; do d <- tl_enc_r frag_l ;;
    Ok [a ++ b ++ pt ++ c ++ d; data]
  else Err E_NETWORK.

(* the [reply] closure created by _on_interest: it captured pit_token and deadline *)
Record closure := Closure { c_token : option bytes; c_deadline : N }.

Definition reply_v2 (running : bool) (now : N) (c : closure) (data : bytes) : res (list bytes) :=
  if c_deadline c <? now then Ok []                       (* 'Deadline passed': nothing is sent *)
  else match c_token c with                               (* pit_token is None, NOT truthiness *)
       | None => put_raw_packet running data
       | Some k => put_raw_packet_with_pit_token running data k
       end.

(* several outstanding Interests: every arrival creates its own closure; replies come in any order *)
Inductive lp_event :=
| EvInterest (token : option bytes) (deadline : N)
| EvReply (i : nat) (now : N) (data : bytes).

Definition lp_step (running : bool) (st : list closure * list (nat * res (list bytes))) (e : lp_event)
  : list closure * list (nat * res (list bytes)) :=
  match e with
  | EvInterest tok dl => (fst st ++ [Closure tok dl], snd st)
  | EvReply i now data =>
      match nth_error (fst st) i with
      | Some c => (fst st, snd st ++ [(i, reply_v2 running now c data)])
      | None => st
      end
  end.
Definition lp_run (running : bool) (h : list lp_event) : list closure * list (nat * res (list bytes)) :=
  fold_left (lp_step running) h ([], []).

(* ---- receiving: the unwrap prologue of _receive ------------------------------------------------ *)
Inductive unwrapped :=
| UDrop (why : N)                                  (* 1 undecodable envelope (warning) | 2 no / empty Fragment
                                                      | 3 Fragment too short for a Type number (warning) *)
| URaise (e : err)                                 (* the exception leaves _receive *)
| UNack (reason : N) (fragment : bytes)
| UPacket (typ : N) (token : option bytes) (data : bytes).

(* [except (...)] : UnicodeDecodeError is a ValueError *)
Definition caught_by (l : list err) (e : err) : bool :=
  existsb (err_eqb e) l || (err_eqb e EUnicode && existsb (err_eqb EValue) l).

(* exceptions caught around parse_tl_num(fragment)  [fix 5bae578] *)
Definition frag_type_caught : list err := [EIndex; EStruct].

Definition unwrap_with (caught : list err) (keep_token : bool) (typ : N) (data : bytes) : unwrapped :=
  if typ =? LP_PACKET then
    match parse_lp_packet_v2 data with
    | Err e => if caught_by caught e then UDrop 1 else URaise e
    | Ok vs =>
        let nack_reason := nack_reason_of (lp_nack vs) in
        let token := if keep_token then lp_token vs else None in
        match lp_fragment vs with
        | None | Some [] => UDrop 2
        | Some frag =>
            match tl_dec frag with
            | Err e => if caught_by frag_type_caught e then UDrop 3 else URaise e
            | Ok (t, _) =>
                match nack_reason with
                | Some r => UNack r frag
                | None => UPacket t token frag
                end
            end
        end
    end
  else UPacket typ None data.

Definition unwrap_v2 : N -> bytes -> unwrapped := unwrap_with lp_caught_v2 true.
Definition unwrap_v1 : N -> bytes -> unwrapped := unwrap_with lp_caught_v1 false.

Section Receive.
  Variables St Out : Type.
  Variable dispatch : St -> N -> option bytes -> bytes -> St * Out.
  Variable on_nack : St -> N -> bytes -> St * Out.
  Variable nothing : Out.

  Definition receive_of (u : unwrapped) (s : St) : res (St * Out) :=
    match u with
    | UDrop _ => Ok (s, nothing)
    | URaise e => Err e
    | UNack r frag => Ok (on_nack s r frag)
    | UPacket t tok d => Ok (dispatch s t tok d)
    end.

  Definition receive_v2 (s : St) (typ : N) (data : bytes) : res (St * Out) := receive_of (unwrap_v2 typ data) s.
  Definition receive_v1 (s : St) (typ : N) (data : bytes) : res (St * Out) := receive_of (unwrap_v1 typ data) s.
End Receive.
