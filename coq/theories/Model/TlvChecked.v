(* The library's decoder with ONE additional check: an element may not declare a Length beyond what is left of
   its parent (the end-of-parent check that TlvModel.parse lacks -- the known findings C07-overrun).  Everything else is
   Model/Tlv.parse_val / parse_model verbatim. *)
From NDN Require Import Base.Prelude Base.Utf8 Model.TlvVar Model.Name Model.Tlv.
Local Open Scope N_scope.

Definition exactb (e : elem) : bool := e_dlen e =? N.of_nat (length (e_payload e)).

Definition split_checked (w : bytes) : res (list elem) :=
  do els <- split_wire w ;; if forallb exactb els then Ok els else Err EIndex.

Fixpoint parse_val_c (d : nat) (k : fkind) (e : elem) : res value :=
  match d with
  | O => Err EFuel
  | S d' =>
      let p := e_payload e in
      let l := e_dlen e in
      match k with
      | KUint _ =>
          if (l =? 1) || (l =? 2) || (l =? 4) || (l =? 8) then
            if N.of_nat (length p) =? l then Ok (VUint (be_to_N p)) else Err EStruct
          else Err EValue
      | KBool => Ok VTrue
      | KBytes s => if s then (if utf8_valid p then Ok (VBytes p) else Err EUnicode) else Ok (VBytes p)
      | KName =>
          if negb (e_type e =? TYPE_NAME) then Err EValue
          else if N.of_nat (length p) <? l then Err EIndex
          else do n <- name_components (S (length p)) p ;; Ok (VName n)
      | KModel fs ic =>
          do els <- split_checked p ;;
          do vs <- assign_with (parse_val_c d') fs ic PNormal 0 els (blank fs) ;;
          Ok (VModel vs)
      | KRepeated _ | KMap _ _ _ => Err EType
      end
  end.

Definition parse_model_c (d : nat) (fs : list field) (ic : bool) (w : bytes) : res (list value) :=
  do els <- split_checked w ;;
  assign_with (parse_val_c d) fs ic PNormal 0 els (blank fs).
