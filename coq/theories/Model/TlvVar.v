(* Hand-written model of encoding/tlv_var.py (variable-size TLV numbers, non-negative integers,
   outer type/length check, post-signing length repair).  Decoders are in consuming-list style:
   they look at the list from the current offset on, so Python's silently truncating slices and
   its IndexError/struct.error behaviour are reproduced literally.
   Tied to the source by (T2) bridge lemmas against Generated/TlvVarGen.v and by (T3). *)
From NDN Require Import Base.Prelude.
Local Open Scope N_scope.

Definition two64 : N := 18446744073709551616.

Definition tl_size (v : N) : nat :=
  if v <=? 252 then 1%nat else if v <=? 65535 then 3%nat else if v <=? 4294967295 then 5%nat else 9%nat.

(* write_tl_num: the bytes written (struct.pack_into raises struct.error for v >= 2^64) *)
Definition tl_enc (v : N) : bytes :=
  if v <=? 252 then [v]
  else if v <=? 65535 then 253 :: N_to_be 2 v
  else if v <=? 4294967295 then 254 :: N_to_be 4 v
  else 255 :: N_to_be 8 v.

Definition tl_enc_r (v : N) : res bytes := if v <? two64 then Ok (tl_enc v) else Err EStruct.

(* struct.unpack('!H'/'!I'/'!Q', buf[a:a+k]) on the remaining bytes [r] *)
Definition unpack_be (k : nat) (r : bytes) : res N :=
  if Nat.eqb (length (firstn k r)) k then Ok (be_to_N (firstn k r)) else Err EStruct.

(* parse_tl_num(buf, offset) where [w] = buf[offset:]; returns (value, size) *)
Definition tl_dec (w : bytes) : res (N * nat) :=
  match w with
  | [] => Err EIndex
  | b :: r =>
      if b <=? 252 then Ok (b, 1%nat)
      else if b =? 253 then do v <- unpack_be 2 r ;; Ok (v, 3%nat)
      else if b =? 254 then do v <- unpack_be 4 r ;; Ok (v, 5%nat)
      else do v <- unpack_be 8 r ;; Ok (v, 9%nat)
  end.

(* pack_uint_bytes *)
Definition nni_width (v : N) : nat :=
  if v <=? 255 then 1%nat else if v <=? 65535 then 2%nat else if v <=? 4294967295 then 4%nat else 8%nat.
Definition nni_enc (v : N) : bytes := N_to_be (nni_width v) v.
Definition nni_enc_r (v : N) : res bytes := if v <? two64 then Ok (nni_enc v) else Err EStruct.

(* UintField.parse_from on a value of declared length [len] located at [w] = wire[offset:]
   (struct.unpack_from raises struct.error when fewer than [len] bytes remain) *)
Definition nni_dec (len : N) (w : bytes) : res N :=
  if (len =? 1) || (len =? 2) || (len =? 4) || (len =? 8) then
    let k := N.to_nat len in
    if Nat.leb k (length w) then Ok (be_to_N (firstn k w)) else Err EStruct
  else Err EValue.

(* parse_and_check_tl(wire, expected_type): the value part *)
Definition parse_and_check_tl (wire : bytes) (expected : N) : res bytes :=
  do tp <- tl_dec wire ;;
  let '(typ, tlen) := tp in
  do sp <- tl_dec (skipn tlen wire) ;;
  let '(size, slen) := sp in
  if negb (typ =? expected) then Err EValue
  else if negb (N.of_nat (length wire) =? N.of_nat (tlen + slen) + size) then Err EIndex
  else Ok (skipn (tlen + slen) wire).

(* overwrite [length patch] bytes of [buf] at offset [off] (struct.pack_into; buffer large enough) *)
Definition splice (buf : bytes) (off : nat) (patch : bytes) : bytes :=
  firstn off buf ++ patch ++ skipn (off + length patch) buf.

(* shrink_length(wire, val): val > 0 is the number of unused trailing bytes.
   Python: wire[:-val] / wire[diff:-val]. *)
Definition shrink_length (wire : bytes) (val : nat) : res bytes :=
  do tp <- tl_dec wire ;;
  let '(typ, tlen) := tp in
  do sp <- tl_dec (skipn tlen wire) ;;
  let '(size, slen) := sp in
  if size <? N.of_nat val then Err EStruct (* negative real_size: struct.error *)
  else
    let real := size - N.of_nat val in
    let new_slen := tl_size real in
    let wire1 := splice wire tlen (tl_enc real) in
    if Nat.eqb new_slen slen then Ok (firstn (length wire1 - val) wire1)
    else
      let diff := (slen - new_slen)%nat in
      let wire2 := splice wire1 diff (tl_enc typ) in
      let wire3 := splice wire2 (tlen + diff) (tl_enc real) in
      Ok (skipn diff (firstn (length wire3 - val) wire3)).
