(* C06 (B) — NDNApp._receive of both front-ends (src/ndn/appv2.py, src/ndn/app.py):
     unwrap the LpPacket (if typ = 0x64) -> dispatch on the packet type -> parse -> hand over to
     _on_interest / _on_data / _on_nack,
   with the [except] tuples as parameters (reflected from the source into Generated/ReceiveGen.v) and the
   statements that sit OUTSIDE every try block modelled as such.  The decoders are the ones of
   Model/Packet.v (dec_lp / dec_interest / dec_data) with their exact error classes.

   [classify] is everything _receive does before it calls a handler; [receive] then threads an
   abstract pipeline state through the handler (the pending-Interest table and the handler table are
   modelled by C03 / C04; here they are Section variables).  Definitions only. *)
From NDN Require Import Base.Prelude Model.TlvVar Model.Name Model.Tlv Model.Packet Model.Stream.
From NDN Require Import Generated.Schemas.
Local Open Scope N_scope.

Record rcfg := RCfg {
  c_lp : list err;            (* except tuple around parse_lp_packet(_v2) *)
  c_nack : list err;          (* ... around parse_interest in the Nack branch *)
  c_interest : list err;      (* ... around parse_interest *)
  c_data : list err;          (* ... around parse_data *)
  c_frag_guard : N;           (* after data = fragment: 0 = nothing, 1 = `if not data: return` (None or empty),
                                 2 = `if data is None: return` *)
  c_fragtl : list err;        (* except tuple around parse_tl_num(fragment); [] = outside any try *)
  c_nack_default : option N   (* reason given to a Nack header without NackReason: None as of this
                                 tree (dagger 10, owned by C10), Some 0 with C10's fix *)
}.

(* what _receive does with a packet *)
Inductive action :=
| ADrop (site : N)               (* returns without calling a handler; site = which return *)
| ARaise (e : err)               (* an exception leaves _receive *)
| ANack (name : list bytes) (reason : N)
| AInterest (name : list bytes) (token : option bytes) (fields : list value) (raw : bytes)
| AData (name : list bytes) (fields : list value) (raw : bytes).

(* try: x = dec(...)  except tuple: log; return *)
Definition try_parse {A} (tuple : list err) (site : N) (r : res A) (k : A -> action) : action :=
  match r with
  | Ok a => k a
  | Err e => if catches tuple e then ADrop site else ARaise e
  end.

Definition name_of (fs : list field) (vs : list value) : list bytes :=
  match field_value fs vs TYPE_NAME with VName n => n | _ => [] end.

Definition LP_PIT_TOKEN : N := 98.
Definition LP_NACK : N := 800.
Definition LP_FRAGMENT : N := 80.

(* the part after the LP prologue *)
Definition dispatch (cfg : rcfg) (nack : option N) (token : option bytes) (typ : N) (data : bytes) : action :=
  match nack with
  | Some reason =>
      try_parse (c_nack cfg) 2 (dec_interest data)
        (fun vs => ANack (name_of ndn_format_0_3_InterestPacketValue vs) reason)
  | None =>
      if typ =? TYPE_INTEREST then
        try_parse (c_interest cfg) 3 (dec_interest data)
          (fun vs => AInterest (name_of ndn_format_0_3_InterestPacketValue vs) token vs data)
      else if typ =? TYPE_DATA then
        try_parse (c_data cfg) 4 (dec_data data)
          (fun vs => AData (name_of ndn_format_0_3_DataPacketValue vs) vs data)
      else ADrop 5
  end.

Definition classify (cfg : rcfg) (typ : N) (data : bytes) : action :=
  if typ =? TYPE_LP_PACKET then
    try_parse (c_lp cfg) 1 (dec_lp data) (fun vs =>
      let nack :=
        match field_value ndnlp_v2_LpPacketValue vs LP_NACK with
        | VNone => None                          (* lp_pkt.nack is None *)
        | VModel [VUint r] => Some r             (* lp_pkt.nack.nack_reason *)
        | _ => c_nack_default cfg                (* Nack header without NackReason *)
        end in
      let token := match field_value ndnlp_v2_LpPacketValue vs LP_PIT_TOKEN with VBytes b => Some b | _ => None end in
      let frag := match field_value ndnlp_v2_LpPacketValue vs LP_FRAGMENT with VBytes b => Some b | _ => None end in
      (* data = fragment ; [if not data: return] ; typ, _ = parse_tl_num(data) *)
      match frag with
      | None => if 1 <=? c_frag_guard cfg then ADrop 6 else
                if catches (c_fragtl cfg) EType then ADrop 7 else ARaise EType   (* None[0] *)
      | Some d =>
          if (c_frag_guard cfg =? 1) && match d with [] => true | _ => false end then ADrop 6
          else try_parse (c_fragtl cfg) 7 (tl_dec d) (fun '(t, _) => dispatch cfg nack token t d)
      end)
  else dispatch cfg None None typ data.

(* ---- threading the pipeline state ----------------------------------------------------------------- *)
Section Pipeline.
  Variable state : Type.
  (* the three handlers, as functions on the pipeline state; Err = an exception leaves the handler *)
  Variable on_interest : list bytes -> option bytes -> list value -> bytes -> state -> res state.
  Variable on_data : list bytes -> list value -> bytes -> state -> res state.
  Variable on_nack : list bytes -> N -> state -> res state.

  Definition receive (cfg : rcfg) (typ : N) (data : bytes) (s : state) : res state :=
    match classify cfg typ data with
    | ADrop _ => Ok s
    | ARaise e => Err e
    | ANack name reason => on_nack name reason s
    | AInterest name token vs raw => on_interest name token vs raw s
    | AData name vs raw => on_data name vs raw s
    end.
End Pipeline.

(* ---- the lookups inside _on_nack that can raise (dagger 13; the tables themselves are C03's) ------ *)
(* pending table keyed by exact name; an entry lists, per pending Interest, whether its future is
   already done (a cancelled waiter that is still in the table) *)
Definition pit := list (list bytes * list bool).
Definition name_eqb : list bytes -> list bytes -> bool := list_eqb bytes_eqb.

(* node.nack_interest(reason): future.set_exception on every entry -> InvalidStateError on a done one *)
Definition nack_node (entries : list bool) : res unit :=
  if existsb (fun done => done) entries then Err EInvalidState else Ok tt.

(* [catch_key] = the try/except KeyError around self._pit[name] (appv2.py has it; app.py gets it
   with C03's commit c7d62ad) *)
Definition on_nack_lookup (catch_key : bool) (name : list bytes) (reason : N) (t : pit) : res pit :=
  match al_get name_eqb t name with
  | None => if catch_key then Ok t else Err EKey
  | Some entries => do _ <- nack_node entries ;; Ok (al_del name_eqb t name)
  end.
