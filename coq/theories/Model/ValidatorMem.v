(* C14 — the caller's memory.
   What an application hands to a constructor (trust anchor) or to a validator (the packet it parsed) is a
   buffer it owns: bytes, bytearray, memoryview.  After the call has returned the application goes on using its
   memory: it loads the next wire into the same buffer (e.g. the anchor of its second validator) or overwrites it.
   The validators' state (Model/Validator.v [state]: configurations + key storages) holds VALUES - the code copies
   the anchor name and key in CascadeChecker.__init__, storage keys are Name.to_bytes - so a history with memory
   operations is the history of the calls with the buffer contents read at the moment of each call.  Definitions
   only; Proofs/ValidatorMemProofs.v shows that nothing else of the memory can matter. *)
From NDN Require Import Base.Prelude Model.Validator.
Local Open Scope nat_scope.

(* buffer id -> what it holds, seen as what parse_data makes of it (Err = not a Data); absent = never loaded, or
   overwritten with something the application would not hand over *)
Definition mem := list (nat * res pkt).
Definition mem_get (m : mem) (b : nat) : option (res pkt) := al_get Nat.eqb m b.

Inductive mop :=
| MLoad (b : nat) (a : res pkt)                  (* buf_b[:] = wire *)
| MScribble (b : nat)                            (* buf_b[:] = anything else *)
| MNewStorage                                    (* s = MemoryKeyStorage() *)
| MNewLvs (sc : schema) (b : nat) (s : sarg)     (* lvs_validator(checker, app, buf_b[, s]) *)
| MNewCascade (b : nat) (s : sarg)               (* CascadeChecker(app, buf_b[, s]) *)
| MValidate (i : nat) (b : nat).                 (* name, _, _, ptrs = parse_data(buf_b); await validator_i(name, ptrs) *)

Record mstate := { m_mem : mem; m_st : state }.

(* the call the library sees: the buffer is read when the call is made.  No call for a memory operation, for a
   buffer that holds nothing, and when the application's own parse_data of the packet fails. *)
Definition given (m : mem) (o : mop) : option op :=
  match o with
  | MLoad _ _ | MScribble _ => None
  | MNewStorage => Some ONewStorage
  | MNewLvs sc b s => option_map (fun a => ONewLvs sc a s) (mem_get m b)
  | MNewCascade b s => option_map (fun a => ONewCascade a s) (mem_get m b)
  | MValidate i b => match mem_get m b with Some (Ok p) => Some (OValidate i p) | _ => None end
  end.

Definition mem_step (m : mem) (o : mop) : mem :=
  match o with
  | MLoad b a => al_set Nat.eqb m b a
  | MScribble b => al_del Nat.eqb m b
  | _ => m
  end.

Definition mstep (legacy : bool) (w : world) (fuel : nat) (ms : mstate) (o : mop) : mstate * option obs :=
  match given (m_mem ms) o with
  | Some o' =>
      let '(st', b) := step legacy w fuel (m_st ms) o' in
      ({| m_mem := mem_step (m_mem ms) o; m_st := st' |}, Some b)
  | None => ({| m_mem := mem_step (m_mem ms) o; m_st := m_st ms |}, None)
  end.

Fixpoint mrun (legacy : bool) (w : world) (fuel : nat) (ms : mstate) (ops : list mop) : mstate * list (option obs) :=
  match ops with
  | [] => (ms, [])
  | o :: r =>
      let '(ms1, b) := mstep legacy w fuel ms o in
      let '(ms2, bs) := mrun legacy w fuel ms1 r in
      (ms2, b :: bs)
  end.

(* the history of the calls: every hand-over replaced by what the buffer held at that moment *)
Fixpoint given_ops (m : mem) (ops : list mop) : list op :=
  match ops with
  | [] => []
  | o :: r =>
      match given m o with
      | Some o' => o' :: given_ops (mem_step m o) r
      | None => given_ops (mem_step m o) r
      end
  end.

Fixpoint somes {A} (l : list (option A)) : list A :=
  match l with [] => [] | Some a :: r => a :: somes r | None :: r => somes r end.
