(* C20 — CPython primitives that src/ndn/client_conf.py and src/ndn/platform/linux.py lean on,
   modelled only as far as that code uses them (CPython 3.12): str.strip/partition/lower,
   os.path.join/dirname/expandvars, configparser.ConfigParser(interpolation=None).read_string,
   ipaddress (bracketed hosts), urllib.parse.urlsplit + .hostname/.port; plus the observation type
   [face].  Strings are lists of code points.  Definitions only.  (py) marks CPython behaviour that
   is copied, not designed. *)
From NDN Require Import Base.Prelude Base.Text.
From Coq Require Strings.String Strings.Ascii.
Import Coq.Strings.String.StringSyntax Coq.Strings.Ascii.AsciiSyntax.
Local Open Scope N_scope.

(* string literals: "abc" -> [97;98;99] *)
Definition lit (s : String.string) : str := map Ascii.N_of_ascii (String.list_ascii_of_string s).
Arguments lit s%string_scope.
(* [slit "abc"] is the literal list itself (computed when the definition is read), so that extracted
   code never mentions Coq's string type *)
Notation "'slit' s" := (ltac:(let v := eval vm_compute in (lit s) in exact v)) (at level 10, s at level 9, only parsing).

(* error classes of this model (EValue = ValueError comes from Prelude) *)
Definition EOSError : err := EOther 1.     (* OSError family: open() of a directory / unreadable file *)
Definition EConfig : err := EOther 2.      (* configparser.Error family *)
Definition ENameError : err := EOther 3.   (* NameError: TpmOsxKeychain / TpmCng are not imported on Linux *)

(* ---- characters ------------------------------------------------------------------------------ *)
Definition ch_nl := 10.   Definition ch_slash := 47.   Definition ch_colon := 58.
Definition ch_eq := 61.   Definition ch_dollar := 36.  Definition ch_hash := 35.
Definition ch_semi := 59. Definition ch_lbr := 91.     Definition ch_rbr := 93.
Definition ch_at := 64.   Definition ch_q := 63.       Definition ch_pct := 37.
Definition ch_dot := 46.  Definition ch_lbrace := 123. Definition ch_rbrace := 125.

(* Py_UNICODE_ISSPACE: what str.strip(), str.isspace() and the regex classes \s / \S use *)
Definition is_space (c : N) : bool :=
  ((9 <=? c) && (c <=? 13)) || ((28 <=? c) && (c <=? 32)) || (c =? 133) || (c =? 160) || (c =? 5760)
  || ((8192 <=? c) && (c <=? 8202)) || (c =? 8232) || (c =? 8233) || (c =? 8239) || (c =? 8287)
  || (c =? 12288).

Definition is_upper (c : N) : bool := (65 <=? c) && (c <=? 90).
Definition is_lower (c : N) : bool := (97 <=? c) && (c <=? 122).
Definition is_alpha (c : N) : bool := is_upper c || is_lower c.
Definition is_hex (c : N) : bool := is_digit c || ((65 <=? c) && (c <=? 70)) || ((97 <=? c) && (c <=? 102)).
(* \w under re.ASCII *)
Definition is_word (c : N) : bool := is_alpha c || is_digit c || (c =? 95).
Definition lower_c (c : N) : N := if is_upper c then c + 32 else c.
Definition upper_c (c : N) : N := if is_lower c then c - 32 else c.
(* str.lower()/upper() restricted to ASCII letters; other code points are left alone (domain: the
   harness only uses option names whose non-ASCII characters are caseless) *)
Definition lower (s : str) : str := map lower_c s.
Definition upper (s : str) : str := map upper_c s.
Definition is_ascii (s : str) : bool := forallb (fun c => c <? 128) s.

(* ---- str primitives --------------------------------------------------------------------------- *)
Fixpoint lstrip_by (p : N -> bool) (s : str) : str :=
  match s with
  | [] => []
  | c :: r => if p c then lstrip_by p r else s
  end.
Definition rstrip_by (p : N -> bool) (s : str) : str := rev (lstrip_by p (rev s)).
Definition strip (s : str) : str := rstrip_by is_space (lstrip_by is_space s).
Definition rstrip (s : str) : str := rstrip_by is_space s.
Definition rstrip_char (c : N) (s : str) : str := rstrip_by (N.eqb c) s.

Definition starts_with (p s : str) : bool := is_prefixb N.eqb p s.
Definition ends_with_char (c : N) (s : str) : bool :=
  match rev s with x :: _ => x =? c | [] => false end.
Definition contains (c : N) (s : str) : bool := existsb (N.eqb c) s.
Definition nonempty (s : str) : bool := match s with [] => false | _ => true end.

(* s.partition(c) : (before, Some after) when c occurs, (s, None) otherwise *)
Fixpoint partition_on (c : N) (s : str) : str * option str :=
  match s with
  | [] => ([], None)
  | x :: r => if x =? c then ([], Some r)
              else let (a, b) := partition_on c r in (x :: a, b)
  end.
(* s.rpartition(c) : (Some before, after) at the LAST c, (None, s) when c does not occur *)
Definition rpartition_on (c : N) (s : str) : option str * str :=
  match partition_on c (rev s) with
  | (a, Some b) => (Some (rev b), rev a)
  | (_, None) => (None, s)
  end.
(* first position of a character satisfying p: (before, Some (that char, after)) *)
Fixpoint break_on (p : N -> bool) (s : str) : str * option (N * str) :=
  match s with
  | [] => ([], None)
  | x :: r => if p x then ([], Some (x, r))
              else let (a, b) := break_on p r in (x :: a, b)
  end.
(* longest prefix of characters satisfying p, and the rest *)
Fixpoint span (p : N -> bool) (s : str) : str * str :=
  match s with
  | [] => ([], [])
  | x :: r => if p x then let (a, b) := span p r in (x :: a, b) else ([], s)
  end.
(* index of the first character not satisfying p (len when there is none) *)
Fixpoint count_while (p : N -> bool) (s : str) : nat :=
  match s with
  | [] => O
  | x :: r => if p x then S (count_while p r) else O
  end.

(* iteration over io.StringIO(text): pieces between '\n', no empty piece after a final '\n' *)
Definition py_lines (s : str) : list str :=
  let l := split_on ch_nl s in
  match rev l with
  | [] :: r => rev r
  | _ => l
  end.

(* ---- os.path ------------------------------------------------------------------------------------ *)
(* (py) posixpath.join(a, b) *)
Definition path_join (a b : str) : str :=
  if starts_with [ch_slash] b then b
  else if negb (nonempty a) || ends_with_char ch_slash a then a ++ b
  else a ++ ch_slash :: b.

(* (py) posixpath.dirname(p): everything up to the last '/', trailing slashes removed unless all slashes *)
Definition path_dirname (p : str) : str :=
  match rpartition_on ch_slash p with
  | (None, _) => []
  | (Some before, _) =>
      let head := before ++ [ch_slash] in
      if forallb (N.eqb ch_slash) head then head else rstrip_char ch_slash head
  end.

Definition environ := list (str * str).
Definition env_get (e : environ) (k : str) : option str := al_get str_eqb e k.

(* (py) posixpath.expandvars: $NAME and ${NAME}; unknown names are left in place; substituted text
   is not rescanned.  Fuel = length of the input (every step consumes at least one character). *)
Fixpoint expandvars_aux (fuel : nat) (e : environ) (s : str) : str :=
  match fuel with
  | O => s
  | S f =>
      match s with
      | [] => []
      | c :: r =>
          if c =? ch_dollar then
            match r with
            | b :: r' =>
                if b =? ch_lbrace then
                  match partition_on ch_rbrace r' with
                  | (name, Some rest) =>
                      match env_get e name with
                      | Some v => v ++ expandvars_aux f e rest
                      | None => c :: b :: name ++ ch_rbrace :: expandvars_aux f e rest
                      end
                  | (_, None) => c :: expandvars_aux f e r      (* "${" never closed: no match here *)
                  end
                else
                  let (name, rest) := span is_word r in
                  match name with
                  | [] => c :: expandvars_aux f e r
                  | _ => match env_get e name with
                         | Some v => v ++ expandvars_aux f e rest
                         | None => c :: name ++ expandvars_aux f e rest
                         end
                  end
            | [] => [c]
            end
          else c :: expandvars_aux f e r
      end
  end.
Definition expandvars (e : environ) (s : str) : str :=
  if contains ch_dollar s then expandvars_aux (S (length s)) e s else s.

(* ---- configparser (strict, delimiters '=' ':', comment prefixes '#' ';', no inline comments,
        empty_lines_in_values, optionxform = lower, interpolation=None) ------------------------------ *)
Definition skey := (str * str)%type.       (* (section name, option name) *)
Definition skey_eqb (a b : skey) : bool := str_eqb (fst a) (fst b) && str_eqb (snd a) (snd b).

Record ini_st := mk_ini {
  i_sect : option str;                     (* cursect / sectname; None before the first header *)
  i_opt : option str;                      (* optname *)
  i_indent : nat;                          (* indent_level *)
  i_store : list (skey * list str);        (* option -> list of value lines, all sections *)
  i_sects : list str                       (* self._sections (non-default sections seen) *)
}.
Definition ini_init : ini_st := mk_ini None None O [] [].

Definition default_sect : str := slit "DEFAULT".

(* SECTCRE.match(value):  \[ (?P<header>.+) \]  — header runs to the LAST ']' *)
Definition sect_header (v : str) : option str :=
  match v with
  | c :: r =>
      if c =? ch_lbr then
        match rpartition_on ch_rbr r with
        | (Some h, _) => if nonempty h then Some h else None
        | (None, _) => None
        end
      else None
  | [] => None
  end.

(* OPTCRE.match(value): option = text before the first '=' or ':' (right-stripped), value = rest *)
Definition is_delim (c : N) : bool := (c =? ch_eq) || (c =? ch_colon).
Definition opt_match (v : str) : option (str * str) :=
  match break_on is_delim v with
  | (name, Some (_, rest)) => Some (rstrip name, strip rest)
  | (_, None) => None
  end.

(* the option currently open for continuation lines: optname must be truthy *)
Definition open_opt (st : ini_st) : option skey :=
  match i_sect st, i_opt st with
  | Some sn, Some (c :: o) => Some (sn, c :: o)
  | _, _ => None
  end.

Definition store_append (st : ini_st) (k : skey) (v : str) : ini_st :=
  match al_get skey_eqb (i_store st) k with
  | Some vs => mk_ini (i_sect st) (i_opt st) (i_indent st) (al_set skey_eqb (i_store st) k (vs ++ [v])) (i_sects st)
  | None => st
  end.

Definition is_comment_line (stripped : str) : bool :=
  starts_with [ch_hash] stripped || starts_with [ch_semi] stripped.

(* a line that is not a continuation: section header, option, or neither (ParsingError).
   A ParsingError is only recorded and raised after the last line; nothing else observable happens
   in between (every other raise is a configparser.Error too), so the model raises at once. *)
Definition ini_item (st : ini_st) (cur : nat) (value : str) : res ini_st :=
  match sect_header value with
  | Some name =>
      if existsb (str_eqb name) (i_sects st) then Err EConfig                 (* DuplicateSectionError *)
      else if str_eqb name default_sect
      then Ok (mk_ini (Some name) None cur (i_store st) (i_sects st))
      else Ok (mk_ini (Some name) None cur (i_store st) (i_sects st ++ [name]))
  | None =>
      match i_sect st with
      | None => Err EConfig                                                  (* MissingSectionHeaderError *)
      | Some sn =>
          match opt_match value with
          | None => Err EConfig                                              (* ParsingError *)
          | Some (name, val) =>
              if negb (nonempty name) then Err EConfig                       (* ParsingError: empty option name *)
              else
                let name' := lower name in                                   (* optionxform *)
                if al_mem skey_eqb (i_store st) (sn, name') then Err EConfig (* DuplicateOptionError *)
                else Ok (mk_ini (Some sn) (Some name') cur
                                (al_set skey_eqb (i_store st) (sn, name') [val]) (i_sects st))
          end
      end
  end.

(* one iteration of RawConfigParser._read *)
Definition ini_step (st : ini_st) (line : str) : res ini_st :=
  let stripped := strip line in
  let comment := is_comment_line stripped in
  let value := if comment then [] else stripped in
  match value with
  | [] =>
      if comment then Ok st
      else match open_opt st with
           | Some k => Ok (store_append st k [])      (* empty line inside a value *)
           | None => Ok st
           end
  | _ :: _ =>
      let cur := count_while is_space line in
      match open_opt st with
      | Some k => if Nat.ltb (i_indent st) cur then Ok (store_append st k value)   (* continuation line *)
                  else ini_item st cur value
      | None => ini_item st cur value
      end
  end.

Fixpoint ini_lines (st : ini_st) (ls : list str) : res ini_st :=
  match ls with
  | [] => Ok st
  | l :: r => do st' <- ini_step st l ;; ini_lines st' r
  end.

(* _join_multiline_values: '\n'.join(lines).rstrip() *)
Definition join_value (vs : list str) : str := rstrip (join_with ch_nl vs).

Fixpoint defaults_of (store : list (skey * list str)) : list (str * str) :=
  match store with
  | [] => []
  | ((sn, o), vs) :: r =>
      if str_eqb sn default_sect then (o, join_value vs) :: defaults_of r else defaults_of r
  end.

(* parser.read_string(text) then the mapping parser['DEFAULT'] *)
Definition ini_read (text : str) : res (list (str * str)) :=
  do st <- ini_lines ini_init (py_lines text) ;; Ok (defaults_of (i_store st)).

(* parser['DEFAULT'][key] : None = KeyError (caught by the caller) *)
Definition ini_get (d : list (str * str)) (key : str) : option str := al_get str_eqb d (lower key).

(* ---- ipaddress: is this the text of an IPv6 address (ipaddress.IPv6Address accepts it)? ------------- *)
(* IPv4Address: exactly four decimal octets, 1..3 ASCII digits, no leading zero unless "0", <= 255 *)
Definition dec_of (s : str) : N := fold_left (fun a c => a * 10 + (c - 48)) s 0.
Definition ipv4_octet_ok (s : str) : bool :=
  nonempty s && forallb is_digit s && Nat.leb (length s) 3
  && (match s with 48 :: _ :: _ => false | _ => true end) && (dec_of s <=? 255).
Definition is_ipv4 (s : str) : bool :=
  let parts := split_on ch_dot s in
  Nat.eqb (length parts) 4 && forallb ipv4_octet_ok parts.

Definition hextet_ok (s : str) : bool := forallb is_hex s && Nat.leb (length s) 4.

(* number of empty pieces strictly between the first and the last piece, and the index of the first *)
Fixpoint inner_empty (i : nat) (parts : list str) : list nat :=
  match parts with
  | [] => []
  | [_] => []
  | p :: r => (if nonempty p then [] else [i]) ++ inner_empty (S i) r
  end.

Definition is_ipv6_noscope (s : str) : bool :=
  if negb (nonempty s) then false else
  let parts0 := split_on ch_colon s in
  if Nat.ltb (length parts0) 3 then false else
  let lastp := last parts0 [] in
  (* an IPv4 suffix counts as two hextets *)
  let v4 := contains ch_dot lastp in
  if v4 && negb (is_ipv4 lastp) then false else
  let parts := if v4 then removelast parts0 ++ [slit "0"; slit "0"] else parts0 in
  let n := length parts in
  if Nat.ltb 9 n then false else
  match parts with
  | [] => false
  | first :: rest =>
      let lastq := last parts [] in
      match inner_empty 1 rest with
      | _ :: _ :: _ => false                                   (* at most one '::' *)
      | [k] =>
          let hi := (if nonempty first then k else k - 1)%nat in
          let lo := (if nonempty lastq then n - k - 1 else n - k - 2)%nat in
          if negb (nonempty first) && negb (Nat.eqb hi 0) then false
          else if negb (nonempty lastq) && negb (Nat.eqb lo 0) then false
          else if Nat.ltb (8 - (hi + lo)) 1 then false
          else forallb hextet_ok parts
      | [] =>
          Nat.eqb n 8 && nonempty first && nonempty lastq && forallb (fun p => nonempty p && hextet_ok p) parts
      end
  end.

(* IPv6Address(text): optional %scope (non-empty, no second '%'; 3.12 has no further scope check) *)
Definition is_ipv6 (s : str) : bool :=
  match partition_on ch_pct s with
  | (a, None) => is_ipv6_noscope a
  | (a, Some scope) => nonempty scope && negb (contains ch_pct scope) && is_ipv6_noscope a
  end.

(* urllib.parse._check_bracketed_host *)
Definition bracketed_host_ok (h : str) : bool :=
  match h with
  | 118 :: r =>                                                  (* 'v': IPvFuture  v[hex]+\..+ *)
      let (hx, rest) := span is_hex r in
      nonempty hx && (match rest with 46 :: _ :: _ => negb (contains ch_nl rest) | _ => false end)
  | _ => is_ipv6 h
  end.

(* ---- urllib.parse.urlsplit + SplitResult.hostname/.port (CPython 3.12) ------------------------------ *)
Record url := mk_url { u_scheme : str; u_netloc : str; u_path : str }.

Definition is_scheme_char (c : N) : bool := is_alpha c || is_digit c || (c =? 43) || (c =? 45) || (c =? 46).
Definition is_c0_or_space (c : N) : bool := c <=? 32.
Definition is_unsafe (c : N) : bool := (c =? 9) || (c =? 10) || (c =? 13).
Definition is_netloc_end (c : N) : bool := (c =? ch_slash) || (c =? ch_q) || (c =? ch_hash).

(* (py) the bracket checks of urlsplit: "Invalid IPv6 URL" and _check_bracketed_host *)
Definition netloc_brackets_ok (netloc : str) : bool :=
  let lb := contains ch_lbr netloc in
  let rb := contains ch_rbr netloc in
  if (lb && negb rb) || (rb && negb lb) then false
  else if lb && rb then
    bracketed_host_ok (match partition_on ch_lbr netloc with
                       | (_, Some a) => fst (partition_on ch_rbr a)
                       | (_, None) => []
                       end)
  else true.

(* [nfkc_bad netloc]: urllib.parse._checknetloc raises for this (non-ASCII) netloc — unicodedata is an
   external component; the harness supplies CPython's own answer *)
Definition urlsplit (nfkc_bad : str -> bool) (u0 : str) : res url :=
  let u1 := filter (fun c => negb (is_unsafe c)) (lstrip_by is_c0_or_space u0) in
  let (scheme, u2) :=
    match partition_on ch_colon u1 with
    | (c :: s, Some rest) =>
        if is_alpha c && forallb is_scheme_char (c :: s) then (lower (c :: s), rest) else ([], u1)
    | _ => ([], u1)
    end in
  do nr <- match u2 with
           | 47 :: 47 :: r =>
               let (netloc, tail) := break_on is_netloc_end r in
               let rest := match tail with Some (c, t) => c :: t | None => [] end in
               if netloc_brackets_ok netloc then Ok (netloc, rest) else Err EValue
           | _ => Ok ([], u2)
           end ;;
  let (netloc, u3) := nr in
  let u4 := fst (partition_on ch_hash u3) in
  let u5 := fst (partition_on ch_q u4) in
  if negb (is_ascii netloc) && nfkc_bad netloc then Err EValue else Ok (mk_url scheme netloc u5).

(* _hostinfo *)
Definition hostinfo (netloc : str) : str * option str :=
  let hi := snd (rpartition_on ch_at netloc) in
  let (hostname, port) :=
    match partition_on ch_lbr hi with
    | (_, Some bracketed) =>
        match partition_on ch_rbr bracketed with
        | (h, Some after) => (h, match partition_on ch_colon after with (_, Some p) => p | (_, None) => [] end)
        | (h, None) => (h, [])
        end
    | (_, None) =>
        match partition_on ch_colon hi with
        | (h, Some p) => (h, p)
        | (h, None) => (h, [])
        end
    end in
  (hostname, if nonempty port then Some port else None).

(* .hostname : None when empty; lower-cased up to a '%' zone *)
Definition url_hostname (netloc : str) : option str :=
  match fst (hostinfo netloc) with
  | [] => None
  | h => match partition_on ch_pct h with
         | (a, Some z) => Some (lower a ++ ch_pct :: z)
         | (a, None) => Some (lower a)
         end
  end.

(* .port : ValueError unless ASCII digits and <= 65535 *)
Definition url_port (netloc : str) : res (option N) :=
  match snd (hostinfo netloc) with
  | None => Ok None
  | Some p => if forallb is_digit p then
                let v := dec_of p in if v <=? 65535 then Ok (Some v) else Err EValue
              else Err EValue
  end.

(* ---- what default_face constructs: class and the attributes set on it ----------------------------- *)
Inductive face :=
| FUnix (path : str)
| FTcp (host : str) (port : N)
| FUdp (host : option str) (port : N).

Definition unix_default_path : str := slit "/run/nfd.sock".     (* UnixFace.path class attribute *)
Definition tcp_default_host : str := slit "127.0.0.1".          (* TcpFace.host class attribute *)
Definition default_port : N := 6363.

