(* C20 — executable model of src/ndn/client_conf.py (read_client_conf with its nested get_path and
   resolve_location, default_keychain, default_face) and of the Linux branch of
   src/ndn/platform/{general,linux}.py, as of fix/C20 (split(':', 1) in resolve_location,
   ConfigParser(interpolation=None)).  The outside world is an explicit record: os.path.exists is
   a predicate on path strings, file contents and os.environ are association lists.
   Definitions only — no proofs here.  Faithful, not tidy. *)
From NDN Require Import Base.Prelude Base.Text Model.ConfBase.
From Coq Require Strings.String Strings.Ascii.
Import Coq.Strings.String.StringSyntax Coq.Strings.Ascii.AsciiSyntax.
Local Open Scope N_scope.

(* ---- the world ------------------------------------------------------------------------------------ *)
Record world := mk_world {
  w_env : environ;                       (* os.environ *)
  w_exists : str -> bool;                (* os.path.exists *)
  w_files : list (str * res str);        (* open(path).read(): text, or the error class open/read raises *)
  w_pwdir : str                          (* pwd.getpwuid(os.getuid()).pw_dir, used when HOME is unset *)
}.

Definition read_file (w : world) (p : str) : res str :=
  match al_get str_eqb (w_files w) p with
  | Some r => r
  | None => Err EOSError                 (* FileNotFoundError *)
  end.

(* (py) posixpath.expanduser("~" ++ tail) with tail starting with '/': HOME (or pw_dir), trailing
   slashes stripped, then tail *)
Definition user_home (w : world) : str :=
  rstrip_char ch_slash (match env_get (w_env w) (slit "HOME") with Some h => h | None => w_pwdir w end).

(* ---- ndn.platform.linux.Linux ---------------------------------------------------------------------- *)
Record platform := mk_platform {
  client_conf_paths : list str;
  default_transport : str;
  default_pib_scheme : str;
  default_pib_paths : list str;
  default_tpm_scheme : str;
  default_tpm_paths : list str
}.

Definition linux_default_transport (ex : str -> bool) : str :=
  if negb (ex (slit "/run/nfd/nfd.sock")) && ex (slit "/run/nfd.sock")
  then slit "unix:///run/nfd.sock" else slit "unix:///run/nfd/nfd.sock".

Definition linux_platform (home : str) (ex : str -> bool) : platform :=
  {| client_conf_paths := [home ++ slit "/.ndn/client.conf"; slit "/usr/local/etc/ndn/client.conf";
                           slit "/opt/local/etc/ndn/client.conf"; slit "/etc/ndn/client.conf"];
     default_transport := linux_default_transport ex;
     default_pib_scheme := slit "pib-sqlite3";
     default_pib_paths := [home ++ slit "/.ndn"];
     default_tpm_scheme := slit "tpm-file";
     default_tpm_paths := [home ++ slit "/.ndn/ndnsec-key-file"] |}.

Definition the_platform (w : world) : platform := linux_platform (user_home w) (w_exists w).

(* ---- client_conf.read_client_conf ------------------------------------------------------------------ *)
Inductive item := Pib | Tpm.

Record conf := mk_conf { c_transport : str; c_pib : str; c_tpm : str }.

Definition key_transport := slit "transport".
Definition key_pib := slit "pib".
Definition key_tpm := slit "tpm".
Definition env_name (key : str) : str := slit "NDN_CLIENT_" ++ upper key.

(* first p in paths (after expandvars) that exists *)
Fixpoint first_existing (w : world) (paths : list str) : option str :=
  match paths with
  | [] => None
  | p :: r => let p' := expandvars (w_env w) p in
              if w_exists w p' then Some p' else first_existing w r
  end.

(* get_path(): '' when no candidate exists *)
Definition get_path (w : world) : str :=
  match first_existing w (client_conf_paths (the_platform w)) with Some p => p | None => [] end.

(* (py) resolve_location(item, value); [path] is get_path()'s result ('' is not None, so the
   "path is not None" test is always true).  split(':', 1) after fix C20-loc-colon. *)
Definition resolve_location (w : world) (path : str) (it : item) (value : str) : res str :=
  let (scheme, loc) := match partition_on ch_colon value with
                       | (a, Some b) => (a, b)
                       | (a, None) => (a, [])
                       end in
  let loc1 :=
    if negb (nonempty loc) || negb (w_exists w loc) then
      let loc' := if nonempty loc then path_join (path_dirname path) loc else loc in
      if negb (nonempty loc') || negb (w_exists w loc') then
        let paths := match it with
                     | Pib => default_pib_paths (the_platform w)
                     | Tpm => default_tpm_paths (the_platform w)
                     end in
        match first_existing w paths with Some p => p | None => loc' end
      else loc'
    else loc in
  Ok (scheme ++ ch_colon :: loc1).

Definition overlay (o : option str) (dflt : str) : str := match o with Some v => v | None => dflt end.

Definition read_client_conf (w : world) : res conf :=
  let P := the_platform w in
  let path := get_path w in
  let t0 := default_transport P in
  let p0 := default_pib_scheme P in
  let m0 := default_tpm_scheme P in
  do file <- (if nonempty path
              then do text <- read_file w path ;;
                   do d <- ini_read (slit "[DEFAULT]" ++ ch_nl :: text) ;; Ok d
              else Ok []) ;;
  let t1 := overlay (ini_get file key_transport) t0 in
  let p1 := overlay (ini_get file key_pib) p0 in
  let m1 := overlay (ini_get file key_tpm) m0 in
  let t2 := overlay (env_get (w_env w) (env_name key_transport)) t1 in
  let p2 := overlay (env_get (w_env w) (env_name key_pib)) p1 in
  let m2 := overlay (env_get (w_env w) (env_name key_tpm)) m1 in
  do p3 <- resolve_location w path Pib p2 ;;
  do m3 <- resolve_location w path Tpm m2 ;;
  Ok (mk_conf t2 p3 m3).

(* ---- client_conf.default_keychain (Linux) ---------------------------------------------------------- *)
(* returns (path handed to KeychainSqlite3, path handed to TpmFile) *)
Definition default_keychain (pib tpm : str) : res (str * str) :=
  match partition_on ch_colon pib with
  | (_, None) => Err EValue                                   (* not enough values to unpack *)
  | (pib_scheme, Some pib_loc) =>
      match partition_on ch_colon tpm with
      | (_, None) => Err EValue
      | (tpm_scheme, Some tpm_loc) =>
          if str_eqb tpm_scheme (slit "tpm-file") then
            if str_eqb pib_scheme (slit "pib-sqlite3")
            then Ok (path_join pib_loc (slit "pib.db"), tpm_loc)
            else Err EValue
          else if str_eqb tpm_scheme (slit "tpm-osxkeychain") || str_eqb tpm_scheme (slit "tpm-cng")
          then Err ENameError
          else Err EValue
      end
  end.

(* ---- client_conf.default_face ----------------------------------------------------------------------- *)
Definition scheme_in (s : str) (l : list str) : bool := existsb (str_eqb s) l.

Definition default_face (nfkc_bad : str -> bool) (uri : str) : res face :=
  do u <- urlsplit nfkc_bad uri ;;
  if str_eqb (u_scheme u) (slit "unix") then
    Ok (FUnix (if nonempty (u_path u) then u_path u else unix_default_path))       (* UnixFace: "if path:" *)
  else
    let host := url_hostname (u_netloc u) in
    do port <- url_port (u_netloc u) ;;
    let port' := match port with Some 0 => default_port | Some p => p | None => default_port end in  (* "if not port" *)
    if scheme_in (u_scheme u) [slit "tcp"; slit "tcp4"; slit "tcp6"] then
      Ok (FTcp (match host with Some (c :: h) => c :: h | _ => tcp_default_host end) port')  (* TcpFace: "if host:" *)
    else if scheme_in (u_scheme u) [slit "udp"; slit "udp4"; slit "udp6"] then
      Ok (FUdp host port')
    else Err EValue.
