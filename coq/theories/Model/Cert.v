(* Certificate issuance: new_cert / self_sign / sign_req / derive_cert (app_support/security_v2.py).

   new_cert is make_data on the descriptor CertificateV2Value (reflected from the source on this run,
   Generated/Schemas.v) with three things of its own: the name key-name / issuer-id / version, the
   ValidityPeriod put into the SignatureInfo next to what the signer writes, and a hand-written outer
   Data TLV assembled after signing from the value buffer minus the unused tail of the reserved
   signature space.  The constants and literals (ContentType.KEY, freshness, strftime formats, issuer
   components, 20 years / 10 days / 1970-01-01) come from Generated/ConstsCert.v.

   Time: a datetime is its broken-down fields plus utcoffset() (None = naive).  strftime is interpreted
   from the format string of the source; datetime arithmetic (timedelta addition, astimezone(UTC)) is
   proleptic-Gregorian day counting.  Microseconds never influence the formatted fields and are left out. *)
From NDN Require Import Base.Prelude Base.Text Model.TlvVar Model.Name Model.Tlv Model.Packet Model.PacketEnc.
From NDN Require Import Generated.Schemas Generated.ConstsCert.
Local Open Scope N_scope.

(* ---- broken-down time ----------------------------------------------------------------------------- *)
Record bdt := { t_year : N; t_mon : N; t_day : N; t_hour : N; t_min : N; t_sec : N }.

(* datetime: fields as seen by .year/.month/...; utcoffset() in seconds, None for a naive datetime *)
Record atime := { a_fields : bdt; a_offset : option Z }.

Definition MINYEAR : Z := 1.
Definition MAXYEAR : Z := 9999.

(* days since 1970-01-01 of a proleptic Gregorian date, and back *)
Definition days_from_civil (y m d : Z) : Z :=
  (let y' := if m <=? 2 then y - 1 else y in
   let era := y' / 400 in
   let yoe := y' - era * 400 in
   let mp := if 2 <? m then m - 3 else m + 9 in
   let doy := (153 * mp + 2) / 5 + d - 1 in
   let doe := yoe * 365 + yoe / 4 - yoe / 100 + doy in
   era * 146097 + doe - 719468)%Z.

Definition civil_from_days (z : Z) : Z * Z * Z :=
  (let z' := z + 719468 in
   let era := z' / 146097 in
   let doe := z' - era * 146097 in
   let yoe := (doe - doe / 1460 + doe / 36524 - doe / 146096) / 365 in
   let doy := doe - (365 * yoe + yoe / 4 - yoe / 100) in
   let mp := (5 * doy + 2) / 153 in
   let d := doy - (153 * mp + 2) / 5 + 1 in
   let m := if mp <? 10 then mp + 3 else mp - 9 in
   (yoe + era * 400 + (if m <=? 2 then 1 else 0), m, d))%Z.

(* seconds since 1970-01-01T00:00:00 of the fields read as UTC *)
Definition bdt_to_secs (t : bdt) : Z :=
  (days_from_civil (Z.of_N (t_year t)) (Z.of_N (t_mon t)) (Z.of_N (t_day t)) * 86400
   + Z.of_N (t_hour t) * 3600 + Z.of_N (t_min t) * 60 + Z.of_N (t_sec t))%Z.

(* the datetime with that many seconds; OverflowError outside years 1..9999 *)
Definition secs_to_bdt (s : Z) : res bdt :=
  (let days := s / 86400 in
   let r := s - days * 86400 in
   let '(y, m, d) := civil_from_days days in
   if (y <? MINYEAR) || (MAXYEAR <? y) then Err EOverflow
   else Ok {| t_year := Z.to_N y; t_mon := Z.to_N m; t_day := Z.to_N d;
              t_hour := Z.to_N (r / 3600); t_min := Z.to_N (r mod 3600 / 60); t_sec := Z.to_N (r mod 60) |})%Z.

(* t + timedelta(seconds=s); |days| of a timedelta is bounded by 999999999 *)
Definition add_seconds (t : bdt) (s : Z) : res bdt :=
  (if (s / 86400 <? -999999999) || (999999999 <? s / 86400) then Err EOverflow
   else secs_to_bdt (bdt_to_secs t + s))%Z.

(* t.astimezone(UTC) for an aware datetime (identity when it already is UTC), t itself when naive *)
Definition to_utc (a : atime) : res bdt :=
  match a_offset a with
  | None => Ok (a_fields a)
  | Some o => if (o =? 0)%Z then Ok (a_fields a) else secs_to_bdt (bdt_to_secs (a_fields a) - o)
  end.

Definition is_leap (y : N) : bool := ((y mod 4 =? 0) && negb (y mod 100 =? 0)) || (y mod 400 =? 0).

(* t.replace(year=y): ValueError when the year is out of range or the day does not exist in that year *)
Definition replace_year (t : bdt) (y : N) : res bdt :=
  if (y <? 1) || (9999 <? y) then Err EValue
  else if (t_mon t =? 2) && (t_day t =? 29) && negb (is_leap y) then Err EValue
  else Ok {| t_year := y; t_mon := t_mon t; t_day := t_day t; t_hour := t_hour t; t_min := t_min t; t_sec := t_sec t |}.

(* ---- strftime, for the directives the source uses ---------------------------------------------------- *)
Definition pad2 (n : N) : str := if n <? 10 then 48 :: dec_print n else dec_print n.

(* %Y is not zero-padded by the C library used here: years below 1000 print with fewer than 4 digits *)
Definition directive (d : N) (t : bdt) : res str :=
  if d =? 89 (* Y *) then Ok (dec_print (t_year t))
  else if d =? 109 (* m *) then Ok (pad2 (t_mon t))
  else if d =? 100 (* d *) then Ok (pad2 (t_day t))
  else if d =? 72 (* H *) then Ok (pad2 (t_hour t))
  else if d =? 77 (* M *) then Ok (pad2 (t_min t))
  else if d =? 83 (* S *) then Ok (pad2 (t_sec t))
  else if d =? 37 (* % *) then Ok [37]
  else Err (EOther 16).   (* a directive outside the modelled subset *)

Fixpoint strftime (f : str) (t : bdt) : res str :=
  match f with
  | [] => Ok []
  | c :: r =>
      if c =? 37 then
        match r with
        | d :: r' => do x <- directive d t ;; do y <- strftime r' t ;; Ok (x ++ y)
        | [] => Ok [37]
        end
      else do y <- strftime r t ;; Ok (c :: y)
  end.

(* ---- new_cert ------------------------------------------------------------------------------------------ *)
(* what the signer contributes: the five SignatureInfo fields as write_signature_info leaves them
   (type, key locator, nonce, time, sequence number) and get_signature_value_size() *)
Record signer_in := { sg_written : list value; sg_reserved : N }.

Record cert_in := {
  c_key_name : ns_name;          (* any NonStrictName form *)
  c_issuer : bytes;              (* issuer-id component *)
  c_now : Z;                     (* timestamp() *)
  c_pub : bytes;                 (* public key bits *)
  c_signer : option signer_in;
  c_start : atime; c_end : atime }.

Definition unwritten : list value := [VNone; VNone; VNone; VNone; VNone].

Definition cert_meta : value := VModel [vuint cert_content_type; vuint cert_freshness; VNone].

(* CertificateV2SignatureInfo: SignatureInfo fields, ValidityPeriod, (absent) extension *)
Definition cert_siginfo (written : list value) (nb na : bytes) : value :=
  VModel (written ++ [VModel [VBytes nb; VBytes na]; VNone]).

(* the SignatureValue element as it stands in the value buffer after signing: Type, the Length octet(s)
   written for the reserved size with the first octet overwritten by the real length when that is
   shorter, the signature, and the unused rest of the reserved space *)
Definition sigvalue_buffer (reserved : N) (sv : bytes) : bytes :=
  tl_enc T_SIG_VALUE
  ++ (if N.of_nat (length sv) =? reserved then tl_enc reserved else [N.of_nat (length sv)])
  ++ sv ++ repeat 0 (N.to_nat (reserved - N.of_nat (length sv))).

(* the outer Data TLV, written by hand around value[0 : len(value) - shrink] *)
Definition assemble_outer (value : bytes) (shrink : nat) : res bytes :=
  let n := (length value - shrink)%nat in
  do l <- tl_enc_r (N.of_nat n) ;;
  Ok (tl_enc TN_DATA ++ l ++ firstn n value).

Section WithSigner.
Variable sign : bytes -> bytes.   (* what write_signature_value writes for the bytes it is given *)

(* DataPacketValue.encode with the signer: the value buffer after signing, and the number of reserved
   signature octets that were not used (shrink_len) *)
Definition signed_value (fs : list field) (sg : option signer_in) (covered : bytes) : res (bytes * nat) :=
  match sg with
  | None => Ok (covered, O)
  | Some s =>
      match kind_of fs T_SIG_VALUE with
      | Some (KBytes _) =>
          let sv := sign covered in
          do _ <- check_sig_len (sg_reserved s) sv ;;
          Ok (covered ++ sigvalue_buffer (sg_reserved s) sv, N.to_nat (sg_reserved s - N.of_nat (length sv)))
      | _ => Err EType
      end
  end.

Definition cert_name (a : cert_in) : res (list bytes) :=
  do kn <- name_normalize (c_key_name a) ;;
  do ver <- comp_from_number (c_now a) TYPE_VERSION ;;
  Ok (kn ++ [c_issuer a; ver]).

Definition new_cert (a : cert_in) : res made :=
  let fs := security_v2_CertificateV2Value in
  do name <- cert_name a ;;
  do t0 <- to_utc (c_start a) ;;
  do t1 <- to_utc (c_end a) ;;
  do nb <- strftime not_before_format t0 ;;
  do na <- strftime not_after_format t1 ;;
  let written := match c_signer a with Some s => sg_written s | None => unwritten end in
  let s_name := name_encode name in
  do s_meta <- enc_by fs T_META_INFO cert_meta ;;
  do s_content <- enc_by fs T_CONTENT (VBytes (c_pub a)) ;;
  do s_info <- enc_by fs T_SIG_INFO (cert_siginfo written nb na) ;;
  let covered := s_name ++ s_meta ++ s_content ++ s_info in
  do vs <- signed_value fs (c_signer a) covered ;;
  do w <- assemble_outer (fst vs) (snd vs) ;;
  Ok {| m_wire := w; m_final_name := name; m_sig_covered := covered; m_digest_covered := [] |}.

(* ---- the three callers ------------------------------------------------------------------------------------ *)
Definition mk_bdt (l : list N) : bdt :=
  {| t_year := nth 0 l 0; t_mon := nth 1 l 0; t_day := nth 2 l 0;
     t_hour := nth 3 l 0; t_min := nth 4 l 0; t_sec := nth 5 l 0 |}.

Definition utc (t : bdt) : atime := {| a_fields := t; a_offset := Some 0%Z |}.
Definition naive (t : bdt) : atime := {| a_fields := t; a_offset := None |}.

(* self_sign(key_name, pub_key, signer); [now] = datetime.now(UTC) *)
Definition self_sign (key_name : ns_name) (pub : bytes) (sg : option signer_in) (ts : Z) (now : bdt) : res made :=
  do e <- replace_year now (t_year now + self_sign_years) ;;
  new_cert {| c_key_name := key_name; c_issuer := SELF_COMPONENT; c_now := ts; c_pub := pub; c_signer := sg;
              c_start := naive (mk_bdt self_sign_start); c_end := utc e |}.

(* sign_req(key_name, pub_key, signer): the clock is read twice; the end counts from the first reading,
   the start is the second *)
Definition sign_req (key_name : ns_name) (pub : bytes) (sg : option signer_in) (ts : Z) (now1 now2 : bdt) : res made :=
  do e <- add_seconds now1 (Z.of_N sign_req_seconds) ;;
  new_cert {| c_key_name := key_name; c_issuer := SIGN_REQ_COMPONENT; c_now := ts; c_pub := pub; c_signer := sg;
              c_start := utc now2; c_end := utc e |}.

Inductive issuer_in := IssText (s : str) | IssComp (c : bytes).

(* isinstance(issuer_id, str) -> Component.from_str(issuer_id) *)
Definition issuer_comp (iss : issuer_in) : res bytes :=
  match iss with IssText s => comp_from_str s | IssComp c => Ok c end.

(* derive_cert(key_name, issuer_id, pub_key, signer, start_time, expire_sec), whole seconds, fixed-offset zone *)
Definition derive_cert (key_name : ns_name) (iss : issuer_in) (pub : bytes) (sg : option signer_in) (ts : Z)
           (start : atime) (expire : Z) : res made :=
  do e <- add_seconds (a_fields start) expire ;;
  do ic <- issuer_comp iss ;;
  new_cert {| c_key_name := key_name; c_issuer := ic; c_now := ts; c_pub := pub; c_signer := sg;
              c_start := start; c_end := {| a_fields := e; a_offset := a_offset start |} |}.

End WithSigner.

(* the values a decoder is expected to return for an issued certificate (descriptor order) *)
Definition cert_values (name : list bytes) (pub : bytes) (written : list value) (nb na : bytes)
           (sigval : option bytes) : list value :=
  [VName name; cert_meta; VBytes pub; cert_siginfo written nb na; vbytes sigval].
