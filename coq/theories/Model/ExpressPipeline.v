(* C03 / C05 — operational model of the Interest/Data pipeline of ndn.appv2.NDNApp (V2) and the legacy
   ndn.app.NDNApp + ndn.name_tree (V1), on DECODED events (the TLV codec is modelled elsewhere).
   It models the library as repaired on branch fix/C03 (docs/C03.md lists the defects and commits).

   What mirrors what:
     express_raw_interest               -> [do_express]   (setdefault of the PIT node; the waiter captures the node identity)
     _wait_for_data                     -> [do_await], [fire] (Timeout._on_timeout), [ws_rec] + [cleaning] (resumption, clean-up)
     _on_data + InterestTreeNode.satisfy-> [do_data] with [data_hit] (prefix walk, CanBePrefix / implicit digest test, clean list)
     PendingIntEntry.satisfy (V2)       -> [sat_rec] (task creation), [sv_rec], [finish_validation] (done-guard, verdict mapping)
     name_tree satisfy (V1)             -> [sat_rec] (set_result under the done-guard)
     _on_nack + nack_interest           -> [do_nack] with [nack_hit], [nack_rec] (done-guard)
     InterestTreeNode.cancel/_clean_up  -> [do_shutdown]
     _on_interest                       -> [gate], [do_incoming]
     app.int_validator = v (legacy)     -> [do_setdefault]
   asyncio is the event alphabet: a future is an [fstate] with asyncio's rule that set_result/set_exception on a
   done future raises InvalidStateError ([fut_set], the error is collected in [errs]); a waiter is the task
   suspended in asyncio.wait_for with the semantics of CPython 3.12's timeouts.Timeout/Task.cancel:
   [i_tfired] = the timer callback ran (it cancels the awaited future if still pending), [i_xc] = an external
   Task.cancel() was requested; in Timeout.__aexit__ an external cancel wins over the timer.

   PIT nodes keep their identity; a waiter captures the identity of the node it was appended to ([i_node]) and its
   clean-up touches the PIT only if the node stored under its name still has that identity.  Nodes that have left
   the PIT are not stored (the repaired code never lets an operation on a detached node reach the PIT).
   Every operation is written in "batch" form: the set of PIT entries it hits, one pure function per Interest
   record, one filter over the PIT ([pit_map] drops the nodes that became empty, as the clean lists do).

   One event = one loop turn in phases (see [step]): timers due, synchronous part of the event, timers due, then
   the tasks and waiters made ready ([settle]).  Definitions only. *)
From NDN Require Import Base.Prelude Spec.ExpressSpec.
Local Open Scope N_scope.

(* ---- asyncio futures ---- *)
Inductive fstate := FPending | FResult (d : N) | FNack (r : N) | FInvalid (d v : N) | FCancelled.
Definition fdone (f : fstate) : bool := match f with FPending => false | _ => true end.
(* set_result / set_exception *)
Definition fut_set (f new : fstate) : res fstate := if fdone f then Err EInvalidState else Ok new.
(* Future.cancel() *)
Definition fut_cancel (f : fstate) : fstate := if fdone f then f else FCancelled.

(* the task running _wait_for_data; [WDone o t] = finished at virtual time t with result/exception o *)
Inductive wstate := WNotAwaited | WWaiting | WValidating (d : N) | WDone (o : outcome) (t : N).
Inductive vstate := VNone | VStart (d : N) | VInFlight (d : N) | VFinished.

Record entry := mkE { e_id : N; e_cbp : bool; e_dig : option N }.

Record irec := mkI {
  i_name : name; i_cbp : bool; i_dig : option N; i_life : N; i_deadline : N; i_vm : vmode;
  i_node : N;            (* identity of the InterestTreeNode captured by _wait_for_data *)
  i_fut : fstate;
  i_wait : wstate;
  i_timer : N;           (* absolute time of the wait_for timer *)
  i_tfired : bool;       (* Timeout._on_timeout ran *)
  i_xc : bool;           (* external Task.cancel() requested *)
  i_val : vstate }.      (* V2: the task running PendingIntEntry.satisfy *)

Definition set_fut (r : irec) (f : fstate) : irec :=
  mkI r.(i_name) r.(i_cbp) r.(i_dig) r.(i_life) r.(i_deadline) r.(i_vm) r.(i_node) f r.(i_wait) r.(i_timer)
      r.(i_tfired) r.(i_xc) r.(i_val).
Definition set_wait (r : irec) (w : wstate) : irec :=
  mkI r.(i_name) r.(i_cbp) r.(i_dig) r.(i_life) r.(i_deadline) r.(i_vm) r.(i_node) r.(i_fut) w r.(i_timer)
      r.(i_tfired) r.(i_xc) r.(i_val).
Definition set_timer (r : irec) (t : N) : irec :=
  mkI r.(i_name) r.(i_cbp) r.(i_dig) r.(i_life) r.(i_deadline) r.(i_vm) r.(i_node) r.(i_fut) r.(i_wait) t
      r.(i_tfired) r.(i_xc) r.(i_val).
Definition set_tfired (r : irec) (b : bool) : irec :=
  mkI r.(i_name) r.(i_cbp) r.(i_dig) r.(i_life) r.(i_deadline) r.(i_vm) r.(i_node) r.(i_fut) r.(i_wait) r.(i_timer)
      b r.(i_xc) r.(i_val).
Definition set_xc (r : irec) (b : bool) : irec :=
  mkI r.(i_name) r.(i_cbp) r.(i_dig) r.(i_life) r.(i_deadline) r.(i_vm) r.(i_node) r.(i_fut) r.(i_wait) r.(i_timer)
      r.(i_tfired) b r.(i_val).
Definition set_val (r : irec) (v : vstate) : irec :=
  mkI r.(i_name) r.(i_cbp) r.(i_dig) r.(i_life) r.(i_deadline) r.(i_vm) r.(i_node) r.(i_fut) r.(i_wait) r.(i_timer)
      r.(i_tfired) r.(i_xc) v.

Definition pnode := (N * list entry)%type.          (* node identity, pending_list *)
Definition pit_t := list (name * pnode).

Record st := mkS {
  now : N; shut : bool; next_nid : N;
  pit : pit_t;
  ints : list (N * irec);
  face_out : list N;                       (* Interests put on the face, in order *)
  log : list (N * outcome * N);            (* completions of the awaitables: id, outcome, virtual time *)
  vcalls : list (N * N);                   (* Data validator invocations (interest, data) *)
  errs : list err;                         (* exceptions escaping _receive *)
  refused : list N;                        (* express() raised NetworkError (face not running) *)
  fib : list (name * (N * bool));          (* attached prefix -> (handler id, has validator) *)
  hcalls : list (N * inc);                 (* handler invocations: handler id, the Interest *)
  ivcalls : list N;                        (* invocations of an application-supplied validator for incoming Interests *)
  dflt : bool }.                           (* legacy app.int_validator: true = replaced by a validator of the application,
                                              false = the library default sha256_digest_checker *)

Definition init : st := mkS 0 false 0 [] [] [] [] [] [] [] [] [] [] false.

Definition set_now (s : st) (t : N) : st :=
  mkS t s.(shut) s.(next_nid) s.(pit) s.(ints) s.(face_out) s.(log) s.(vcalls) s.(errs) s.(refused) s.(fib) s.(hcalls) s.(ivcalls) s.(dflt).
Definition set_pit (s : st) (p : pit_t) : st :=
  mkS s.(now) s.(shut) s.(next_nid) p s.(ints) s.(face_out) s.(log) s.(vcalls) s.(errs) s.(refused) s.(fib) s.(hcalls) s.(ivcalls) s.(dflt).

Definition get_int (s : st) (i : N) : option irec := al_get N.eqb s.(ints) i.
Definition pit_get (p : pit_t) (n : name) : option pnode := al_get name_eqb p n.

(* ---- effects of one step of one Interest record ---- *)
Record eff := mkEff { f_rec : irec; f_errs : list err; f_vcalls : list (N * N); f_log : list (N * outcome * N) }.
Definition keep (r : irec) : eff := mkEff r [] [] [].
Definition only (r : irec) : eff := mkEff r [] [] [].

(* apply a per-record function to every Interest; collected effects are appended in record order *)
Definition upd_all (f : N -> irec -> eff) (s : st) : st :=
  mkS s.(now) s.(shut) s.(next_nid) s.(pit)
      (map (fun kr : N * irec => (fst kr, (f (fst kr) (snd kr)).(f_rec))) s.(ints))
      s.(face_out)
      (s.(log) ++ flat_map (fun kr : N * irec => (f (fst kr) (snd kr)).(f_log)) s.(ints))
      (s.(vcalls) ++ flat_map (fun kr : N * irec => (f (fst kr) (snd kr)).(f_vcalls)) s.(ints))
      (s.(errs) ++ flat_map (fun kr : N * irec => (f (fst kr) (snd kr)).(f_errs)) s.(ints))
      s.(refused) s.(fib) s.(hcalls) s.(ivcalls) s.(dflt).

Definition mem (i : N) (l : list N) : bool := existsb (N.eqb i) l.

(* ---- the PIT: a filter over all entries that drops the nodes left empty; the ids of the entries hit ---- *)
Definition nonempty (kv : name * pnode) : bool := match snd (snd kv) with [] => false | _ => true end.
Definition pit_map (kp : name -> N -> entry -> bool) (p : pit_t) : pit_t :=
  filter nonempty
    (map (fun kv : name * pnode => (fst kv, (fst (snd kv), filter (kp (fst kv) (fst (snd kv))) (snd (snd kv))))) p).
Definition pit_hits (hit : name -> N -> entry -> bool) (p : pit_t) : list N :=
  flat_map (fun kv : name * pnode => map e_id (filter (hit (fst kv) (fst (snd kv))) (snd (snd kv)))) p.

(* ---- express_raw_interest ---- *)
Definition do_express (fe : frontend) (s : st) (i : N) (n : name) (cbp : bool) (dig : option N) (life : N) (vm : vmode) : st :=
  if s.(shut) then
    mkS s.(now) s.(shut) s.(next_nid) s.(pit) s.(ints) s.(face_out) s.(log) s.(vcalls) s.(errs) (s.(refused) ++ [i]) s.(fib) s.(hcalls) s.(ivcalls) s.(dflt)
  else if al_mem N.eqb s.(ints) i then s
  else
    let e := mkE i cbp dig in
    let '(nid, l, nxt) := match pit_get s.(pit) n with
                          | Some (nid, l) => (nid, l, s.(next_nid))
                          | None => (s.(next_nid), [], s.(next_nid) + 1)
                          end in
    let r := mkI n cbp dig life (s.(now) + life) vm nid FPending WNotAwaited 0 false false VNone in
    mkS s.(now) s.(shut) nxt (al_set name_eqb s.(pit) n (nid, l ++ [e])) (s.(ints) ++ [(i, r)]) (s.(face_out) ++ [i])
        s.(log) s.(vcalls) s.(errs) s.(refused) s.(fib) s.(hcalls) s.(ivcalls) s.(dflt).

(* ---- _wait_for_data up to the suspension in wait_for ---- *)
Definition await_rec (fe : frontend) (nw : N) (r : irec) : irec :=
  match r.(i_wait) with
  | WNotAwaited =>
      (* both front-ends: the lifetime runs from express (absolute deadline fixed there); a result first awaited
         at or after the deadline gets a 100 ms allowance.  (The legacy front-end used to start the whole lifetime
         at the first await, [nw + i_life]: known finding C03-v1-lifetime-from-first-await, fixed by 949ef3c.) *)
      let tm := match fe with
                | V2 | V1 => if r.(i_deadline) <=? nw then nw + 100 else r.(i_deadline)
                end in
      set_timer (set_wait r WWaiting) tm
  | _ => r
  end.
Definition do_await (fe : frontend) (s : st) (j : N) : st :=
  upd_all (fun i r => if i =? j then only (await_rec fe s.(now) r) else keep r) s.

(* ---- _on_data: prefix walk; InterestTreeNode.satisfy decides per entry ---- *)
Definition entry_sat (pn n : name) (h : N) (e : entry) : bool :=
  (e.(e_cbp) || name_eqb pn n) && match e.(e_dig) with None => true | Some x => x =? h end.
Definition data_hit (n : name) (h : N) (pn : name) (nid : N) (e : entry) : bool :=
  is_prefix pn n && entry_sat pn n h e.
(* V2: a task running PendingIntEntry.satisfy is created.  V1: name_tree sets the future under the done-guard *)
Definition sat_rec (fe : frontend) (d : N) (r : irec) : eff :=
  match fe with
  | V2 => only (set_val r (VStart d))
  | V1 => if fdone r.(i_fut) then keep r
          else match fut_set r.(i_fut) (FResult d) with
               | Ok f => only (set_fut r f)
               | Err x => mkEff r [x] [] []
               end
  end.
Definition do_data (fe : frontend) (s : st) (d : N) (n : name) (h : N) : st :=
  let hits := pit_hits (data_hit n h) s.(pit) in
  let s1 := set_pit s (pit_map (fun pn nid e => negb (data_hit n h pn nid e)) s.(pit)) in
  upd_all (fun i r => if mem i hits then sat_rec fe d r else keep r) s1.

(* ---- _on_nack / nack_interest: exactly the entries with the nacked name (incl. implicit digest) ---- *)
Definition nack_hit (n : name) (dig : option N) (pn : name) (nid : N) (e : entry) : bool :=
  name_eqb pn n && odig_eqb e.(e_dig) dig.
Definition nack_rec (x : N) (r : irec) : eff :=
  if fdone r.(i_fut) then keep r
  else match fut_set r.(i_fut) (FNack x) with
       | Ok f => only (set_fut r f)
       | Err y => mkEff r [y] [] []
       end.
Definition do_nack (s : st) (n : name) (dig : option N) (x : N) : st :=
  let hits := pit_hits (nack_hit n dig) s.(pit) in
  let s1 := set_pit s (pit_map (fun pn nid e => negb (nack_hit n dig pn nid e)) s.(pit)) in
  upd_all (fun i r => if mem i hits then nack_rec x r else keep r) s1.

(* ---- PendingIntEntry.satisfy (V2): done-guard, verdict mapping ---- *)
Definition finish_validation (fe : frontend) (r : irec) (d v : N) : eff :=
  let r1 := set_val r VFinished in
  if fdone r.(i_fut) then only r1
  else match fut_set r.(i_fut) (if pass fe v then FResult d else FInvalid d (norm_verdict fe v)) with
       | Ok f => only (set_fut r1 f)
       | Err x => mkEff r1 [x] [] []
       end.
(* first step of the task: the validator is called *)
Definition sv_rec (fe : frontend) (i : N) (r : irec) : eff :=
  match r.(i_val) with
  | VStart d =>
      match r.(i_vm) with
      | VImm v => let e := finish_validation fe r d v in mkEff e.(f_rec) e.(f_errs) [(i, d)] []
      | VDef => mkEff (set_val r (VInFlight d)) [] [(i, d)] []
      end
  | _ => keep r
  end.

(* ---- resumption of the task running _wait_for_data ---- *)
(* does the resumption go through the timeout / cancel branch (which cleans the PIT)? *)
Definition wants_cleanup (r : irec) : bool :=
  match r.(i_wait) with
  | WWaiting => r.(i_xc) || r.(i_tfired) || match r.(i_fut) with FCancelled => true | _ => false end
  | _ => false
  end.
(* InterestTreeNode.timeout(future) on the captured node + "the PIT still holds that node" *)
Definition cleaning (l : list (N * irec)) (pn : name) (nid : N) (e : entry) : bool :=
  match al_get N.eqb l e.(e_id) with
  | Some r => wants_cleanup r && name_eqb r.(i_name) pn && (r.(i_node) =? nid)
  | None => false
  end.
Definition done (i : N) (r : irec) (o : outcome) (t : N) : eff := mkEff (set_wait r (WDone o t)) [] [] [(i, o, t)].
Definition ws_rec (fe : frontend) (nw : N) (i : N) (r : irec) : eff :=
  match r.(i_wait) with
  | WWaiting =>
      if r.(i_xc) then done i r OCancelled nw
      else if r.(i_tfired) then done i r OTimeout r.(i_timer)
      else match r.(i_fut) with
           | FPending => keep r
           | FCancelled => done i r OCancelled nw
           | FNack x => done i r (ONack x) nw
           | FInvalid d v => done i r (OInvalid d v) nw
           | FResult d =>
               match fe with
               | V2 => done i r (OGot d) nw
               | V1 =>
                   match r.(i_vm) with
                   | VImm v => mkEff (set_wait r (WDone (verdict_outcome fe d v) nw)) [] [(i, d)] [(i, verdict_outcome fe d v, nw)]
                   | VDef => mkEff (set_wait r (WValidating d)) [] [(i, d)] []
                   end
               end
           end
  | WValidating d => if r.(i_xc) then done i r OCancelled nw else keep r
  | _ => keep r
  end.

(* run everything that is ready: first the PendingIntEntry.satisfy tasks, then the woken waiters *)
Definition settle (fe : frontend) (s : st) : st :=
  let s1 := upd_all (sv_rec fe) s in
  let s2 := set_pit s1 (pit_map (fun pn nid e => negb (cleaning s1.(ints) pn nid e)) s1.(pit)) in
  upd_all (ws_rec fe s2.(now)) s2.

(* Timeout._on_timeout for every armed timer that is due *)
Definition timer_due (strict : bool) (bound : N) (r : irec) : bool :=
  match r.(i_wait) with
  | WWaiting => negb r.(i_tfired) && due strict r.(i_timer) bound
  | _ => false
  end.
Definition fire_rec (strict : bool) (bound : N) (r : irec) : irec :=
  if timer_due strict bound r then set_fut (set_tfired r true) (fut_cancel r.(i_fut)) else r.
Definition fire (strict : bool) (bound : N) (s : st) : st :=
  upd_all (fun _ r => only (fire_rec strict bound r)) s.

(* ---- VDone: the harness-owned future of a suspended validator completes ---- *)
Definition vdone_rec (fe : frontend) (nw : N) (i v : N) (r : irec) : eff :=
  match fe with
  | V2 => match r.(i_val) with VInFlight d => finish_validation fe r d v | _ => keep r end
  | V1 => match r.(i_wait) with
          | WValidating d => if r.(i_xc) then keep r else done i r (verdict_outcome fe d v) nw
          | _ => keep r
          end
  end.
Definition do_vdone (fe : frontend) (s : st) (j v : N) : st :=
  upd_all (fun i r => if i =? j then vdone_rec fe s.(now) i v r else keep r) s.

(* ---- Task.cancel() by the caller ---- *)
Definition cancel_rec (r : irec) : irec :=
  match r.(i_wait) with
  | WWaiting => set_fut (set_xc r true) (fut_cancel r.(i_fut))
  | WValidating _ => set_xc r true
  | _ => r
  end.
Definition do_cancel (s : st) (j : N) : st :=
  upd_all (fun i r => if i =? j then only (cancel_rec r) else keep r) s.

(* ---- face shutdown -> _clean_up: InterestTreeNode.cancel on every node, then the trie is cleared
   (the legacy front-end also clears its prefix tree) ---- *)
Definition do_shutdown (fe : frontend) (s : st) : st :=
  if s.(shut) then s
  else
    let hits := pit_hits (fun _ _ _ => true) s.(pit) in
    let s1 := upd_all (fun i r => if mem i hits then only (set_fut r (fut_cancel r.(i_fut))) else keep r) s in
    mkS s1.(now) true s1.(next_nid) [] s1.(ints) s1.(face_out) s1.(log) s1.(vcalls) s1.(errs) s1.(refused)
        (match fe with V2 => s1.(fib) | V1 => [] end) s1.(hcalls) s1.(ivcalls) s1.(dflt).

(* ---- incoming Interests (C05, second half) ---- *)
Definition lpm {V} (f : list (name * V)) (n : name) : option (name * V) :=
  fold_left (fun best kv =>
               if is_prefix (fst kv) n then
                 match best with
                 | Some b => if (length (fst b) <? length (fst kv))%nat then Some kv else best
                 | None => Some kv
                 end
               else best) f None.

Definition do_attach (s : st) (p : name) (hasv : bool) : st :=
  if al_mem name_eqb s.(fib) p then s
  else mkS s.(now) s.(shut) s.(next_nid) s.(pit) s.(ints) s.(face_out) s.(log) s.(vcalls) s.(errs) s.(refused)
           (s.(fib) ++ [(p, (N.of_nat (length s.(fib)), hasv))]) s.(hcalls) s.(ivcalls) s.(dflt).

(* ndn.security.validator.digest_validator.sha256_digest_checker on the decoded signature class:
   1 = DigestSha256 with a correct value, 2 = DigestSha256 with a wrong value, other = not DigestSha256 *)
Definition sha256_digest_checker (sig : N) : bool := negb (sig =? 2).

(* _on_interest: Some (handler, has route validator) = the handler is called.
   [dv] = the application-wide int_validator as it is NOW (legacy submit_interest:
   `validator = node.validator if node.validator else self.int_validator`, read when the Interest is dispatched);
   appv2 has no application-wide validator and never reads it. *)
Definition gate (fe : frontend) (dv : bool) (f : list (name * (N * bool))) (k : inc) : option (N * bool) :=
  match lpm f k.(k_name) with
  | None => None
  | Some (_, (h, hasv)) =>
      let sgn := negb (k.(k_sig) =? 0) in
      let sig_required := k.(k_params) || sgn in
      if sig_required && negb k.(k_digest_ok) then None
      else
        match fe with
        | V2 =>
            if sig_required then
              if hasv then (if pass V2 k.(k_verdict) then Some (h, hasv) else None)
              else None
            else Some (h, hasv)
        | V1 =>
            if sgn then
              if hasv then (if pass V1 k.(k_verdict) then Some (h, hasv) else None)
              else if dv then (if pass V1 k.(k_verdict) then Some (h, hasv) else None)
              else (if sha256_digest_checker k.(k_sig) then Some (h, hasv) else None)
            else Some (h, hasv)
        end
  end.
(* is a validator supplied by the application (the route's own, or the replaced application-wide one) invoked? *)
Definition gate_consults (fe : frontend) (dv : bool) (f : list (name * (N * bool))) (k : inc) : bool :=
  match lpm f k.(k_name) with
  | None => false
  | Some (_, (h, hasv)) =>
      let sgn := negb (k.(k_sig) =? 0) in
      let sig_required := k.(k_params) || sgn in
      if sig_required && negb k.(k_digest_ok) then false
      else match fe with V2 => hasv && sig_required | V1 => (hasv || dv) && sgn end
  end.

Definition do_incoming (fe : frontend) (s : st) (k : inc) : st :=
  let iv := if gate_consults fe s.(dflt) s.(fib) k then s.(ivcalls) ++ [k.(k_id)] else s.(ivcalls) in
  let hc := match gate fe s.(dflt) s.(fib) k with
            | Some (h, _) => s.(hcalls) ++ [(h, k)]
            | None => s.(hcalls)
            end in
  mkS s.(now) s.(shut) s.(next_nid) s.(pit) s.(ints) s.(face_out) s.(log) s.(vcalls) s.(errs) s.(refused) s.(fib) hc iv s.(dflt).

(* app.int_validator = ...: an attribute assignment; the routes are not touched (set_interest_filter stores only a
   validator given with the route).  It survives shutdown (_clean_up clears the tables, not the attribute). *)
Definition do_setdefault (s : st) (own : bool) : st :=
  mkS s.(now) s.(shut) s.(next_nid) s.(pit) s.(ints) s.(face_out) s.(log) s.(vcalls) s.(errs) s.(refused) s.(fib)
      s.(hcalls) s.(ivcalls) own.

(* ---- synchronous part of an event ---- *)
Definition apply (fe : frontend) (s : st) (e : ev) : st :=
  match e with
  | Express i n cbp dig life vm _ => do_express fe s i n cbp dig life vm
  | Await i _ => do_await fe s i
  | Data d n h _ => do_data fe s d n h
  | Nack n dig r _ => do_nack s n dig r
  | VDone i v _ => do_vdone fe s i v
  | Cancel i _ => do_cancel s i
  | Shutdown _ => do_shutdown fe s
  | AdvanceTo _ => s
  | Attach p hasv _ => do_attach s p hasv
  | Incoming k n hp sg dok v _ => do_incoming fe s (mkInc k n hp sg dok v)
  | SetDefault own _ => do_setdefault s own
  end.

(* ---- one event = one (or, without a tie, several) loop turns ---- *)
Definition pre (fe : frontend) (m : tie) (t : N) (s : st) : st :=
  match m with
  | NoTie => settle fe (fire false t s)
  | EvFirst => settle fe (fire true t s)
  | Mid => fire false t (settle fe (fire true t s))
  end.

Definition step (fe : frontend) (s : st) (x : tie * ev) : st :=
  let t := N.max s.(now) (ev_time (snd x)) in
  let s1 := pre fe (fst x) t (set_now s t) in
  let s2 := apply fe s1 (snd x) in
  settle fe (fire false t s2).

Definition run_hist (fe : frontend) (h : list (tie * ev)) : st := fold_left (step fe) h init.

(* ---- observations ---- *)
Definition completion (s : st) (i : N) : option outcome :=
  match find (fun x : N * outcome * N => fst (fst x) =? i) s.(log) with
  | Some x => Some (snd (fst x))
  | None => None
  end.
Definition pit_nodes (s : st) : nat := length s.(pit).
Definition pit_entries (s : st) : list N := pit_hits (fun _ _ _ => true) s.(pit).
