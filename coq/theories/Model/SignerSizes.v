(* The size contract between the encoders and the shipped signers.

   make_interest / make_data reserve get_signature_value_size() bytes for the SignatureValue, hand the covered bytes to
   the signer, and the signer writes AT MOST that many bytes (Model/PacketEnc.check_sig_len is the rule applied to what
   it wrote).  Five signers write a fixed number of bytes.  Sha256WithEcdsaSigner writes the DER encoding
        SEQUENCE { INTEGER r, INTEGER s }
   of an ECDSA signature, whose length varies from signature to signature; what it reserves is arithmetic on the
   curve size (Generated/SignerSizes.v, translated from the source on this run).

   This file models the LENGTH of that DER encoding (X.690 definite lengths, minimal two's-complement integers), which
   is all the encoders depend on. *)
From Coq Require Import NArith List.
Import ListNotations.
Local Open Scope N_scope.

(* content octets of a non-negative INTEGER: its bits plus a sign bit, rounded up to whole octets *)
Definition der_int_len (x : N) : N := (N.log2 x + 1) / 8 + 1.

(* octets of a definite Length *)
Definition der_hdr_len (n : N) : N :=
  if n <? 128 then 1 else if n <? 256 then 2 else if n <? 65536 then 3 else 4.

(* identifier octet + Length + content *)
Definition der_tlv_len (n : N) : N := 1 + der_hdr_len n + n.

Definition der_sig_len (r s : N) : N :=
  der_tlv_len (der_tlv_len (der_int_len r) + der_tlv_len (der_int_len s)).

(* sizes, in bits, of the prime curves whose keys the ECDSA signer can be built on (NIST P-192 .. P-521);
   r and s are residues modulo the group order, which is below 2^bits *)
Definition ecdsa_curve_bits : list N := [192; 224; 256; 384; 521].
