(* Model of the typed view of an enumerated management field (UintField with val_base_type = an Enum / Flag type,
   encoding/tlv_model.py UintField.__get__ / __set__ and Python's enum module, 3.11+):
     reading   obj.field            = val_base_type(stored number)
     writing   obj.field = A | B    = the numbers of A and B joined, where the type defines |
   Definitions only.  Faithful: numbers outside the type are refused with ValueError (also the ones a newer forwarder
   might send). *)
From NDN Require Import Base.Prelude.
Local Open Scope N_scope.

Inductive ekind :=
| EEnum        (* enum.Enum: lookup by value, exactly the member values *)
| EFlag        (* enum.Flag, boundary STRICT (the default): every number whose bits are all bits of members *)
| EFlagKeep.   (* enum.Flag, boundary KEEP: every number *)

Record efield := mk_efield { ef_class : nat; ef_type : N; ef_kind : ekind; ef_members : list N }.

Definition all_bits (ms : list N) : N := fold_right N.lor 0 ms.

Definition typed_read (k : ekind) (ms : list N) (v : N) : res N :=
  match k with
  | EEnum => if existsb (N.eqb v) ms then Ok v else Err EValue
  | EFlag => if N.ldiff v (all_bits ms) =? 0 then Ok v else Err EValue
  | EFlagKeep => Ok v
  end.

(* A | B on two members: Flag defines __or__, Enum does not (TypeError) *)
Definition join (k : ekind) (a b : N) : res N :=
  match k with EEnum => Err EType | _ => Ok (N.lor a b) end.
