(* Model of prefix registration as the application sees it:
     transport/nfd_registerer.py  NfdRegister.register / unregister        (front-end appv2)
     app.py                       NDNApp.register / unregister             (front-end v1)
     appv2.py / app.py            route(), main_loop()'s starting_task     (auto-registration)
   as ONE state machine over event histories.  What differs between the four functions (is the
   semaphore taken, how is the command timestamp chosen, is the reply decoded and compared, what is
   caught) is a [proto] record; the records of the shipped code are regenerated from the source by
   tools/gen_regproto.py (Generated/RegProto.v) and the machine is run with those.

   The asyncio machinery is represented as follows (trusted, exercised for real by the harness):
   * Semaphore(1): [holder] + FIFO [queue]; release hands the permit to the head waiter at once
     (CPython >= 3.11: a later acquire queues behind the waiters).
   * between two events the loop runs to quiescence; time only passes in [ETick] (1 ms: the sleep
     of the timestamp loop ends) and in a reply [RTimeout] (the command's lifetime passes).
   * express / validation / parse / return / release all happen in the quiescence that follows the
     arrival of the reply, so the completion of a call is one atomic step.
   * the clock (utils.timestamp) is an arbitrary stream [clock : nat -> N]; [clk] counts the
     readings consumed so far, in program order. *)
From NDN Require Import Base.Prelude Model.TlvVar Model.Name Model.Tlv Model.NfdMgmt.
Local Open Scope N_scope.

Inductive kind := KReg | KUnreg.

(* operator of  `if ret['status_code'] <op> CODE: return False` *)
Inductive cmpop := CNe | CEq | CLt | CLe | CGt | CGe.

Inductive ts_mode :=
| TsNone                                (* no bookkeeping: the command is stamped with a fresh clock reading *)
| TsLoop (tries : nat) (bump : bool)    (* up to [tries] readings 1 ms apart until one exceeds the last
                                           timestamp; [bump]: the for-else that uses last+1 *)
| TsMax.                                (* last := max(now, last + 1) *)

Record proto := {
  p_sem : bool;            (* the command is issued while holding the registration semaphore *)
  p_ts : ts_mode;
  p_recorded : bool;       (* the command carries the recorded timestamp (else: a later clock reading) *)
  p_checks : bool;         (* the reply is decoded and its status compared *)
  p_cmp : cmpop;
  p_code : N;
  p_catch_decode : bool;   (* DecodeError, ValueError, IndexError, TypeError, struct.error from parse_response *)
  p_catch_express : bool;  (* InterestNack, InterestTimeout, InterestCanceled, ValidationFailure *)
  p_validates : bool;      (* the front-end checks the reply's DigestSha256 signature (v1: data_validator) *)
  p_body_optional : bool   (* parse_response accepts a response without body *)
}.

Inductive outcome := Ret (b : bool) | Raise (e : err).

Inductive reply :=
| RData (content : option bytes) (sig_ok : bool)   (* a Data packet for the command; None = no Content element *)
| RNack (reason : N)                                (* a network Nack; EVERY reason: 0 = none / element absent,
                                                       the named ones 50/100/150, unassigned codes *)
| RTimeout.

Definition cmp_fail (op : cmpop) (sc code : N) : bool :=
  match op with
  | CNe => negb (sc =? code) | CEq => sc =? code
  | CLt => sc <? code | CLe => sc <=? code | CGt => code <? sc | CGe => code <=? sc
  end.

(* the exception classes named by the handler around parse_response *)
Definition decode_class (e : err) : bool :=
  match e with EDecode | EValue | EUnicode | EIndex | EType | EStruct => true | _ => false end.

Definition E_EXPRESS : err := EOther 1.   (* InterestNack / InterestTimeout / ValidationFailure escaping *)

(* what the call returns once the reply to its command is in *)
Definition finish (p : proto) (r : reply) : outcome :=
  let express_failed := if p_catch_express p then Ret false else Raise E_EXPRESS in
  match r with
  | RNack _ | RTimeout => express_failed
  | RData c ok =>
      if p_validates p && negb ok then express_failed
      else if negb (p_checks p) then Ret true
      else match parse_response_gen (p_body_optional p) c with
           | Err e => if p_catch_decode p && decode_class e then Ret false else Raise e
           | Ok (sc, _, _) =>
               match sc with
               | VUint n => Ret (negb (cmp_fail (p_cmp p) n (p_code p)))
               | _ => (* None <op> 200 *)
                   match p_cmp p with CNe => Ret false | CEq => Ret true | _ => Raise EType end
               end
           end
  end.

Inductive cstatus :=
| CWait                    (* waiting for the semaphore *)
| CSleep (left : nat)      (* in the timestamp loop, asleep; [left] readings remain *)
| COut                     (* command on the wire, reply awaited *)
| CDone (o : outcome).

Record call := { c_kind : kind; c_prefix : name; c_auto : bool; c_st : cstatus }.
Record cmd := { m_call : nat; m_kind : kind; m_prefix : name; m_ts : N }.

(* what an observer of the application sees, oldest first *)
Inductive obs :=
| OCall (id : nat) (k : kind) (nm : name) (auto : bool)   (* register/unregister entered *)
| OSend (c : cmd)                                          (* a command Interest appears on the face *)
| ODone (id : nat) (r : reply) (o : outcome)               (* the call returned / raised, after reply [r] *)
| ORoute (nm : name)
| OConnect
| OStarted (clean : bool)                                  (* main_loop's starting task left its route loop *)
| ODisconnect.

Record state := {
  calls : list call;            (* index = call id *)
  holder : option nat;          (* who holds the semaphore *)
  queue : list nat;             (* FIFO of calls waiting for it *)
  outst : list nat;             (* calls whose command awaits its reply, oldest first *)
  last_ts : N;                  (* _last_command_timestamp *)
  clk : nat;                    (* clock readings consumed *)
  connected : bool;
  routes : list name;           (* _autoreg_routes *)
  st_pos : option nat;          (* starting task: index of the next route; None = not running *)
  st_cur : option nat;          (* the call the starting task is awaiting *)
  log : list obs
}.

Definition init : state :=
  {| calls := []; holder := None; queue := []; outst := []; last_ts := 0; clk := O;
     connected := false; routes := []; st_pos := None; st_cur := None; log := [] |}.

Definition set_calls (s : state) v := {| calls := v; holder := holder s; queue := queue s; outst := outst s;
  last_ts := last_ts s; clk := clk s; connected := connected s; routes := routes s; st_pos := st_pos s;
  st_cur := st_cur s; log := log s |}.
Definition set_holder (s : state) v := {| calls := calls s; holder := v; queue := queue s; outst := outst s;
  last_ts := last_ts s; clk := clk s; connected := connected s; routes := routes s; st_pos := st_pos s;
  st_cur := st_cur s; log := log s |}.
Definition set_queue (s : state) v := {| calls := calls s; holder := holder s; queue := v; outst := outst s;
  last_ts := last_ts s; clk := clk s; connected := connected s; routes := routes s; st_pos := st_pos s;
  st_cur := st_cur s; log := log s |}.
Definition set_outst (s : state) v := {| calls := calls s; holder := holder s; queue := queue s; outst := v;
  last_ts := last_ts s; clk := clk s; connected := connected s; routes := routes s; st_pos := st_pos s;
  st_cur := st_cur s; log := log s |}.
Definition set_last (s : state) v := {| calls := calls s; holder := holder s; queue := queue s; outst := outst s;
  last_ts := v; clk := clk s; connected := connected s; routes := routes s; st_pos := st_pos s;
  st_cur := st_cur s; log := log s |}.
Definition tick_clk (s : state) := {| calls := calls s; holder := holder s; queue := queue s; outst := outst s;
  last_ts := last_ts s; clk := S (clk s); connected := connected s; routes := routes s; st_pos := st_pos s;
  st_cur := st_cur s; log := log s |}.
Definition set_conn (s : state) v := {| calls := calls s; holder := holder s; queue := queue s; outst := outst s;
  last_ts := last_ts s; clk := clk s; connected := v; routes := routes s; st_pos := st_pos s;
  st_cur := st_cur s; log := log s |}.
Definition set_routes (s : state) v := {| calls := calls s; holder := holder s; queue := queue s; outst := outst s;
  last_ts := last_ts s; clk := clk s; connected := connected s; routes := v; st_pos := st_pos s;
  st_cur := st_cur s; log := log s |}.
Definition set_starter (s : state) pos cur := {| calls := calls s; holder := holder s; queue := queue s;
  outst := outst s; last_ts := last_ts s; clk := clk s; connected := connected s; routes := routes s;
  st_pos := pos; st_cur := cur; log := log s |}.
Definition emit (s : state) (o : obs) := {| calls := calls s; holder := holder s; queue := queue s; outst := outst s;
  last_ts := last_ts s; clk := clk s; connected := connected s; routes := routes s; st_pos := st_pos s;
  st_cur := st_cur s; log := log s ++ [o] |}.

Definition stat (l : list call) (id : nat) : option cstatus := option_map c_st (nth_error l id).
Definition status (s : state) (id : nat) : option cstatus := stat (calls s) id.
Definition with_status (x : cstatus) (c : call) : call :=
  {| c_kind := c_kind c; c_prefix := c_prefix c; c_auto := c_auto c; c_st := x |}.
Definition set_status (s : state) (id : nat) (x : cstatus) : state :=
  set_calls s (upd (calls s) id (with_status x)).

Fixpoint remove_id (id : nat) (l : list nat) : list nat :=
  match l with [] => [] | x :: r => if Nat.eqb x id then remove_id id r else x :: remove_id id r end.

Section Machine.
  Variable fe : kind -> proto.     (* the front-end: how register / unregister are written *)
  Variable clock : nat -> N.       (* k-th reading of utils.timestamp *)

  Definition proto_of (s : state) (id : nat) : option proto :=
    option_map (fun c => fe (c_kind c)) (nth_error (calls s) id).

  (* the command Interest of call [id] goes out *)
  Definition send (s : state) (id : nat) : state :=
    match nth_error (calls s) id with
    | None => s
    | Some c =>
        let p := fe (c_kind c) in
        let fresh := match p_ts p with TsNone => true | _ => negb (p_recorded p) end in
        let ts := if fresh then clock (clk s) else last_ts s in
        let s1 := if fresh then tick_clk s else s in
        let s2 := set_outst (set_status s1 id COut) (outst s1 ++ [id]) in
        emit s2 (OSend {| m_call := id; m_kind := c_kind c; m_prefix := c_prefix c; m_ts := ts |})
    end.

  (* one pass of  `for _ in range(K): now = timestamp(); if now > last: last = now; break; await sleep(0.001)`
     with [left] passes remaining; [left] = 0 is the for-else *)
  Definition ts_try (s : state) (id : nat) (left : nat) (bump : bool) : state :=
    match left with
    | O => send (if bump then set_last s (last_ts s + 1) else s) id
    | S l =>
        let now := clock (clk s) in
        let s1 := tick_clk s in
        if last_ts s <? now then send (set_last s1 now) id
        else set_status s1 id (CSleep l)
    end.

  (* the body of `async with semaphore:` up to the first suspension *)
  Definition proceed (s : state) (id : nat) : state :=
    match proto_of s id with
    | None => s
    | Some p =>
        match p_ts p with
        | TsNone => send s id
        | TsMax =>
            let now := clock (clk s) in
            send (set_last (tick_clk s) (N.max now (last_ts s + 1))) id
        | TsLoop k b => ts_try s id k b
        end
    end.

  Definition acquire (s : state) (id : nat) : state :=
    match proto_of s id with
    | None => s
    | Some p =>
        if p_sem p then
          match holder s with
          | None => proceed (set_holder s (Some id)) id
          | Some _ => set_queue s (queue s ++ [id])
          end
        else proceed s id
    end.

  (* register(name) / unregister(name) is entered *)
  Definition spawn (s : state) (k : kind) (nm : name) (auto : bool) : state :=
    let id := length (calls s) in
    let s1 := set_calls s (calls s ++ [{| c_kind := k; c_prefix := nm; c_auto := auto; c_st := CWait |}]) in
    acquire (emit s1 (OCall id k nm auto)) id.

  (* `for name in self._autoreg_routes: await self.register(name)` resumes *)
  Definition starter_next (s : state) : state :=
    match st_pos s with
    | None => s
    | Some i =>
        match nth_error (routes s) i with
        | None => emit (set_starter s None None) (OStarted true)
        | Some nm => spawn (set_starter s (Some (S i)) (Some (length (calls s)))) KReg nm true
        end
    end.

  (* the reply [r] to the command of call [id] has been processed: the call returns [o] *)
  Definition complete (s : state) (id : nat) (r : reply) (o : outcome) : state :=
    let s1 := emit (set_outst (set_status s id (CDone o)) (remove_id id (outst s))) (ODone id r o) in
    (* __aexit__: release; the permit goes to the head waiter, which runs after the current task *)
    let holds := match holder s1 with Some h => Nat.eqb h id | None => false end in
    let '(s2, next) :=
      if holds then
        match queue s1 with
        | [] => (set_holder s1 None, None)
        | h :: q => (set_queue (set_holder s1 (Some h)) q, Some h)
        end
      else (s1, None) in
    (* the awaiting starting task continues (an exception ends it) *)
    let s3 :=
      match st_cur s2 with
      | Some c =>
          if Nat.eqb c id then
            match o with
            | Ret _ => starter_next (set_starter s2 (st_pos s2) None)
            | Raise _ => emit (set_starter s2 None None) (OStarted false)
            end
          else s2
      | None => s2
      end in
    match next with Some h => proceed s3 h | None => s3 end.

  (* 1 ms passes: every sleeper wakes, in call order *)
  Fixpoint wake (s : state) (ids : list nat) : state :=
    match ids with
    | [] => s
    | id :: r =>
        let s' := match status s id, proto_of s id with
                  | Some (CSleep l), Some p =>
                      match p_ts p with TsLoop _ b => ts_try s id l b | _ => s end
                  | _, _ => s
                  end in
        wake s' r
    end.

  Definition all_done (s : state) : bool :=
    forallb (fun c => match c_st c with CDone _ => true | _ => false end) (calls s).
  Definition idle (s : state) : bool :=
    all_done s && match st_pos s with None => true | Some _ => false end.

  Inductive event :=
  | ECall (k : kind) (nm : name)     (* the application calls register / unregister *)
  | EReply (i : nat) (r : reply)     (* the forwarder's answer to the i-th outstanding command *)
  | ETick
  | EJunk                            (* bytes that are no answer to an outstanding command *)
  | ERoute (nm : name)               (* @app.route(nm) *)
  | EConnect                         (* main_loop: the face opens, the starting task starts *)
  | EDisconnect.                     (* the face closes (only when nothing is pending) *)

  Definition step (s : state) (e : event) : state :=
    match e with
    | ECall k nm => if connected s then spawn s k nm false else s
    | EReply i r =>
        match nth_error (outst s) i with
        | None => s
        | Some id =>
            match proto_of s id with
            | Some p => complete s id r (finish p r)
            | None => s
            end
        end
    | ETick => wake s (seq 0 (length (calls s)))
    | EJunk => s
    | ERoute nm =>
        (* a route declared while the starting task is still iterating over the (live) route list is
           outside the property and not modelled: appv2 registers it twice, v1's second
           set_interest_filter raises ValueError inside the starting task (docs/C17.md) *)
        match st_pos s with
        | Some _ => s
        | None =>
            let s1 := emit (set_routes s (routes s ++ [nm])) (ORoute nm) in
            if connected s then spawn s1 KReg nm false else s1
        end
    | EConnect =>
        if connected s then s
        else starter_next (set_starter (emit (set_conn s true) OConnect) (Some O) None)
    | EDisconnect =>
        if connected s && idle s then emit (set_conn s false) ODisconnect else s
    end.

  Definition run_events (evs : list event) : state := fold_left step evs init.
End Machine.

(* ---- the protocols of the shipped code (after the fix: commits), and of the code as found ---------- *)
Definition proto_v2_fixed : proto :=
  {| p_sem := true; p_ts := TsLoop 10 true; p_recorded := true; p_checks := true; p_cmp := CNe; p_code := 200;
     p_catch_decode := true; p_catch_express := true; p_validates := false; p_body_optional := true |}.
Definition proto_v1_fixed : proto :=
  {| p_sem := true; p_ts := TsMax; p_recorded := true; p_checks := true; p_cmp := CNe; p_code := 200;
     p_catch_decode := true; p_catch_express := true; p_validates := true; p_body_optional := true |}.

(* as found *)
Definition proto_v2_reg_orig : proto :=
  {| p_sem := true; p_ts := TsLoop 10 false; p_recorded := false; p_checks := true; p_cmp := CNe; p_code := 200;
     p_catch_decode := false; p_catch_express := true; p_validates := false; p_body_optional := false |}.
Definition proto_v2_unreg_orig : proto :=
  {| p_sem := true; p_ts := TsLoop 10 false; p_recorded := false; p_checks := false; p_cmp := CNe; p_code := 200;
     p_catch_decode := false; p_catch_express := true; p_validates := false; p_body_optional := false |}.
Definition proto_v1_reg_orig : proto :=
  {| p_sem := true; p_ts := TsNone; p_recorded := false; p_checks := true; p_cmp := CNe; p_code := 200;
     p_catch_decode := false; p_catch_express := true; p_validates := true; p_body_optional := false |}.
Definition proto_v1_unreg_orig : proto :=
  {| p_sem := false; p_ts := TsNone; p_recorded := false; p_checks := false; p_cmp := CNe; p_code := 200;
     p_catch_decode := false; p_catch_express := true; p_validates := true; p_body_optional := false |}.

Definition fe_of (reg unreg : proto) (k : kind) : proto := match k with KReg => reg | KUnreg => unreg end.
