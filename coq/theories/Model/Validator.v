(* C14 — executable model of the trust-schema validator:
     ndn/app_support/light_versec/validator.py      lvs_validator (sanity_check, validate_name, union)
     ndn/security/validator/cascade_validator.py    CascadeChecker (_verify_sig, __init__, validate), MemoryKeyStorage
     ndn/security/validator/digest_validator.py     union_checker
   Definitions only.  Faithful, branch by branch; the control logic is modelled, the two things that
   are not control logic are given functions of the *world*:
     - [w_verify alg key p]  = the real verify_* of known_key_validator.py after the real key import
                               ([Err EValue] when the import / verifier construction raises ValueError);
     - the schema ([sc_check], [sc_match], [sc_roots], [sc_fns_ok]) = the real light_versec Checker.
   The flag [legacy] selects the code before commit "fix: give every CascadeChecker / lvs_validator its
   own default key storage" (default argument = ONE object shared by all instances). *)
From NDN Require Import Base.Prelude.
Local Open Scope N_scope.

(* ---------------------------------------------------------------- data ------------------------ *)
Definition vname := list bytes.                      (* FormalName: list of encoded components *)
Definition name_eqb : vname -> vname -> bool := list_eqb bytes_eqb.

Record siginfo := { s_type : N; s_kl : option vname }.          (* SignatureInfo: type, KeyLocator.Name *)
(* what the validator sees of a packet: Name, SignaturePtrs.signature_info, and (for certificates) Content;
   [p_id] identifies the signed bytes / signature value for the verification oracle *)
Record pkt := { p_id : N; p_name : vname; p_sig : option siginfo; p_content : option bytes }.

(* outcome of app.express_interest(cert_name, must_be_fresh, can_be_prefix=False) before validation *)
Inductive fetch_result :=
| FData (d : pkt)
| FNack                 (* InterestNack *)
| FTimeout              (* InterestTimeout *)
| FFail (e : err).      (* anything else escaping express_interest: NetworkError, InterestCanceled, ... *)

Record world := {
  w_fetch  : vname -> fetch_result;
  w_verify : N -> bytes -> pkt -> res bool     (* verify function id (= signature type), key bits, packet *)
}.

(* SignatureType constants (tied to ndn.encoding.SignatureType by Proofs/ValidatorTie.v) *)
Definition SIG_DIGEST : N := 0.
Definition SIG_RSA    : N := 1.
Definition SIG_ECDSA  : N := 3.
Definition SIG_HMAC   : N := 4.
Definition SIG_ED25519 : N := 5.

(* ---------------------------------------------------------------- _verify_sig ----------------- *)
(* The if/elif chain of CascadeChecker._verify_sig as a table:
   (signature type tested, verify function called, is its result returned?).  The HMAC branch calls
   verify_hmac and drops the result (falls off the end: None, falsy). *)
Definition sig_branches : list (N * N * bool) :=
  [ (SIG_HMAC, SIG_HMAC, false); (SIG_RSA, SIG_RSA, true); (SIG_ECDSA, SIG_ECDSA, true);
    (SIG_ED25519, SIG_ED25519, true) ].

Fixpoint dispatch (tbl : list (N * N * bool)) (w : world) (ty : N) (k : bytes) (p : pkt) : res bool :=
  match tbl with
  | [] => Ok false                                     (* else: return False *)
  | (t, fn, returned) :: rest =>
      if ty =? t then
        (do b <- w_verify w fn k p ;; Ok (if returned then b else false))
      else dispatch rest w ty k p
  end.

Definition verify_sig (w : world) (k : bytes) (p : pkt) : res bool :=
  match p_sig p with
  | None => Err EAttr                                  (* sig_ptrs.signature_info.signature_type on None *)
  | Some si => dispatch sig_branches w (s_type si) k p
  end.

(* ---------------------------------------------------------------- key locator test ------------- *)
(* `not sig_ptrs.signature_info or not ....key_locator or not ....key_locator.name`  (an empty name is falsy) *)
Definition key_locator (p : pkt) : option vname :=
  match p_sig p with
  | None => None
  | Some si => match s_kl si with
               | None => None
               | Some [] => None
               | Some (c :: r) => Some (c :: r)
               end
  end.

(* Python truthiness of `bytes | None` *)
Definition truthy (k : option bytes) : option bytes :=
  match k with Some (b :: r) => Some (b :: r) | _ => None end.

(* ---------------------------------------------------------------- one validator instance ------- *)
(* c_check = Some check  : lvs_validator  (next_level = union_checker(validate_name, cascade))
   c_check = None        : bare CascadeChecker (next_level = self) *)
Record cfg := {
  c_anchor_name : vname;
  c_anchor_key  : bytes;
  c_check       : option (vname -> vname -> res bool)
}.

Definition cache := list (vname * bytes).             (* MemoryKeyStorage._cache, keyed by the name *)
Definition cache_load (st : cache) (n : vname) : option bytes := al_get name_eqb st n.
Definition cache_save (st : cache) (n : vname) (k : bytes) : cache := al_set name_eqb st n k.

(* validate_name (first member of the union); absent for a bare CascadeChecker *)
Definition name_check (c : cfg) (n cn : vname) : res bool :=
  match c_check c with
  | Some chk => chk n cn
  | None => Ok true
  end.

(* result, cache afterwards, Interests expressed (in order) *)
Definition out := (res bool * cache * list vname)%type.

(* key_bits obtained -> `if not key_bits: return False` -> _verify_sig *)
Definition check_key (w : world) (k : bytes) (p : pkt) : res bool :=
  match k with [] => Ok false | _ => verify_sig w k p end.

(* next_level(name, sig_ptrs): the union (validate_name; CascadeChecker.validate).  One unit of fuel
   per certificate fetch.  Effects survive an exception (the cache entries saved by inner levels). *)
Fixpoint validate (w : world) (c : cfg) (fuel : nat) (st : cache) (p : pkt) : out :=
  match key_locator p with
  | None => (Ok false, st, [])
  | Some cn =>
    match name_check c (p_name p) cn with
    | Err e => (Err e, st, [])
    | Ok false => (Ok false, st, [])
    | Ok true =>
      if name_eqb cn (c_anchor_name c) then (check_key w (c_anchor_key c) p, st, [])
      else
        match truthy (cache_load st cn) with
        | Some k => (verify_sig w k p, st, [])
        | None =>
          match fuel with
          | O => (Err EFuel, st, [])
          | S f =>
            match w_fetch w cn with
            | FNack => (Ok false, st, [cn])
            | FTimeout => (Ok false, st, [cn])
            | FFail e => (Err e, st, [cn])
            | FData d =>
              match validate w c f st d with
              | (Err e, st1, tr) => (Err e, st1, cn :: tr)
              | (Ok false, st1, tr) => (Ok false, st1, cn :: tr)      (* ValidationFailure, caught *)
              | (Ok true, st1, tr) =>
                match truthy (p_content d) with
                | Some k => (verify_sig w k p, cache_save st1 cn k, cn :: tr)
                | None => (Ok false, st1, cn :: tr)
                end
              end
            end
          end
        end
    end
  end.

(* ---------------------------------------------------------------- constructors ----------------- *)
Record schema := {
  sc_fns_ok : bool;                              (* checker.validate_user_fns() *)
  sc_roots  : list bytes;                        (* checker.root_of_trust(): rule names *)
  sc_match  : vname -> res (list bytes);         (* sum((m[0] for m in checker.match(n)), start=[]) *)
  sc_check  : vname -> vname -> res bool         (* checker.check *)
}.

Definition subsetb (a b : list bytes) : bool := forallb (fun x => existsb (bytes_eqb x) b) a.

(* sanity_check() of lvs_validator; [a] = parse_data(trust_anchor) *)
Definition sanity_check (sc : schema) (a : res pkt) : res unit :=
  if negb (sc_fns_ok sc) then Err EValue else
  do p <- a ;;
  do ms <- sc_match sc (p_name p) ;;
  match ms with
  | [] => Err EValue
  | _ => if subsetb (sc_roots sc) ms then Ok tt else Err EValue
  end.

(* CascadeChecker.__init__ *)
Definition cascade_init (w : world) (a : res pkt) (chk : option (vname -> vname -> res bool)) : res cfg :=
  do p <- a ;;
  match p_content p with
  | None => Err EType                              (* bytes(None) *)
  | Some k =>
      do ok <- verify_sig w k p ;;
      if ok then Ok {| c_anchor_name := p_name p; c_anchor_key := k; c_check := chk |}
      else Err EValue                              (* 'Trust anchor is not properly self-signed' *)
  end.

Definition lvs_init (w : world) (sc : schema) (a : res pkt) : res cfg :=
  do _ <- sanity_check sc a ;;
  cascade_init w a (Some (sc_check sc)).

(* ---------------------------------------------------------------- several instances, histories - *)
Record inst := { i_cfg : cfg; i_sid : nat }.
Record state := { s_heap : list cache; s_insts : list inst }.

Inductive sarg := SDefault | SGiven (sid : nat).
Inductive op :=
| ONewStorage                                          (* s = MemoryKeyStorage() *)
| ONewLvs (sc : schema) (a : res pkt) (s : sarg)       (* lvs_validator(checker, app, anchor[, s]) *)
| ONewCascade (a : res pkt) (s : sarg)                 (* CascadeChecker(app, anchor[, s]) *)
| OValidate (i : nat) (p : pkt).                       (* await validator_i(p.name, p.sig_ptrs) *)

Inductive obs :=
| BStorage (sid : nat)
| BNew (r : res nat)
| BVal (r : res bool) (tr : list vname)
| BBad.                                                (* malformed request (unknown instance/storage) *)

(* Storages 0 and 1 are the two default-argument objects of the legacy code
   (lvs_validator's and CascadeChecker.__init__'s); the fixed code never touches them. *)
Definition init_state : state := {| s_heap := [[]; []]; s_insts := [] |}.

Definition heap_set (h : list cache) (sid : nat) (c : cache) : list cache :=
  firstn sid h ++ c :: skipn (S sid) h.

(* which storage object the [storage] argument denotes; None = unknown storage id *)
Definition resolve (legacy : bool) (dflt : nat) (h : list cache) (s : sarg) : option (nat * list cache) :=
  match s with
  | SGiven sid => if Nat.ltb sid (length h) then Some (sid, h) else None
  | SDefault => if legacy then Some (dflt, h) else Some (length h, h ++ [[]])
  end.

Definition add_inst (legacy : bool) (dflt : nat) (st : state) (s : sarg) (r : res cfg) : state * obs :=
  match r with
  | Err e => (st, BNew (Err e))
  | Ok c =>
      match resolve legacy dflt (s_heap st) s with
      | None => (st, BBad)
      | Some (sid, h) =>
          ({| s_heap := h; s_insts := s_insts st ++ [{| i_cfg := c; i_sid := sid |}] |},
           BNew (Ok (length (s_insts st))))
      end
  end.

Definition step (legacy : bool) (w : world) (fuel : nat) (st : state) (o : op) : state * obs :=
  match o with
  | ONewStorage =>
      ({| s_heap := s_heap st ++ [[]]; s_insts := s_insts st |}, BStorage (length (s_heap st)))
  | ONewLvs sc a s => add_inst legacy 0%nat st s (lvs_init w sc a)
  | ONewCascade a s => add_inst legacy 1%nat st s (cascade_init w a None)
  | OValidate i p =>
      match nth_error (s_insts st) i with
      | None => (st, BBad)
      | Some ins =>
          match nth_error (s_heap st) (i_sid ins) with
          | None => (st, BBad)
          | Some ch =>
              match validate w (i_cfg ins) fuel ch p with
              | (r, ch', tr) =>
                  ({| s_heap := heap_set (s_heap st) (i_sid ins) ch'; s_insts := s_insts st |}, BVal r tr)
              end
          end
      end
  end.

Fixpoint run_history (legacy : bool) (w : world) (fuel : nat) (st : state) (ops : list op) : state * list obs :=
  match ops with
  | [] => (st, [])
  | o :: r =>
      let '(st1, b) := step legacy w fuel st o in
      let '(st2, bs) := run_history legacy w fuel st1 r in
      (st2, b :: bs)
  end.
