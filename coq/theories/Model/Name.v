(* Model of encoding/name/Component.py and encoding/name/Name.py.
   Components are their TLV encodings (bytes), names are lists of components, URI strings are
   lists of code points.  Follows the Python branch by branch, including error classes. *)
From NDN Require Import Base.Prelude Base.Text Model.TlvVar.
Local Open Scope N_scope.

(* constants (tied to the source by Generated/Consts.v, see Proofs/ConstsAgree.v) *)
Definition TYPE_GENERIC : N := 8.
Definition TYPE_IMPLICIT_SHA256 : N := 1.
Definition TYPE_PARAMETERS_SHA256 : N := 2.
Definition TYPE_NAME : N := 7.
Definition MAX_COMPONENT_TYPE : N := 65535.

Definition s_sha256digest : str := [115;104;97;50;53;54;100;105;103;101;115;116].
Definition s_params_sha256 : str := [112;97;114;97;109;115;45;115;104;97;50;53;54].
(* ALTERNATE_URI_STR / ALTERNATE_URI_TYPE: seg off v t seq *)
Definition alt_uri : list (str * N) :=
  [([115;101;103], 50); ([111;102;102], 52); ([118], 54); ([116], 56); ([115;101;113], 58)].

Fixpoint alt_by_str (l : list (str * N)) (s : str) : option N :=
  match l with [] => None | (k, t) :: r => if str_eqb s k then Some t else alt_by_str r s end.
Fixpoint alt_by_type (l : list (str * N)) (t : N) : option str :=
  match l with [] => None | (k, t') :: r => if t =? t' then Some k else alt_by_type r t end.

Definition is_alpha (c : N) : bool := ((65 <=? c) && (c <=? 90)) || ((97 <=? c) && (c <=? 122)).
(* CHARSET: letters, digits, - . _ ~ = % *)
Definition in_charset (c : N) : bool :=
  is_alpha c || is_digit c || (c =? 45) || (c =? 46) || (c =? 95) || (c =? 126) || (c =? 61) || (c =? 37).

(* ---- Component ------------------------------------------------------------------------- *)

(* from_bytes(val, typ) *)
Definition comp_from_bytes (val : bytes) (typ : Z) : res bytes :=
  if (typ <=? 0)%Z || (Z.of_N MAX_COMPONENT_TYPE <? typ)%Z then Err EValue
  else Ok (tl_enc (Z.to_N typ) ++ tl_enc (N.of_nat (length val)) ++ val).

Definition comp_enc (typ : N) (val : bytes) : bytes :=
  tl_enc typ ++ tl_enc (N.of_nat (length val)) ++ val.

(* from_number(val, typ): pack_uint_bytes raises struct.error for negatives and >= 2^64 *)
Definition comp_from_number (val : Z) (typ : N) : res bytes :=
  if (val <? 0)%Z then Err EStruct
  else do b <- nni_enc_r (Z.to_N val) ;; comp_from_bytes b (Z.of_N typ).

Fixpoint count_eq (c : N) (s : str) : nat :=
  match s with [] => O | x :: r => ((if N.eqb x c then 1%nat else 0%nat) + count_eq c r)%nat end.

Fixpoint index_of (c : N) (s : str) : option nat :=
  match s with [] => None | x :: r => if x =? c then Some O else option_map S (index_of c r) end.

(* the body loop of from_str: one output byte per plain character or %XX triple *)
Fixpoint pct_decode (s : str) : option bytes :=
  match s with
  | [] => Some []
  | c :: r =>
      if c =? 37 then
        match r with
        | h1 :: h2 :: r' =>
            odo a <- hexval h1 ;; odo b <- hexval h2 ;; odo t <- pct_decode r' ;; Some (a * 16 + b :: t)
        | _ => None
        end
      else odo t <- pct_decode r ;; Some (c :: t)
  end.

Definition of_opt {A} (e : err) (o : option A) : res A := match o with Some a => Ok a | None => Err e end.

(* the part of from_str that runs when exactly one '=' is present: val = typ_str '=' rest *)
Definition comp_from_typed (typ_str rest : str) : res bytes :=
  if str_eqb typ_str s_sha256digest then
    do b <- of_opt EValue (hex_parse rest) ;; comp_from_bytes b (Z.of_N TYPE_IMPLICIT_SHA256)
  else if str_eqb typ_str s_params_sha256 then
    do b <- of_opt EValue (hex_parse rest) ;; comp_from_bytes b (Z.of_N TYPE_PARAMETERS_SHA256)
  else
    match alt_by_str alt_uri typ_str with
    | Some t => do n <- of_opt EValue (py_int rest) ;; comp_from_number n t
    | None =>
        do typ <- of_opt EValue (py_int typ_str) ;;
        if (typ <=? 0)%Z || (Z.of_N MAX_COMPONENT_TYPE <? typ)%Z then Err EValue
        else do body <- of_opt EValue (pct_decode rest) ;;
             Ok (comp_enc (Z.to_N typ) body)
    end.

(* Component.from_str(val) *)
Definition comp_from_str (val : str) : res bytes :=
  match val with
  | [] => Ok [8; 0]
  | _ =>
      if negb (forallb in_charset val) then Err EValue
      else if Nat.ltb 1 (count_eq 61 val) then Err EValue
      else
        match index_of 61 val with
        | Some off => comp_from_typed (firstn off val) (skipn (S off) val)
        | None => do body <- of_opt EValue (pct_decode val) ;; Ok (comp_enc TYPE_GENERIC body)
        end
  end.

(* the shared prologue of to_str / to_canonical_uri: (type, value) of an exactly-sized component *)
Definition comp_split (c : bytes) : res (N * bytes) :=
  do tp <- tl_dec c ;;
  let '(typ, sz1) := tp in
  do lp <- tl_dec (skipn sz1 c) ;;
  let '(len, sz2) := lp in
  if N.of_nat (length c) =? len + N.of_nat (sz1 + sz2) then Ok (typ, skipn (sz1 + sz2) c)
  else Err EValue.

Definition uri_char (v : N) : str :=
  if in_charset v && negb (v =? 37) && negb (v =? 61) then [v]
  else [37; hexdigit_upper (v / 16); hexdigit_upper (v mod 16)].

Definition uri_body (typ : N) (val : bytes) : str :=
  (if typ =? TYPE_GENERIC then [] else dec_print typ ++ [61]) ++ flat_map uri_char val.

Definition comp_to_canonical_uri (c : bytes) : res str :=
  do tv <- comp_split c ;; let '(typ, val) := tv in Ok (uri_body typ val).

(* the naming-convention shorthand (seg=, v=, ...) stands for a NonNegativeInteger: a value of 1, 2, 4 or 8 octets *)
Definition nni_len_ok (n : nat) : bool := Nat.eqb n 1 || Nat.eqb n 2 || Nat.eqb n 4 || Nat.eqb n 8.

Definition comp_to_str (c : bytes) : res str :=
  do tv <- comp_split c ;;
  let '(typ, val) := tv in
  if typ =? TYPE_IMPLICIT_SHA256 then Ok (s_sha256digest ++ 61 :: hex_print val)
  else if typ =? TYPE_PARAMETERS_SHA256 then Ok (s_params_sha256 ++ 61 :: hex_print val)
  else match alt_by_type alt_uri typ with
       | Some k => if nni_len_ok (length val) then Ok (k ++ 61 :: dec_print (be_to_N val)) else Ok (uri_body typ val)
       | None => Ok (uri_body typ val)
       end.

(* get_type / get_value / to_number (no length check in the Python) *)
Definition comp_get_type (c : bytes) : res N := do tp <- tl_dec c ;; Ok (fst tp).
Definition comp_get_value (c : bytes) : res bytes :=
  do tp <- tl_dec c ;; do lp <- tl_dec (skipn (snd tp) c) ;; Ok (skipn (snd tp + snd lp) c).
Definition comp_to_number (c : bytes) : res N := do v <- comp_get_value c ;; Ok (be_to_N v).

(* escape_str: characters outside CHARSET become %XX of their UTF-8 bytes *)
Definition escape_chr (c : N) : res str :=
  if in_charset c then Ok [c]
  else do b <- of_opt EUnicode (utf8_enc_cp c) ;;
       Ok (flat_map (fun x => [37; hexdigit_upper (x / 16); hexdigit_upper (x mod 16)]) b).
Fixpoint escape_str (s : str) : res str :=
  match s with [] => Ok [] | c :: r => do a <- escape_chr c ;; do t <- escape_str r ;; Ok (a ++ t) end.

(* ---- Name -------------------------------------------------------------------------------- *)
Definition name := list bytes.

Fixpoint rmap {A B} (f : A -> res B) (l : list A) : res (list B) :=
  match l with [] => Ok [] | x :: r => do y <- f x ;; do t <- rmap f r ;; Ok (y :: t) end.

Definition strip_last_slash (s : str) : str * bool :=
  match rev s with 47 :: r => (rev r, true) | _ => (s, false) end.

(* Name.from_str *)
Definition name_from_str (val : str) : res name :=
  let '(v1, c1) := match val with 47 :: r => (r, true) | _ => (val, false) end in
  let '(v2, c2) := strip_last_slash v1 in
  match v2 with
  | [] => if c1 && c2 then rmap (fun s => do e <- escape_str s ;; comp_from_str e) (split_on 47 v2) else Ok []
  | _ => rmap (fun s => do e <- escape_str s ;; comp_from_str e) (split_on 47 v2)
  end.

Definition name_render (f : bytes -> res str) (n : name) : res str :=
  do parts <- rmap f n ;;
  let body := 47 :: join_with 47 parts in
  match rev n with
  | last :: _ => if bytes_eqb last [8; 0] then Ok (body ++ [47]) else Ok body
  | [] => Ok body
  end.
Definition name_to_str := name_render comp_to_str.
Definition name_to_canonical_uri := name_render comp_to_canonical_uri.

Definition name_value_length (n : name) : nat := fold_left (fun a c => (a + length c)%nat) n O.

(* Name.encode (fresh buffer) *)
Definition name_encode (n : name) : bytes :=
  tl_enc TYPE_NAME ++ tl_enc (N.of_nat (name_value_length n)) ++ concat n.

(* Name.decode(buf, offset) with [w] = buf[offset:]; returns components and bytes consumed.
   The loop runs while the remaining declared length is positive. *)
Fixpoint name_decode_loop (fuel : nat) (w : bytes) (remaining : Z) (acc : name) (used : N) : res (name * N) :=
  if (remaining <=? 0)%Z then Ok (rev acc, used)
  else match fuel with
       | O => Err EFuel
       | S f =>
           do tp <- tl_dec w ;;
           let sz1 := snd tp in
           do lp <- tl_dec (skipn sz1 w) ;;
           let '(len, sz2) := lp in
           let tot := N.of_nat (sz1 + sz2) + len in
           (* a component may not run past the Name's declared length ("buffer overflow") *)
           if (remaining <? Z.of_N tot)%Z then Err EIndex
           else
           (* slices truncate: never convert an attacker-chosen length to nat *)
           let k := N.to_nat (N.min tot (N.of_nat (length w))) in
           name_decode_loop f (skipn k w) (remaining - Z.of_N tot)%Z (firstn k w :: acc) (used + tot)
       end.

Definition name_decode (w : bytes) : res (name * N) :=
  do tp <- tl_dec w ;;
  let '(typ, sz1) := tp in
  if negb (typ =? TYPE_NAME) then Err EValue
  else do lp <- tl_dec (skipn sz1 w) ;;
       let '(len, sz2) := lp in
       if N.of_nat (length w - (sz1 + sz2)) <? len then Err EIndex
       else name_decode_loop (S (length w)) (skipn (sz1 + sz2) w) (Z.of_N len) [] (N.of_nat (sz1 + sz2)).

Definition name_from_bytes (w : bytes) : res name := do r <- name_decode w ;; Ok (fst r).

(* NonStrictName: wire | URI string | list of (component | string) *)
Inductive ns_comp := NCBytes (b : bytes) | NCStr (s : str).
Inductive ns_name := NSWire (w : bytes) | NSStr (s : str) | NSList (l : list ns_comp).

Definition name_normalize (n : ns_name) : res name :=
  match n with
  | NSWire w => name_from_bytes w
  | NSStr s => name_from_str s
  | NSList l => rmap (fun c => match c with
                               | NCBytes b => Ok b
                               | NCStr s => do e <- escape_str s ;; comp_from_str e
                               end) l
  end.

Definition name_eqb (a b : name) : bool := list_eqb bytes_eqb a b.

(* Name.is_prefix on normalised names *)
Definition name_is_prefix (a b : name) : bool :=
  Nat.leb (length a) (length b) && name_eqb a (firstn (length a) b).

Definition name_to_bytes (n : ns_name) : res bytes :=
  match n with
  | NSWire w => Ok w
  | _ => do f <- name_normalize n ;; Ok (name_encode f)
  end.

(* Python's comparison of bytes objects / lists of bytes objects *)
Fixpoint bytes_cmp (a b : bytes) : comparison :=
  match a, b with
  | [], [] => Eq
  | [], _ => Lt
  | _, [] => Gt
  | x :: a', y :: b' => match x ?= y with Eq => bytes_cmp a' b' | c => c end
  end.
Fixpoint name_cmp (a b : name) : comparison :=
  match a, b with
  | [], [] => Eq
  | [], _ => Lt
  | _, [] => Gt
  | x :: a', y :: b' => match bytes_cmp x y with Eq => name_cmp a' b' | c => c end
  end.
