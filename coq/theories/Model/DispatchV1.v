(* Model of the table part of the registration API of the legacy front-end (app.py NDNApp):

     async def register(self, name, func, validator=None, need_raw_packet=False, need_sig_ptrs=False):
         name = Name.normalize(name)
         if func is not None:
             self.set_interest_filter(name, func, validator, need_raw_packet, need_sig_ptrs)
         ... the rib/register command, the forwarder's answer -> True / False              (C17)

     async def unregister(self, name):
         name = Name.normalize(name)
         try:    del self._prefix_tree[name]
         except KeyError: pass            # registered with func=None: there is no callback to remove
         ... the rib/unregister command, the forwarder's answer -> True / False            (C17)

     def route(self, name, validator=None, need_raw_packet=False, need_sig_ptrs=False)(func):
         remembered in _autoreg_routes; register(name, func, ...) is run by the loop at once when the
         face is up, and by main_loop's starting task -- one route after the other, in the order of
         declaration -- every time a connection is established.

   The command, the forwarder's answer (200, another status, a Nack, no answer, garbage) and the value
   register/unregister return never touch the table: the table part is the first, synchronous step of
   each call.  WHEN that step runs (the order in which the loop runs the calls, the starting task
   waiting for the previous answer) is the schedule, an input of the history (the harness linearises
   it; DESIGN 2.6).  Definitions only. *)
From NDN Require Import Base.Prelude Model.Trie Model.Name Model.Dispatch.
Local Open Scope N_scope.

Inductive vop :=
| VBase (o : op)                                             (* an event of Model/Dispatch.v *)
| VRegister (k : name) (h v : option N) (ex : bool * bool)   (* table step of register(k, h, v, raw, sig) *)
| VUnregister (k : name).                                    (* table step of unregister(k) *)

Definition vstep (fe : frontend) (s : st) (o : vop) : st * obs :=
  match o with
  | VBase o => step fe s o
  | VRegister k None _ _ => (s, ObOk)                        (* func is None: only the command is sent *)
  | VRegister k (Some h) v ex => step fe s (OAttach k (Some h) v ex)
  | VUnregister k => (fst (step fe s (ODetach k)), ObOk)     (* KeyError swallowed *)
  end.

Fixpoint vrun_from (fe : frontend) (s : st) (l : list vop) : st * list obs :=
  match l with
  | [] => (s, [])
  | o :: r => let '(s1, b) := vstep fe s o in let '(s2, bs) := vrun_from fe s1 r in (s2, b :: bs)
  end.
Definition vrun_ops (fe : frontend) (l : list vop) : st * list obs := vrun_from fe st0 l.

Definition vexec (fe : frontend) (s : st) (l : list vop) : st :=
  fold_left (fun s o => fst (vstep fe s o)) l s.

(* the state (not the observations) is that of a history of plain table events *)
Definition desugar (o : vop) : list op :=
  match o with
  | VBase o => [o]
  | VRegister _ None _ _ => []
  | VRegister k (Some h) v ex => [OAttach k (Some h) v ex]
  | VUnregister k => [ODetach k]
  end.
