(* Model of the handler table ("FIB") of both NDNApp front-ends and of app_support.Dispatcher:
     appv2.py  attach_handler / detach_handler / route / _on_interest (handler selection, deadline,
               the reply closure, the deferred submit_interest task)
     app.py    set_interest_filter / unset_interest_filter / _on_interest / _clean_up (FIB part)
     dispatcher.py  register / unregister / dispatch
   over Model/Trie.v.  Plain Interests only (no ApplicationParameters / signature: that gate is
   C05).  "Bytes sent" is abstract (sent / not sent); the PIT-token envelope is C10.
   Handlers and validators are numbers (ids chosen by the caller); [None] is Python's None.
   Definitions only. *)
From NDN Require Import Base.Prelude Model.Trie Model.Name.
Local Open Scope N_scope.

(* appv2.DEFAULT_LIFETIME (tied to the source by Generated/ConstsApp.v, Proofs/ConstsAppAgree.v) *)
Definition DEFAULT_LIFETIME : N := 4000.

Inductive frontend := FE_V2 | FE_V1 | FE_Disp.

(* name_tree.PrefixTreeNode / appv2.PrefixTreeNode: class attributes default to None *)
Record pnode := mk_pnode { pn_cb : option N; pn_vd : option N; pn_extra : option (bool * bool) }.
Definition pnode0 : pnode := mk_pnode None None None.

Definition fib := trie pnode.

(* attach_handler / set_interest_filter / Dispatcher.register, after Name.normalize:
     node = trie.setdefault(name, PrefixTreeNode()); if node.callback: raise ValueError
     node.callback = handler; ...                                                           *)
Definition fib_attach (fe : frontend) (t : fib) (k : name) (h v : option N) (ex : bool * bool)
  : fib * res unit :=
  let '(t1, node) := t_setdefault t k pnode0 in
  match pn_cb node with
  | Some _ => (t1, Err EValue)
  | None =>
      let node' :=
        match fe with
        | FE_V2 => mk_pnode h v (pn_extra node)
        | FE_V1 => mk_pnode h (match v with Some _ => v | None => pn_vd node end) (Some ex)
        | FE_Disp => mk_pnode h (pn_vd node) (pn_extra node)
        end in
      (t_set t1 k node', Ok tt)
  end.

(* detach_handler / unset_interest_filter / Dispatcher.unregister: del trie[normalize(name)] *)
Definition fib_detach (t : fib) (k : name) : fib * res unit :=
  match t_del t k with Ok t' => (t', Ok tt) | Err e => (t, Err e) end.

(* the same two entry points with the name in any accepted representation (Name.normalize, C09) *)
Definition fib_attach_ns (fe : frontend) (t : fib) (x : ns_name) (h v : option N) (ex : bool * bool)
  : fib * res unit :=
  match name_normalize x with Ok k => fib_attach fe t k h v ex | Err e => (t, Err e) end.
Definition fib_detach_ns (t : fib) (x : ns_name) : fib * res unit :=
  match name_normalize x with Ok k => fib_detach t k | Err e => (t, Err e) end.

(* handler selection of _on_interest:
     trie_step = trie.longest_prefix(name); if not trie_step: 'No route'
     node = trie_step.value; if node.callback is None: 'No callback'                        *)
Inductive lookup_res := LNoRoute | LNoCallback (p : name) | LHit (p : name) (h : N).
Definition fib_lookup (t : fib) (n : name) : lookup_res :=
  match t_longest_prefix t n with
  | None => LNoRoute
  | Some (p, node) => match pn_cb node with None => LNoCallback p | Some h => LHit p h end
  end.
Definition dispatch (t : fib) (n : name) : option N :=
  match fib_lookup t n with LHit _ h => Some h | _ => None end.

(* one invocation of a handler: which one, with which name; v2 also fixes the reply deadline
   (utils.timestamp() + lifetime, DEFAULT_LIFETIME when the Interest carries none) *)
Record call := mk_call { c_h : N; c_name : name; c_deadline : N }.

Definition deadline_of (fe : frontend) (life : option N) (now : N) : N :=
  match fe with
  | FE_V2 => now + match life with Some l => l | None => DEFAULT_LIFETIME end
  | _ => 0
  end.

(* what reply() returns *)
Inductive retval := RNone | RFalse | RTrue.

(* the reply closure of appv2._on_interest:
     now = utils.timestamp(); if now > deadline: return False
     self._put_raw_packet(...)   (NetworkError when the face is down)
     return True                                                                             *)
Definition E_NETWORK : err := EOther 1.
Definition reply_closure (deadline now : N) (running : bool) : res (bool * retval) :=
  if deadline <? now then Ok (false, RFalse)
  else if running then Ok (true, RTrue) else Err E_NETWORK.

(* ---- histories ------------------------------------------------------------------------------ *)
Record st := mk_st {
  s_fib : fib;
  s_pending : list call;   (* submit_interest tasks created and not yet run, in creation order *)
  s_calls : list call      (* handler invocations so far, in order *)
}.
Definition st0 : st := mk_st t_empty [] [].

Inductive op :=
| OAttach (k : name) (h v : option N) (ex : bool * bool)
| ODetach (k : name)
| ORecv (n : name) (life : option N) (now : N)   (* an Interest goes through _receive/_on_interest *)
| OSettle                                        (* the loop runs the tasks created so far *)
| OReply (i : nat) (now : N) (running : bool)    (* reply closure handed to the i-th invocation *)
| OCleanUp.                                      (* NDNApp._clean_up (connection lost) *)

Inductive obs :=
| ObOk
| ObErr (e : err)
| ObRecv (r : lookup_res)            (* nothing is delivered yet in the app front-ends *)
| ObCalls (l : list call)            (* the handler invocations made by this event *)
| ObDispatch (b : bool) (l : list call)   (* Dispatcher.dispatch: return value + invocation *)
| ObReply (sent : bool) (r : retval).

Definition step (fe : frontend) (s : st) (o : op) : st * obs :=
  match o with
  | OAttach k h v ex =>
      let '(t, r) := fib_attach fe (s_fib s) k h v ex in
      (mk_st t (s_pending s) (s_calls s), match r with Ok _ => ObOk | Err e => ObErr e end)
  | ODetach k =>
      let '(t, r) := fib_detach (s_fib s) k in
      (mk_st t (s_pending s) (s_calls s), match r with Ok _ => ObOk | Err e => ObErr e end)
  | ORecv n life now =>
      match fe with
      | FE_Disp =>
          (* dispatch(): synchronous call, no 'callback is None' test (None is not callable) *)
          match t_longest_prefix (s_fib s) n with
          | None => (s, ObDispatch false [])
          | Some (_, node) =>
              match pn_cb node with
              | None => (s, ObErr EType)
              | Some h =>
                  let c := mk_call h n 0 in
                  (mk_st (s_fib s) (s_pending s) (s_calls s ++ [c]), ObDispatch true [c])
              end
          end
      | _ =>
          let r := fib_lookup (s_fib s) n in
          match r with
          | LHit _ h =>
              (mk_st (s_fib s) (s_pending s ++ [mk_call h n (deadline_of fe life now)]) (s_calls s), ObRecv r)
          | _ => (s, ObRecv r)
          end
      end
  | OSettle => (mk_st (s_fib s) [] (s_calls s ++ s_pending s), ObCalls (s_pending s))
  | OReply i now running =>
      match fe with
      | FE_V2 =>
          match nth_error (s_calls s) i with
          | None => (s, ObErr EIndex)
          | Some c =>
              (s, match reply_closure (c_deadline c) now running with
                  | Ok (sent, r) => ObReply sent r
                  | Err e => ObErr e
                  end)
          end
      | _ => (s, ObErr EAttr)        (* only v2 handlers receive a reply callback *)
      end
  | OCleanUp =>
      match fe with
      | FE_V1 => (mk_st t_empty (s_pending s) (s_calls s), ObOk)   (* _prefix_tree.clear() *)
      | _ => (s, ObOk)                                             (* v2: "FIB is not cleared now" *)
      end
  end.

Fixpoint run_from (fe : frontend) (s : st) (l : list op) : st * list obs :=
  match l with
  | [] => (s, [])
  | o :: r => let '(s1, b) := step fe s o in let '(s2, bs) := run_from fe s1 r in (s2, b :: bs)
  end.
Definition run_ops (fe : frontend) (l : list op) : st * list obs := run_from fe st0 l.

(* the state alone, as a fold *)
Definition exec (fe : frontend) (s : st) (l : list op) : st :=
  fold_left (fun s o => fst (step fe s o)) l s.
