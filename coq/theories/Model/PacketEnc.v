(* make_interest / make_data (ndn_format_0_3.py) with signing, post-signing length repair and the
   parameters digest.  The hash and the signature primitive are parameters of the model: [sha] is
   SHA-256, [sign] is what signer.write_signature_value writes for the concatenation of the covered
   blocks it is given.  Field encodings go through the generic interpreter with the kinds taken from
   the descriptors reflected on this run, so a retyped or renumbered field changes this model. *)
From NDN Require Import Base.Prelude Model.TlvVar Model.Name Model.Tlv Model.Packet.
From NDN Require Import Generated.Schemas.
Local Open Scope N_scope.

Definition T_CAN_BE_PREFIX : N := 33.
Definition T_MUST_BE_FRESH : N := 18.
Definition T_FORWARDING_HINT : N := 30.
Definition T_NONCE : N := 10.
Definition T_LIFETIME : N := 12.
Definition T_HOP_LIMIT : N := 34.
Definition T_APP_PARAM : N := 36.
Definition T_ISIG_INFO : N := 44.
Definition T_ISIG_VALUE : N := 46.
Definition T_META_INFO : N := 20.
Definition T_CONTENT : N := 21.
Definition T_SIG_INFO : N := 22.
Definition T_SIG_VALUE : N := 23.

Fixpoint kind_of (fs : list field) (t : N) : option fkind :=
  match fs with [] => None | (t', k) :: r => if t' =? t then Some k else kind_of r t end.

(* encode one field of a packet model by its Type number *)
Definition enc_by (fs : list field) (t : N) (v : value) : res bytes :=
  match kind_of fs t with
  | Some k => enc_val (depth_of fs) t k v
  | None => Err EType
  end.

Record sig_in := { si_info : value (* the SignatureInfo the signer wrote, as a VModel *);
                   si_reserved : N (* signer.get_signature_value_size() *) }.

Record interest_in := {
  i_name : list bytes; i_cbp : bool; i_mbf : bool; i_hint : list (list bytes);
  i_nonce : option N; i_life : option N; i_hop : option N;
  i_app : option bytes; i_sig : option sig_in }.

Record data_in := {
  d_name : list bytes; d_meta : value (* MetaInfo as VModel, or VNone *); d_content : option bytes;
  d_sig : option sig_in }.

Definition vbool (b : bool) : value := if b then VTrue else VNone.
Definition vuint (o : option N) : value := match o with Some n => VUint n | None => VNone end.
Definition vbytes (o : option bytes) : value := match o with Some b => VBytes b | None => VNone end.

(* InterestNameField.encoded_length: every component must have a legal type; a ParametersSha256
   component may occur once, only when a digest is needed, and must be 02 20 <32 bytes> *)
Fixpoint scan_name (need_digest : bool) (idx : nat) (dp : option nat) (n : list bytes) : res (option nat) :=
  match n with
  | [] => Ok dp
  | c :: r =>
      do t <- comp_get_type c ;;
      if t =? 0 then Err EType
      else if t =? TYPE_PARAMETERS_SHA256 then
        match need_digest, dp with
        | true, None =>
            if negb (Nat.eqb (length c) 34) || negb (nth 1 c 0 =? 32) then Err EValue
            else scan_name need_digest (S idx) (Some idx) r
        | _, _ => Err EValue
        end
      else scan_name need_digest (S idx) dp r
  end.

Definition digest_comp (d : bytes) : bytes := [TYPE_PARAMETERS_SHA256; 32] ++ d.

Fixpoint set_nth {A} (l : list A) (i : nat) (x : A) : list A :=
  match l, i with
  | [], _ => []
  | _ :: r, O => x :: r
  | y :: r, S i' => y :: set_nth r i' x
  end.
Fixpoint remove_nth {A} (l : list A) (i : nat) : list A :=
  match l, i with
  | [], _ => []
  | _ :: r, O => r
  | y :: r, S i' => y :: remove_nth r i'
  end.

(* post-signing rule of SignatureValueField.calculate_signature *)
Definition check_sig_len (reserved : N) (sigval : bytes) : res unit :=
  if N.of_nat (length sigval) =? reserved then Ok tt
  else if 253 <=? reserved then Err EValue
  else if reserved <? N.of_nat (length sigval) then Err EValue
  else Ok tt.

Section WithPrimitives.
Variable sha : bytes -> bytes.
Variable sign : bytes -> bytes.

Record made := { m_wire : bytes; m_final_name : list bytes;
                 m_sig_covered : bytes (* concatenation of the blocks handed to the signer *);
                 m_digest_covered : bytes (* what the parameters digest is computed over *) }.

Definition make_interest (i : interest_in) : res made :=
  let fs := ndn_format_0_3_InterestPacketValue in
  let app := match i_sig i, i_app i with Some _, None => Some [] | _, a => a end in
  let need_digest := match app with Some _ => true | None => false end in
  do dp <- scan_name need_digest 0 None (i_name i) ;;
  do s_cbp <- enc_by fs T_CAN_BE_PREFIX (vbool (i_cbp i)) ;;
  do s_mbf <- enc_by fs T_MUST_BE_FRESH (vbool (i_mbf i)) ;;
  do s_hint <- enc_by fs T_FORWARDING_HINT
                 (match i_hint i with [] => VNone | l => VModel [VList (map VName l)] end) ;;
  do s_nonce <- enc_by fs T_NONCE (vuint (i_nonce i)) ;;
  do s_life <- enc_by fs T_LIFETIME (vuint (i_life i)) ;;
  do s_hop <- enc_by fs T_HOP_LIMIT (vuint (i_hop i)) ;;
  do s_app <- enc_by fs T_APP_PARAM (vbytes app) ;;
  do s_info <- enc_by fs T_ISIG_INFO (match i_sig i with Some s => si_info s | None => VNone end) ;;
  let name_nodigest := match dp with Some p => remove_nth (i_name i) p | None => i_name i end in
  let sig_covered := concat name_nodigest ++ s_app ++ s_info in
  do s_sig <- match i_sig i with
              | None => Ok []
              | Some s =>
                  let sv := sign sig_covered in
                  do _ <- check_sig_len (si_reserved s) sv ;;
                  enc_by fs T_ISIG_VALUE (VBytes sv)
              end ;;
  let digest_covered := s_app ++ s_info ++ s_sig in
  let final_name :=
    if need_digest then
      match dp with
      | Some p => set_nth (i_name i) p (digest_comp (sha digest_covered))
      | None => i_name i ++ [digest_comp (sha digest_covered)]
      end
    else i_name i in
  let body := name_encode final_name ++ s_cbp ++ s_mbf ++ s_hint ++ s_nonce ++ s_life ++ s_hop
              ++ s_app ++ s_info ++ s_sig in
  Ok {| m_wire := tlv TYPE_INTEREST body; m_final_name := final_name;
        m_sig_covered := sig_covered; m_digest_covered := if need_digest then digest_covered else [] |}.

(* NameField accepts any component list for Data; types are not checked there *)
Definition make_data (d : data_in) : res made :=
  let fs := ndn_format_0_3_DataPacketValue in
  let s_name := name_encode (d_name d) in
  do s_meta <- enc_by fs T_META_INFO (d_meta d) ;;
  do s_content <- enc_by fs T_CONTENT (vbytes (d_content d)) ;;
  do s_info <- enc_by fs T_SIG_INFO (match d_sig d with Some s => si_info s | None => VNone end) ;;
  let sig_covered := s_name ++ s_meta ++ s_content ++ s_info in
  do s_sig <- match d_sig d with
              | None => Ok []
              | Some s =>
                  let sv := sign sig_covered in
                  do _ <- check_sig_len (si_reserved s) sv ;;
                  enc_by fs T_SIG_VALUE (VBytes sv)
              end ;;
  Ok {| m_wire := tlv TYPE_DATA (s_name ++ s_meta ++ s_content ++ s_info ++ s_sig);
        m_final_name := d_name d; m_sig_covered := sig_covered; m_digest_covered := [] |}.

End WithPrimitives.

(* the values a decoder is expected to return for what was encoded (descriptor order) *)
Definition interest_values (i : interest_in) (final_name : list bytes) (sigval : option bytes) : list value :=
  let app := match i_sig i, i_app i with Some _, None => Some [] | _, a => a end in
  [VName final_name; vbool (i_cbp i); vbool (i_mbf i);
   match i_hint i with [] => VNone | l => VModel [VList (map VName l)] end;
   vuint (i_nonce i); vuint (i_life i); vuint (i_hop i); vbytes app;
   match i_sig i with Some s => si_info s | None => VNone end; vbytes sigval].

Definition data_values (d : data_in) (sigval : option bytes) : list value :=
  [VName (d_name d); d_meta d; vbytes (d_content d);
   match d_sig d with Some s => si_info s | None => VNone end; vbytes sigval].
