(* C02 — Signatures and parameter digests cover the specified bytes; tampering detected.
   Only statements, [exact]s and Print Assumptions live here.  [sha] and [sign] are arbitrary functions
   (Section variables of the proofs): the coverage theorems hold for every hash and every signer.
   The tamper clause rests on the cryptographic primitives and is stated under the ideal-primitive
   hypothesis ([verify] accepts (m, s) only if s = sign m; sha injective on the two messages at hand). *)
From NDN Require Import Base.Prelude Model.TlvVar Model.Name Model.Tlv Model.Packet Model.PacketEnc
  Spec.TlvWf Spec.SignedPortion.
From NDN Require Import Proofs.SignedPortionProofs Proofs.SignedPortionInterest Proofs.TlvRoundtrip Proofs.PacketRoundtrip.
From NDN Require Import Model.PacketPtrs Proofs.PtrsSpecView Proofs.PtrsData Proofs.PtrsDataMade Proofs.PtrsInterestWalk
  Proofs.PtrsInterest Proofs.PtrsInterestMade.
From NDN Require Generated.Schemas.
Local Open Scope N_scope.

(* Data: the signer is handed exactly Name through SignatureInfo of the packet that is sent *)
Theorem C02_sign_covers_spec_data sign d m s :
  make_data sign d = Ok m -> d_sig d = Some s ->
  N.of_nat (length (m_wire m)) < two64 ->
  fits (KModel Generated.Schemas.ndn_format_0_3_MetaInfo false) (d_meta d) ->
  fits (KModel Generated.Schemas.ndn_format_0_3_SignatureInfo true) (si_info s) ->
  exists body, m_wire m = tlv TYPE_DATA body /\ signed_portion_data body = Some (m_sig_covered m).
Proof. exact (data_sign_covers_spec sign d m s). Qed.
Print Assumptions C02_sign_covers_spec_data.

(* Interest: the signer is handed the name components other than the parameters digest, then
   ApplicationParameters up to but excluding the signature value; the digest component equals [sha] of
   the bytes from ApplicationParameters to the end of the Interest (computed after the signature is in) *)
Theorem C02_sign_covers_spec_interest sha sign i m s :
  (forall x, length (sha x) = 32%nat) ->
  make_interest sha sign i = Ok m -> i_sig i = Some s ->
  N.of_nat (length (m_wire m)) < two64 ->
  Forall wf_comp64 (i_name i) ->
  fits (KModel [(7, KRepeated KName)] false) (hint_value (i_hint i)) ->
  fits (KModel Generated.Schemas.ndn_format_0_3_SignatureInfo false) (si_info s) ->
  exists body,
    m_wire m = tlv TYPE_INTEREST body /\
    signed_portion_interest body = Some (m_sig_covered m) /\
    digest_portion body = Some (m_digest_covered m) /\
    digest_component body = Some (sha (m_digest_covered m)).
Proof. exact (fun H => interest_sign_covers_spec sha sign H i m s). Qed.
Print Assumptions C02_sign_covers_spec_interest.

(* ---- receiving side: what the decoders REPORT as covered (SignaturePtrs) ---------------------------------
   Model/PacketPtrs.v walks the declared order reflected from the source (fields AND offset markers).  For every
   packet value that is a sequence of well-formed elements ([strict_split] succeeds) and on which the walk
   succeeds (it does whenever the decoder accepts: [C02_decoder_accepts_*]), the reported ranges are the
   specified ones. *)
Theorem C02_reported_data v sel p :
  strict_split (S (length v)) v = Some sel ->
  ptrs_data_with Generated.Schemas.ndn_format_0_3_DataPacketValue_layout v = Ok p ->
  p_sig_value p = value_of_type (S (length v)) 23 v /\
  (forall s, signed_portion_data v = Some s -> concat (p_sig_covered p) = s) /\
  (value_of_type (S (length v)) 23 v = None -> p_sig_covered p = [] /\ p_sig_value p = None).
Proof. exact (ptrs_data_spec v sel p). Qed.
Print Assumptions C02_reported_data.

Theorem C02_reported_certificate v sel p :
  strict_split (S (length v)) v = Some sel ->
  ptrs_data_with Generated.Schemas.security_v2_CertificateV2Value_layout v = Ok p ->
  p_sig_value p = value_of_type (S (length v)) 23 v /\
  (forall s, signed_portion_data v = Some s -> concat (p_sig_covered p) = s) /\
  (value_of_type (S (length v)) 23 v = None -> p_sig_covered p = [] /\ p_sig_value p = None).
Proof. exact (ptrs_cert_spec v sel p). Qed.
Print Assumptions C02_reported_certificate.

Theorem C02_decoder_accepts_data w vs v :
  dec_data w = Ok vs -> parse_and_check_tl w TYPE_DATA = Ok v ->
  exists p, ptrs_data_with Generated.Schemas.ndn_format_0_3_DataPacketValue_layout v = Ok p.
Proof. exact (ptrs_data_accepts w vs v). Qed.
Print Assumptions C02_decoder_accepts_data.

Theorem C02_reported_interest_sig_value v sel p :
  strict_split (S (length v)) v = Some sel ->
  ptrs_interest_with Generated.Schemas.ndn_format_0_3_InterestPacketValue_layout v = Ok p ->
  p_sig_value p = value_of_type (S (length v)) 46 v.
Proof. exact (interest_sig_value v sel p). Qed.
Print Assumptions C02_reported_interest_sig_value.

Theorem C02_reported_interest_digest v sel p :
  strict_split (S (length v)) v = Some sel ->
  ptrs_interest_with Generated.Schemas.ndn_format_0_3_InterestPacketValue_layout v = Ok p ->
  forall dc, digest_component v = Some dc -> p_dig_value p = Some dc.
Proof. exact (interest_digest_value v sel p). Qed.
Print Assumptions C02_reported_interest_digest.

(* [params_first]: ApplicationParameters precedes InterestSignatureInfo / InterestSignatureValue, as the packet
   format demands (a decoder-accepted Interest that violates it is reported with a range starting at the first of
   the three; the run-time oracle judges only packets in canonical order, see DESIGN 9.6) *)
Theorem C02_reported_interest_signed_range v sel p :
  strict_split (S (length v)) v = Some sel ->
  ptrs_interest_with Generated.Schemas.ndn_format_0_3_InterestPacketValue_layout v = Ok p ->
  params_first (types sel) ->
  forall s, signed_portion_interest v = Some s -> concat (p_sig_covered p) = s.
Proof. exact (interest_signed_range v sel p). Qed.
Print Assumptions C02_reported_interest_signed_range.

Theorem C02_reported_interest_digest_range v sel p :
  strict_split (S (length v)) v = Some sel ->
  ptrs_interest_with Generated.Schemas.ndn_format_0_3_InterestPacketValue_layout v = Ok p ->
  params_first (types sel) ->
  forall dp, digest_portion v = Some dp -> concat (p_dig_covered p) = dp.
Proof. exact (interest_digest_range v sel p). Qed.
Print Assumptions C02_reported_interest_digest_range.

(* both ends: for every packet the library makes with a signer -- any signer, any signature length -- the receiver's
   decoder reports exactly the bytes the signer was given (and, for Interests, the bytes hashed into the
   parameters digest and that digest) *)
Theorem C02_made_data_reported sign d m s :
  make_data sign d = Ok m -> d_sig d = Some s ->
  N.of_nat (length (m_wire m)) < two64 ->
  (forall sv, data_fits d sv) ->
  fits (KModel Generated.Schemas.ndn_format_0_3_MetaInfo false) (d_meta d) ->
  fits (KModel Generated.Schemas.ndn_format_0_3_SignatureInfo true) (si_info s) ->
  exists body p,
    m_wire m = tlv TYPE_DATA body /\ well_formed_value body /\
    ptrs_data_with Generated.Schemas.ndn_format_0_3_DataPacketValue_layout body = Ok p /\
    concat (p_sig_covered p) = m_sig_covered m /\
    p_sig_value p = value_of_type (S (length body)) 23 body.
Proof. exact (made_data_reported sign d m s). Qed.
Print Assumptions C02_made_data_reported.

Theorem C02_made_interest_reported sha sign i m s :
  (forall x, length (sha x) = 32%nat) ->
  make_interest sha sign i = Ok m -> i_sig i = Some s ->
  N.of_nat (length (m_wire m)) < two64 ->
  Forall wf_comp64 (i_name i) ->
  fits (KModel [(7, KRepeated KName)] false) (hint_value (i_hint i)) ->
  fits (KModel Generated.Schemas.ndn_format_0_3_SignatureInfo false) (si_info s) ->
  (forall sv, interest_fits i (m_final_name m) sv) ->
  exists body p,
    m_wire m = tlv TYPE_INTEREST body /\ well_formed_value body /\
    ptrs_interest_with Generated.Schemas.ndn_format_0_3_InterestPacketValue_layout body = Ok p /\
    concat (p_sig_covered p) = m_sig_covered m /\
    concat (p_dig_covered p) = m_digest_covered m /\
    p_dig_value p = Some (sha (m_digest_covered m)) /\
    p_sig_value p = value_of_type (S (length body)) 46 body.
Proof. exact (made_interest_reported sha sign i m s). Qed.
Print Assumptions C02_made_interest_reported.

(* non-vacuity of the receiving side: the pointers of the example packet *)
Example C02_example_reported :
  let d := {| d_name := [comp_enc 8 [97]]; d_meta := VModel [VUint 0; VNone; VNone]; d_content := Some [104; 105];
              d_sig := Some {| si_info := VModel [VUint 0; VNone; VNone; VNone; VNone]; si_reserved := 32 |} |} in
  exists m p, make_data (fun _ => repeat 9 32) d = Ok m /\
              ptrs_data_with Generated.Schemas.ndn_format_0_3_DataPacketValue_layout (skipn 2 (m_wire m)) = Ok p /\
              concat (p_sig_covered p) = m_sig_covered m /\ p_sig_value p = Some (repeat 9 32).
Proof. eexists. eexists. split; [vm_compute; reflexivity|]. split; [vm_compute; reflexivity|]. split; vm_compute; reflexivity. Qed.

(* tamper clause, for an ideal verifier: if [verify] accepts only pairs produced by [sign], then any packet
   whose (signed portion, signature value) differs from the signed one is rejected *)
Theorem C02_tamper_rejected (sign : bytes -> bytes) (verify : bytes -> bytes -> bool) :
  (forall m s, verify m s = true -> s = sign m) ->
  forall m s m' s', s = sign m -> (m', s') <> (m, s) -> sign m' <> s' \/ m' = m -> verify m' s' = true -> False.
Proof.
  exact (fun Hid m s m' s' Es Hne Hcase Hv =>
    match Hcase with
    | or_introl Hd => Hd (eq_sym (Hid m' s' Hv))
    | or_intror Em => Hne (f_equal2 pair Em (eq_trans (Hid m' s' Hv) (eq_trans (f_equal sign Em) (eq_sym Es))))
    end).
Qed.
Print Assumptions C02_tamper_rejected.

(* non-vacuity *)
Example C02_example :
  let d := {| d_name := [comp_enc 8 [97]]; d_meta := VModel [VUint 0; VNone; VNone]; d_content := Some [104; 105];
              d_sig := Some {| si_info := VModel [VUint 0; VNone; VNone; VNone; VNone]; si_reserved := 32 |} |} in
  exists m, make_data (fun _ => repeat 9 32) d = Ok m /\
            signed_portion_data (skipn 2 (m_wire m)) = Some (m_sig_covered m) /\ length (m_sig_covered m) = 19%nat.
Proof. eexists. split; [vm_compute; reflexivity|]. vm_compute. split; reflexivity. Qed.

(* T1 tie: where the offset markers sit in the declared field order of the packet models (re-reflected from
   the source on this run): the signature start marker and the digest start marker immediately before
   ApplicationParameters, the digest end marker after the signature value; for Data (and certificates) the
   signature start marker before the Name.  The model's covered ranges assume exactly this. *)
Theorem C02_tie_layout :
  Generated.Schemas.ndn_format_0_3_InterestPacketValue_layout
  = [inl 7; inl 33; inl 18; inl 30; inl 10; inl 12; inl 34; inr 1; inr 2; inl 36; inl 44; inl 46; inr 3]
  /\ Generated.Schemas.ndn_format_0_3_DataPacketValue_layout = [inr 1; inl 7; inl 20; inl 21; inl 22; inl 23]
  /\ Generated.Schemas.security_v2_CertificateV2Value_layout = [inr 1; inl 7; inl 20; inl 21; inl 22; inl 23].
Proof. exact (conj eq_refl (conj eq_refl eq_refl)). Qed.
