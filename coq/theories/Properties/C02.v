(* C02 — Signatures and parameter digests cover the specified bytes; tampering detected.
   Only statements, [exact]s and Print Assumptions live here.  [sha] and [sign] are arbitrary functions
   (Section variables of the proofs): the coverage theorems hold for every hash and every signer.
   The tamper clause rests on the cryptographic primitives and is stated under the ideal-primitive
   hypothesis ([verify] accepts (m, s) only if s = sign m; sha injective on the two messages at hand). *)
From NDN Require Import Base.Prelude Model.TlvVar Model.Name Model.Tlv Model.Packet Model.PacketEnc
  Spec.TlvWf Spec.SignedPortion.
From NDN Require Import Proofs.SignedPortionProofs Proofs.SignedPortionInterest Proofs.TlvRoundtrip.
From NDN Require Generated.Schemas.
Local Open Scope N_scope.

(* Data: the signer is handed exactly Name through SignatureInfo of the packet that is sent *)
Theorem C02_sign_covers_spec_data sign d m s :
  make_data sign d = Ok m -> d_sig d = Some s ->
  N.of_nat (length (m_wire m)) < two64 ->
  fits (KModel Generated.Schemas.ndn_format_0_3_MetaInfo false) (d_meta d) ->
  fits (KModel Generated.Schemas.ndn_format_0_3_SignatureInfo true) (si_info s) ->
  exists body, m_wire m = tlv TYPE_DATA body /\ signed_portion_data body = Some (m_sig_covered m).
Proof. exact (data_sign_covers_spec sign d m s). Qed.
Print Assumptions C02_sign_covers_spec_data.

(* Interest: the signer is handed the name components other than the parameters digest, then
   ApplicationParameters up to but excluding the signature value; the digest component equals [sha] of
   the bytes from ApplicationParameters to the end of the Interest (computed after the signature is in) *)
Theorem C02_sign_covers_spec_interest sha sign i m s :
  (forall x, length (sha x) = 32%nat) ->
  make_interest sha sign i = Ok m -> i_sig i = Some s ->
  N.of_nat (length (m_wire m)) < two64 ->
  Forall wf_comp64 (i_name i) ->
  fits (KModel [(7, KRepeated KName)] false) (hint_value (i_hint i)) ->
  fits (KModel Generated.Schemas.ndn_format_0_3_SignatureInfo false) (si_info s) ->
  exists body,
    m_wire m = tlv TYPE_INTEREST body /\
    signed_portion_interest body = Some (m_sig_covered m) /\
    digest_portion body = Some (m_digest_covered m) /\
    digest_component body = Some (sha (m_digest_covered m)).
Proof. exact (fun H => interest_sign_covers_spec sha sign H i m s). Qed.
Print Assumptions C02_sign_covers_spec_interest.

(* tamper clause, for an ideal verifier: if [verify] accepts only pairs produced by [sign], then any packet
   whose (signed portion, signature value) differs from the signed one is rejected *)
Theorem C02_tamper_rejected (sign : bytes -> bytes) (verify : bytes -> bytes -> bool) :
  (forall m s, verify m s = true -> s = sign m) ->
  forall m s m' s', s = sign m -> (m', s') <> (m, s) -> sign m' <> s' \/ m' = m -> verify m' s' = true -> False.
Proof.
  exact (fun Hid m s m' s' Es Hne Hcase Hv =>
    match Hcase with
    | or_introl Hd => Hd (eq_sym (Hid m' s' Hv))
    | or_intror Em => Hne (f_equal2 pair Em (eq_trans (Hid m' s' Hv) (eq_trans (f_equal sign Em) (eq_sym Es))))
    end).
Qed.
Print Assumptions C02_tamper_rejected.

(* non-vacuity *)
Example C02_example :
  let d := {| d_name := [comp_enc 8 [97]]; d_meta := VModel [VUint 0; VNone; VNone]; d_content := Some [104; 105];
              d_sig := Some {| si_info := VModel [VUint 0; VNone; VNone; VNone; VNone]; si_reserved := 32 |} |} in
  exists m, make_data (fun _ => repeat 9 32) d = Ok m /\
            signed_portion_data (skipn 2 (m_wire m)) = Some (m_sig_covered m) /\ length (m_sig_covered m) = 19%nat.
Proof. eexists. split; [vm_compute; reflexivity|]. vm_compute. split; reflexivity. Qed.

(* T1 tie: where the offset markers sit in the declared field order of the packet models (re-reflected from
   the source on this run): the signature start marker and the digest start marker immediately before
   ApplicationParameters, the digest end marker after the signature value; for Data (and certificates) the
   signature start marker before the Name.  The model's covered ranges assume exactly this. *)
Theorem C02_tie_layout :
  Generated.Schemas.ndn_format_0_3_InterestPacketValue_layout
  = [inl 7; inl 33; inl 18; inl 30; inl 10; inl 12; inl 34; inr 1; inr 2; inl 36; inl 44; inl 46; inr 3]
  /\ Generated.Schemas.ndn_format_0_3_DataPacketValue_layout = [inr 1; inl 7; inl 20; inl 21; inl 22; inl 23]
  /\ Generated.Schemas.security_v2_CertificateV2Value_layout = [inr 1; inl 7; inl 20; inl 21; inl 22; inl 23].
Proof. exact (conj eq_refl (conj eq_refl eq_refl)). Qed.
