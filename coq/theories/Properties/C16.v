(* C16 — issued certificates are well-formed, correctly named and verifiable.
   Only statements, [exact]s and Print Assumptions live here.  [sign] (what the issuing signer writes for the bytes it
   is given) is an arbitrary function: every theorem holds for every signer and every signature length it produces.
   [legal a kn]: the key name normalises to the well-formed components kn, the issuer id is a well-formed component,
   the signer wrote a legal SignatureInfo, the datetimes are existing dates (Proofs/CertMain.v). *)
From NDN Require Import Base.Prelude Base.Text Model.TlvVar Model.Name Model.Tlv Model.Packet Model.PacketEnc Model.Cert
  Spec.TlvWf Spec.SignedPortion Spec.CertSpec.
From NDN Require Import Proofs.TlvSplit Proofs.TlvRoundtrip Proofs.CertProofs Proofs.CertTime Proofs.CertMain.
From NDN Require Generated.Schemas Generated.ConstsCert.
Local Open Scope N_scope.

(* one Data element: shortest-form Type and Length around a value of exactly the declared length, the value being a
   sequence of well-formed elements -- whatever part of the reserved signature space stayed unused *)
Theorem C16_wellformed sign a m kn :
  new_cert sign a = Ok m -> legal a kn -> N.of_nat (length (m_wire m)) < two64 ->
  exists body els, m_wire m = tlv TYPE_DATA body /\ body = ser_els els /\ Forall el_ok els /\ split_wire body = Ok els /\
                   N.of_nat (length (m_wire m)) = N.of_nat (tl_size TYPE_DATA + tl_size (N.of_nat (length body)) + length body).
Proof. exact (new_cert_wellformed sign a m kn). Qed.
Print Assumptions C16_wellformed.

(* the hand-written outer TLV of new_cert: Type, the Length of (value minus the unused tail), and that part of the
   value, is the canonical element around the value without the tail *)
Theorem C16_outer_tlv v pad :
  N.of_nat (length v) < two64 -> assemble_outer (v ++ pad) (length pad) = Ok (tlv TYPE_DATA v).
Proof. exact (assemble_outer_ok v pad). Qed.

(* parse_certificate, and equally the strict reader of the format (every element inside its parent at every level,
   Spec/StrictTlv.v), returns: name = key name / issuer id / version(timestamp), MetaInfo (ContentType KEY, freshness),
   content = the key bits, SignatureInfo = what the signer wrote + ValidityPeriod holding the 15-octet UTC text of the
   two requested instants, SignatureValue = what the signer wrote.  t0/t1 are the UTC fields of the requested instants;
   the restriction to years >= 1000 is that of strftime('%Y') (no zero padding below) *)
Theorem C16_fields sign a m kn :
  new_cert sign a = Ok m -> legal a kn -> N.of_nat (length (m_wire m)) < two64 ->
  exists n t0 t1 sv,
    c_now a = Z.of_N n /\ m_final_name m = kn ++ [c_issuer a; comp_enc Generated.ConstsCert.TYPE_VERSION (nni_enc n)] /\
    to_utc (c_start a) = Ok t0 /\ to_utc (c_end a) = Ok t1 /\
    bdt_to_secs t0 = instant_of (c_start a) /\ bdt_to_secs t1 = instant_of (c_end a) /\
    valid_bdt t0 = true /\ valid_bdt t1 = true /\
    (match c_signer a with Some _ => sv = Some (sign (m_sig_covered m)) | None => sv = None end) /\
    (1000 <= t_year t0 -> 1000 <= t_year t1 ->
     dec_cert (m_wire m) = Ok (issued_values a kn n t0 t1 sv) /\
     strict_cert (m_wire m) = Ok (issued_values a kn n t0 t1 sv)).
Proof. exact (new_cert_fields sign a m kn). Qed.
Print Assumptions C16_fields.

(* those values satisfy the specification of an issued certificate (Spec/CertSpec.v): name shape, KEY, content,
   NotBefore/NotAfter denote the requested instants, SignatureType and KeyLocator are the signer's *)
Theorem C16_spec a kn n t0 t1 sv st kl x y z :
  written_of a = [st; kl; x; y; z] -> flat st -> flat kl ->
  valid_bdt t0 = true -> valid_bdt t1 = true -> 1000 <= t_year t0 -> 1000 <= t_year t1 ->
  bdt_to_secs t0 = instant_of (c_start a) -> bdt_to_secs t1 = instant_of (c_end a) ->
  cert_fields_ok (request_of a kn) (issued_values a kn n t0 t1 sv) = true /\
  signature_of (issued_values a kn n t0 t1 sv) = vbytes sv.
Proof. exact (issued_values_meet_spec a kn n t0 t1 sv st kl x y z). Qed.
Print Assumptions C16_spec.

(* the name that is returned and carried: key name, issuer id, a version component holding the timestamp *)
Theorem C16_name_shape a name :
  cert_name a = Ok name ->
  exists kn n, name_normalize (c_key_name a) = Ok kn /\ c_now a = Z.of_N n /\ n < two64 /\
               name = kn ++ [c_issuer a; comp_enc Generated.ConstsCert.TYPE_VERSION (nni_enc n)].
Proof. exact (cert_name_shape a name). Qed.

(* the validity text: strftime with the format strings of the source gives 15 octets YYYYMMDDTHHMMSS, and reading
   them back gives the broken-down instant *)
Theorem C16_validity_roundtrip t :
  valid_bdt t = true -> 1000 <= t_year t ->
  strftime Generated.ConstsCert.not_before_format t = Ok (validity_text t) /\
  strftime Generated.ConstsCert.not_after_format t = Ok (validity_text t) /\
  length (validity_text t) = 15%nat /\ parse_validity (validity_text t) = Some t.
Proof.
  exact (fun Hv Hy => conj (proj1 (strftime_validity t (valid_in_range t Hv Hy)))
                      (conj (proj2 (strftime_validity t (valid_in_range t Hv Hy)))
                      (conj (validity_text_length t) (parse_validity_text t Hv Hy)))).
Qed.
Print Assumptions C16_validity_roundtrip.

(* day counting: the datetime computed for an instant is an existing date and denotes that instant; so do the results
   of astimezone(UTC) and of adding a timedelta *)
Theorem C16_instant s t : secs_to_bdt s = Ok t -> bdt_to_secs t = s /\ valid_bdt t = true.
Proof. exact (secs_to_bdt_sound s t). Qed.
Theorem C16_to_utc a t : valid_bdt (a_fields a) = true -> to_utc a = Ok t -> bdt_to_secs t = instant_of a /\ valid_bdt t = true.
Proof. exact (to_utc_sound a t). Qed.
Print Assumptions C16_instant.

(* the signer is handed exactly Name .. SignatureInfo of the certificate that is returned *)
Theorem C16_signed_portion sign a m kn s :
  new_cert sign a = Ok m -> legal a kn -> c_signer a = Some s -> N.of_nat (length (m_wire m)) < two64 ->
  exists body, m_wire m = tlv TYPE_DATA body /\ signed_portion_data body = Some (m_sig_covered m).
Proof. exact (new_cert_signed sign a m kn s). Qed.
Print Assumptions C16_signed_portion.

(* "whose signature verifies under the issuing key": a verifier reads the signed portion and the SignatureValue off the
   certificate (strictly); for every verification function that accepts what the signer produces for a message --
   correctness of the signature scheme, a hypothesis; the real verify_* functions are exercised on every run -- it accepts *)
Theorem C16_verifies sign (verify : bytes -> bytes -> bool) a m kn s :
  (forall msg, verify msg (sign msg) = true) ->
  new_cert sign a = Ok m -> legal a kn -> c_signer a = Some s -> N.of_nat (length (m_wire m)) < two64 ->
  exists body vs msg sigv,
    m_wire m = tlv TYPE_DATA body /\ strict_cert (m_wire m) = Ok vs /\
    signed_portion_data body = Some msg /\ signature_of vs = VBytes sigv /\ verify msg sigv = true.
Proof. exact (new_cert_verifies sign verify a m kn s). Qed.
Print Assumptions C16_verifies.

(* signature lengths: never more than reserved; a reserved space of >= 253 octets must be filled *)
Theorem C16_sig_length sign a m s :
  new_cert sign a = Ok m -> c_signer a = Some s ->
  N.of_nat (length (sign (m_sig_covered m))) <= sg_reserved s /\
  (253 <= sg_reserved s -> N.of_nat (length (sign (m_sig_covered m))) = sg_reserved s).
Proof. exact (new_cert_sig_length sign a m s). Qed.

(* the three callers: new_cert with the issuer id / instants they stand for *)
Theorem C16_derive_cert sign key_name iss pub sg ts start e m :
  derive_cert sign key_name iss pub sg ts start e = Ok m ->
  exists ic a,
    issuer_comp iss = Ok ic /\ new_cert sign a = Ok m /\
    c_key_name a = key_name /\ c_issuer a = ic /\ c_now a = ts /\ c_pub a = pub /\ c_signer a = sg /\ c_start a = start /\
    instant_of (c_end a) = (instant_of start + e)%Z /\ valid_bdt (a_fields (c_end a)) = true.
Proof. exact (derive_cert_spec sign key_name iss pub sg ts start e m). Qed.

Theorem C16_self_sign sign key_name pub sg ts now m :
  valid_bdt now = true ->
  self_sign sign key_name pub sg ts now = Ok m ->
  exists e a,
    new_cert sign a = Ok m /\
    c_key_name a = key_name /\ c_issuer a = Generated.ConstsCert.SELF_COMPONENT /\ c_now a = ts /\ c_pub a = pub /\
    c_signer a = sg /\ instant_of (c_start a) = 0%Z /\ valid_bdt (a_fields (c_start a)) = true /\
    c_end a = utc e /\ valid_bdt e = true /\
    t_year e = t_year now + 20 /\ t_mon e = t_mon now /\ t_day e = t_day now /\ t_hour e = t_hour now /\
    t_min e = t_min now /\ t_sec e = t_sec now.
Proof. exact (self_sign_spec sign key_name pub sg ts now m). Qed.

Theorem C16_sign_req sign key_name pub sg ts now1 now2 m :
  sign_req sign key_name pub sg ts now1 now2 = Ok m ->
  exists a,
    new_cert sign a = Ok m /\
    c_key_name a = key_name /\ c_issuer a = Generated.ConstsCert.SIGN_REQ_COMPONENT /\ c_now a = ts /\ c_pub a = pub /\
    c_signer a = sg /\ c_start a = utc now2 /\
    instant_of (c_end a) = (bdt_to_secs now1 + 864000)%Z /\ valid_bdt (a_fields (c_end a)) = true.
Proof. exact (sign_req_spec sign key_name pub sg ts now1 now2 m). Qed.
Print Assumptions C16_derive_cert.

(* T1 layout obligations on the descriptors reflected from the source on this run *)
Theorem C16_layout :
  Generated.Schemas.security_v2_CertificateV2Value =
    [(TYPE_NAME, KName); (T_META_INFO, KModel Generated.Schemas.ndn_format_0_3_MetaInfo false); (T_CONTENT, KBytes false);
     (T_SIG_INFO, KModel Generated.Schemas.security_v2_CertificateV2SignatureInfo true); (T_SIG_VALUE, KBytes false)]
  /\ Generated.Schemas.security_v2_CertificateV2Value_layout = Generated.Schemas.ndn_format_0_3_DataPacketValue_layout.
Proof. exact cert_layout. Qed.

(* non-vacuity: /a/KEY/k issued by "ca" at 2024-02-29T23:59:59+08:00 for 20 years, a 70-octet signature in 72 reserved octets (the value is 253 octets long before and 251 after the unused two are cut:
   the Length shrinks from three octets to one);
   constant functions stand for the signature primitive *)
Definition C16_example_input : cert_in :=
  {| c_key_name := NSList [NCBytes (comp_enc 8 [97]); NCBytes (comp_enc 8 [75; 69; 89]); NCBytes (comp_enc 8 [107])];
     c_issuer := comp_enc 8 [99; 97]; c_now := 1790379136352%Z; c_pub := repeat 5 85;
     c_signer := Some {| sg_written := [VUint 3; VModel [VName [comp_enc 8 [105]]; VNone]; VNone; VNone; VNone]; sg_reserved := 72 |};
     c_start := {| a_fields := {| t_year := 2024; t_mon := 2; t_day := 29; t_hour := 23; t_min := 59; t_sec := 59 |};
                   a_offset := Some 28800%Z |};
     c_end := {| a_fields := {| t_year := 2044; t_mon := 2; t_day := 29; t_hour := 23; t_min := 59; t_sec := 59 |};
                 a_offset := Some 28800%Z |} |}.

Example C16_example :
  let a := C16_example_input in
  let kn := [comp_enc 8 [97]; comp_enc 8 [75; 69; 89]; comp_enc 8 [107]] in
  legal a kn /\
  exists m, new_cert (fun _ => repeat 7 70) a = Ok m /\ length (m_wire m) = 253%nat /\
            length (m_final_name m) = 5%nat /\
            to_utc (c_start a) = Ok {| t_year := 2024; t_mon := 2; t_day := 29; t_hour := 15; t_min := 59; t_sec := 59 |} /\
            is_ok (dec_cert (m_wire m)) = true.
Proof.
  cbv zeta. split.
  - constructor; try reflexivity.
    + repeat constructor; eexists; eexists; (split; [reflexivity|split; reflexivity]).
    + eexists; eexists; (split; [reflexivity|split; reflexivity]).
    + constructor. repeat constructor.
      * apply (fits_uint (Some 1) 3 1%nat); reflexivity.
      * eexists; eexists; (split; [reflexivity|split; reflexivity]).
  - eexists. vm_compute. repeat split; reflexivity.
Qed.
