(* C14 — The schema validator accepts exactly packets with a valid chain to the anchor.
   Only statements, [exact]s and Print Assumptions live here.
   Model: Model/Validator.v (lvs_validator + CascadeChecker of the FIXED code: own default key storage per
   instance, Ed25519 branch).  Specification: Spec/ChainSpec.v.  *)
From NDN Require Import Base.Prelude Model.Validator Spec.ChainSpec.
From NDN Require Import Proofs.ValidatorProofs Proofs.ValidatorHistory Proofs.ValidatorTie Proofs.ValidatorExamples
  Proofs.ValidatorTrace.
From NDN Require Generated.ValidatorConsts.
From NDN Require Properties.C14Findings.   (* keeps the refutation witnesses checked on every run *)

(* accept <-> chain, for every world, schema, anchor, cache satisfying the invariant, packet and fuel,
   whenever the validator answers at all (r <> out-of-fuel; see C14Findings for certificate loops).
   Exceptions escaping the validator count as "not accepted" and indeed imply that there is no chain. *)
Theorem C14_iff w c fuel st p r st' tr :
  cache_ok w (trust_of c) st ->
  validate w c fuel st p = (r, st', tr) ->
  r <> Err EFuel ->
  (r = Ok true <-> Chain w (trust_of c) p).
Proof. exact (validate_iff w c fuel st p r st' tr). Qed.
Print Assumptions C14_iff.
Example C14_iff_nonvacuous :
  cache_ok ex_world (trust_of cfg1) [] /\ validate ex_world cfg1 3 [] P = (Ok true, [(nC, [13%N])], [nC]) /\
  Chain ex_world (trust_of cfg1) P /\ ~ Chain ex_world (trust_of cfg2) P.
Proof. exact (conj (cache_ok_nil _ _) (conj ex_validate_P (conj ex_chain_P ex_no_chain_P_anchor2))). Qed.

(* the same without any termination hypothesis: some fuel makes the validator accept  <->  chain *)
Theorem C14_accepts_iff_chain w c st p :
  cache_ok w (trust_of c) st ->
  (exists fuel, fst (fst (validate w c fuel st p)) = Ok true) <-> Chain w (trust_of c) p.
Proof. exact (accepts_iff_chain w c st p). Qed.
Print Assumptions C14_accepts_iff_chain.

(* the cache invariant "cached => retrievable under that name and validated under the same anchor and schema"
   is preserved by every validation, whatever its outcome *)
Theorem C14_cache_invariant w c fuel st p r st' tr :
  cache_ok w (trust_of c) st -> validate w c fuel st p = (r, st', tr) -> cache_ok w (trust_of c) st'.
Proof. exact (validate_keeps_cache_ok w c fuel st p r st' tr). Qed.
Print Assumptions C14_cache_invariant.
Example C14_cache_invariant_nonvacuous : cache_ok ex_world (trust_of cfg1) [(nC, [13%N])].
Proof. exact ex_cache_ok. Qed.

(* termination: if the key-locator path from p stops within n certificates (anchor reached, no key
   locator, or certificate not retrievable) then n fetches suffice and the validator answers *)
Theorem C14_terminates w c :
  no_fuel_err w -> check_no_fuel c -> fetch_no_fuel w ->
  forall n p, Bounded w c n p -> forall st, fst (fst (validate w c n st p)) <> Err EFuel.
Proof. exact (validate_terminates w c). Qed.
Print Assumptions C14_terminates.
Example C14_terminates_nonvacuous : Bounded ex_world cfg1 1 P.
Proof. exact ex_bounded_P. Qed.

(* constructor: built <-> user functions present /\ anchor matches all roots of trust /\ properly self-signed *)
Theorem C14_constructor w sc a :
  (exists c, lvs_init w sc a = Ok c) <->
  sc_fns_ok sc = true /\ exists p, a = Ok p /\ anchor_matches sc p /\ self_signed w p.
Proof. exact (lvs_init_iff w sc a). Qed.
Print Assumptions C14_constructor.
Example C14_constructor_nonvacuous : lvs_init ex_world ex_schema (Ok A1) = Ok cfg1.
Proof. exact ex_init1. Qed.

(* ... and the instance is configured with that anchor's name and key and that schema's signing check *)
Theorem C14_constructor_cfg w sc a c :
  lvs_init w sc a = Ok c ->
  exists p k, a = Ok p /\ p_content p = Some k /\
              trust_of c = {| t_anchor_name := p_name p; t_anchor_key := k; t_allowed := allowed_of (Some (sc_check sc)) |}.
Proof. exact (lvs_init_cfg w sc a c). Qed.
Print Assumptions C14_constructor_cfg.

Theorem C14_constructor_cascade w a :
  (exists c, cascade_init w a None = Ok c) <-> exists p, a = Ok p /\ self_signed w p.
Proof. exact (cascade_init_iff w a). Qed.
Print Assumptions C14_constructor_cascade.

(* history independence: in ANY state reachable by ANY sequence of constructions (default storage, or an
   explicitly given storage that no other validator uses) and validations by any instances, the verdict of
   instance i on p is accept <-> Chain under i's own anchor and schema. *)
Theorem C14_history_independent w st fuel i ins p st' r tr :
  reachable w st ->
  nth_error (s_insts st) i = Some ins ->
  step false w fuel st (OValidate i p) = (st', BVal r tr) ->
  r <> Err EFuel ->
  (r = Ok true <-> Chain w (trust_of (i_cfg ins)) p).
Proof. exact (history_independent w st fuel i ins p st' r tr). Qed.
Print Assumptions C14_history_independent.
Example C14_history_independent_nonvacuous :
  reachable ex_world ex_state2 /\
  snd (run_history false ex_world 5 init_state ex_ops) =
  [ BNew (Ok 0%nat); BNew (Ok 1%nat); BVal (Ok false) [nC; nA]; BVal (Ok true) [nC]; BVal (Ok false) [nC; nA] ].
Proof. exact (conj ex_reachable ex_history_fixed). Qed.

(* every state along a run of constructions with defaulted storage and validations is such a reachable state *)
Theorem C14_runs_are_reachable w fuel ops st :
  reachable w st ->
  (forall o, In o ops -> match o with
                         | ONewLvs _ _ (SGiven _) | ONewCascade _ (SGiven _) => False
                         | _ => True end) ->
  reachable w (fst (run_history false w fuel st ops)).
Proof. exact (run_history_reachable w fuel ops st). Qed.
Print Assumptions C14_runs_are_reachable.

Theorem C14_same_verdict w st1 st2 f1 f2 i1 i2 a b p s1 s2 r1 r2 t1 t2 :
  reachable w st1 -> reachable w st2 ->
  nth_error (s_insts st1) i1 = Some a -> nth_error (s_insts st2) i2 = Some b ->
  trust_of (i_cfg a) = trust_of (i_cfg b) ->
  step false w f1 st1 (OValidate i1 p) = (s1, BVal r1 t1) ->
  step false w f2 st2 (OValidate i2 p) = (s2, BVal r2 t2) ->
  r1 <> Err EFuel -> r2 <> Err EFuel ->
  (r1 = Ok true <-> r2 = Ok true).
Proof. exact (same_verdict w st1 st2 f1 f2 i1 i2 a b p s1 s2 r1 r2 t1 t2). Qed.
Print Assumptions C14_same_verdict.

(* triage of DESIGN 9b: only RSA / ECDSA / Ed25519 signatures can have a chain; an HMAC-, digest- or
   unknown-type packet is never accepted (the dropped HMAC result only ever yields "reject") *)
Theorem C14_symmetric_never_accepted w t p :
  Chain w t p -> exists si, p_sig p = Some si /\ asymmetric (s_type si) = true.
Proof. exact (chain_asymmetric w t p). Qed.
Print Assumptions C14_symmetric_never_accepted.

(* Interests sent for certificates: a prefix of the key-locator path starting at the packet, at most one per
   unit of fuel, never for the trust anchor's name; a packet signed directly by the anchor costs no Interest
   and leaves the key storage untouched *)
Theorem C14_interests_sent w c fuel st p r st' tr :
  validate w c fuel st p = (r, st', tr) ->
  (exists m, tr = firstn m (kl_path w fuel p)) /\ ~ In (c_anchor_name c) tr /\ (length tr <= fuel)%nat.
Proof.
  exact (fun H => conj (trace_is_path_prefix w c fuel st p r st' tr H)
                       (conj (trace_avoids_anchor w c fuel st p r st' tr H) (trace_length w c fuel st p r st' tr H))).
Qed.
Print Assumptions C14_interests_sent.
Example C14_interests_sent_nonvacuous : kl_path ex_world 3 P = [nC; nA] /\ snd (validate ex_world cfg1 3 [] P) = [nC].
Proof. exact ex_trace. Qed.

Theorem C14_anchor_shortcut w c fuel st p cn r st' tr :
  key_locator p = Some cn -> cn = c_anchor_name c -> validate w c fuel st p = (r, st', tr) -> tr = [] /\ st' = st.
Proof. exact (no_interest_for_anchor w c fuel st p cn r st' tr). Qed.
Print Assumptions C14_anchor_shortcut.

(* the harness oracle is the specification: the executable decision agrees with Chain *)
Theorem C14_oracle_sound w t fuel p b : chainb w t fuel p = Some b -> (b = true <-> Chain w t p).
Proof. exact (chainb_spec w t fuel p b). Qed.
Print Assumptions C14_oracle_sound.

(* tie to the source of this run (tools/gen_validator.py): _verify_sig branch table, fresh default storage,
   fetch arguments and caught exceptions are the ones the model hard-wires *)
Theorem C14_source_tie :
  (forall w k p, verify_sig w k p = match p_sig p with
                                    | None => Err EAttr
                                    | Some si => dispatch Generated.ValidatorConsts.verify_sig_branches w (s_type si) k p
                                    end) /\
  (Generated.ValidatorConsts.cascade_default_storage_shared = false /\
   Generated.ValidatorConsts.lvs_default_storage_shared = false) /\
  Generated.ValidatorConsts.fetch_can_be_prefix = false /\
  Generated.ValidatorConsts.fetch_validated_by_next_level = true /\
  Generated.ValidatorConsts.catches_nothing_else = true.
Proof.
  exact (conj verify_sig_generated (conj default_storage_fresh
         (conj (proj1 (proj2 (proj2 fetch_shape))) (conj (proj1 (proj2 (proj2 (proj2 fetch_shape))))
               (proj2 (proj2 (proj2 (proj2 (proj2 (proj2 (proj2 fetch_shape))))))))))).
Qed.
Print Assumptions C14_source_tie.
