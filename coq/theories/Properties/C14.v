(* C14 — placeholder, filled below *)
From NDN Require Import Base.Prelude Model.Validator Spec.ChainSpec Proofs.ValidatorProofs.
