(* C14 — The schema validator accepts exactly packets with a valid chain to the anchor.
   Only statements, [exact]s and Print Assumptions live here.
   Model: Model/Validator.v (lvs_validator + CascadeChecker of the FIXED code: own default key storage per
   instance, Ed25519 branch).  Specification: Spec/ChainSpec.v.  *)
From NDN Require Import Base.Prelude Model.Validator Model.ValidatorConc Model.ValidatorMem Spec.ChainSpec.
From NDN Require Import Proofs.ValidatorProofs Proofs.ValidatorHistory Proofs.ValidatorTie Proofs.ValidatorExamples
  Proofs.ValidatorTrace Proofs.ValidatorConcProofs Proofs.ValidatorMemProofs.
From NDN Require Generated.ValidatorConsts.
From NDN Require Properties.C14Findings.   (* keeps the refutation witnesses checked on every run *)

(* accept <-> chain, for every world, schema, anchor, cache satisfying the invariant, packet and fuel,
   whenever the validator answers at all (r <> out-of-fuel; see C14Findings for certificate loops).
   Exceptions escaping the validator count as "not accepted" and indeed imply that there is no chain. *)
Theorem C14_iff w c fuel st p r st' tr :
  cache_ok w (trust_of c) st ->
  validate w c fuel st p = (r, st', tr) ->
  r <> Err EFuel ->
  (r = Ok true <-> Chain w (trust_of c) p).
Proof. exact (validate_iff w c fuel st p r st' tr). Qed.
Print Assumptions C14_iff.
Example C14_iff_nonvacuous :
  cache_ok ex_world (trust_of cfg1) [] /\ validate ex_world cfg1 3 [] P = (Ok true, [(nC, [13%N])], [nC]) /\
  Chain ex_world (trust_of cfg1) P /\ ~ Chain ex_world (trust_of cfg2) P.
Proof. exact (conj (cache_ok_nil _ _) (conj ex_validate_P (conj ex_chain_P ex_no_chain_P_anchor2))). Qed.

(* the same without any termination hypothesis: some fuel makes the validator accept  <->  chain *)
Theorem C14_accepts_iff_chain w c st p :
  cache_ok w (trust_of c) st ->
  (exists fuel, fst (fst (validate w c fuel st p)) = Ok true) <-> Chain w (trust_of c) p.
Proof. exact (accepts_iff_chain w c st p). Qed.
Print Assumptions C14_accepts_iff_chain.

(* the cache invariant "cached => retrievable under that name and validated under the same anchor and schema"
   is preserved by every validation, whatever its outcome *)
Theorem C14_cache_invariant w c fuel st p r st' tr :
  cache_ok w (trust_of c) st -> validate w c fuel st p = (r, st', tr) -> cache_ok w (trust_of c) st'.
Proof. exact (validate_keeps_cache_ok w c fuel st p r st' tr). Qed.
Print Assumptions C14_cache_invariant.
Example C14_cache_invariant_nonvacuous : cache_ok ex_world (trust_of cfg1) [(nC, [13%N])].
Proof. exact ex_cache_ok. Qed.

(* termination: if the key-locator path from p stops within n certificates (anchor reached, no key
   locator, or certificate not retrievable) then n fetches suffice and the validator answers *)
Theorem C14_terminates w c :
  no_fuel_err w -> check_no_fuel c -> fetch_no_fuel w ->
  forall n p, Bounded w c n p -> forall st, fst (fst (validate w c n st p)) <> Err EFuel.
Proof. exact (validate_terminates w c). Qed.
Print Assumptions C14_terminates.
Example C14_terminates_nonvacuous : Bounded ex_world cfg1 1 P.
Proof. exact ex_bounded_P. Qed.

(* constructor: built <-> user functions present /\ anchor matches all roots of trust /\ properly self-signed *)
Theorem C14_constructor w sc a :
  (exists c, lvs_init w sc a = Ok c) <->
  sc_fns_ok sc = true /\ exists p, a = Ok p /\ anchor_matches sc p /\ self_signed w p.
Proof. exact (lvs_init_iff w sc a). Qed.
Print Assumptions C14_constructor.
Example C14_constructor_nonvacuous : lvs_init ex_world ex_schema (Ok A1) = Ok cfg1.
Proof. exact ex_init1. Qed.

(* ... and the instance is configured with that anchor's name and key and that schema's signing check *)
Theorem C14_constructor_cfg w sc a c :
  lvs_init w sc a = Ok c ->
  exists p k, a = Ok p /\ p_content p = Some k /\
              trust_of c = {| t_anchor_name := p_name p; t_anchor_key := k; t_allowed := allowed_of (Some (sc_check sc)) |}.
Proof. exact (lvs_init_cfg w sc a c). Qed.
Print Assumptions C14_constructor_cfg.

Theorem C14_constructor_cascade w a :
  (exists c, cascade_init w a None = Ok c) <-> exists p, a = Ok p /\ self_signed w p.
Proof. exact (cascade_init_iff w a). Qed.
Print Assumptions C14_constructor_cascade.

(* history independence: in ANY state reachable by ANY sequence of constructions (default storage, or an
   explicitly given storage that no other validator uses) and validations by any instances, the verdict of
   instance i on p is accept <-> Chain under i's own anchor and schema. *)
Theorem C14_history_independent w st fuel i ins p st' r tr :
  reachable w st ->
  nth_error (s_insts st) i = Some ins ->
  step false w fuel st (OValidate i p) = (st', BVal r tr) ->
  r <> Err EFuel ->
  (r = Ok true <-> Chain w (trust_of (i_cfg ins)) p).
Proof. exact (history_independent w st fuel i ins p st' r tr). Qed.
Print Assumptions C14_history_independent.
Example C14_history_independent_nonvacuous :
  reachable ex_world ex_state2 /\
  snd (run_history false ex_world 5 init_state ex_ops) =
  [ BNew (Ok 0%nat); BNew (Ok 1%nat); BVal (Ok false) [nC; nA]; BVal (Ok true) [nC]; BVal (Ok false) [nC; nA] ].
Proof. exact (conj ex_reachable ex_history_fixed). Qed.

(* every state along a run of constructions with defaulted storage and validations is such a reachable state *)
Theorem C14_runs_are_reachable w fuel ops st :
  reachable w st ->
  (forall o, In o ops -> match o with
                         | ONewLvs _ _ (SGiven _) | ONewCascade _ (SGiven _) => False
                         | _ => True end) ->
  reachable w (fst (run_history false w fuel st ops)).
Proof. exact (run_history_reachable w fuel ops st). Qed.
Print Assumptions C14_runs_are_reachable.

(* the caller's memory (Model/ValidatorMem.v): trust anchors and packets are handed over in buffers the application
   owns, loads the next wire into (e.g. the anchor of its second validator) and overwrites later.  In ANY state
   reached by ANY history of loads, overwrites, constructions from buffers and validations, the verdict of instance
   i on the packet in buffer b is accept <-> Chain under the configuration i was BUILT with ... *)
Theorem C14_memory_independent w ms fuel i ins b p ms' r tr :
  mreachable w ms ->
  nth_error (s_insts (m_st ms)) i = Some ins ->
  mem_get (m_mem ms) b = Some (Ok p) ->
  mstep false w fuel ms (MValidate i b) = (ms', Some (BVal r tr)) ->
  r <> Err EFuel ->
  (r = Ok true <-> Chain w (trust_of (i_cfg ins)) p).
Proof. exact (memory_independent w ms fuel i ins b p ms' r tr). Qed.
Print Assumptions C14_memory_independent.
Example C14_memory_independent_nonvacuous :
  mreachable ex_world (fst (mrun false ex_world 5 {| m_mem := []; m_st := init_state |} ex_mops)) /\
  snd (mrun false ex_world 5 {| m_mem := []; m_st := init_state |} ex_mops) =
  [ None; Some (BNew (Ok 0%nat)); None; Some (BVal (Ok true) [nC]);
    None; Some (BNew (Ok 1%nat)); Some (BVal (Ok true) []); Some (BVal (Ok false) [nC; nA]);
    None; Some (BVal (Ok true) []); None ].
Proof. exact (conj ex_mreachable ex_mrun). Qed.

(* ... that configuration is computed from the schema and from what the buffer held AT THE CALL, and no later
   operation (load, overwrite, construction of another validator from the same buffer, validation) changes it *)
Theorem C14_built_from_what_the_buffer_holds w fuel ms sc b s ms' n :
  mstep false w fuel ms (MNewLvs sc b s) = (ms', Some (BNew (Ok n))) ->
  exists a c sid, mem_get (m_mem ms) b = Some a /\ lvs_init w sc a = Ok c /\
                  nth_error (s_insts (m_st ms')) n = Some {| i_cfg := c; i_sid := sid |}.
Proof. exact (built_from_what_the_buffer_holds w fuel ms sc b s ms' n). Qed.
Print Assumptions C14_built_from_what_the_buffer_holds.

Theorem C14_built_config_is_kept lg w fuel ops ms i ins :
  nth_error (s_insts (m_st ms)) i = Some ins ->
  nth_error (s_insts (m_st (fst (mrun lg w fuel ms ops)))) i = Some ins.
Proof. exact (built_config_is_kept_run lg w fuel ops ms i ins). Qed.
Print Assumptions C14_built_config_is_kept.

(* a history with memory operations IS the history of the calls, each with the buffer content read at the call
   (what the harness gives to the model and to the oracle for the histories of its caller-memory family) *)
Theorem C14_memory_history_is_call_history lg w fuel ops ms :
  m_st (fst (mrun lg w fuel ms ops)) = fst (run_history lg w fuel (m_st ms) (given_ops (m_mem ms) ops)) /\
  somes (snd (mrun lg w fuel ms ops)) = snd (run_history lg w fuel (m_st ms) (given_ops (m_mem ms) ops)).
Proof. exact (mrun_is_run_of_given lg w fuel ops ms). Qed.
Print Assumptions C14_memory_history_is_call_history.
Example C14_memory_history_is_call_history_nonvacuous :
  given_ops [] ex_mops =
  [ ONewLvs ex_schema (Ok A1) SDefault; OValidate 0%nat P; ONewLvs ex_schema (Ok A2) SDefault;
    OValidate 0%nat P; OValidate 1%nat P; OValidate 0%nat P ].
Proof. exact ex_given_ops. Qed.

Theorem C14_same_verdict w st1 st2 f1 f2 i1 i2 a b p s1 s2 r1 r2 t1 t2 :
  reachable w st1 -> reachable w st2 ->
  nth_error (s_insts st1) i1 = Some a -> nth_error (s_insts st2) i2 = Some b ->
  trust_of (i_cfg a) = trust_of (i_cfg b) ->
  step false w f1 st1 (OValidate i1 p) = (s1, BVal r1 t1) ->
  step false w f2 st2 (OValidate i2 p) = (s2, BVal r2 t2) ->
  r1 <> Err EFuel -> r2 <> Err EFuel ->
  (r1 = Ok true <-> r2 = Ok true).
Proof. exact (same_verdict w st1 st2 f1 f2 i1 i2 a b p s1 s2 r1 r2 t1 t2). Qed.
Print Assumptions C14_same_verdict.

(* validations that OVERLAP IN TIME on one instance (Model/ValidatorConc.v: every validation is a coroutine that is
   suspended while its certificate is fetched; the instance's key storage is what they share).  For every
   interleaving of starts and fetch completions - single completions in any order, NDNApp's "one Data answers
   every pending Interest of that name", time-outs - from any storage satisfying the invariant: a verdict,
   once delivered, is accept <-> Chain for the packet that validation was started with. *)
Theorem C14_concurrent_iff w c st evs th r :
  cache_ok w (trust_of c) st ->
  In th (cs_threads (cfinal w c (cinit st) evs)) -> th_state th = TDone r -> r <> Err EFuel ->
  (r = Ok true <-> Chain w (trust_of c) (th_pkt th)).
Proof. exact (fun H => conc_iff w c (cinit st) evs th r (cinit_ok w c st H)). Qed.
Print Assumptions C14_concurrent_iff.
Example C14_concurrent_iff_nonvacuous :
  cs_threads (cfinal ex_world cfg1 (cinit []) [CStart P; CStart P]) =
    [ {| th_pkt := P; th_state := TWait [(P, nC)]; th_sent := [nC] |};
      {| th_pkt := P; th_state := TWait [(P, nC)]; th_sent := [nC] |} ] /\
  cs_threads (cfinal ex_world cfg1 (cinit []) [CStart P; CStart P; CDeliver nC; CStart P]) =
    [ ex_thread_P; ex_thread_P; {| th_pkt := P; th_state := TDone (Ok true); th_sent := [] |} ].
Proof. exact (conj (f_equal cs_threads ex_conc_waiting) (f_equal cs_threads ex_conc_overlap)). Qed.

(* ... the storage invariant holds after every event, the k-th validation keeps asking about its own packet, and a
   verdict that was delivered is never revised *)
Theorem C14_concurrent_invariant w c st evs :
  cache_ok w (trust_of c) st ->
  Forall (fun cs => cache_ok w (trust_of c) (cs_cache cs)) (crun w c (cinit st) evs) /\
  forall evs' tid th, nth_error (cs_threads (cfinal w c (cinit st) evs)) tid = Some th ->
    exists th', nth_error (cs_threads (cfinal w c (cfinal w c (cinit st) evs) evs')) tid = Some th' /\
                th_pkt th' = th_pkt th /\ forall r, th_state th = TDone r -> th_state th' = TDone r.
Proof.
  exact (fun H => conj (Forall_impl _ (fun cs K => proj1 K) (crun_spec w c evs _ (cinit_ok w c st H)))
                       (fun evs' => conc_stable w c _ evs' (proj1 (cfinal_spec w c evs _ (cinit_ok w c st H))))).
Qed.
Print Assumptions C14_concurrent_invariant.

(* ... so the verdict does not depend on what else the instance (or another instance with the same anchor and
   schema) has in flight, nor on the order in which the certificates arrive *)
Theorem C14_schedule_independent w c1 c2 st1 st2 evs1 evs2 th1 th2 r1 r2 :
  trust_of c1 = trust_of c2 ->
  cache_ok w (trust_of c1) st1 -> cache_ok w (trust_of c2) st2 ->
  In th1 (cs_threads (cfinal w c1 (cinit st1) evs1)) -> In th2 (cs_threads (cfinal w c2 (cinit st2) evs2)) ->
  th_pkt th1 = th_pkt th2 ->
  th_state th1 = TDone r1 -> th_state th2 = TDone r2 -> r1 <> Err EFuel -> r2 <> Err EFuel ->
  (r1 = Ok true <-> r2 = Ok true).
Proof.
  exact (fun E H1 H2 => conc_same_verdict w c1 c2 _ _ evs1 evs2 th1 th2 r1 r2 E (cinit_ok w c1 st1 H1) (cinit_ok w c2 st2 H2)).
Qed.
Print Assumptions C14_schedule_independent.

(* a validation that has the instance to itself, every fetch answered at once, is [validate] of Model/Validator.v:
   the sequential theorems above are the special case "no overlap" of the concurrent model *)
Theorem C14_alone_is_validate w c fuel st p r st' tr :
  validate w c fuel st p = (r, st', tr) -> r <> Err EFuel ->
  run_alone w c fuel st p = ({| th_pkt := p; th_state := TDone r; th_sent := tr |}, st').
Proof. exact (alone_is_validate w c fuel st p r st' tr). Qed.
Print Assumptions C14_alone_is_validate.
Example C14_alone_is_validate_nonvacuous : run_alone ex_world cfg1 3 [] P = (ex_thread_P, [(nC, [13%N])]).
Proof. exact ex_alone. Qed.

(* triage of DESIGN 9b: only RSA / ECDSA / Ed25519 signatures can have a chain; an HMAC-, digest- or
   unknown-type packet is never accepted (the dropped HMAC result only ever yields "reject") *)
Theorem C14_symmetric_never_accepted w t p :
  Chain w t p -> exists si, p_sig p = Some si /\ asymmetric (s_type si) = true.
Proof. exact (chain_asymmetric w t p). Qed.
Print Assumptions C14_symmetric_never_accepted.

(* Interests sent for certificates: a prefix of the key-locator path starting at the packet, at most one per
   unit of fuel, never for the trust anchor's name; a packet signed directly by the anchor costs no Interest
   and leaves the key storage untouched *)
Theorem C14_interests_sent w c fuel st p r st' tr :
  validate w c fuel st p = (r, st', tr) ->
  (exists m, tr = firstn m (kl_path w fuel p)) /\ ~ In (c_anchor_name c) tr /\ (length tr <= fuel)%nat.
Proof.
  exact (fun H => conj (trace_is_path_prefix w c fuel st p r st' tr H)
                       (conj (trace_avoids_anchor w c fuel st p r st' tr H) (trace_length w c fuel st p r st' tr H))).
Qed.
Print Assumptions C14_interests_sent.
Example C14_interests_sent_nonvacuous : kl_path ex_world 3 P = [nC; nA] /\ snd (validate ex_world cfg1 3 [] P) = [nC].
Proof. exact ex_trace. Qed.

Theorem C14_anchor_shortcut w c fuel st p cn r st' tr :
  key_locator p = Some cn -> cn = c_anchor_name c -> validate w c fuel st p = (r, st', tr) -> tr = [] /\ st' = st.
Proof. exact (no_interest_for_anchor w c fuel st p cn r st' tr). Qed.
Print Assumptions C14_anchor_shortcut.

(* the harness oracle is the specification: the executable decision agrees with Chain *)
Theorem C14_oracle_sound w t fuel p b : chainb w t fuel p = Some b -> (b = true <-> Chain w t p).
Proof. exact (chainb_spec w t fuel p b). Qed.
Print Assumptions C14_oracle_sound.

(* tie to the source of this run (tools/gen_validator.py): _verify_sig branch table, fresh default storage,
   fetch arguments and caught exceptions are the ones the model hard-wires; an instance owns nothing but its
   configuration and its key storage (what overlapping validations share in Model/ValidatorConc.v) *)
Theorem C14_source_tie :
  (forall w k p, verify_sig w k p = match p_sig p with
                                    | None => Err EAttr
                                    | Some si => dispatch Generated.ValidatorConsts.verify_sig_branches w (s_type si) k p
                                    end) /\
  (Generated.ValidatorConsts.cascade_default_storage_shared = false /\
   Generated.ValidatorConsts.lvs_default_storage_shared = false) /\
  Generated.ValidatorConsts.fetch_can_be_prefix = false /\
  Generated.ValidatorConsts.fetch_validated_by_next_level = true /\
  Generated.ValidatorConsts.catches_nothing_else = true /\
  Generated.ValidatorConsts.instance_state_is_storage_only = true.
Proof.
  exact (conj verify_sig_generated (conj default_storage_fresh
         (conj (proj1 (proj2 (proj2 fetch_shape))) (conj (proj1 (proj2 (proj2 (proj2 fetch_shape))))
               (conj (proj2 (proj2 (proj2 (proj2 (proj2 (proj2 (proj2 fetch_shape))))))) instance_state))))).
Qed.
Print Assumptions C14_source_tie.
