(* C06 — "packet reception returns normally on every byte string" is FALSE for the library as it was before
   the fix commits a856556 / b3c0fb8 / 5f0a2b3 (fix/C06) and, for the v1 Nack lookup, c7d62ad (fix/C03):
   witnesses on the faithful model of that code ([cfg_orig] = the except tuples and the unguarded Fragment
   as they were written), each replayed on the real code by harness/props/c06.py (KNOWN_WITNESSES). *)
From NDN Require Import Base.Prelude Model.TlvVar Model.Name Model.Tlv Model.Packet Model.Stream Model.Receive.
Local Open Scope N_scope.

Definition tuple_orig : list err := [EDecode; EType; EValue; EStruct].
Definition cfg_orig : rcfg := RCfg tuple_orig tuple_orig tuple_orig tuple_orig 0 [] None.

(* IndexError from the decoders was not caught: a Data /a with one trailing byte (UDP datagram) ... *)
Theorem C06_receive_total_refuted_index :
  exists typ data, classify cfg_orig typ data = ARaise EIndex.
Proof. exists 6, [6; 5; 7; 3; 8; 1; 97; 0]. vm_compute. reflexivity. Qed.

(* ... or an Interest inside an LpPacket Fragment whose Length is one short (any transport) *)
Theorem C06_receive_total_refuted_index_in_lp :
  exists data, classify cfg_orig 100 data = ARaise EIndex.
Proof. exists [100; 10; 80; 8; 5; 5; 7; 3; 8; 1; 97; 0]. vm_compute. reflexivity. Qed.

(* an LpPacket without Fragment (IDLE packet): parse_tl_num(None) outside every try block *)
Theorem C06_receive_total_refuted_no_fragment :
  classify cfg_orig 100 [100; 0] = ARaise EType.
Proof. vm_compute. reflexivity. Qed.

(* an empty Fragment: fragment[0] *)
Theorem C06_receive_total_refuted_empty_fragment :
  classify cfg_orig 100 [100; 2; 80; 0] = ARaise EIndex.
Proof. vm_compute. reflexivity. Qed.

(* a Fragment that ends inside its Type number: struct.error outside every try block *)
Theorem C06_receive_total_refuted_short_fragment :
  classify cfg_orig 100 [100; 3; 80; 1; 253] = ARaise EStruct.
Proof. vm_compute. reflexivity. Qed.

(* UdpFace.datagram_received without the guard: an empty datagram, a datagram "fd" *)
Theorem C06_datagram_refuted :
  datagram_received [] [] = Err EIndex /\ datagram_received [] [253] = Err EStruct.
Proof. split; vm_compute; reflexivity. Qed.

(* v1 _on_nack without the KeyError guard (app.py before c7d62ad): a Nack with nothing pending *)
Theorem C06_on_nack_v1_refuted :
  exists name reason, on_nack_lookup false name reason [] = Err EKey.
Proof. exists [[8; 1; 97]], 150. reflexivity. Qed.

(* a waiter that is done (cancelled) but still in the table: InvalidStateError out of _on_nack, both
   front-ends (dagger 13, the pending-Interest table is C03's) *)
Theorem C06_on_nack_done_waiter_refuted :
  exists name reason t, on_nack_lookup true name reason t = Err EInvalidState.
Proof. exists [[8; 1; 97]], 150, [([[8; 1; 97]], [true])]. vm_compute. reflexivity. Qed.
