(* C10 — Link-layer envelopes are transparent: Nack, PIT token and wrapped packets.
   Only statements, [exact]s and Print Assumptions live here.

   Vocabulary (Proofs/LpProofs.v, Proofs/LpUnknown.v):
     [envelope_of vs els]   els = the elements of an LpPacket whose recognised headers are the encoding of the
                            assignment [vs] of legal values to the fields LpPacketValue declares (ANY subset of
                            headers, ANY values), in the declared order, with ANY number of unrecognised
                            elements (critical or not) inserted at ANY position;  [lp_wire els] = its bytes.
     [dispatch s typ tok d] the part of _receive after the unwrap prologue (decoding, PIT, handlers, validation)
     [on_nack s r frag]     parse_interest(frag) + _on_nack(name, r)          -- both abstract (other properties).
   The theorems are about the library with the fixes 361b618 (Nack without reason), 5bae578 (idle / short
   fragment), 6e6923f (nocopy Length) and ef52f64 (IndexError caught; C06); envelopes whose recognised headers are NOT in the declared
   order are outside [envelope_of]: there the property fails (Properties/C10Findings.v, known finding
   C10-header-out-of-order). *)
From NDN Require Import Base.Prelude Model.TlvVar Model.Name Model.Tlv Model.Packet Model.Lp Spec.TlvWf
  Spec.StrictTlv Spec.LpSpec.
From NDN Require Import Proofs.TlvSplit Proofs.TlvMore Proofs.LpUnknown Proofs.LpProofs Proofs.LpWire Proofs.LpSpecProofs Proofs.LpSpecAgree.
From NDN Require Import Generated.Schemas Generated.ConstsLp.
Local Open Scope N_scope.

Section C10.
Variables St Out : Type.
Variable dispatch : St -> N -> option bytes -> bytes -> St * Out.
Variable on_nack : St -> N -> bytes -> St * Out.
Variable nothing : Out.
Notation receive2 := (receive_v2 St Out dispatch on_nack nothing).
Notation receive1 := (receive_v1 St Out dispatch on_nack nothing).

(* a network packet inside an envelope is processed exactly as the same packet received bare; appv2
   additionally records the PIT token of the envelope (absent token: literally the same) *)
Theorem C10_wrap_transparent s vs els pkt t n :
  envelope_of vs els -> unfragmented vs -> lp_attr vs attr_nack = VNone ->
  lp_attr vs attr_fragment = VBytes pkt -> tl_dec pkt = Ok (t, n) ->
  receive2 s LP_PACKET (lp_wire els) = Ok (dispatch s t (lp_token vs) pkt) /\
  (t <> LP_PACKET -> receive2 s t pkt = Ok (dispatch s t None pkt)).
Proof. exact (wrap_transparent_v2 St Out dispatch on_nack nothing s vs els pkt t n). Qed.

Theorem C10_wrap_transparent_v1 s vs els pkt t n :
  envelope_of vs els -> unfragmented vs -> lp_attr vs attr_nack = VNone ->
  lp_attr vs attr_fragment = VBytes pkt -> tl_dec pkt = Ok (t, n) -> t <> LP_PACKET ->
  receive1 s LP_PACKET (lp_wire els) = receive1 s t pkt.
Proof. exact (wrap_transparent_v1 St Out dispatch on_nack nothing s vs els pkt t n). Qed.

(* an envelope carrying a Nack header hands precisely its reason code to the Nack path (0 when the header has
   no NackReason), with any other headers around it, in both front-ends *)
Theorem C10_nack_exact_reason s vs els ns frag t n :
  envelope_of vs els -> unfragmented vs -> lp_attr vs attr_nack = VModel ns ->
  lp_attr vs attr_fragment = VBytes frag -> tl_dec frag = Ok (t, n) ->
  let r := match field_value nack_fields ns attr_nack_reason with VUint r => r | _ => 0 end in
  receive2 s LP_PACKET (lp_wire els) = Ok (on_nack s r frag) /\
  receive1 s LP_PACKET (lp_wire els) = Ok (on_nack s r frag).
Proof. exact (nack_exact_reason St Out dispatch on_nack nothing s vs els ns frag t n). Qed.

(* ... in particular the envelope make_network_nack builds, for every reason 0 .. 2^64-1 *)
Theorem C10_make_nack_received s i r t n :
  r < two64 -> tl_dec i = Ok (t, n) -> N.of_nat (length (spec_nack_wire i r)) < two64 ->
  make_network_nack i r = Ok (spec_nack_wire i r) /\
  receive2 s LP_PACKET (spec_nack_wire i r) = Ok (on_nack s r i) /\
  receive1 s LP_PACKET (spec_nack_wire i r) = Ok (on_nack s r i).
Proof. exact (make_nack_received St Out dispatch on_nack nothing s i r t n). Qed.

(* unknown headers are ignored: ANY element list, all unrecognised elements dropped at once *)
Theorem C10_unknown_headers_ignored s els :
  Forall el_ok els -> N.of_nat (length (ser_els els)) < two64 ->
  receive2 s LP_PACKET (lp_wire els) = receive2 s LP_PACKET (lp_wire (filter (known lp_fields) els)) /\
  receive1 s LP_PACKET (lp_wire els) = receive1 s LP_PACKET (lp_wire (filter (known lp_fields) els)).
Proof. exact (unknown_headers_ignored St Out dispatch on_nack nothing s els). Qed.

(* fragmented envelopes are rejected: nothing is delivered, the state is unchanged *)
Theorem C10_fragmented_rejected s vs els :
  envelope_of vs els -> ~ unfragmented vs ->
  receive2 s LP_PACKET (lp_wire els) = Ok (s, nothing) /\ receive1 s LP_PACKET (lp_wire els) = Ok (s, nothing).
Proof. exact (fragmented_rejected St Out dispatch on_nack nothing s vs els). Qed.

(* an envelope without a network packet (IDLE, empty Fragment) changes nothing, whatever its headers *)
Theorem C10_idle_dropped s vs els :
  envelope_of vs els -> unfragmented vs ->
  lp_attr vs attr_fragment = VNone \/ lp_attr vs attr_fragment = VBytes [] ->
  receive2 s LP_PACKET (lp_wire els) = Ok (s, nothing) /\ receive1 s LP_PACKET (lp_wire els) = Ok (s, nothing).
Proof. exact (idle_dropped St Out dispatch on_nack nothing s vs els). Qed.

(* no exception leaves the unwrap prologue, whatever bytes the face delivers *)
Theorem C10_prologue_never_raises s typ data :
  is_ok (receive2 s typ data) = true /\ is_ok (receive1 s typ data) = true.
Proof. exact (receive_never_raises St Out dispatch on_nack nothing s typ data). Qed.

(* the executable specification the harness evaluates on the implementation (Spec/LpSpec.v [spec_receive],
   an order-insensitive reading of the element list) and the model agree on every envelope *)
Theorem C10_model_meets_spec vs els :
  envelope_of vs els ->
  spec_receive LP_PACKET (lp_wire els) = spec_of_unwrapped (unwrap_v2 LP_PACKET (lp_wire els)).
Proof. exact (model_meets_spec vs els). Qed.
End C10.

(* the reply closure: the bytes put on the face for an Interest that arrived with token k are exactly
   LpPacket{PitToken k, Fragment data}; without a token the data itself; nothing after the deadline.
   A token of length 0 is a token ([c_token c = Some []]). *)
Theorem C10_token_echo now c data :
  reply_v2 true now c data = Ok (if c_deadline c <? now then [] else [spec_reply_wire (c_token c) data]).
Proof. exact (reply_v2_spec now c data). Qed.

(* ... which parses back to (token k, fragment = the reply bytes unmodified), nothing else *)
Theorem C10_token_echo_parses k data :
  N.of_nat (length (ser_els (token_els k data))) < two64 ->
  exists vs, dec_lp (spec_reply_wire (Some k) data) = Ok vs /\ lp_token vs = Some k /\ lp_fragment vs = Some data /\
             lp_nack vs = None /\ unfragmented vs.
Proof. exact (token_echo_parses k data). Qed.

(* the header-first variant (_put_raw_packet_with_pit_token_nocopy) puts the same bytes on a stream face *)
Theorem C10_token_echo_nocopy data k :
  N.of_nat (length (spec_reply_wire (Some k) data)) < two64 ->
  exists h, put_raw_packet_with_pit_token_nocopy true data k = Ok [h; data] /\
            h ++ data = spec_reply_wire (Some k) data.
Proof. exact (put_nocopy_bytes data k). Qed.

(* ... and a peer running this library receives the data with the token *)
Theorem C10_reply_received k data t n :
  tl_dec data = Ok (t, n) -> N.of_nat (length (ser_els (token_els k data))) < two64 ->
  unwrap_v2 LP_PACKET (spec_reply_wire (Some k) data) = UPacket t (Some k) data.
Proof. exact (reply_unwraps k data t n). Qed.

(* pairing under several outstanding Interests answered in any order: after ANY history [pre] (arrivals with
   other tokens, replies to other Interests), the reply to the i-th arrival carries the i-th arrival's token *)
Theorem C10_token_echo_history pre i now data c :
  nth_error (arrivals pre) i = Some c ->
  snd (lp_run true (pre ++ [EvReply i now data])) =
  snd (lp_run true pre) ++ [(i, Ok (if c_deadline c <? now then [] else [spec_reply_wire (c_token c) data]))].
Proof. exact (token_echo_history pre i now data c). Qed.

(* make_network_nack / parse_network_nack / parse_lp_packet round trip for every reason *)
Theorem C10_nack_roundtrip i r w :
  r < two64 -> make_network_nack i r = Ok w -> N.of_nat (length w) < two64 ->
  parse_network_nack w = Ok (Some r, Some i) /\ parse_lp_packet w = Ok (Some r, Some i).
Proof. exact (nack_roundtrip i r w). Qed.

(* T1 ties: constants and attribute wiring reflected from the source on this run *)
Theorem C10_tie_constants :
  LP_PACKET = T_LP_PACKET /\ FRAGMENT = T_FRAGMENT /\ FRAG_INDEX = T_FRAG_INDEX /\ FRAG_COUNT = T_FRAG_COUNT /\
  PIT_TOKEN = T_PIT_TOKEN /\ NACK = T_NACK /\ NACK_REASON = T_NACK_REASON /\ NACK_NONE = 0 /\
  LP_PACKET = TYPE_LP_PACKET /\ FRAG_INDEX = LP_FRAG_INDEX /\ FRAG_COUNT = LP_FRAG_COUNT.
Proof. exact consts_agree. Qed.
Theorem C10_tie_attributes :
  In (attr_frag_index, KUint None) lp_fields /\ In (attr_frag_count, KUint None) lp_fields /\
  In (attr_pit_token, KBytes false) lp_fields /\ In (attr_nack, KModel nack_fields false) lp_fields /\
  nack_fields = [(attr_nack_reason, KUint None)] /\
  last lp_fields (0, KBool) = (attr_fragment, KBytes false) /\
  lp_outer = [(attr_lp_packet, KModel lp_fields false)].
Proof. exact attrs_in_descriptor. Qed.

Print Assumptions C10_wrap_transparent.
Print Assumptions C10_wrap_transparent_v1.
Print Assumptions C10_nack_exact_reason.
Print Assumptions C10_make_nack_received.
Print Assumptions C10_unknown_headers_ignored.
Print Assumptions C10_fragmented_rejected.
Print Assumptions C10_prologue_never_raises.
Print Assumptions C10_idle_dropped.
Print Assumptions C10_reply_received.
Print Assumptions C10_token_echo_nocopy.
Print Assumptions C10_model_meets_spec.
Print Assumptions C10_token_echo.
Print Assumptions C10_token_echo_parses.
Print Assumptions C10_token_echo_history.
Print Assumptions C10_nack_roundtrip.

(* non-vacuity: an envelope with a PIT token, IncomingFaceId, NonDiscovery, a critical unknown header (Sequence
   0x51) in front, a non-critical one (1000) in the middle and one after the Fragment, around a 2-byte packet *)
Example C10_example :
  let vs := mk_vals lp_fields [(attr_pit_token, VBytes [1; 2]); (INCOMING_FACE_ID, VUint 7); (NON_DISCOVERY, VTrue);
                               (attr_fragment, VBytes [5; 0])] in
  let els := [Elem 81 1 [9]; Elem 98 2 [1; 2]; Elem 1000 0 []; Elem 812 1 [7]; Elem 844 0 []; Elem 80 2 [5; 0];
              Elem 1001 1 [0]] in
  envelope_of vs els /\ unfragmented vs /\ lp_attr vs attr_nack = VNone /\ lp_attr vs attr_fragment = VBytes [5; 0] /\
  tl_dec [5; 0] = Ok (5, 1%nat) /\ lp_token vs = Some [1; 2] /\
  unwrap_v2 LP_PACKET (lp_wire els) = UPacket 5 (Some [1; 2]) [5; 0] /\
  unwrap_v1 LP_PACKET (lp_wire els) = UPacket 5 None [5; 0].
Proof. exact example_envelope. Qed.
