(* C10 — link-layer envelopes are transparent. (statements follow) *)
From NDN Require Import Base.Prelude Model.Lp Spec.LpSpec.
