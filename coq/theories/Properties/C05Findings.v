(* C05 — statements that are FALSE on the faithful model (and on the implementation): refuting witnesses.
   Known finding C05-v1-validator-no-deadline: the legacy front-end awaits the Data validator after wait_for has
   returned, outside any deadline. *)
From NDN Require Import Base.Prelude Spec.ExpressSpec Model.ExpressPipeline.
From NDN Require Import Proofs.ExpressRefine Proofs.ExpressC05.
Local Open Scope N_scope.

(* the V1 instance of C05_slow_validator_is_timeout is false: the validator answers after the deadline and the
   payload is returned *)
Definition v1_slow_h1 : list (tie * ev) :=
  [ (NoTie, Express 9 [0; 1] false None 100 VDef 0); (NoTie, Await 9 0); (NoTie, Data 5 [0; 1] 5 20) ].
Definition v1_slow_h2 : list (tie * ev) := [ (NoTie, AdvanceTo 150); (NoTie, VDone 9 1 160) ].

Theorem C05_slow_validator_v1_refuted :
  exists h1 h2 i r d,
    wf_history (h1 ++ h2) /\ spec_state V1 h1 i = IValidating r d /\ Forall (slow_event i (s_D r)) h2 /\
    (exists x, In x h2 /\ s_D r <= ev_time (snd x)) /\
    completion (run_hist V1 (h1 ++ h2)) i = Some (OGot d).
Proof.
  exists v1_slow_h1, v1_slow_h2, 9, (mkSp [0; 1] false None 100 VDef), 5.
  split; [cbn; repeat split; try lia; intros []|].
  split; [vm_compute; reflexivity|].
  split; [repeat constructor; cbn; intros; lia|].
  split; [exists (NoTie, AdvanceTo 150); split; [left; reflexivity | cbn; lia]|].
  vm_compute; reflexivity.
Qed.
Print Assumptions C05_slow_validator_v1_refuted.

(* ... and a validator that never answers leaves the awaitable pending for ever, far beyond the deadline *)
Theorem C05_never_validator_v1_pending :
  completion (run_hist V1 (v1_slow_h1 ++ [(NoTie, AdvanceTo 1000000)])) 9 = None /\
  completion (run_hist V2 (v1_slow_h1 ++ [(NoTie, AdvanceTo 1000000)])) 9 = Some OTimeout.
Proof. split; vm_compute; reflexivity. Qed.
