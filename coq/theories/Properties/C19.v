(* C19 — Segmented fetch yields every segment once, in order, tolerating bounded loss.
   Only statements, [exact]s and Print Assumptions live here.

   Vocabulary (Spec/SegFetchSpec.v): a scenario [S] is a published object (N segments base/seg=i with
   content and FinalBlockId marker), the answer to the discovery Interest (segment k or an unsegmented
   Data) and the fate (lost / nacked / invalid / delivered) of the n-th Interest for every key.
   [fetch fuel cfg S] is what the model of segment_fetcher yields, and how it ends, against that
   producer; [needed S k]: key k has to be obtained; [tolerable_explicit S r k]: the first r Interests
   for k are not all lost and the first one that is not lost is delivered; [exhausted S r k]: they are
   all lost; [marked S]: exactly the last segment carries its own component as FinalBlockId. *)
From NDN Require Import Base.Prelude Model.TlvVar Model.Name Model.SegFetch Spec.SegFetchSpec.
From NDN Require Import Proofs.SegFetchBasics Proofs.SegFetchRefine Proofs.SegFetchHeadline Proofs.SegFetchMain
  Proofs.SegFetchAsks Proofs.SegFetchAny Proofs.ConstsSegFetchAgree.
Local Open Scope nat_scope.

(* the model computes the specification's [expected], for every scenario: any number of segments, any
   discovery answer, any pattern of losses / nacks / validation failures, any FinalBlockId markers
   (absent, early, designating another segment, non-canonical) *)
Theorem C19_refines S cfg fuel :
  wf_scenario S -> nseg (obj S) < fuel -> fetch fuel cfg S = expected S (retry_times cfg).
Proof. exact (fetch_refines S cfg fuel). Qed.
Print Assumptions C19_refines.

(* every segment once, in order, whichever segment answers the discovery Interest; the single content
   of an unsegmented object *)
Theorem C19_in_order_once S cfg fuel :
  wf_scenario S -> marked S -> nseg (obj S) < fuel ->
  (forall k, needed S k -> tolerable_explicit S (retry_times cfg) k) ->
  fetch fuel cfg S = (all_contents S, Completed).
Proof. exact (fetch_in_order_once S cfg fuel). Qed.
Print Assumptions C19_in_order_once.
Example C19_in_order_once_nonvacuous :
  wf_scenario ex_scn /\ marked ex_scn /\ (forall k, needed ex_scn k -> tolerable_explicit ex_scn 3 k) /\
  fetch 4 ex_cfg ex_scn = ([[0; 7]; [1; 7]; [2; 7]]%N, Completed).
Proof. exact (conj ex_wf (conj ex_marked (conj ex_tolerable ex_runs))). Qed.

Theorem C19_completes_iff S cfg fuel :
  wf_scenario S -> marked S -> nseg (obj S) < fuel ->
  (snd (fetch fuel cfg S) = Completed <-> forall k, needed S k -> tolerable_explicit S (retry_times cfg) k).
Proof. exact (fetch_completes_iff S cfg fuel). Qed.
Print Assumptions C19_completes_iff.

(* timeout exactly when some needed key exhausts its attempts … *)
Theorem C19_timeout_exactly_when S cfg fuel :
  wf_scenario S -> marked S -> nseg (obj S) < fuel -> no_faults S ->
  (snd (fetch fuel cfg S) = Raised XTimeout <-> exists k, needed S k /\ exhausted S (retry_times cfg) k).
Proof. exact (fetch_timeout_iff S cfg fuel). Qed.
Print Assumptions C19_timeout_exactly_when.

(* … after yielding the earlier segments *)
Theorem C19_timeout_after_earlier S cfg fuel k :
  wf_scenario S -> marked S -> nseg (obj S) < fuel ->
  needed S k -> (forall k', needed S k' -> before k' k -> tolerable_explicit S (retry_times cfg) k') ->
  exhausted S (retry_times cfg) k ->
  fetch fuel cfg S = (contents_before S k, Raised XTimeout).
Proof. exact (fetch_timeout_after_earlier S cfg fuel k). Qed.
Print Assumptions C19_timeout_after_earlier.
Example C19_timeout_nonvacuous :
  exhausted ex_scn 2 (KSeg 0) /\ fetch 4 (mkCfg 2 4000 true) ex_scn = ([], Raised XTimeout).
Proof. exact (conj ex_exhausted ex_timeout). Qed.

(* Nacks and validation failures propagate, after the earlier segments, instead of being skipped *)
Theorem C19_errors_propagate S cfg fuel k x :
  wf_scenario S -> marked S -> nseg (obj S) < fuel ->
  needed S k -> (forall k', needed S k' -> before k' k -> tolerable_explicit S (retry_times cfg) k') ->
  fails_with S (retry_times cfg) k x ->
  fetch fuel cfg S = (contents_before S k, Raised x).
Proof. exact (fetch_errors_propagate S cfg fuel k x). Qed.
Print Assumptions C19_errors_propagate.
Example C19_errors_nonvacuous :
  fails_with ex_scn_nack 3 (KSeg 1) XNack /\ fetch 4 ex_cfg ex_scn_nack = ([[0; 7]]%N, Raised XNack).
Proof. exact (conj ex_fails ex_nack). Qed.

(* when no segment designates itself final the consumer cannot know where the object ends: it delivers
   every published segment in order and then times out on the first segment that does not exist *)
Theorem C19_unmarked_runs_to_timeout S cfg fuel k :
  wf_scenario S -> disc S = DSeg k -> nseg (obj S) < fuel ->
  (forall i, i < nseg (obj S) -> is_final (obj S) i = false) ->
  (forall k, needed S k -> tolerable_explicit S (retry_times cfg) k) ->
  fetch fuel cfg S = (all_contents S, Raised XTimeout).
Proof. exact (fetch_unmarked S cfg fuel k). Qed.
Print Assumptions C19_unmarked_runs_to_timeout.
Example C19_unmarked_nonvacuous : fetch 3 ex_cfg ex_scn_unmarked = ([[0]; [1]]%N, Raised XTimeout).
Proof. exact ex_unmarked. Qed.

(* the Interests the simulated producer observes are exactly those the specification lists … *)
Theorem C19_interests_observed S cfg fuel :
  wf_scenario S -> nseg (obj S) < fuel -> interests fuel cfg S = expected_asks S cfg.
Proof. exact (fetch_asks S cfg fuel). Qed.
Print Assumptions C19_interests_observed.

(* … in particular, under bounded loss: the discovery Interest, then every needed segment in order,
   each re-expressed once per loss, nothing skipped, nothing fetched twice *)
Theorem C19_interests_in_order S cfg fuel k :
  wf_scenario S -> disc S = DSeg k -> well_marked (obj S) -> nseg (obj S) < fuel ->
  (forall k, needed S k -> tolerable_explicit S (retry_times cfg) k) ->
  interests fuel cfg S =
    asks_for S cfg KDisc (disc_req S cfg) ++
    flat_map (fun t => asks_for S cfg (KSeg t) (seg_req S cfg t)) (seq (first_needed S) (nseg (obj S) - first_needed S)).
Proof. exact (fetch_asks_in_order S cfg fuel k). Qed.
Print Assumptions C19_interests_in_order.
Example C19_interests_nonvacuous :
  map rq_cbp (interests 4 ex_cfg ex_scn) = [true; true; false; false; false; false; false] /\
  map (fun q => last (rq_name q) []) (interests 4 ex_cfg ex_scn) =
    [[8; 1; 97]; [8; 1; 97]; seg_comp 0; seg_comp 0; seg_comp 0; seg_comp 1; seg_comp 2]%N.
Proof. exact ex_interests. Qed.

(* against ANY producer (arbitrary oracle, arbitrary names and markers in the answers): the retry
   discipline and the propagation of every exception other than a timeout *)
Theorem C19_any_producer_discipline fuel cfg o nm0 :
  disciplined (attempts_of (retry_times cfg)) (fst (segment_fetcher fuel cfg o nm0)) (snd (segment_fetcher fuel cfg o nm0)).
Proof. exact (fetcher_disciplined fuel cfg o nm0). Qed.
Print Assumptions C19_any_producer_discipline.

(* T1: constants and keyword defaults reflected from the source on this run are the model's *)
Theorem C19_consts_agree : consts_agree.
Proof. exact consts_agree_holds. Qed.
