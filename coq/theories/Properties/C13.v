(* C13 — Ill-formed schemas and models are rejected; accepted models always terminate.
   Only statements, [exact]s and Print Assumptions live here. *)
From NDN Require Import Base.Prelude Base.Text Model.LvsAst Model.LvsChecker Model.LvsCompiler Spec.LvsSem Spec.LvsTree.
From NDN Require Import Proofs.LvsMachine Proofs.LvsTreePaths Proofs.LvsCheckerThms Proofs.LvsSanity Proofs.LvsConstsAgree
  Proofs.LvsFlatten Proofs.LvsGenTree Proofs.LvsCompileTree Proofs.LvsCompileThms.
Local Open Scope N_scope.

(* ---- the loader (Checker._sanity_check, with the recursion budget [sanity_fuel m] = #nodes + 1) ---- *)

(* whatever the loader accepts satisfies every documented sanity rule *)
Theorem C13_loader_sound m r : sanity_check (sanity_fuel m) m = Ok r -> sane m.
Proof. exact (sanity_check_sound m r). Qed.
Print Assumptions C13_loader_sound.

(* a model that breaks a rule is rejected with LvsModelError (never RecursionError / TypeError: the
   recursion depth is bounded by the number of nodes) *)
Theorem C13_loader_rejects m : ~ sane m -> sanity_check (sanity_fuel m) m = Err ELvsModel.
Proof. exact (sanity_check_rejects m). Qed.
Print Assumptions C13_loader_rejects.

(* a model that satisfies the rules passes the tree part; it is accepted iff compiler.top_order accepts its
   signing graph ("no cyclic signing"), whose failure is the schema error, not the model error *)
Theorem C13_loader_iff m : sane m ->
  exists s a, m_start m = Some s /\
    dfs (sanity_fuel m) m s None {| sa_fns := []; sa_indeg := [];
                                    sa_adj := map (fun i => (i, [])) (dedup optN_eqb (map n_id (m_nodes m))) |} = Ok a /\
    (sign_graph_passes m a -> exists r, sanity_check (sanity_fuel m) m = Ok r) /\
    (forall e, sanity_check (sanity_fuel m) m = Err e -> ~ sign_graph_passes m a).
Proof. exact (sanity_check_sane m). Qed.
Print Assumptions C13_loader_iff.

(* the executable rule set used by the harness oracle implies the declarative one *)
Theorem C13_saneb_sound m : saneb m = true -> sane m.
Proof. exact (saneb_sane m). Qed.

(* ---- every query on an accepted model terminates: beyond [match_cost] loop iterations more fuel changes
   nothing (in particular the answer is never "out of fuel" unless a user function says so) ---- *)
Theorem C13_terminates_match ufn m (Hs : sane m) fuel name nm :
  strip_digest name = Ok nm -> (match_cost m nm <= fuel)%nat ->
  lvs_match ufn m fuel name = lvs_match ufn m (match_cost m nm) name.
Proof. exact (lvs_match_halts ufn m Hs fuel name nm). Qed.
Print Assumptions C13_terminates_match.

Theorem C13_terminates_check ufn m (Hs : sane m) fuel pkt key p k :
  strip_digest pkt = Ok p -> strip_digest key = Ok k ->
  (Nat.max (match_cost m p) (match_cost m k) <= fuel)%nat ->
  lvs_check ufn m fuel pkt key = lvs_check ufn m (Nat.max (match_cost m p) (match_cost m k)) pkt key.
Proof. exact (lvs_check_halts ufn m Hs fuel pkt key p k). Qed.
Print Assumptions C13_terminates_check.

(* ---- compiled models pass the tree part of the loader ---- *)
Theorem C13_compile_accepts_partial (ufn : ident -> option (bytes -> list (option bytes) -> res bool)) S chains st m :
  chains_of S = Ok (chains, st) -> compile S = Ok m -> chains_ok (N.of_nat (length (ns_named st))) chains -> sane m.
Proof. exact (compile_sane ufn S chains st m). Qed.
Print Assumptions C13_compile_accepts_partial.

(* T1 tie re-established on this run *)
Theorem C13_tie_version :
  Generated.ConstsLvs.VERSION = LVS_VERSION /\ Generated.ConstsLvs.MIN_SUPPORTED_VERSION = LVS_MIN_VERSION /\
  Generated.ConstsLvs.VERSION = SUPPORTED_VERSION /\ Generated.ConstsLvs.MIN_SUPPORTED_VERSION = MIN_SUPPORTED_VERSION /\
  Generated.ConstsLvs.TYPE_IMPLICIT_SHA256 = Model.Name.TYPE_IMPLICIT_SHA256.
Proof. exact lvs_version_agree. Qed.
Theorem C13_tie_layout : Generated.ConstsLvs.layout = expected_layout.
Proof. exact lvs_layout_agree. Qed.
