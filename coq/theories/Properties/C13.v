(* C13 — Ill-formed schemas and models are rejected; accepted models always terminate.
   Only statements, [exact]s and Print Assumptions live here. *)
From NDN Require Import Proofs.LvsExamples.
From NDN Require Import Base.Prelude Base.Text Model.LvsAst Model.LvsChecker Model.LvsCompiler Spec.LvsSem Spec.LvsTree.
From NDN Require Import Proofs.LvsMachine Proofs.LvsTreePaths Proofs.LvsCheckerThms Proofs.LvsSanity Proofs.LvsConstsAgree
  Proofs.LvsFlatten Proofs.LvsGenTree Proofs.LvsCompileTree Proofs.LvsCompileThms Proofs.LvsTopOrder Proofs.LvsSortRules
  Proofs.LvsNumbering Proofs.LvsReplicate Proofs.LvsCompileOk Proofs.LvsCompileStatic Proofs.LvsCompileAccepts
  Proofs.LvsCompileIff Proofs.LvsSignGraph Proofs.LvsSignCycle.
From NDN Require Import Spec.LvsChains.
Local Open Scope N_scope.

(* ---- the loader (Checker._sanity_check, with the recursion budget [sanity_fuel m] = #nodes + 1) ---- *)

(* whatever the loader accepts satisfies every documented sanity rule *)
Theorem C13_loader_sound m r : sanity_check (sanity_fuel m) m = Ok r -> sane m.
Proof. exact (sanity_check_sound m r). Qed.
Print Assumptions C13_loader_sound.
Example C13_loader_sound_example : exists r, sanity_check (sanity_fuel ex_model) ex_model = Ok r.
Proof. exact ex_loader_accepts. Qed.

(* a model that breaks a rule is rejected with LvsModelError (never RecursionError / TypeError: the
   recursion depth is bounded by the number of nodes) *)
Theorem C13_loader_rejects m : ~ sane m -> sanity_check (sanity_fuel m) m = Err ELvsModel.
Proof. exact (sanity_check_rejects m). Qed.
Print Assumptions C13_loader_rejects.
Example C13_loader_rejects_example : ~ sane ex_nostart /\ sanity_check (sanity_fuel ex_nostart) ex_nostart = Err ELvsModel.
Proof. exact (conj ex_nostart_not_sane ex_nostart_rejected). Qed.

(* a model that satisfies the rules passes the tree part; it is accepted iff compiler.top_order accepts its
   signing graph ("no cyclic signing"), whose failure is the schema error, not the model error *)
Theorem C13_loader_iff m : sane m ->
  exists s a, m_start m = Some s /\
    dfs (sanity_fuel m) m s None {| sa_fns := []; sa_indeg := [];
                                    sa_adj := map (fun i => (i, [])) (dedup optN_eqb (map n_id (m_nodes m))) |} = Ok a /\
    (sign_graph_passes m a -> exists r, sanity_check (sanity_fuel m) m = Ok r) /\
    (forall e, sanity_check (sanity_fuel m) m = Err e -> ~ sign_graph_passes m a).
Proof. exact (sanity_check_sane m). Qed.
Print Assumptions C13_loader_iff.

(* the verdict in full, for models whose node ids are their indices (every model compile produces; a corrupted model may carry
   broken ids on nodes the loader never visits): accepted iff the signing relation between reachable nodes has no cycle
   ([sign_acyclic]: there is a ranking), and the only other outcome is the schema error raised by compiler.top_order *)
Theorem C13_loader_verdict m : sane m -> ids_ok m ->
  ((exists r, sanity_check (sanity_fuel m) m = Ok r) <-> sign_acyclic m) /\
  (forall e, sanity_check (sanity_fuel m) m = Err e -> e = ESemantic).
Proof. exact (loader_verdict m). Qed.
Print Assumptions C13_loader_verdict.

(* the executable rule set used by the harness oracle implies the declarative one *)
Theorem C13_saneb_sound m : saneb m = true -> sane m.
Proof. exact (saneb_sane m). Qed.

(* ---- every query on an accepted model terminates: beyond [match_cost] loop iterations more fuel changes
   nothing (in particular the answer is never "out of fuel" unless a user function says so) ---- *)
Theorem C13_terminates_match ufn m (Hs : sane m) fuel name nm :
  strip_digest name = Ok nm -> (match_cost m nm <= fuel)%nat ->
  lvs_match ufn m fuel name = lvs_match ufn m (match_cost m nm) name.
Proof. exact (lvs_match_halts ufn m Hs fuel name nm). Qed.
Print Assumptions C13_terminates_match.

Theorem C13_terminates_check ufn m (Hs : sane m) fuel pkt key p k :
  strip_digest pkt = Ok p -> strip_digest key = Ok k ->
  (Nat.max (match_cost m p) (match_cost m k) <= fuel)%nat ->
  lvs_check ufn m fuel pkt key = lvs_check ufn m (Nat.max (match_cost m p) (match_cost m k)) pkt key.
Proof. exact (lvs_check_halts ufn m Hs fuel pkt key p k). Qed.
Print Assumptions C13_terminates_check.
Example C13_terminates_example : exists l, lvs_match no_ufn ex_model 1000 ex_pkt = Ok l /\ (match_cost ex_model ex_pkt <= 1000)%nat /\
  strip_digest ex_pkt = Ok ex_pkt /\ exists rs, In (rs, [(Some p_x, gc 100); (Some p_y, gc 98)]) l /\ In i_pkt rs.
Proof. exact ex_match. Qed.

(* ---- the compiler (compile = sort references, number patterns, replicate, build tree, resolve signers) ---- *)

(* whatever the input, the only exception compile raises is SemanticError *)
Theorem C13_compile_error_class S e : compile S = Err e -> e = ESemantic.
Proof. exact (compile_err S e). Qed.
Print Assumptions C13_compile_error_class.

(* one lemma per error kind, stated on the source text *)
Theorem C13_compile_rejects_undefined_or_temporary_rule S d c :
  In d S -> In c (rule_refs d) -> defined S c = false -> compile S = Err ESemantic.
Proof. exact (compile_rejects_bad_reference S d c). Qed.
Print Assumptions C13_compile_rejects_undefined_or_temporary_rule.
Example C13_compile_rejects_undefined_example :
  In (rule_ref i_a i_b) ex_undefined /\ In i_b (rule_refs (rule_ref i_a i_b)) /\ defined ex_undefined i_b = false.
Proof. exact ex_undefined_hyp. Qed.

(* a -> c1 -> ... -> cn -> a along rule references *)
Theorem C13_compile_rejects_cyclic_references S a cyc : src_walk S a a cyc -> compile S = Err ESemantic.
Proof. exact (compile_rejects_cyclic_references S a cyc). Qed.
Print Assumptions C13_compile_rejects_cyclic_references.
Example C13_compile_rejects_cyclic_example : src_walk ex_cyclic i_a i_a [i_b].
Proof. exact ex_cyclic_hyp. Qed.

(* [LvsSem.cons_ok S d tc = false]: tc constrains a temporary pattern that is not in d's own name, or a named pattern
   that occurs in no rule name, or one of its options / function arguments is a temporary pattern or a named pattern that
   occurs in no rule name *)
Theorem C13_compile_rejects_bad_constraint S d cs tc :
  In d S -> In cs (r_cons d) -> In tc cs -> LvsSem.cons_ok S d tc = false -> compile S = Err ESemantic.
Proof. exact (compile_rejects_bad_constraint S d cs tc). Qed.
Print Assumptions C13_compile_rejects_bad_constraint.
Example C13_compile_rejects_bad_constraint_example :
  In ex_badcons_rule ex_badcons /\ In [ex_badcons_tc] (r_cons ex_badcons_rule) /\ In ex_badcons_tc [ex_badcons_tc] /\
  LvsSem.cons_ok ex_badcons ex_badcons_rule ex_badcons_tc = false.
Proof. exact ex_badcons_hyp. Qed.

(* a signer that is not an ordinary rule of the schema (k as the lexer produces it: no '#' after the first character) *)
Theorem C13_compile_rejects_unknown_signer S d k :
  In d S -> In k (r_sign d) -> defined S k = false -> ident_plain k -> compile S = Err ESemantic.
Proof. exact (compile_rejects_unknown_signer S d k). Qed.
Print Assumptions C13_compile_rejects_unknown_signer.
Example C13_compile_rejects_unknown_signer_example :
  In ex_badsigner_rule ex_badsigner /\ In i_b (r_sign ex_badsigner_rule) /\ defined ex_badsigner i_b = false /\ ident_plain i_b.
Proof. exact ex_badsigner_hyp. Qed.

(* a schema free of static errors compiles -- [static_ok] only looks at the reference structure, never at the spelling or
   the order of rule names -- and the result satisfies every sanity rule of the loader.  [schema_wf]: literal components are
   non-empty byte strings and function identifiers look like "$name" (what the lexer produces) *)
Theorem C13_compile_accepts S : static_ok S = true -> schema_wf S = true -> exists m, compile S = Ok m /\ sane m.
Proof.
  intros H1 H2. destruct (compile_accepts S H1 H2) as (chains & st & m & Hc & Hm & Hok).
  exists m. split; [exact Hm|]. exact (compile_sane (fun _ => None) S chains st m Hc Hm Hok).
Qed.
Print Assumptions C13_compile_accepts.
Example C13_compile_accepts_example : static_ok ex_schema = true /\ schema_wf ex_schema = true /\ compile ex_schema = Ok ex_model.
Proof. exact (conj ex_static (conj ex_wf ex_compile)). Qed.

(* ... and only then: compile accepts a schema exactly when it has none of the documented static errors
   ([sign_plain]: signer names as the lexer produces them, no '#' after the first character) *)
Theorem C13_compile_iff S : schema_wf S = true -> sign_plain S -> ((exists m, compile S = Ok m) <-> static_ok S = true).
Proof. exact (compile_iff S). Qed.
Print Assumptions C13_compile_iff.
Example C13_compile_iff_example : schema_wf ex_schema = true /\ sign_plain ex_schema /\ static_ok ex_schema = true /\ static_ok ex_undefined = false.
Proof. exact (conj ex_wf (conj ex_sign_plain (conj ex_static eq_refl))). Qed.

(* building a Checker from the compiled schema: accepted iff no name pattern (tree node) is, directly or transitively, its own
   signer; otherwise SemanticError -- never the model error, never a crash *)
Theorem C13_checker_verdict S m : static_ok S = true -> schema_wf S = true -> compile S = Ok m ->
  ((exists r, sanity_check (sanity_fuel m) m = Ok r) <-> sign_acyclic m) /\
  (forall e, sanity_check (sanity_fuel m) m = Err e -> e = ESemantic).
Proof. exact (checker_verdict S m). Qed.
Print Assumptions C13_checker_verdict.
(* both outcomes occur: the example schema is accepted (hence acyclic), "#a: /a <= #b, #b: /b <= #a" compiles and is refused *)
Example C13_checker_verdict_example :
  sign_acyclic ex_model /\ ~ sign_acyclic ex_signcycle_model /\
  sanity_check (sanity_fuel ex_signcycle_model) ex_signcycle_model = Err ESemantic.
Proof.
  exact (conj (proj1 (proj1 (checker_verdict ex_schema ex_model ex_static ex_wf ex_compile)) ex_loader_accepts)
        (match ex_signcycle_facts with conj Hs (conj Hw (conj Hc He)) =>
           conj (fun Hac => match proj2 (proj1 (checker_verdict ex_signcycle ex_signcycle_model Hs Hw Hc)) Hac with
                            | ex_intro _ r Hr => Bool.diff_false_true (f_equal (fun x => match x with Ok _ => false | Err _ => true end) (eq_trans (eq_sym Hr) He)) end)
                He end)).
Qed.

(* in particular rules that sign one another in a circle (a <= ... <= a, [sign_walk] on the text) are refused *)
Theorem C13_checker_rejects_cyclic_signing S m a cyc : static_ok S = true -> schema_wf S = true -> compile S = Ok m ->
  sign_walk S a a cyc -> sanity_check (sanity_fuel m) m = Err ESemantic.
Proof. exact (fun H1 H2 H3 => checker_rejects_cyclic_signing S m H1 H2 H3 a cyc). Qed.
Print Assumptions C13_checker_rejects_cyclic_signing.
Example C13_checker_rejects_cyclic_signing_example :
  static_ok ex_signcycle = true /\ schema_wf ex_signcycle = true /\ compile ex_signcycle = Ok ex_signcycle_model /\ sign_walk ex_signcycle i_a i_a [i_b].
Proof. exact (match ex_signcycle_facts with conj Hs (conj Hw (conj Hc _)) => conj Hs (conj Hw (conj Hc ex_signcycle_walk)) end). Qed.

(* T1 tie re-established on this run *)
Theorem C13_tie_version :
  Generated.ConstsLvs.VERSION = LVS_VERSION /\ Generated.ConstsLvs.MIN_SUPPORTED_VERSION = LVS_MIN_VERSION /\
  Generated.ConstsLvs.VERSION = SUPPORTED_VERSION /\ Generated.ConstsLvs.MIN_SUPPORTED_VERSION = MIN_SUPPORTED_VERSION /\
  Generated.ConstsLvs.TYPE_IMPLICIT_SHA256 = Model.Name.TYPE_IMPLICIT_SHA256.
Proof. exact lvs_version_agree. Qed.
Theorem C13_tie_layout : Generated.ConstsLvs.layout = expected_layout.
Proof. exact lvs_layout_agree. Qed.
