(* C06 — Receive path: exact stream framing, and no failure on any delivered bytes.
   Only statements, [exact]s and Print Assumptions live here.  The statements hold for the library as of
   the fix commits a856556, b3c0fb8, 5f0a2b3 (recorded in known_findings.d/C06.json); the same statements
   for the code before them are refuted in Properties/C06Findings.v. *)
From NDN Require Import Base.Prelude Model.TlvVar Model.Name Model.Tlv Model.Packet Model.Stream Model.Receive
  Spec.Framing.
From NDN Require Import Proofs.PacketTotal Proofs.StreamRun Proofs.StreamPump Proofs.StreamSplit Proofs.ReceiveTotal
  Proofs.ReceiveBridge.
Local Open Scope N_scope.

(* ---- (A) stream framing ---------------------------------------------------------------------------------- *)
(* For ALL packet lists and ALL ways of cutting the concatenation of their wires into chunks (every cut
   position, also inside a 3/5/9-byte Type or Length number, empty chunks included): what StreamFace.run
   hands to its callback, in order, is exactly the packets, each once; afterwards the face is as freshly opened
   (running, reader buffer empty, waiting for the next Type number). *)
Theorem C06_framing pkts chunks f' outs :
  Forall framed pkts -> concat chunks = stream_of pkts ->
  run_events run_cfg_gen face_init (map Feed chunks) = (f', outs) ->
  concat outs = pkts /\ f' = face_init.
Proof. exact (framing run_cfg_gen pkts chunks f' outs). Qed.
Print Assumptions C06_framing.

(* A stream that ends inside a packet (or cleanly between two): the complete packets before the end are
   handed over, nothing of the partial packet is, and the face shuts down (running = False, run() returned,
   writer closed, reader buffer discarded). *)
Theorem C06_truncated pkts pre chunks f' outs :
  Forall framed pkts -> partial_packet pre -> concat chunks = stream_of pkts ++ pre ->
  run_events run_cfg_gen face_init (map Feed chunks ++ [Eof]) = (f', outs) ->
  concat outs = pkts /\ f' = Face false CFinished [] true true.
Proof. exact (truncated run_cfg_gen pkts pre chunks f' outs eq_refl). Qed.
Print Assumptions C06_truncated.

(* The same for ANY byte string, well formed or not: every chunking hands over exactly the complete
   packets at the front of the concatenation (Spec/Framing.v packets_of) ... *)
Theorem C06_framing_any_stream chunks f' outs :
  run_events run_cfg_gen face_init (map Feed chunks) = (f', outs) ->
  concat outs = fst (packets_of (concat chunks)) /\ f_running f' = true /\ exists m, f_co f' = CBlocked m.
Proof. exact (framing_any_stream run_cfg_gen chunks f' outs). Qed.
(* ... and end of stream shuts the face down without handing over the remainder *)
Theorem C06_eof_any_stream chunks f' outs :
  run_events run_cfg_gen face_init (map Feed chunks ++ [Eof]) = (f', outs) ->
  concat outs = fst (packets_of (concat chunks)) /\ f' = Face false CFinished [] true true.
Proof. exact (eof_any_stream run_cfg_gen chunks f' outs eq_refl). Qed.
(* ... as does a connection reset while the reader waits *)
Theorem C06_reset_any_stream chunks f' outs :
  run_events run_cfg_gen face_init (map Feed chunks ++ [Reset]) = (f', outs) ->
  concat outs = fst (packets_of (concat chunks)) /\ f_running f' = false /\ f_co f' = CFinished /\ f_closed f' = true.
Proof. exact (reset_any_stream run_cfg_gen chunks f' outs eq_refl). Qed.
Print Assumptions C06_eof_any_stream.

(* whatever the byte stream and its chunking, every (typ, buf) handed to the callback is exactly one TLV element
   of Type typ: the outer Type/Length check of the decoders (parse_and_check_tl) passes on it *)
Theorem C06_delivered_consistent chunks f' outs :
  run_events run_cfg_gen face_init (map Feed chunks) = (f', outs) ->
  Forall (fun p => exists body, parse_and_check_tl (snd p) (fst p) = Ok body) (concat outs).
Proof. exact (delivered_consistent run_cfg_gen chunks f' outs). Qed.

(* the chunk lemma itself: two reads = one read of the concatenation (state and deliveries) *)
Theorem C06_chunks_compose cfg f c1 c2 f1 o1 f2 o2 :
  face_inv f -> step cfg f (Feed c1) = (f1, o1) -> step cfg f1 (Feed c2) = (f2, o2) ->
  step cfg f (Feed (c1 ++ c2)) = (f2, o1 ++ o2).
Proof. exact (step_feed_feed cfg f c1 c2 f1 o1 f2 o2). Qed.

(* the stream reader reads a Type/Length number exactly as parse_tl_num parses it from a buffer *)
Theorem C06_stream_number_is_buffer_number w v sz bio :
  tl_dec w = Ok (v, sz) -> run_one (read_tl_num bio) w = ODone (v, bio ++ firstn sz w) (skipn sz w).
Proof. exact (read_tl_num_dec w v sz bio). Qed.

(* tie to the source text of this run (T2/T1): the two coroutines translated from tlv_var.py and
   stream_face.py are the model's; the except clause lists IncompleteReadError and ConnectionResetError;
   the callback is spawned as a task per packet *)
Theorem C06_source_read_tl_num : Gen.read_tl_num_from_stream = read_tl_num.
Proof. exact gen_read_tl_num_eq. Qed.
Theorem C06_source_run_body : Gen.run_try_body = run_body.
Proof. exact gen_run_body_eq. Qed.
Theorem C06_source_run_except : run_cfg_gen = RunCfg true true /\ Gen.run_spawns_task = true /\ Gen.shutdown_clears_running = true.
Proof. exact (conj run_cfg_gen_eq (conj run_spawns_task shutdown_clears_running)). Qed.

(* UDP: one datagram = at most one callback carrying the datagram unchanged; never an exception *)
Theorem C06_datagram data :
  exists o, datagram_received Gen.udp_caught data = Ok o /\
            match o with
            | Some (typ, d) => d = data /\ exists sz, tl_dec data = Ok (typ, sz)
            | None => is_ok (tl_dec data) = false
            end.
Proof. exact (datagram_total Gen.udp_caught data (proj1 (proj2 udp_guard_ok)) (proj2 (proj2 udp_guard_ok))). Qed.
Print Assumptions C06_datagram.

(* ---- (B) reception never fails ----------------------------------------------------------------------------- *)
(* For every packet type and every byte string, nothing is raised by the part of _receive that precedes
   the handler call -- with the except tuples exactly as written in appv2.py / app.py on this run
   (Generated/ReceiveGen.v), for either reading of a Nack header without reason. *)
Theorem C06_classify_total_v2 nd typ data e : classify (cfg_v2 nd) typ data <> ARaise e.
Proof. exact (classify_total (cfg_v2 nd) (cfg_v2_ok nd) typ data e). Qed.
Theorem C06_classify_total_v1 nd typ data e : classify (cfg_v1 nd) typ data <> ARaise e.
Proof. exact (classify_total (cfg_v1 nd) (cfg_v1_ok nd) typ data e). Qed.
Print Assumptions C06_classify_total_v2.

Section Handlers.
  Variable state : Type.
  Variable on_interest : list bytes -> option bytes -> list value -> bytes -> state -> res state.
  Variable on_data : list bytes -> list value -> bytes -> state -> res state.
  Variable on_nack : list bytes -> N -> state -> res state.
  Hypothesis on_interest_total : forall n t vs raw s, exists s', on_interest n t vs raw s = Ok s'.
  Hypothesis on_data_total : forall n vs raw s, exists s', on_data n vs raw s = Ok s'.
  Hypothesis on_nack_total : forall n r s, exists s', on_nack n r s = Ok s'.

  (* _receive returns normally for every packet type, byte string and pipeline state *)
  Theorem C06_receive_total_v2 nd typ data s :
    exists s', receive state on_interest on_data on_nack (cfg_v2 nd) typ data s = Ok s'.
  Proof.
    exact (receive_total state on_interest on_data on_nack on_interest_total on_data_total on_nack_total
             (cfg_v2 nd) (cfg_v2_ok nd) typ data s).
  Qed.
  Theorem C06_receive_total_v1 nd typ data s :
    exists s', receive state on_interest on_data on_nack (cfg_v1 nd) typ data s = Ok s'.
  Proof.
    exact (receive_total state on_interest on_data on_nack on_interest_total on_data_total on_nack_total
             (cfg_v1 nd) (cfg_v1_ok nd) typ data s).
  Qed.

  (* end to end: whatever bytes a stream transport receives, in whatever pieces, every per-packet task it
     spawns returns normally (both front-ends; v2 shown) *)
  Theorem C06_stream_end_to_end nd chunks f' outs s :
    run_events run_cfg_gen face_init (map Feed chunks) = (f', outs) ->
    exists s', receive_all state on_interest on_data on_nack (cfg_v2 nd) (concat outs) s = Ok s'.
  Proof.
    exact (fun _ => receive_all_total state on_interest on_data on_nack on_interest_total on_data_total on_nack_total
                      (cfg_v2 nd) (cfg_v2_ok nd) (concat outs) s).
  Qed.

  (* a dropped packet leaves the pending-Interest and handler tables untouched (no hypothesis on the handlers) *)
  Theorem C06_frame cfg typ data site s :
    classify cfg typ data = ADrop site -> receive state on_interest on_data on_nack cfg typ data s = Ok s.
  Proof. exact (receive_frame state on_interest on_data on_nack cfg typ data site s). Qed.
End Handlers.

(* every packet its decoder refuses is dropped *)
Theorem C06_bad_packet_dropped nd typ data :
  typ <> TYPE_LP_PACKET ->
  (typ = TYPE_INTEREST -> is_ok (dec_interest data) = false) ->
  (typ = TYPE_DATA -> is_ok (dec_data data) = false) ->
  exists site, classify (cfg_v2 nd) typ data = ADrop site.
Proof. exact (bad_packet_dropped (cfg_v2 nd) typ data (cfg_v2_ok nd)). Qed.

(* handlers only ever see packets their decoder accepted *)
Theorem C06_handlers_see_parsed_only cfg typ data :
  match classify cfg typ data with
  | AInterest n t vs raw => dec_interest raw = Ok vs
  | AData n vs raw => dec_data raw = Ok vs
  | _ => True
  end.
Proof. exact (receive_calls_only_parsed cfg typ data). Qed.

(* the lookup of _on_nack (v2, and v1 with C03's c7d62ad) does not raise when nothing is pending under the
   name, nor when what is pending is still waiting *)
Theorem C06_on_nack_lookup_total name reason t :
  (forall entries, al_get name_eqb t name = Some entries -> existsb (fun d => d) entries = false) ->
  exists t', on_nack_lookup true name reason t = Ok t'.
Proof. exact (on_nack_lookup_total name reason t). Qed.
Print Assumptions C06_receive_total_v2.
Print Assumptions C06_frame.

(* ---- non-vacuity ----------------------------------------------------------------------------------------------- *)
(* two packets, the second with a 3-byte Length, cut inside the Type of the first and inside the Length
   number of the second *)
Example C06_framing_example :
  let p1 := (5, [5; 2; 7; 0]) in
  let p2 := (6, [6; 253; 0; 3; 7; 1; 8]) in
  Forall framed [p1; p2] /\
  run_events run_cfg_gen face_init (map Feed [[]; [5]; [2; 7; 0; 6; 253]; [0]; [3; 7; 1]; [8]])
    = (face_init, [[]; []; [p1]; []; []; [p2]]).
Proof.
  split.
  - repeat constructor.
    + exact (framed_intro 5 [5] [2] [7; 0] (varnum1 5 ltac:(lia)) (varnum1 2 ltac:(lia))).
    + exact (framed_intro 6 [6] [253; 0; 3] [7; 1; 8] (varnum1 6 ltac:(lia)) (varnum3 [0; 3] eq_refl)).
  - vm_compute. reflexivity.
Qed.

Example C06_truncated_example :
  partial_packet [6; 253; 0] /\
  run_events run_cfg_gen face_init (map Feed [[5; 2; 7]; [0; 6; 253; 0]] ++ [Eof])
    = (Face false CFinished [] true true, [[]; [(5, [5; 2; 7; 0])]; []]).
Proof.
  split.
  - exists 6, [3; 7; 1; 8]. split; [discriminate|].
    exact (framed_intro 6 [6] [253; 0; 3] [7; 1; 8] (varnum1 6 ltac:(lia)) (varnum3 [0; 3] eq_refl)).
  - vm_compute. reflexivity.
Qed.

(* an Interest /a inside an LpPacket with a PIT token reaches _on_interest with that token; an LpPacket
   without Fragment and a Data with one byte too many are dropped *)
Example C06_receive_example :
  (exists vs, classify (cfg_v2 None) 100 [100; 13; 98; 2; 1; 2; 80; 7; 5; 5; 7; 3; 8; 1; 97]
              = AInterest [[8; 1; 97]] (Some [1; 2]) vs [5; 5; 7; 3; 8; 1; 97]) /\
  classify (cfg_v2 None) 100 [100; 0] = ADrop 6 /\
  classify (cfg_v2 None) 6 [6; 5; 7; 3; 8; 1; 97; 0] = ADrop 4.
Proof. split; [eexists; vm_compute; reflexivity|split; vm_compute; reflexivity]. Qed.
