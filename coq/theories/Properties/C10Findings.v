(* C10 — statements that are false on the faithful model, with witnesses (replayed on the implementation by
   harness/props/c10.py, streams corpus.misordered-xxx and shuffled; known findings C10-header-out-of-order-xxx).

   The specification (Spec/LpSpec.v) reads an envelope without regard to the order of its headers.  The library
   scans with TlvModel.parse(ignore_critical=True): a recognised header that comes after a header declared later
   in LpPacketValue is treated like an unknown one and silently skipped.  So "model = spec on EVERY well-formed
   element list" fails; it holds on [envelope_of] (declared order), Properties/C10.v C10_model_meets_spec. *)
From NDN Require Import Base.Prelude Model.TlvVar Model.Tlv Model.Packet Model.Lp Spec.LpSpec.
From NDN Require Import Generated.ConstsLp.
Local Open Scope N_scope.

(* FragIndex after a PIT token: the spec refuses the fragmented envelope, the library delivers the fragment *)
Theorem C10_fragmented_any_order_refuted :
  exists w t tok d, spec_receive LP_PACKET w = SReject /\ unwrap_v2 LP_PACKET w = UPacket t tok d /\
                    unwrap_v1 LP_PACKET w = UPacket t None d.
Proof. exists [100; 10; 98; 1; 107; 82; 1; 0; 80; 2; 5; 0]. do 3 eexists. vm_compute. repeat split; reflexivity. Qed.

(* Nack header after IncomingFaceId: the spec reads a Nack (reason 0), the library dispatches the returned
   Interest as a fresh incoming one *)
Theorem C10_nack_any_order_refuted :
  exists w r i t tok, spec_receive LP_PACKET w = SNack r i /\ unwrap_v2 LP_PACKET w = UPacket t tok i /\
                      unwrap_v1 LP_PACKET w = UPacket t None i.
Proof. exists [100; 13; 253; 3; 44; 1; 1; 253; 3; 32; 0; 80; 2; 5; 0]. do 4 eexists. vm_compute. repeat split; reflexivity. Qed.

(* PIT token after IncomingFaceId: the spec reads the token, the library drops it (the reply will go out bare) *)
Theorem C10_token_any_order_refuted :
  exists w t k d, spec_receive LP_PACKET w = SPacket t (Some k) d /\ unwrap_v2 LP_PACKET w = UPacket t None d.
Proof. exists [100; 12; 253; 3; 44; 1; 1; 98; 1; 107; 80; 2; 5; 0]. do 3 eexists. vm_compute. repeat split; reflexivity. Qed.
