(* C12 — The signing check holds exactly when the schema lets that key sign that packet.
   Only statements, [exact]s and Print Assumptions live here. *)
From NDN Require Import Base.Prelude Base.Text Model.LvsAst Model.LvsChecker Model.LvsCompiler Spec.LvsSem Spec.LvsTree.
From NDN Require Import Proofs.LvsMachine Proofs.LvsTreePaths Proofs.LvsCheckerThms Proofs.LvsSanity.
Local Open Scope N_scope.

(* Checker.check on any model that passes the loader: yes iff some path for the packet name ends in a node
   one of whose signer nodes is the end of a path for the key name that starts from the packet's context
   (constraints of the key path evaluated also on patterns the packet bound) *)
Theorem C12_check_tree ufn m (Hs : sane m) fuel pkt key p k b :
  strip_digest pkt = Ok p -> strip_digest key = Ok k ->
  (Nat.max (match_cost m p) (match_cost m k) <= fuel)%nat ->
  lvs_check ufn m fuel pkt key = Ok b ->
  (b = true <-> exists pn cx pnode kn cx',
      tree_match ufn m p [] pn cx /\ get_node m pn = Some pnode /\
      tree_match ufn m k cx kn cx' /\ In kn (n_sign pnode)).
Proof. exact (lvs_check_spec ufn m Hs fuel pkt key p k b). Qed.
Print Assumptions C12_check_tree.
