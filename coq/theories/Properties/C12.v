(* C12 — The signing check holds exactly when the schema lets that key sign that packet.
   Only statements, [exact]s and Print Assumptions live here. *)
From NDN Require Import Base.Prelude Base.Text Model.LvsAst Model.LvsChecker Model.LvsCompiler Spec.LvsSem Spec.LvsTree.
From NDN Require Import Proofs.LvsMachine Proofs.LvsTreePaths Proofs.LvsCheckerThms Proofs.LvsSanity
  Proofs.LvsFlatten Proofs.LvsGenTree Proofs.LvsCompileTree Proofs.LvsCompileThms Proofs.LvsCompileAccepts
  Proofs.LvsEndToEnd Proofs.LvsExamples.
From NDN Require Import Spec.LvsChains.
Local Open Scope N_scope.

(* Checker.check on any model that passes the loader: yes iff some path for the packet name ends in a node
   one of whose signer nodes is the end of a path for the key name that starts from the packet's context
   (constraints of the key path evaluated also on patterns the packet bound) *)
Theorem C12_check_tree ufn m (Hs : sane m) fuel pkt key p k b :
  strip_digest pkt = Ok p -> strip_digest key = Ok k ->
  (Nat.max (match_cost m p) (match_cost m k) <= fuel)%nat ->
  lvs_check ufn m fuel pkt key = Ok b ->
  (b = true <-> exists pn cx pnode kn cx',
      tree_match ufn m p [] pn cx /\ get_node m pn = Some pnode /\
      tree_match ufn m k cx kn cx' /\ In kn (n_sign pnode)).
Proof. exact (lvs_check_spec ufn m Hs fuel pkt key p k b). Qed.
Print Assumptions C12_check_tree.

Definition ufn_t := ident -> option (bytes -> list (option bytes) -> res bool).

(* ---- the full statement (DESIGN section 3, C12) ----------------------------------------------------------
   [can_sign] (Spec/LvsSem.v) reads the schema text: some definition matches the packet name, and one of the rules IT
   lists as signers matches the key name starting from the packet's bindings.  Hypotheses as for C11_match_iff. *)
Theorem C12_check_iff (ufn : ufn_t) (S : lvsfile) m : static_ok S = true -> schema_wf S = true -> compile S = Ok m ->
  forall fuel pkt key p k b, strip_digest pkt = Ok p -> strip_digest key = Ok k ->
    (Nat.max (match_cost m p) (match_cost m k) <= fuel)%nat ->
    lvs_check ufn m fuel pkt key = Ok b -> (b = true <-> can_sign ufn S pkt key).
Proof. exact (fun H1 H2 H3 => check_iff ufn S m H1 H2 H3). Qed.
Print Assumptions C12_check_iff.

(* on the example schema (#pkt: /"a"/x/y & {y: x|"b"} <= #key, #key: /"k"/x) the key /k/d may sign /a/d/b and /k/e may not,
   both by the compiled model and, through the theorem, by the text *)
Example C12_check_iff_example :
  can_sign no_ufn ex_schema ex_pkt ex_key /\ ~ can_sign no_ufn ex_schema ex_pkt ex_bad.
Proof.
  exact (conj
    (match ex_match, ex_check_yes with
     | ex_intro _ l (conj _ (conj _ (conj Hs _))), conj Hc (conj Hf Hk) =>
         proj1 (check_iff no_ufn ex_schema ex_model ex_static ex_wf ex_compile 1000 ex_pkt ex_key ex_pkt ex_key true Hs Hk Hf Hc) eq_refl end)
    (match ex_match, ex_check_no with
     | ex_intro _ l (conj _ (conj _ (conj Hs _))), conj Hc (conj Hf Hk) =>
         fun H => Bool.diff_false_true (proj2 (check_iff no_ufn ex_schema ex_model ex_static ex_wf ex_compile 1000 ex_pkt ex_bad ex_pkt ex_bad false Hs Hk Hf Hc) H) end)).
Qed.

(* ---- the chain-level half, usable on its own ------------------------------------------------------------------------
   from the numbered rule chains of the schema to the verdict of Checker.check on the compiled model:
   yes iff some chain is satisfied by the packet name and a chain of a rule listed among ITS signers is satisfied by
   the key name starting from the packet's bindings (so every constraint of the key chain is evaluated, also on
   patterns the packet bound; a pattern bound by the packet must have the same value in the key name). *)
Theorem C12_check_chains (ufn : ufn_t) S chains st m :
  chains_of S = Ok (chains, st) -> compile S = Ok m -> chains_ok (N.of_nat (length (ns_named st))) chains ->
  forall fuel pkt key p k b,
    strip_digest pkt = Ok p -> strip_digest key = Ok k ->
    (Nat.max (match_cost m p) (match_cost m k) <= fuel)%nat ->
    lvs_check ufn m fuel pkt key = Ok b ->
    (b = true <-> exists rc rk cx cx', In rc chains /\ chain_sem_from ufn 0 rc p [] cx /\ In rk chains /\
                                       In (ch_id rk) (ch_sign rc) /\ chain_sem_from ufn 0 rk k cx cx').
Proof. exact (check_chains ufn S chains st m). Qed.
Print Assumptions C12_check_chains.


(* in particular: a yes means the key name satisfies a chain of some rule -- when that chain is evaluated from the
   packet's bindings (docs: "a matched pattern is carried over through a signing chain") *)
Corollary C12_key_must_match_some_rule (ufn : ufn_t) S chains st m :
  chains_of S = Ok (chains, st) -> compile S = Ok m -> chains_ok (N.of_nat (length (ns_named st))) chains ->
  forall fuel pkt key p k,
    strip_digest pkt = Ok p -> strip_digest key = Ok k ->
    (Nat.max (match_cost m p) (match_cost m k) <= fuel)%nat ->
    lvs_check ufn m fuel pkt key = Ok true ->
    exists rk cx cx', In rk chains /\ chain_sem_from ufn 0 rk k cx cx'.
Proof.
  intros Hc Hm Hok fuel pkt key p k Hp Hk Hf H.
  destruct (proj1 (check_chains ufn S chains st m Hc Hm Hok fuel pkt key p k true Hp Hk Hf H) eq_refl)
    as (rc & rk & cx & cx' & _ & _ & Hrk & _ & Hsem).
  exists rk, cx, cx'. auto.
Qed.
Print Assumptions C12_key_must_match_some_rule.
