(* C05 — nothing that requires validation reaches the application unvalidated.
   Only statements, [exact]s, Print Assumptions and non-vacuity Examples live here.
   Same operational model and specification as C03 (Model/ExpressPipeline.v, Spec/ExpressSpec.v). *)
From NDN Require Import Base.Prelude Spec.ExpressSpec Model.ExpressPipeline.
From NDN Require Import Proofs.ExpressSafety Proofs.ExpressRefine Proofs.ExpressMain Proofs.ExpressC05.
From NDN Require Import Generated.ValidResultConsts Proofs.ValidResultAgree.
From NDN Require Import Model.GateSuspend Proofs.GateSuspendProofs.
Local Open Scope N_scope.

(* a Data packet is returned only if the validator supplied with that Interest accepted it:
   V2: verdict PASS or ALLOW_BYPASS (of FAIL, TIMEOUT, SILENCE, PASS, ALLOW_BYPASS, raised TimeoutError);
   V1: a truthy verdict.  The packet is one that was received. *)
Theorem C05_data_only_if_pass (fe : frontend) (h : list (tie * ev)) (i d : N) :
  wf_history h -> completion (run_hist fe h) i = Some (OGot d) ->
  data_received h d /\ exists v, pass fe v = true /\ verdict_given h i v.
Proof. exact (data_only_if_pass fe h i d). Qed.
Print Assumptions C05_data_only_if_pass.

(* any other verdict yields a validation failure that carries the packet and the verdict *)
Theorem C05_failure_carries_packet_and_verdict (fe : frontend) (h : list (tie * ev)) (i d v' : N) :
  wf_history h -> completion (run_hist fe h) i = Some (OInvalid d v') ->
  data_received h d /\ exists v, pass fe v = false /\ v' = norm_verdict fe v /\ verdict_given h i v.
Proof. exact (failure_carries_packet_and_verdict fe h i d v'). Qed.
Print Assumptions C05_failure_carries_packet_and_verdict.

(* current front-end: once an Interest is under validation, if its validator does not answer strictly before the
   deadline (and the caller does not cancel), the result is never the payload nor a failure: it stays pending until the
   deadline and is a timeout from then on.  (Legacy front-end: refuted, see C05Findings.v / known finding
   C05-v1-validator-no-deadline.) *)
Theorem C05_slow_validator_is_timeout (h1 h2 : list (tie * ev)) (i : N) (r : ispec) (d : N) :
  wf_history (h1 ++ h2) -> spec_state V2 h1 i = IValidating r d ->
  Forall (slow_event i (s_D r)) h2 ->
  (completion (run_hist V2 (h1 ++ h2)) i = None \/ completion (run_hist V2 (h1 ++ h2)) i = Some OTimeout) /\
  ((exists x, In x h2 /\ s_D r <= ev_time (snd x)) -> completion (run_hist V2 (h1 ++ h2)) i = Some OTimeout).
Proof. exact (slow_validator_is_timeout h1 h2 i r d). Qed.
Print Assumptions C05_slow_validator_is_timeout.

(* incoming Interests, for EVERY history: a handler is only ever called for an Interest that is plain, or whose
   parameters digest is correct and which the validator in force accepted (every Interest with parameters or a
   signature in V2, where a missing validator rejects; the signed ones in V1, where the application-wide
   sha256_digest_checker stands in for a missing route validator) *)
Theorem C05_interest_gate (fe : frontend) (h : list (tie * ev)) (hd : N) (k : inc) :
  In (hd, k) (hcalls (run_hist fe h)) -> exists own, may_deliver fe own k = true.
Proof. exact (interest_gate fe h hd k). Qed.
Print Assumptions C05_interest_gate.

(* ... and the gate is exact: the handler of the longest-prefix route is called iff the specification allows it under
   the validator in force: the route's own validator, else (legacy) the application-wide validator [dv] as it is when
   the Interest is dispatched *)
Theorem C05_gate_exact (fe : frontend) (dv : bool) (f : list (name * (N * bool))) (k : inc) (hd : N) (hasv : bool) :
  gate fe dv f k = Some (hd, hasv) <->
  (exists p, lpm f (k_name k) = Some (p, (hd, hasv))) /\ may_deliver fe (in_force fe hasv dv) k = true.
Proof. exact (gate_iff fe dv f k hd hasv). Qed.
Print Assumptions C05_gate_exact.

(* "the validator in force", for EVERY history: an Interest arriving after the history h calls exactly what the gate
   allows with the application-wide validator as LAST SET in h ([default_of h], Spec) - whether the route was attached
   before or after that assignment - and nothing else *)
Theorem C05_validator_in_force (fe : frontend) (h : list (tie * ev)) (m : tie)
        (k : N) (n : name) (hp : bool) (sg : N) (dok : bool) (v t : N) :
  hcalls (run_hist fe (h ++ [(m, Incoming k n hp sg dok v t)]))
  = hcalls (run_hist fe h)
    ++ match gate fe (default_of h) (fib (run_hist fe h)) (mkInc k n hp sg dok v) with
       | Some (hd, _) => [(hd, mkInc k n hp sg dok v)]
       | None => []
       end.
Proof. exact (incoming_after fe h m k n hp sg dok v t). Qed.
Print Assumptions C05_validator_in_force.

Theorem C05_delivered_only_if_in_force_accepts (fe : frontend) (h : list (tie * ev)) (m : tie)
        (k : N) (n : name) (hp : bool) (sg : N) (dok : bool) (v t : N) (hd : N) :
  In (hd, mkInc k n hp sg dok v) (hcalls (run_hist fe (h ++ [(m, Incoming k n hp sg dok v t)]))) ->
  In (hd, mkInc k n hp sg dok v) (hcalls (run_hist fe h)) \/
  exists p hasv, lpm (fib (run_hist fe h)) n = Some (p, (hd, hasv)) /\
                 may_deliver fe (in_force fe hasv (default_of h)) (mkInc k n hp sg dok v) = true.
Proof. exact (incoming_after_iff fe h m k n hp sg dok v t hd). Qed.
Print Assumptions C05_delivered_only_if_in_force_accepts.

(* the verdict table used above is the one of the source: ValidResult as reflected from ndn.types on this run *)
Theorem C05_verdict_table_matches_source :
  valid_result_members = [(n_FAIL, -2); (n_TIMEOUT, -1); (n_SILENCE, 0); (n_PASS, 1); (n_ALLOW_BYPASS, 2)]%Z /\
  map (fun m => pass V2 (vr_index (snd m))) valid_result_members = [false; false; false; true; true] /\
  norm_verdict V2 5 = vr_index (-1) /\
  validation_failure_default_result = n_FAIL /\ norm_verdict V1 1 = vr_index (-2) /\
  valid_result_members_all_truthy = true /\
  legacy_default_int_validator_is_sha256_digest_checker = true.
Proof. exact valid_result_table. Qed.
Print Assumptions C05_verdict_table_matches_source.

(* non-vacuity *)
Definition ex_c05 : list (tie * ev) :=
  [ (NoTie, Express 0 [0] false None 100 VDef 0); (NoTie, Await 0 0);
    (NoTie, Express 1 [0] false None 100 (VImm 2) 0); (NoTie, Await 1 0);
    (NoTie, Data 5 [0] 5 20);
    (NoTie, Attach [0] true 30); (NoTie, Attach [0; 1] false 30);
    (NoTie, Incoming 0 [0; 2] true 1 true 3 40);      (* signed + params, digest ok, validator PASS -> delivered *)
    (NoTie, Incoming 1 [0; 2] true 1 true 2 41);      (* validator SILENCE -> dropped by V2 (truthy for V1) *)
    (NoTie, Incoming 2 [0; 1; 2] true 0 true 3 42);   (* route without validator: V2 drops *)
    (NoTie, Incoming 3 [0; 1; 2] false 0 true 0 43);  (* plain: delivered without validator *)
    (NoTie, SetDefault true 50);                      (* legacy: app.int_validator replaced AFTER the routes exist *)
    (NoTie, Incoming 4 [0; 1; 2] true 1 true 0 51);   (* /a/b has no validator of its own: the new default rejects (V1) *)
    (NoTie, Incoming 5 [0; 1; 2] true 1 true 1 52);   (* ... and accepts this one (V1); V2 still drops both *)
    (NoTie, SetDefault false 53);
    (NoTie, Incoming 6 [0; 1; 2] true 1 true 0 54);   (* library default again: DigestSha256 ok -> delivered (V1) *)
    (EvFirst, VDone 0 3 100) ].                        (* verdict exactly at the deadline -> timeout *)
Example C05_example :
  wf_history ex_c05 /\
  completion (run_hist V2 ex_c05) 0 = Some OTimeout /\
  completion (run_hist V2 ex_c05) 1 = Some (OInvalid 5 2) /\
  map (fun x : N * inc => (fst x, k_id (snd x))) (hcalls (run_hist V2 ex_c05)) = [(0, 0); (1, 3)] /\
  map (fun x : N * inc => (fst x, k_id (snd x))) (hcalls (run_hist V1 ex_c05)) = [(0, 0); (0, 1); (1, 2); (1, 3); (1, 5); (1, 6)] /\
  ivcalls (run_hist V1 ex_c05) = [0; 1; 4; 5] /\
  default_of (firstn 12 ex_c05) = true /\ default_of ex_c05 = false /\
  spec_state V2 (firstn 5 ex_c05) 0 = IValidating (mkSp [0] false None 100 VDef) 5.
Proof.
  split; [cbn; repeat split; try lia; intros H; repeat (destruct H as [H|H]; try discriminate H); contradiction|].
  repeat split; vm_compute; reflexivity.
Qed.

(* Suspended Interest validators (Model/GateSuspend.v): the validator of an incoming Interest may take its time, and
   the application may attach / detach routes or replace its application-wide validator before the verdict is there.
   For EVERY such history: a handler h that is called for an Interest k was attached (as handler h) at a prefix p of
   k's name, with / without a validator of its own, and the validator in force FOR THAT ATTACHMENT accepted k
   (a missing validator means rejection in V2; dv = an application-wide validator of the legacy front-end) -
   never the handler of one route after the verdict of another route's validator. *)
Theorem C05_suspended_gate (fe : frontend) (evs : list gev) (h : N) (k : inc) :
  In (h, k) (g_hc (g_run fe evs)) ->
  exists p hasv dv, In (h, (p, hasv)) (g_att (g_run fe evs)) /\ is_prefix p (k_name k) = true /\
                    may_deliver fe (in_force fe hasv dv) k = true.
Proof. exact (suspended_gate fe evs h k). Qed.
Print Assumptions C05_suspended_gate.

(* a handler id names one attachment (prefix, has a validator of its own) *)
Theorem C05_handler_names_one_attachment (fe : frontend) (evs : list gev) (h : N) (x y : name * bool) :
  In (h, x) (g_att (g_run fe evs)) -> In (h, y) (g_att (g_run fe evs)) -> x = y.
Proof. exact (att_functional fe evs h x y). Qed.
Print Assumptions C05_handler_names_one_attachment.

(* /a attached with a validator; a signed Interest /a/b/h arrives, its validator suspends; meanwhile /a/b is attached
   WITHOUT a validator (handler 1); the verdict is PASS: handler 0 - whose validator accepted - gets it, and a second
   Interest arriving afterwards meets /a/b and is rejected (V2) *)
Example C05_suspended_example :
  map (fun x : N * inc => (fst x, k_id (snd x)))
      (g_hc (g_run V2 [GAttach [0] true; GArrive (mkInc 0 [0; 1; 7] true 1 true 0) true; GAttach [0; 1] false;
                       GArrive (mkInc 1 [0; 1; 7] true 1 true 3) false; GVerdict 0 3])) = [(0, 0)].
Proof. vm_compute. reflexivity. Qed.

(* VALIDATOR OUTCOMES.  A validator that is consulted accepts, rejects, or terminates with an exception (a certificate
   fetch that timed out / was nacked, a face that went down).  Only the first is an acceptance: the histories give a
   validator that rejected OR RAISED a non-passing verdict (V2: FAIL, TIMEOUT, SILENCE, 5 = raised; V1: 0).  For EVERY
   history: an Interest whose validator did not accept reaches a handler only if no application validator had to accept
   it - it is plain, or (legacy) it is unsigned, or its DigestSha256 signature satisfied the library default
   sha256_digest_checker on a route without a validator of its own. *)
Theorem C05_no_accept_no_delivery (fe : frontend) (h : list (tie * ev)) (hd : N) (k : inc) :
  In (hd, k) (hcalls (run_hist fe h)) -> pass fe (k_verdict k) = false ->
  plain k = true \/ (fe = V1 /\ k_digest_ok k = true /\ (signed k = false \/ (k_sig k =? 2) = false)).
Proof. exact (interest_no_accept fe h hd k). Qed.
Print Assumptions C05_no_accept_no_delivery.

(* ... also when the validator suspended and the routes changed meanwhile ([k] carries the verdict it finally got) *)
Theorem C05_suspended_no_accept_no_delivery (fe : frontend) (evs : list gev) (h : N) (k : inc) :
  In (h, k) (g_hc (g_run fe evs)) -> pass fe (k_verdict k) = false ->
  plain k = true \/
  (fe = V1 /\ k_digest_ok k = true /\
   (signed k = false \/ ((k_sig k =? 2) = false /\ exists p, In (h, (p, false)) (g_att (g_run fe evs))))).
Proof. exact (suspended_no_accept fe evs h k). Qed.
Print Assumptions C05_suspended_no_accept_no_delivery.

(* a signed Interest on a route with a validator; the validator raises (verdict 5 in V2, 0 in V1) at once (Interest 0) or
   after a suspension (Interest 1): no handler call in either front-end; Interest 2 is accepted *)
Example C05_raising_validator_example :
  g_hc (g_run V2 [GAttach [0] true; GArrive (mkInc 0 [0; 1] false 1 true 5) false; GArrive (mkInc 1 [0; 1] false 1 true 0) true;
                  GVerdict 1 5]) = [] /\
  map (fun x : N * inc => (fst x, k_id (snd x)))
      (g_hc (g_run V1 [GAttach [0] true; GArrive (mkInc 0 [0; 1] false 1 true 0) false; GArrive (mkInc 1 [0; 1] false 1 true 0) true;
                       GVerdict 1 0; GArrive (mkInc 2 [0; 1] false 1 true 1) false])) = [(0, 2)].
Proof. split; vm_compute; reflexivity. Qed.
