(* C18 placeholder *)
From NDN Require Import Base.Prelude Model.Svs Spec.SvsSpec.
