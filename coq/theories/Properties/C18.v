(* C18 — State-vector sync merges monotonically and announces exactly when needed.
   Only statements, [exact]s, Print Assumptions and non-vacuity examples live here.
   Model: Model/Svs.v (sync.py after the fix commits of branch fix/C18); specification: Spec/SvsSpec.v.
   What was false before the fixes: Properties/C18Findings.v (required below so that it is re-checked). *)
From NDN Require Import Base.Prelude Model.Svs Spec.SvsSpec.
From NDN Require Import Proofs.SvsSpecFacts Proofs.SvsProofs Proofs.SvsConstsAgree.
From NDN Require Properties.C18Findings.
Local Open Scope N_scope.

(* ---- meaning of the executable specification functions (pointwise) ---------------------------- *)
Theorem C18_spec_pmax a b k : vget (pmax a b) k = N.max (vget a k) (vget b k).
Proof. exact (pmax_get a b k). Qed.
Print Assumptions C18_spec_pmax.

Theorem C18_spec_newer a b : newerb a b = true <-> exists k, vget b k < vget a k.
Proof. exact (newerb_spec a b). Qed.
Print Assumptions C18_spec_newer.

Theorem C18_spec_accepted self q w :
  acceptedb self q w = true <->
  (forall k, ~ In (Some k, None) w) /\ ~ (exists x, In (Some self, Some x) w /\ q < x).
Proof. exact (acceptedb_spec self q w). Qed.
Print Assumptions C18_spec_accepted.

(* a received vector with distinct node ids denotes exactly its entries *)
Theorem C18_spec_denote_distinct w k :
  NoDup (keys (wentries w)) -> vget (denote w) k = vget (wentries w) k.
Proof. exact (denote_get_distinct w k). Qed.
Print Assumptions C18_spec_denote_distinct.

(* ---- states the theorems range over: every state reachable from start() ------------------------ *)
Theorem C18_reachable_wf c last k h : wf c (run c (init c last k) h).
Proof. exact (wf_run c h _ (wf_init c last k)). Qed.
Print Assumptions C18_reachable_wf.

(* ---- merge = entry-wise maximum for accepted vectors ---------------------------------------------- *)
Theorem C18_merge c s now r es :
  accepted (c_self c) (self_seq s) es ->
  forall k, vget (local (fst (step c s (ERecv now r (RVec es))))) k
            = N.max (vget (local s) k) (vget (denote es) k).
Proof. exact (merge_accepted c s now r es). Qed.
Print Assumptions C18_merge.

(* after ANY sequence of events the local vector and the own sequence number are what the
   specification computes from the accepted vectors and the publications alone *)
Theorem C18_local_history c h s :
  let r := spec_run (c_self c) (local s, self_seq s) (map habs h) in
  (forall k, vget (local (run c s h)) k = vget (fst r) k) /\ self_seq (run c s h) = snd r.
Proof. exact (local_history c h s (local s, self_seq s) (fun k => eq_refl) eq_refl). Qed.
Print Assumptions C18_local_history.

(* ---- monotonicity over any event sequence ------------------------------------------------------------ *)
Theorem C18_monotone c s h k : wf c s -> vget (local s) k <= vget (local (run c s h)) k.
Proof. exact (fun W => monotone c h s W k). Qed.
Print Assumptions C18_monotone.

(* ---- an over-claiming vector, and anything else that is not an accepted vector (malformed, undecodable,
        wrong name length), is ignored entirely: state, timer, callback, emission --------------------------- *)
Theorem C18_overclaim_ignored c s now r es :
  overclaims (c_self c) (self_seq s) es ->
  fst (step c s (ERecv now r (RVec es))) = s /\
  o_cb (snd (step c s (ERecv now r (RVec es)))) = false /\
  o_emit (snd (step c s (ERecv now r (RVec es)))) = None.
Proof. exact (overclaim_ignored c s now r es). Qed.
Print Assumptions C18_overclaim_ignored.

Theorem C18_not_accepted_ignored c s now r x :
  match x with RVec es => ~ accepted (c_self c) (self_seq s) es | _ => True end ->
  fst (step c s (ERecv now r x)) = s /\
  o_cb (snd (step c s (ERecv now r x))) = false /\ o_emit (snd (step c s (ERecv now r x))) = None.
Proof. exact (not_accepted_ignored c s now r x). Qed.
Print Assumptions C18_not_accepted_ignored.

(* ---- the missing-data callback fires iff the received vector raised some entry ----------------------------- *)
Theorem C18_missing_iff_raised c s now r x :
  o_cb (snd (step c s (ERecv now r x))) = true <->
  exists k, vget (local s) k < vget (local (fst (step c s (ERecv now r x)))) k.
Proof. exact (missing_iff_raised c s now r x). Qed.
Print Assumptions C18_missing_iff_raised.

Theorem C18_missing_iff_raises_accepted c s now r es :
  accepted (c_self c) (self_seq s) es ->
  (o_cb (snd (step c s (ERecv now r (RVec es)))) = true <-> exists k, vget (local s) k < vget (denote es) k).
Proof. exact (missing_iff_raises_accepted c s now r es). Qed.
Print Assumptions C18_missing_iff_raises_accepted.

(* ---- publishing: own sequence number + 1, own entry updated, nothing else touched, the timer is due at
        once (next_timing = 0) and its expiry emits the full vector ------------------------------------------- *)
Theorem C18_publish c s :
  let s' := fst (step c s EPublish) in
  self_seq s' = self_seq s + 1 /\
  vget (local s') (c_self c) = self_seq s + 1 /\
  (forall k, k <> c_self c -> vget (local s') k = vget (local s) k) /\
  next_timing s' = 0 /\
  forall now r, o_emit (snd (step c s' (EClock now r))) = Some (local s') /\
                local (fst (step c s' (EClock now r))) = local s'.
Proof. exact (publish c s). Qed.
Print Assumptions C18_publish.

(* ---- life cycle: construct, publications, start, events, then repeatedly: stop, publications, start, events.  A publication made while the
        instance is not running is a [new_data] step of the constructed / stopped state, so C18_publish (any state) applies;
        start() makes the own entry equal to the own sequence number and moves nothing else; every phase keeps the
        state well-formed, so C18_monotone applies from there on --------------------------------------------------------- *)
Theorem C18_start c s :
  self_seq (start c s) = self_seq s /\
  vget (local (start c s)) (c_self c) = self_seq s /\
  (forall k, k <> c_self c -> vget (local (start c s)) k = vget (local s) k) /\
  next_timing (start c s) = next_timing s /\ mode (start c s) = mode s.
Proof. exact (start_spec c s). Qed.
Print Assumptions C18_start.

Theorem C18_lifecycle_wf c last pubs h stopped_pubs h' :
  let phase s k evs := run c (start c (Nat.iter k (new_data c) s)) evs in
  wf c (phase (phase (construct last) pubs h) stopped_pubs h').
Proof.
  exact (wf_run c h' _ (wf_start c _ ((fix W (k : nat) := match k return wf c (Nat.iter k (new_data c) _) with
     O => wf_run c h _ (wf_start c _ ((fix V (j : nat) := match j return wf c (Nat.iter j (new_data c) _) with
            O => wf_construct c last | S j' => wf_new_data c _ (V j') end) pubs))
   | S k' => wf_new_data c _ (W k') end) stopped_pubs))).
Qed.
Print Assumptions C18_lifecycle_wf.

(* ---- expiry of a suppression period: a sync Interest is emitted iff the local vector is newer in some entry
        than the merge of the vectors heard during that period (Spec.heard over the observable trace);
        before the expiry nothing happens ------------------------------------------------------------------------ *)
Theorem C18_suppression_iff c s0 h :
  wf c s0 -> mode s0 = Steady ->
  let s := run c s0 h in
  mode s = Suppression ->
  exists hd, heard (trace c s0 h) = Some hd /\
    forall now r,
      (next_timing s <= now ->
         (newer (local s) hd -> o_emit (snd (step c s (EClock now r))) = Some (local s)) /\
         (~ newer (local s) hd -> o_emit (snd (step c s (EClock now r))) = None) /\
         mode (fst (step c s (EClock now r))) = Steady) /\
      (now < next_timing s -> step c s (EClock now r) = (s, quiet 13)).
Proof. exact (suppression_expiry c s0 h). Qed.
Print Assumptions C18_suppression_iff.

(* outside suppression an expiring timer announces the full vector; whatever any event emits is the full
   local vector *)
Theorem C18_periodic c s now r :
  mode s = Steady -> next_timing s <= now -> o_emit (snd (step c s (EClock now r))) = Some (local s).
Proof. exact (steady_expiry c s now r). Qed.
Print Assumptions C18_periodic.

Theorem C18_emit_full_vector c s e v :
  o_emit (snd (step c s e)) = Some v -> v = local s /\ local (fst (step c s e)) = local s.
Proof. exact (emit_full_vector c s e v). Qed.
Print Assumptions C18_emit_full_vector.

(* ---- T1 ties re-established on this run: jitter constants of sample_*_timer, state values, TLV numbers ------- *)
Theorem C18_tie_jitter c r :
  sample_sync_timer c r = gen_sample (c_sync_interval c) G.sync_jitter_den G.sync_offset_num G.sync_offset_den r /\
  sample_sup_timer c r = gen_sample (c_sup_interval c) G.sup_jitter_den G.sup_offset_num G.sup_offset_den r.
Proof. exact (conj (sample_sync_agree c r) (sample_sup_agree c r)). Qed.
Print Assumptions C18_tie_jitter.

Theorem C18_tie_consts :
  (G.state_steady = 0 /\ G.state_suppression = 1) /\
  (G.tlv_state_vec = 201 /\ G.tlv_state_vec_entry = 202 /\ G.tlv_seq_no = 204).
Proof. exact (conj mode_consts_agree tlv_consts_agree). Qed.

Theorem C18_jitter_range c r : r < 2 ^ G.sync_rand_bits ->
  (c_sync_interval c - c_sync_interval c / 10 <= sample_sync_timer c r /\
   sample_sync_timer c r <= c_sync_interval c - c_sync_interval c / 10 + c_sync_interval c / 5) /\
  (c_sup_interval c - c_sup_interval c / 2 <= sample_sup_timer c r /\
   sample_sup_timer c r <= c_sup_interval c - c_sup_interval c / 2 + c_sup_interval c).
Proof. exact (fun R => conj (sync_timer_range c r R) (sup_timer_range c r R)). Qed.
Print Assumptions C18_jitter_range.

(* ---- non-vacuity ----------------------------------------------------------------------------------------------
   node /me (3 items published) knows a:5, b:7.  An outdated vector {a:2,b:7,me:3} is accepted, raises nothing
   and opens a suppression period; {a:9,b:1} is accepted, raises a (callback) and is aggregated;
   {me:4} over-claims.  At the expiry the merge of what was heard is {a:9,b:7,me:3}: local is nowhere newer, so
   nothing is emitted; had only the first vector been heard, the full vector is emitted. *)
Example C18_example :
  let me := C18Findings.me in let a := C18Findings.na in let b := C18Findings.nb in
  let c := C18Findings.cfg0 in
  let v1 := [(Some a, Some 2); (Some b, Some 7); (Some me, Some 3)] in
  let v2 := [(Some a, Some 9); (None, Some 1); (Some b, Some 1)] in
  let s0 := init c 3 0 in
  let h0 := [EClock 262144000 0; ERecv 262144000 0 (RVec [(Some a, Some 5); (Some b, Some 7)]); EClock 262176768 0] in
  let s1 := run c s0 h0 in
  let s2 := run c s1 [ERecv 262406144 7 (RVec v1)] in
  let s3 := run c s2 [ERecv 262406145 9 (RVec v2)] in
  wf c s1 /\ mode s1 = Steady /\ local s1 = [(me, 3); (a, 5); (b, 7)] /\
  accepted me 3 v1 /\ accepted me 3 v2 /\ overclaims me 3 [(Some me, Some 4)] /\
  mode s2 = Suppression /\ mode s3 = Suppression /\
  o_cb (snd (step c s1 (ERecv 262406144 7 (RVec v1)))) = false /\
  o_cb (snd (step c s2 (ERecv 262406145 9 (RVec v2)))) = true /\
  local s3 = [(me, 3); (a, 9); (b, 7)] /\
  heard (trace c s1 [ERecv 262406144 7 (RVec v1); ERecv 262406145 9 (RVec v2)]) = Some (pmax (denote v1) (denote v2)) /\
  o_emit (snd (step c s3 (EClock (next_timing s3) 0))) = None /\
  o_emit (snd (step c s2 (EClock (next_timing s2) 0))) = Some (local s2) /\
  self_seq (fst (step c s3 EPublish)) = 4.
Proof.
  cbv zeta. split; [apply wf_run, wf_init|].
  split; [vm_compute; reflexivity|]. split; [vm_compute; reflexivity|].
  split; [apply acceptedb_spec; vm_compute; reflexivity|].
  split; [apply acceptedb_spec; vm_compute; reflexivity|].
  split; [apply overclaimsb_spec; vm_compute; reflexivity|].
  vm_compute. repeat split; reflexivity.
Qed.
