(* C20 — statements that are FALSE on the faithful model, with their witnesses (each is replayed on the
   implementation by harness/props/c20.py).  These mark the boundary of the theorems in C20.v. *)
From NDN Require Import Base.Prelude Base.Text Model.ConfBase Model.ClientConf Spec.ClientConfSpec.
From NDN Require Import Proofs.ClientConfProofs Proofs.ClientConfMain.
From Coq Require Strings.String Strings.Ascii.
Import Coq.Strings.String.StringSyntax Coq.Strings.Ascii.AsciiSyntax.
Local Open Scope N_scope.

(* known finding C20-port-zero: "the port the URI denotes" fails for an explicit port 0 — default_face tests
   "if not port", so tcp://h:0 and udp://h:0 silently become port 6363.  C20_face therefore demands 1 <= port. *)
Theorem C20_face_port_zero_refuted :
  exists scheme h port,
    scheme_kind scheme = Some KTcp /\ host_ok h = true /\ denoted_port port = 0 /\
    default_face (fun _ => false) (uri_text scheme h port []) = Ok (FTcp (host_addr h) 6363) /\
    default_face (fun _ => false) (uri_text scheme h port []) <> Ok (denoted_face KTcp h port []).
Proof.
  exists (slit "tcp"), (HName (slit "h")), (Some (slit "0")). vm_compute. repeat split; try reflexivity. discriminate.
Qed.

(* domain boundary (not counted as a defect): "an environment override wins" needs "reading succeeds" —
   a configuration file that is not INI syntax makes read_client_conf raise even when all three settings
   are overridden *)
Theorem C20_env_wins_without_success_refuted :
  exists w v, env_get (w_env w) (env_name key_transport) = Some v /\
              env_get (w_env w) (env_name key_pib) = Some v /\ env_get (w_env w) (env_name key_tpm) = Some v /\
              read_client_conf w = Err EConfig.
Proof.
  exists (mk_world [(slit "HOME", slit "/h"); (slit "NDN_CLIENT_TRANSPORT", slit "x"); (slit "NDN_CLIENT_PIB", slit "x");
                    (slit "NDN_CLIENT_TPM", slit "x")]
                   (fun p => str_eqb p (slit "/h/.ndn/client.conf"))
                   [(slit "/h/.ndn/client.conf", Ok (slit "no delimiter here"))] []), (slit "x").
  vm_compute. repeat split; reflexivity.
Qed.

(* domain boundary: wf_conf excludes indented entries for a reason — configparser reads an indented line as
   the continuation of the previous value, so the tpm entry below is not seen and transport swallows it *)
Theorem C20_indented_entry_refuted :
  exists text d, ini_read (slit "[DEFAULT]" ++ ch_nl :: text) = Ok d /\
                 text = slit "transport=a" ++ ch_nl :: slit " tpm=b" ++ [ch_nl] /\
                 ini_get d key_tpm = None /\ ini_get d key_transport = Some (slit "a" ++ ch_nl :: slit "tpm=b").
Proof.
  exists (slit "transport=a" ++ ch_nl :: slit " tpm=b" ++ [ch_nl]), [(slit "transport", slit "a" ++ ch_nl :: slit "tpm=b")].
  vm_compute. repeat split; reflexivity.
Qed.
