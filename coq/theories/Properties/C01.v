(* placeholder until the proofs land *)
From NDN Require Import Proofs.TlvVarProofs.
