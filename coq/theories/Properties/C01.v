(* C01 — Interest and Data packets survive an encode/decode round trip.
   Only statements, [exact]s and Print Assumptions live here.  [sha] (SHA-256) and [sign] (what the signer
   writes for the bytes it is given) are arbitrary functions: the theorems hold for every signer. *)
From NDN Require Import Base.Prelude Model.TlvVar Model.Name Model.Tlv Model.Packet Model.PacketEnc Spec.TlvWf.
From NDN Require Import Proofs.TlvVarProofs Proofs.TlvSplit Proofs.TlvRoundtrip2 Proofs.PacketRoundtrip Proofs.ShrinkProofs Proofs.ShrinkBridge.
From NDN Require Generated.Schemas Generated.SignerSizes.
From NDN Require Import Model.SignerSizes Proofs.SignerSizes.
Local Open Scope N_scope.

(* Data: one element of Type 6 with exact lengths (tlv = shortest-form T and L around the value), and the
   decoder returns name, MetaInfo, content, SignatureInfo and the signature that was written *)
Theorem C01_data_roundtrip sign d m :
  make_data sign d = Ok m ->
  N.of_nat (length (m_wire m)) < two64 ->
  (forall sv, data_fits d sv) ->
  exists sv, dec_data (m_wire m) = Ok (data_values d sv) /\
             (match d_sig d with Some _ => sv = Some (sign (m_sig_covered m)) | None => sv = None end).
Proof. exact (make_data_roundtrip sign d m). Qed.
Print Assumptions C01_data_roundtrip.

(* Interest: likewise; the name that comes back is the final name *)
Theorem C01_interest_roundtrip sha sign i m :
  make_interest sha sign i = Ok m ->
  N.of_nat (length (m_wire m)) < two64 ->
  (forall sv, interest_fits i (m_final_name m) sv) ->
  exists sv, dec_interest (m_wire m) = Ok (interest_values i (m_final_name m) sv) /\
             (match i_sig i with Some _ => sv = Some (sign (m_sig_covered m)) | None => sv = None end).
Proof. exact (make_interest_roundtrip sha sign i m). Qed.
Print Assumptions C01_interest_roundtrip.

(* the final name is the given name, plus the parameters-digest component exactly when ApplicationParameters
   or a signer are present (appended, or put in the place of an existing ParametersSha256 component) *)
Theorem C01_final_name sha sign i m :
  make_interest sha sign i = Ok m ->
  match eff_app i with
  | None => m_final_name m = i_name i
  | Some _ =>
      m_final_name m = i_name i ++ [digest_comp (sha (m_digest_covered m))] \/
      exists p, m_final_name m = set_nth (i_name i) p (digest_comp (sha (m_digest_covered m)))
  end.
Proof. exact (make_interest_final_name sha sign i m). Qed.
Print Assumptions C01_final_name.

(* the wire is tlv T body: T and the Length of the whole packet in shortest form, Length exact *)
Theorem C01_outer_element sign d m :
  make_data sign d = Ok m ->
  exists body sv, m_wire m = tlv TYPE_DATA body /\
    encode_model (depth_of Generated.Schemas.ndn_format_0_3_DataPacketValue)
                 Generated.Schemas.ndn_format_0_3_DataPacketValue (data_values d sv) = Ok body /\
    (match d_sig d with Some _ => sv = Some (sign (m_sig_covered m)) | None => sv = None end).
Proof. exact (make_data_body sign d m). Qed.

(* post-signing length repair: for every payload size and every number of unused trailing signature bytes,
   the in-place patching of tlv_var.shrink_length yields the canonical encoding of the shorter packet
   (crossing the 253 / 65536 length-encoding boundaries included) *)
Theorem C01_shrink t p pad :
  t < two64 -> N.of_nat (length (p ++ pad)) < two64 ->
  shrink_length (tlv t (p ++ pad)) (length pad) = Ok (tlv t p).
Proof. exact (shrink_length_correct t p pad). Qed.
Print Assumptions C01_shrink.

(* a signature longer than 252 bytes must fill its reserved space exactly *)
Theorem C01_shrink_rejected reserved sv :
  253 <= reserved -> N.of_nat (length sv) <> reserved -> check_sig_len reserved sv = Err EValue.
Proof. exact (check_sig_len_rejected reserved sv). Qed.

(* non-vacuity: a digest-signed Interest /a with parameters "x"; constant functions stand for the primitives *)
Example C01_example :
  let i := {| i_name := [comp_enc 8 [97]]; i_cbp := true; i_mbf := false; i_hint := []; i_nonce := Some 7;
              i_life := Some 4000; i_hop := None; i_app := Some [120];
              i_sig := Some {| si_info := VModel [VUint 0; VNone; VNone; VNone; VNone]; si_reserved := 32 |} |} in
  exists m, make_interest (fun _ => repeat 1 32) (fun _ => repeat 2 32) i = Ok m /\
            length (m_final_name m) = 2%nat /\ is_ok (dec_interest (m_wire m)) = true.
Proof. eexists. vm_compute. repeat split; reflexivity. Qed.

(* T2 tie: the shrink_length translated from the source on this run yields the canonical shorter element *)
Theorem C01_tie_shrink t p pad :
  t < two64 -> N.of_nat (length (p ++ pad)) < two64 -> (0 < length pad)%nat -> wf_bytes (p ++ pad) ->
  Generated.TlvVarGen.shrink_length (tlv t (p ++ pad)) (Z.of_nat (length pad)) = Ok (tlv t p).
Proof. exact (Proofs.ShrinkBridge.gen_shrink_eq t p pad). Qed.
Print Assumptions C01_tie_shrink.

(* "for all shipped signers": the size contract of the one signer whose signature length varies.  What
   Sha256WithEcdsaSigner reserves (arithmetic on the curve size, translated from the source on this run) bounds the
   length of the DER encoding SEQUENCE { INTEGER r, INTEGER s } for every r, s below 2^bits, on every prime curve a key
   can be on -- so the signer never writes past the reserved space, and the post-signing rule of the encoder accepts
   what it wrote (the round-trip theorems above then apply with the shorter signature). *)
Theorem C01_ecdsa_signature_fits b r s :
  In b ecdsa_curve_bits -> r < 2 ^ b -> s < 2 ^ b ->
  der_sig_len r s <= Generated.SignerSizes.ecdsa_reserved b.
Proof. exact (ecdsa_signature_fits b r s). Qed.
Print Assumptions C01_ecdsa_signature_fits.

Theorem C01_ecdsa_signature_accepted b r s sv :
  In b ecdsa_curve_bits -> r < 2 ^ b -> s < 2 ^ b ->
  N.of_nat (length sv) = der_sig_len r s ->
  check_sig_len (Generated.SignerSizes.ecdsa_reserved b) sv = Ok tt.
Proof. exact (ecdsa_signature_accepted b r s sv). Qed.
Print Assumptions C01_ecdsa_signature_accepted.

(* non-vacuity and tightness: a 139-octet signature exists on P-521, where 140 octets are reserved *)
Example C01_ecdsa_p521_tight :
  (exists r s, r < 2 ^ 521 /\ s < 2 ^ 521 /\ der_sig_len r s = 139) /\ Generated.SignerSizes.ecdsa_reserved 521 = 140.
Proof. split; [exact ecdsa_p521_tight | vm_compute; reflexivity]. Qed.
