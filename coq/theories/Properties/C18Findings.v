(* C18 — statements that were FALSE on sync.py before the `fix:` commits of branch fix/C18.
   The original behaviour is kept here as a second model ([step_v0]); each witness below was replayed on
   the unfixed implementation (docs/C18.md, harness/props/c18.py corpus) and no longer reproduces on the
   fixed one, whose model (Model/Svs.v) satisfies the full statements (Properties/C18.v).

   F1  aggregate() took max(local_sv[id], seq) instead of max(agg_sv[id], seq).
   F2  an entry without SeqNo made the merge loop raise TypeError half-way (no callback).
   F3  formatting a node name for logger.debug raised ValueError half-way through the merge loop for a
       name the lenient decoder had accepted (no callback).  [printable] says whether Name.to_str works. *)
From NDN Require Import Base.Prelude Model.Svs Spec.SvsSpec Proofs.SvsSpecFacts Proofs.SvsProofs.
Local Open Scope N_scope.

Section V0.
  Variable printable : node_id -> bool.

  Definition osv := list (node_id * option N).

  Inductive rsv0 := R0Return | R0Raise | R0Dict (d : osv).
  Fixpoint build_rsv_v0 (self : node_id) (sseq : N) (es : list wire_entry) (acc : osv) : rsv0 :=
    match es with
    | [] => R0Dict acc
    | (None, _) :: r => build_rsv_v0 self sseq r acc
    | (Some id, q) :: r =>
        if bytes_eqb id self then
          match q with
          | None => R0Raise                                   (* None > self_seq : TypeError *)
          | Some q' => if sseq <? q' then R0Return else build_rsv_v0 self sseq r (al_set bytes_eqb acc id q)
          end
        else build_rsv_v0 self sseq r (al_set bytes_eqb acc id q)
    end.

  (* (local_sv, need_notif, need_fetch, raised) *)
  Fixpoint merge_loop_v0 (rsv : osv) (loc : sv) (notif fetch : bool) : sv * bool * bool * bool :=
    match rsv with
    | [] => (loc, notif, fetch, false)
    | (id, None) :: _ => (loc, notif, fetch, true)            (* lsv_seq < None : TypeError *)
    | (id, Some q) :: r =>
        let l := sv_get loc id in
        if l <? q then
          if printable id then merge_loop_v0 r (sv_set loc id q) notif true
          else (sv_set loc id q, notif, true, true)           (* logger.debug(..., Name.to_str(id), ...) *)
        else if q <? l then
          if printable id then merge_loop_v0 r loc true fetch else (loc, true, fetch, true)
        else merge_loop_v0 r loc notif fetch
    end.

  Fixpoint aggregate_v0 (rsv : osv) (loc ag : sv) : sv :=
    match rsv with
    | [] => ag
    | (id, Some q) :: r => aggregate_v0 r loc (sv_set ag id (N.max (sv_get loc id) q))
    | (id, None) :: r => aggregate_v0 r loc ag                (* unreachable: the merge loop raised *)
    end.

  Definition strip (d : osv) : sv :=
    flat_map (fun p => match snd p with Some q => [(fst p, q)] | None => [] end) d.
  Definition has_new_key_v0 (rsv : osv) (loc : sv) : bool := existsb (fun p => negb (sv_mem loc (fst p))) rsv.

  Definition raising (s : st) : st * out :=
    (s, {| o_cb := false; o_emit := None; o_raise := true; o_tag := 20 |}).

  Definition handle_vector_v0 (c : cfg) (s : st) (now r : N) (es : list wire_entry) : st * out :=
    match es with
    | [] => (s, quiet 2)
    | _ =>
      match build_rsv_v0 (c_self c) (self_seq s) es [] with
      | R0Return => (s, quiet 3)
      | R0Raise => raising s
      | R0Dict rsv =>
          let '(loc, notif, fetch, raised) :=
            merge_loop_v0 rsv (local s) (has_new_key_v0 rsv (local s)) false in
          if raised then
            raising {| local := loc; agg := agg s; mode := mode s; self_seq := self_seq s;
                       next_timing := next_timing s |}
          else
          let s' :=
            match notif, mode s with
            | _, Suppression =>
                {| local := loc; agg := aggregate_v0 rsv loc (agg s); mode := Suppression;
                   self_seq := self_seq s; next_timing := next_timing s |}
            | true, Steady =>
                {| local := loc; agg := strip rsv; mode := Suppression;
                   self_seq := self_seq s; next_timing := now + sample_sup_timer c r |}
            | false, Steady =>
                {| local := loc; agg := agg s; mode := Steady;
                   self_seq := self_seq s; next_timing := now + sample_sync_timer c r |}
            end in
          (s', {| o_cb := fetch; o_emit := None; o_raise := false; o_tag := 21 |})
      end
    end.

  Definition step_v0 (c : cfg) (s : st) (e : event) : st * out :=
    match e with
    | ERecv now r (RVec es) => handle_vector_v0 c s now r es
    | _ => step c s e
    end.

  Definition run_v0 (c : cfg) (s : st) (h : list event) : st := fold_left (fun s e => fst (step_v0 c s e)) h s.

  Definition observe_v0 (c : cfg) (s : st) (e : event) : obs :=
    (match e with
     | ERecv _ _ (RVec es) => if acceptedb (c_self c) (self_seq s) es then Some (denote es) else None
     | _ => None
     end,
     in_suppression (fst (step_v0 c s e))).
  Fixpoint trace_v0 (c : cfg) (s : st) (h : list event) : list obs :=
    match h with
    | [] => []
    | e :: h' => observe_v0 c s e :: trace_v0 c (fst (step_v0 c s e)) h'
    end.
End V0.

Definition me : node_id := [7; 4; 8; 2; 109; 101].      (* /me *)
Definition na : node_id := [7; 4; 8; 2; 110; 48].       (* /n0 *)
Definition nb : node_id := [7; 4; 8; 2; 110; 49].       (* /n1 *)
Definition cfg0 : cfg := {| c_self := me; c_sync_interval := 7864320; c_sup_interval := 65536 |}.
Definition all_printable (_ : node_id) := true.

(* F1.  local = {me:3, a:5, b:7}.  An outdated vector (a:2) opens a suppression period, a second vector
   (a:3) is still outdated: the merge of what was heard says a:3 < 5, so a sync Interest is needed at the
   expiry of the period -- the original code emits nothing. *)
Definition h_f1 : list event :=
  [ EClock 262144000 0;                                                       (* first timer expiry *)
    ERecv 262144000 0 (RVec [(Some na, Some 5); (Some nb, Some 7)]);
    EClock 262176768 0;                                                       (* expiry of that period *)
    ERecv 262406144 0 (RVec [(Some na, Some 2); (Some nb, Some 7); (Some me, Some 3)]);
    ERecv 262406144 0 (RVec [(Some na, Some 3); (Some nb, Some 7); (Some me, Some 3)]) ].

Theorem C18_suppression_iff_v0_refuted :
  exists c s0 h,
    wf c s0 /\ mode s0 = Steady /\
    let s := run_v0 all_printable c s0 h in
    mode s = Suppression /\
    exists hd, heard (trace_v0 all_printable c s0 h) = Some hd /\
      newer (local s) hd /\
      o_emit (snd (step_v0 all_printable c s (EClock (next_timing s) 0))) = None.
Proof.
  exists cfg0, (init cfg0 3 0), h_f1. split; [apply wf_init|]. split; [reflexivity|].
  split; [vm_compute; reflexivity|]. eexists. split; [vm_compute; reflexivity|].
  split; [exists na; vm_compute; reflexivity|vm_compute; reflexivity].
Qed.

(* the same history on the fixed model does emit *)
Example C18_suppression_fixed_on_witness :
  let s := run cfg0 (init cfg0 3 0) h_f1 in
  o_emit (snd (step cfg0 s (EClock (next_timing s) 0))) = Some (local s).
Proof. vm_compute. reflexivity. Qed.

(* F2.  a:9 raises the entry of a, then b has no SeqNo: TypeError, no callback although an entry was raised *)
Theorem C18_missing_iff_raised_v0_refuted_noseq :
  exists c s now r es,
    let '(s', o) := step_v0 all_printable c s (ERecv now r (RVec es)) in
    (exists k, vget (local s) k < vget (local s') k) /\ o_cb o = false.
Proof.
  exists cfg0, (init cfg0 3 0), 0, 0, [(Some na, Some 9); (Some nb, None)].
  vm_compute. split; [exists na; reflexivity|reflexivity].
Qed.

(* F3.  the same with a node name that Name.to_str cannot format *)
Definition bad : node_id := [7; 7; 253; 2; 110; 49; 204; 1; 12].
Theorem C18_missing_iff_raised_v0_refuted_unprintable :
  exists c s now r es,
    let '(s', o) := step_v0 (fun i => negb (bytes_eqb i bad)) c s (ERecv now r (RVec es)) in
    (exists k, vget (local s) k < vget (local s') k) /\ o_cb o = false.
Proof.
  exists cfg0, (init cfg0 3 0), 0, 0, [(Some bad, Some 12); (Some na, Some 4)].
  vm_compute. split; [exists bad; reflexivity|reflexivity].
Qed.

(* and the merge is then not the entry-wise maximum either: the entries after the failing one are lost *)
Theorem C18_merge_v0_refuted :
  exists c s now r es k,
    accepted (c_self c) (self_seq s) es /\
    vget (local (fst (step_v0 (fun i => negb (bytes_eqb i bad)) c s (ERecv now r (RVec es))))) k
      <> N.max (vget (local s) k) (vget (denote es) k).
Proof.
  exists cfg0, (init cfg0 3 0), 0, 0, [(Some bad, Some 12); (Some na, Some 4)], na.
  split; [apply acceptedb_spec; reflexivity|]. vm_compute. discriminate.
Qed.
