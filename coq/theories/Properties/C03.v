(* C03 — every expressed Interest completes exactly once with the right outcome.
   Only statements, [exact]s, Print Assumptions and non-vacuity Examples live here.
   Model: Model/ExpressPipeline.v (both front-ends, library as repaired on fix/C03).  Spec: Spec/ExpressSpec.v. *)
From NDN Require Import Base.Prelude Spec.ExpressSpec Model.ExpressPipeline.
From NDN Require Import Proofs.ExpressSafety Proofs.ExpressInv Proofs.ExpressRefine Proofs.ExpressMain.
Local Open Scope N_scope.

(* never an internal error — for EVERY event history (well-formed or not), both front-ends: no exception escapes the
   packet pipeline (InvalidStateError from a future, KeyError from the PIT) and no awaitable finishes with one *)
Theorem C03_no_internal_error (fe : frontend) (h : list (tie * ev)) :
  errs (run_hist fe h) = [] /\ forall i e t, ~ In (i, OErr e, t) (log (run_hist fe h)).
Proof. exact (no_internal_error fe h). Qed.
Print Assumptions C03_no_internal_error.

(* at most once — for every history: no Interest id occurs twice in the completion log *)
Theorem C03_at_most_once (fe : frontend) (h : list (tie * ev)) :
  NoDup (map lkey (log (run_hist fe h))).
Proof. exact (at_most_once fe h). Qed.
Print Assumptions C03_at_most_once.

(* refinement: after any well-formed history (any interleaving, any tie linearisation) the operational state of every
   Interest abstracts to the state of its specification automaton *)
Theorem C03_refinement (fe : frontend) (h : list (tie * ev)) (i : N) :
  wf_history h -> abs (run_hist fe h) i = spec_state fe h i.
Proof. exact (refinement fe h i). Qed.
Print Assumptions C03_refinement.

(* the right outcome: what the awaitable of Interest i completed with (None = still pending) is what the specification
   says: first of matching Data + verdict / Nack / deadline / Cancel / Shutdown *)
Theorem C03_outcome (fe : frontend) (h : list (tie * ev)) (i : N) :
  wf_history h -> completion (run_hist fe h) i = outcome_of fe h i.
Proof. exact (outcome_correct fe h i). Qed.
Print Assumptions C03_outcome.

(* one Data satisfies all matching pending Interests and no others *)
Theorem C03_one_data_all_matching (fe : frontend) (h : list (tie * ev)) (m : tie) (d : N) (n : name) (hs t i : N) :
  wf_history (h ++ [(m, Data d n hs t)]) ->
  abs (run_hist fe (h ++ [(m, Data d n hs t)])) i =
  let st := expire fe (match m with NoTie => false | _ => true end) t (spec_state fe h i) in
  expire fe false t
    match st with
    | IPending r =>
        if matches r n hs && (t <? s_D r)
        then match s_vm r with VImm v => IDone (verdict_outcome fe d v) | VDef => IValidating r d end
        else st
    | _ => st
    end.
Proof. exact (one_data_all_matching fe h m d n hs t i). Qed.
Print Assumptions C03_one_data_all_matching.

(* nothing left: the PIT holds exactly the Interests still Pending in the specification, once each; one non-empty node
   per name that has a pending Interest — so a finished Interest has no entry through which later packets or timers
   could act *)
Theorem C03_nothing_left (fe : frontend) (h : list (tie * ev)) :
  wf_history h ->
  (forall i, In i (pit_entries (run_hist fe h)) <-> exists sp, spec_state fe h i = IPending sp) /\
  NoDup (map fst (pit (run_hist fe h))) /\
  NoDup (pit_entries (run_hist fe h)) /\
  (forall n, In n (map fst (pit (run_hist fe h))) <-> exists i sp, spec_state fe h i = IPending sp /\ s_name sp = n).
Proof. exact (nothing_left fe h). Qed.
Print Assumptions C03_nothing_left.

(* non-vacuity: a well-formed history with two Interests on one name (one CanBePrefix, validators of both kinds),
   a Data for a longer name in the same loop turn as nothing, a Data exactly at a deadline linearised between the timer
   and the waiter, a late verdict; the specification gives three different outcomes *)
Definition ex_history : list (tie * ev) :=
  [ (NoTie, Express 0 [0] false None 100 VDef 0); (NoTie, Await 0 0);
    (NoTie, Express 1 [0] true None 200 (VImm 3) 0); (NoTie, Await 1 0);
    (NoTie, Express 2 [0; 1] false (Some 7) 300 VDef 10); (NoTie, Await 2 10);
    (EvFirst, Data 7 [0; 1] 7 50);
    (Mid, Data 8 [0] 8 100);
    (NoTie, VDone 2 0 120);
    (NoTie, Cancel 1 130) ].
Example C03_example :
  wf_history ex_history /\
  outcome_of V2 ex_history 0 = Some OTimeout /\
  outcome_of V2 ex_history 1 = Some (OGot 7) /\
  outcome_of V2 ex_history 2 = Some (OInvalid 7 0) /\
  completion (run_hist V2 ex_history) 1 = Some (OGot 7) /\
  pit_entries (run_hist V1 ex_history) = [].
Proof.
  split; [cbn; repeat split; try lia; intros H; repeat (destruct H as [H|H]; try discriminate H); contradiction|].
  repeat split; vm_compute; reflexivity.
Qed.
