(* C08 — TLV models encode to exact, minimal TLV and decode back to equal values.
   Only statements, [exact]s and Print Assumptions live here. *)
From NDN Require Import Base.Prelude Base.Utf8 Model.TlvVar Model.Name Model.Tlv Spec.TlvWf.
From NDN Require Import Proofs.TlvVarProofs Proofs.TlvVarBridge Proofs.TlvSplit Proofs.TlvAssign
  Proofs.TlvRoundtrip Proofs.TlvRoundtrip2 Proofs.TlvMore.
From NDN Require Import Model.TlvCollect Spec.TlvCollectSpec Proofs.TlvCollectProofs.
From NDN Require Generated.Schemas.
Local Open Scope N_scope.

(* the size announced by the first pass is the size produced by the second, for every model and value *)
Theorem C08_length_announced d fs vs w :
  encode_model d fs vs = Ok w -> encoded_length_model d fs vs = Ok (N.of_nat (length w)).
Proof. exact (encoded_length_exact d fs vs w). Qed.
Print Assumptions C08_length_announced.

(* the output is a sequence of well-formed elements, written with shortest-form Type/Length
   ([ser_els] uses [tl_enc]), and splitting it returns exactly those elements *)
Theorem C08_wellformed d fs vs w :
  wf_fields fs -> Forall2 (fun f v => fits (snd f) v) fs vs ->
  encode_model d fs vs = Ok w -> N.of_nat (length w) < two64 ->
  exists els, w = ser_els els /\ Forall el_ok els /\ split_wire w = Ok els.
Proof. exact (encode_wellformed d fs vs w). Qed.
Print Assumptions C08_wellformed.

(* [tl_enc] is the shortest form: any byte string that decodes to v is at least as long *)
Theorem C08_shortest_form w v n :
  wf_bytes w -> tl_dec w = Ok (v, n) ->
  (n <= length w)%nat /\ v < two64 /\ (tl_size v <= n)%nat /\ (1 <= n)%nat.
Proof. exact (tl_dec_inv w v n). Qed.
Theorem C08_shortest_form_len v : length (tl_enc v) = tl_size v.
Proof. exact (tl_enc_length v). Qed.

(* integers: smallest legal width unless fixed *)
Theorem C08_minimal_int d t n w :
  t < two64 -> enc_val (S d) t (KUint None) (VUint n) = Ok w ->
  w = tlv t (nni_enc n) /\
  forall k, (k = 1 \/ k = 2 \/ k = 4 \/ k = 8)%nat -> n < 256 ^ N.of_nat k -> (nni_width n <= k)%nat.
Proof. exact (enc_uint_minimal d t n w). Qed.
Print Assumptions C08_minimal_int.

(* decoding the encoding yields the same values: any nesting of integer, boolean, byte-string, text,
   name, sub-model, repeated and map fields, any number of fields, any sizes *)
Theorem C08_roundtrip d fs ic vs w :
  wf_fields fs -> Forall2 (fun f v => fits (snd f) v) fs vs ->
  encode_model d fs vs = Ok w -> N.of_nat (length w) < two64 ->
  parse_model d fs ic w = Ok vs.
Proof. exact (parse_encode_roundtrip d fs ic vs w). Qed.
Print Assumptions C08_roundtrip.

(* unrecognised non-critical elements are ignored wherever they are inserted (any level: the theorem is
   about the scan of one level, and every nested model is scanned by the same function) *)
Theorem C08_ignores_noncritical pv fs ic e0 :
  ~ In (e_type e0) (level_types fs) -> N.odd (e_type e0) = false ->
  forall a b st pos acc, st_ok fs st ->
  assign_with pv fs ic st pos (a ++ e0 :: b) acc = assign_with pv fs ic st pos (a ++ b) acc.
Proof. exact (assign_ignores_noncritical pv fs ic e0). Qed.
Print Assumptions C08_ignores_noncritical.

(* unrecognised critical elements are rejected; so are recognised critical ones that come again or out
   of order (after the scan position has passed every field of that Type) *)
Theorem C08_rejects_critical pv fs e0 :
  ~ In (e_type e0) (level_types fs) -> N.odd (e_type e0) = true ->
  forall a b st pos acc, st_ok fs st ->
  is_ok (assign_with pv fs false st pos (a ++ e0 :: b) acc) = false.
Proof. exact (assign_rejects_critical pv fs e0). Qed.
Print Assumptions C08_rejects_critical.

Theorem C08_rejects_out_of_order pv fs pos e r acc :
  N.odd (e_type e) = true ->
  (forall j k, nth_error fs j = Some (e_type e, k) -> (j < pos)%nat) ->
  assign_with pv fs false PNormal pos (e :: r) acc = Err EDecode.
Proof. exact (assign_rejects_out_of_order pv fs pos e r acc). Qed.
Print Assumptions C08_rejects_out_of_order.

(* T1 tie: every TlvModel class shipped with the library (reflected from the source on this run) is a
   well-formed descriptor, so the theorems above apply to it *)
Theorem C08_shipped_models_wf : Forall wf_fields Generated.Schemas.all_schemas.
Proof.
  exact (proj2 (Forall_forall _ _)
           (fun fs H => wf_fieldsb_spec fs (proj1 (forallb_forall _ _) Generated.Schemas.all_schemas_wf fs H))).
Qed.
Print Assumptions C08_shipped_models_wf.

(* T2 tie *)
Theorem C08_tie_write_tl_num (v : N) buf (off : nat) :
  (v < two64)%N -> (off + tl_size v <= length buf)%nat ->
  Generated.TlvVarGen.write_tl_num (Z.of_N v) buf (Z.of_nat off)
  = Ok (Z.of_nat (tl_size v), splice buf off (tl_enc v)).
Proof. exact (gen_write_eq v buf off). Qed.

(* "declared field order" under derivation (TlvModelMeta: IncludeBase, overriding): the collected field list of a
   class is what one gets by pasting the body of every included base (recursively) at the place of its
   IncludeBase and then keeping every name once -- at the place of its first declaration, with the field of its
   last declaration.  So no name is encoded twice, no declared name is lost, an override never moves a field,
   and nothing but this list meets the description. *)
Theorem C08_collect_is_pasting {A} (b : body A) : collect b = put_all (pasted b) [].
Proof. exact (collect_is_pasting b). Qed.
Print Assumptions C08_collect_is_pasting.

Theorem C08_collect_declared_order {A} (b : body A) :
  map fst (collect b) = firsts (map fst (pasted b)) /\
  forall n, al_get N.eqb (collect b) n = last_def n (pasted b).
Proof. exact (collect_meets_spec b). Qed.
Print Assumptions C08_collect_declared_order.

Theorem C08_collect_names_distinct {A} (b : body A) : NoDup (map fst (collect b)).
Proof. exact (collect_names_distinct b). Qed.
Print Assumptions C08_collect_names_distinct.

Theorem C08_collect_names_complete {A} (b : body A) n :
  In n (map fst (collect b)) <-> In n (map fst (pasted b)).
Proof. exact (collect_names_complete b n). Qed.
Print Assumptions C08_collect_names_complete.

Theorem C08_collect_unique {A} (l got1 got2 : list (N * A)) :
  collected_ok l got1 -> collected_ok l got2 -> got1 = got2.
Proof. exact (collected_ok_unique l got1 got2). Qed.
Print Assumptions C08_collect_unique.

(* non-vacuity (the diamond of the documentation, plus an override after the includes):
   A = [m1]; B1(A) = [A; m1:=2; m4]; B2(A) = [A; m1:=3; m5]; D(B1,B2) = [B2; B1; m5:=6]  ->  m1:=2, m5:=6, m4 *)
Example C08_collect_example :
  let a := BOwn 1 1 BNil in
  let b1 := BIncl a (BOwn 1 2 (BOwn 4 4 BNil)) in
  let b2 := BIncl a (BOwn 1 3 (BOwn 5 5 BNil)) in
  collect (BIncl b2 (BIncl b1 (BOwn 5 6 BNil))) = [(1, 2); (5, 6); (4, 4)].
Proof. vm_compute. reflexivity. Qed.

(* non-vacuity: a nested model with a repeated sub-model, a map and a text field *)
Example C08_example :
  let inner := [(1, KUint None); (7, KName)] in
  let fs := [(129, KRepeated (KModel inner false)); (133, KMap (KBytes true) 135 (KUint (Some 2))); (253, KBool)] in
  let vs := [VList [VModel [VUint 300; VNone]; VModel [VNone; VName [comp_enc 8 [97]]]];
             VMap [(VBytes [107], VUint 5); (VBytes [195; 182], VUint 65535)]; VTrue] in
  wf_fieldsb fs = true /\
  exists w, encode_model 4 fs vs = Ok w /\ parse_model 4 fs false w = Ok vs /\ length w = 32%nat.
Proof. split; [vm_compute; reflexivity|]. eexists. vm_compute. repeat split; reflexivity. Qed.
