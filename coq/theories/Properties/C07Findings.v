(* C07 — statements that are false on the faithful model, with witnesses (replayed on the implementation
   by harness/props/c07.py; recorded in known_findings.json as C07-overrun-...). *)
From NDN Require Import Base.Prelude Model.TlvVar Model.Name Model.Tlv Model.Packet Spec.StrictTlv.
Local Open Scope N_scope.

(* "accept only if every nested element lies entirely inside its parent": Content declares 10 bytes, 1 is there *)
Theorem C07_containment_refuted_data :
  exists w vs, dec_data w = Ok vs /\ strict_data w = Err EIndex.
Proof. exists [6; 5; 7; 0; 21; 10; 97]. eexists. vm_compute. split; reflexivity. Qed.

Theorem C07_containment_refuted_interest :
  exists w vs, dec_interest w = Ok vs /\ strict_interest w = Err EIndex.
Proof. exists [5; 5; 7; 0; 36; 10; 97]. eexists. vm_compute. split; reflexivity. Qed.

Theorem C07_containment_refuted_lp :
  exists w vs, dec_lp w = Ok vs /\ strict_lp w = Err EIndex.
Proof. exists [100; 3; 80; 10; 97]. eexists. vm_compute. split; reflexivity. Qed.
