(* C14 — statements that are FALSE on the faithful model, with witnesses (replayed on the real code by
   harness/props/c14.py: gen_loops, gen_histories '9a-witness'). *)
From NDN Require Import Base.Prelude Model.Validator Spec.ChainSpec.
From NDN Require Import Proofs.ValidatorProofs Proofs.ValidatorHistory Proofs.ValidatorExamples.

(* KNOWN (DESIGN 9c, known_findings.d/C14.json C14-loop-no-verdict):
   "the validator always answers" is false — a certificate that names itself (or a cycle of certificates)
   and is admitted by the signing check makes validate() fetch forever; the packet has no chain, so the
   specification demands a rejection, but no verdict is ever produced. *)
Theorem C14_always_answers_refuted :
  exists w c p, ~ Chain w (trust_of c) p /\ forall fuel, fst (fst (validate w c fuel [] p)) = Err EFuel.
Proof. exact (ex_intro _ ex_world (ex_intro _ cfg1 (ex_intro _ PL (conj ex_no_chain_PL loop_leaf_never_answers)))). Qed.
Print Assumptions C14_always_answers_refuted.

(* FIXED (DESIGN 9a, commit "fix: give every CascadeChecker / lvs_validator its own default key storage"):
   on the model of the code BEFORE the fix ([legacy = true]: the default `storage` argument is one object
   shared by all instances) history independence is false: validator 1 (anchor A2) rejects P, validator 0
   (anchor A1) accepts it, then validator 1 accepts the same P — without a chain to A2 and without
   sending a single Interest. *)
Theorem C14_history_independent_legacy_refuted :
  exists w ops p c2,
    (forall o, In o ops -> match o with ONewLvs _ _ (SGiven _) | ONewCascade _ (SGiven _) => False | _ => True end) /\
    ~ Chain w (trust_of c2) p /\
    exists c1, snd (run_history true w 5 init_state
                      ([ONewLvs ex_schema (Ok A1) SDefault; ONewLvs ex_schema (Ok A2) SDefault] ++ ops)) =
               [ BNew (Ok 0%nat); BNew (Ok 1%nat); BVal (Ok false) [nC; nA]; BVal (Ok true) [nC]; BVal (Ok true) [] ] /\
               lvs_init w ex_schema (Ok A1) = Ok c1 /\ lvs_init w ex_schema (Ok A2) = Ok c2 /\
               ops = [OValidate 1 p; OValidate 0 p; OValidate 1 p].
Proof.
  refine (ex_intro _ ex_world (ex_intro _ [OValidate 1 P; OValidate 0 P; OValidate 1 P] (ex_intro _ P (ex_intro _ cfg2
         (conj _ (conj ex_no_chain_P_anchor2 (ex_intro _ cfg1 (conj ex_history_legacy (conj ex_init1 (conj ex_init2 eq_refl)))))))))).
  intros o Ho. cbn in Ho. repeat (destruct Ho as [<-|Ho]; [exact I|]). contradiction.
Qed.
Print Assumptions C14_history_independent_legacy_refuted.

(* REMARK (not a violation of "accept <-> chain"): rejection is not always the boolean False — a packet whose
   signature type does not fit the key type of the certificate it names makes the key import raise ValueError,
   which escapes the validator (and every enclosing validation) instead of yielding False. *)
Theorem C14_remark_reject_by_exception :
  exists w c p, fst (fst (validate w c 3 [] p)) = Err EValue /\ ~ Chain w (trust_of c) p.
Proof.
  refine (ex_intro _ ex_world (ex_intro _ cfg1 (ex_intro _ Q (conj ex_reject_by_exception _)))).
  intros Hc. apply (chainb_spec ex_world (trust_of cfg1) 3 Q false) in Hc; [discriminate | vm_compute; reflexivity].
Qed.
Print Assumptions C14_remark_reject_by_exception.
