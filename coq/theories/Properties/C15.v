(* C15 — placeholder, theorems follow *)
From NDN Require Import Base.Prelude Model.Keychain Spec.KeychainSpec.
