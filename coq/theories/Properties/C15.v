(* C15 — Keychain contents, defaults and signers stay consistent over any history.
   Only statements, [exact]s and Print Assumptions live here.

   Model: Model/Keychain.v (KeychainSqlite3 + TpmFile, every effect a fault point).  Spec: Spec/KeychainSpec.v.
   A history is a list of (optional fault position, operation); [run h] is the state after it, started from
   the empty store; [wf_op] only asks that certificates are imported under their key (NDN naming). *)
From NDN Require Import Base.Prelude Model.Keychain Spec.KeychainSpec.
From NDN Require Import Proofs.KeychainTables Proofs.KeychainInv Proofs.KeychainOutcome Proofs.KeychainOutcomeB
  Proofs.KeychainInvariant Proofs.KeychainAbs Proofs.KeychainDefaults Proofs.KeychainCascade Proofs.KeychainRecovery
  Proofs.KeychainSchemaAgree Proofs.KeychainRefine Proofs.KeychainHistory.
Local Open Scope N_scope.

Definition wf_history (h : list (option nat * op)) : Prop := Forall (fun fo => wf_op (snd fo)) h.

(* ---- the state invariant, over all histories with any failures -------------------------------------------
   inv = tables well-formed (unique row ids and names, at most one default per scope, valid references,
   keys named under their identity and certificates under their key), no transaction left open, every
   private key belongs to a listed key with the matching public bits, cached signers are current. *)
Theorem C15_invariant h : wf_history h -> inv (run h).
Proof. exact (inv_run h). Qed.
Print Assumptions C15_invariant.

(* at most one default per scope, in each of the three tables *)
Theorem C15_at_most_one_default h (sel : tables -> rows) :
  wf_history h -> (sel = t_ids \/ sel = t_keys \/ sel = t_certs) ->
  forall a b, In a (sel (db (run h))) -> In b (sel (db (run h))) ->
              r_def a = true -> r_def b = true -> r_par a = r_par b -> a = b.
Proof. exact (one_default_run h sel). Qed.
Print Assumptions C15_at_most_one_default.

(* ---- views ----------------------------------------------------------------------------------------------- *)
(* iteration, len, membership and lookup of each Mapping agree, list no name twice, and a name is listed by
   one owner only *)
Theorem C15_views_consistent h :
  wf_history h ->
  let t := db (run h) in
  view_consistent 0 (t_ids t) /\
  (forall i, In i (t_ids t) -> view_consistent (r_id i) (t_keys t)) /\
  (forall k, In k (t_keys t) -> view_consistent (r_id k) (t_certs t)) /\
  (forall n p q, In n (v_iter p (t_keys t)) -> In n (v_iter q (t_keys t)) -> p = q) /\
  (forall n p q, In n (v_iter p (t_certs t)) -> In n (v_iter q (t_certs t)) -> p = q).
Proof. exact (views_consistent_run h). Qed.
Print Assumptions C15_views_consistent.

(* ... and they are the views of the specification's nested maps *)
Theorem C15_views_refine_spec c :
  let a := abs c in let t := db c in
  view_agrees (s_ids a) 0 (t_ids t) /\
  (forall i, In i (t_ids t) -> view_agrees (si_keys (abs_ident t i)) (r_id i) (t_keys t)) /\
  (forall k, In k (t_keys t) -> view_agrees (sk_certs (abs_key t k)) (r_id k) (t_certs t)).
Proof. exact (views_refine c). Qed.
Print Assumptions C15_views_refine_spec.

(* ---- defaults: a populated scope is without default only if its default was deleted ----------------------- *)
Theorem C15_defaults_step f o c :
  inv c ->
  let c' := step c (f, o) in
  def_step (t_ids (db c)) (t_ids (db c')) /\ def_step (t_keys (db c)) (t_keys (db c')) /\
  def_step (t_certs (db c)) (t_certs (db c')).
Proof. exact (defaults_step f o c). Qed.
Print Assumptions C15_defaults_step.

Theorem C15_defaults_history (sel : tables -> rows) h p :
  (sel = t_ids \/ sel = t_keys \/ sel = t_certs) -> wf_history h ->
  populated p (sel (db (run h))) -> scope_has_def p (sel (db (run h))) = false ->
  exists h1 fo h2, h = h1 ++ fo :: h2 /\ lost_default (sel (db (run h1))) (sel (db (run (h1 ++ [fo])))) p.
Proof. exact (defaults_history_all sel h p). Qed.
Print Assumptions C15_defaults_history.

(* ---- deletes cascade, including the private keys; nothing else goes ------------------------------------------ *)
Theorem C15_delete_key_cascades f kn c r c' :
  inv c -> run_op f (ODelKey kn) c = (Ok r, c') ->
  exists k, In k (t_keys (db c)) /\ r_name k = kn /\ key_gone c c' k /\
            t_ids (db c') = t_ids (db c) /\
            (forall k0, In k0 (t_keys (db c)) -> r_name k0 <> kn -> In k0 (t_keys (db c'))) /\
            (forall ce, In ce (t_certs (db c)) -> r_par ce <> r_id k -> In ce (t_certs (db c'))) /\
            (forall K, K <> kn -> al_get name_eqb (tpm c') K = al_get name_eqb (tpm c) K).
Proof. exact (del_key_cascade f kn c r c'). Qed.
Print Assumptions C15_delete_key_cascades.

Theorem C15_delete_identity_cascades f n c r c' :
  inv c -> run_op f (ODelIdentity n) c = (Ok r, c') ->
  exists i, In i (t_ids (db c)) /\ r_name i = n /\
            ~ In n (map r_name (t_ids (db c'))) /\
            (forall k, In k (t_keys (db c)) -> r_par k = r_id i -> key_gone c c' k) /\
            (forall i0, In i0 (t_ids (db c)) -> r_name i0 <> n -> In i0 (t_ids (db c'))) /\
            (forall k0, In k0 (t_keys (db c)) -> r_par k0 <> r_id i -> In k0 (t_keys (db c'))) /\
            (forall ce k0, In ce (t_certs (db c)) -> In k0 (t_keys (db c)) -> r_id k0 = r_par ce -> r_par k0 <> r_id i ->
                           In ce (t_certs (db c'))).
Proof. exact (del_identity_cascade f n c r c'). Qed.
Print Assumptions C15_delete_identity_cascades.

(* ---- model ⊑ spec, operation by operation: a run without injected failure changes the abstract state exactly
   as Spec.spec_step says and raises exactly when the specification refuses (get_signer: no change) -------------- *)
Theorem C15_step_refines_spec o c : inv c -> wf_op o -> refines o c (run_op None o c).
Proof. exact (step_refines o c). Qed.
Print Assumptions C15_step_refines_spec.

(* ... so a history without failures is a run of the specification from the empty keychain *)
Theorem C15_run_refines_spec ops :
  Forall wf_op ops -> abs (run (map (fun o => (None, o)) ops)) = spec_run ops.
Proof. exact (run_refines_spec ops). Qed.
Print Assumptions C15_run_refines_spec.

(* ---- signers --------------------------------------------------------------------------------------------------- *)
(* whatever get_signer returns (with or without a failure) is the signer the specification selects:
   private key of the selected key, locator = explicit key_locator or the selected / default certificate *)
Theorem C15_signer_refines_spec f a c g c' :
  inv c -> run_op f (OGetSigner a) c = (Ok (RSigner g), c') -> signer_of a (abs c) = Some g.
Proof. exact (get_signer_refines f a c g c'). Qed.
Print Assumptions C15_signer_refines_spec.

Theorem C15_signer_complete a c g :
  inv c -> signer_of a (abs c) = Some g -> fst (run_op None (OGetSigner a) c) = Ok (RSigner g).
Proof. exact (get_signer_complete a c g). Qed.
Print Assumptions C15_signer_complete.

(* the private key used is that of a key which is listed, under its identity, with the public bits of that
   private key *)
Theorem C15_signer_right_key a c m loc :
  inv c -> signer_of a (abs c) = Some (SgKey m loc) ->
  exists kn cn k, s_select a (abs c) = Some (kn, cn) /\ s_key (abs c) kn = Some k /\ sk_bits k = m /\
                  loc = match a_locator a with Some l => l | None => cn end.
Proof. exact (signer_key_listed a c m loc). Qed.
Print Assumptions C15_signer_right_key.

(* after a key has been deleted no signing arguments yield a signer for it (until it is created again) *)
Theorem C15_no_signer_for_deleted_key f kn c r c' f' a m loc c'' :
  inv c -> run_op f (ODelKey kn) c = (Ok r, c') ->
  run_op f' (OGetSigner a) c' = (Ok (RSigner (SgKey m loc)), c'') ->
  forall cn, s_select a (abs c') <> Some (kn, cn).
Proof. exact (no_signer_after_delete f kn c r c' f' a m loc c''). Qed.
Print Assumptions C15_no_signer_for_deleted_key.

(* ---- fault recovery: after an injected storage failure at any effect of any operation the invariant holds,
   and repeating the operation gives exactly the result and the state of a run that never failed ------------- *)
Theorem C15_fault_recovery k o c c1 :
  inv c -> wf_op o -> run_op (Some k) o c = (Err EFault, c1) ->
  inv c1 /\ run_op None o c1 = run_op None o c.
Proof. exact (fault_recovery k o c c1). Qed.
Print Assumptions C15_fault_recovery.

(* every result / final state an operation can have, with or without failure (the case analysis all the above
   rests on) *)
Theorem C15_outcomes f o c : inv c -> outs (f <> None) o c (run_op f o c).
Proof. exact (fun I => run_op_outs f o c (inv_clean c I) (inv_wf c I)). Qed.
Print Assumptions C15_outcomes.

(* ---- tie (T1): tables, unique indexes and the nine triggers of INITIALIZE_SQL, re-read from the source on
   every run, are the ones the model implements ------------------------------------------------------------------ *)
Theorem C15_tie_schema : Generated.KeychainSchema.schema = modelled_schema.
Proof. exact schema_agrees. Qed.

(* ---- non-vacuity: a history with two identities, a second key, an imported certificate, failures injected
   into new_key and del_key, a signer request and deletes; it is well-formed, ends in a populated store, and the
   failed del_key really failed and was recovered by its repeat ------------------------------------------------ *)
Example C15_example :
  let a := [10] in let b := [11] in
  let ka := a ++ [C_KEY; 2000] in let kb := a ++ [C_KEY; 2001] in
  let h := [ (None, OTouchIdentity a [2000] 1 100001);
             (None, OTouchIdentity b [2002] 2 100002);
             (Some 2%nat, ONewKey a 0 (KidRandom [2000; 2001]) 3 100003);
             (None, ONewKey a 0 (KidRandom [2000; 2001]) 3 100003);
             (None, OImportCert kb (kb ++ [100; 100004]) 7);
             (None, OSetDefaultKey a kb);
             (Some 1%nat, ODelKey ka);
             (None, ODelKey ka) ] in
  wf_history h /\
  fst (run_op (Some 1%nat) (ODelKey ka) (run (firstn 6 h))) = Err EFault /\
  v_iter 0 (t_ids (db (run h))) = [a; b] /\
  signer_of (mkArgs false false None None (Some a) None) (abs (run h)) = Some (SgKey 3 (kb ++ [C_SELF; 100003])) /\
  signer_of (mkArgs false false None (Some ka) None None) (abs (run h)) = None /\
  tpm (run h) = [(b ++ [C_KEY; 2002], 2); (kb, 3)].
Proof. cbn zeta. split; [repeat constructor; cbn; auto|]. vm_compute. repeat split; reflexivity. Qed.
