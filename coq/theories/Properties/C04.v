(* C04 — Incoming Interests reach exactly the handler of their longest attached prefix; duplicate
   attach refused; detach frame; reply only before the deadline and truthfully reported.
   Only statements, [exact]s and Print Assumptions live here.

   Vocabulary (Spec/DispatchSpec.v):  attached t p = the handler at prefix p of table t;
   is_lpm a n p h = "p |-> h is the longest occupied prefix of n";  wf_op = handlers are callables;
   exec fe st0 ops = the state after an arbitrary history of attach / detach / Interest / loop-turn /
   reply / disconnect events on front-end fe (appv2.NDNApp, app.NDNApp, Dispatcher). *)
From NDN Require Import Base.Prelude Base.Text Model.TlvVar Model.Name Model.Trie Model.Dispatch Spec.DispatchSpec.
From NDN Require Import Proofs.TrieProofs Proofs.DispatchProofs Proofs.DispatchHistory Proofs.DispatchTop
  Proofs.TrieInverse Proofs.ConstsAppAgree Proofs.ReplyBridge Proofs.NameUriName Proofs.NameNormalize.
From NDN Require Import Model.DispatchV1 Spec.DispatchV1Spec Proofs.DispatchV1.
From NDN Require Properties.C04Findings.
Local Open Scope N_scope.

(* after ANY history, an Interest named n selects handler h iff h sits at the longest attached prefix *)
Theorem C04_lpm fe ops n h :
  Forall wf_op ops ->
  let t := s_fib (exec fe st0 ops) in
  dispatch t n = Some h <-> exists p, is_lpm (attached t) n p h.
Proof. exact (top_lpm fe ops n h). Qed.
Print Assumptions C04_lpm.

(* ... and nobody iff no prefix of n is attached *)
Theorem C04_none fe ops n :
  Forall wf_op ops ->
  let t := s_fib (exec fe st0 ops) in
  dispatch t n = None <-> forall p, prefix p n -> attached t p = None.
Proof. exact (top_none fe ops n). Qed.
Print Assumptions C04_none.

(* the longest attached prefix and its handler are unique: "exactly one handler" *)
Theorem C04_exactly_one (a : name -> option N) n p h p' h' :
  is_lpm a n p h -> is_lpm a n p' h' -> p = p' /\ h = h'.
Proof. exact (is_lpm_unique a n p h p' h'). Qed.
Print Assumptions C04_exactly_one.

(* an incoming Interest produces one invocation of the selected handler with the Interest's name (queued
   for the next loop turn by the NDNApp front-ends, immediate in Dispatcher) and none otherwise *)
Theorem C04_recv fe ops n life now :
  Forall wf_op ops ->
  let s := exec fe st0 ops in
  let s' := fst (step fe s (ORecv n life now)) in
  let hit := match dispatch (s_fib s) n with
             | Some h => [mk_call h n (deadline_of fe life now)]
             | None => []
             end in
  s_fib s' = s_fib s /\
  match fe with
  | FE_Disp => s_calls s' = s_calls s ++ hit /\ s_pending s' = s_pending s
  | _ => s_pending s' = s_pending s ++ hit /\ s_calls s' = s_calls s
  end.
Proof. exact (top_recv fe ops n life now). Qed.
Print Assumptions C04_recv.

Theorem C04_settle fe s :
  let s' := fst (step fe s OSettle) in
  s_calls s' = s_calls s ++ s_pending s /\ s_pending s' = [] /\ s_fib s' = s_fib s.
Proof. exact (top_settle fe s). Qed.
Print Assumptions C04_settle.

(* attaching to an occupied prefix raises ValueError and leaves every attachment as it was *)
Theorem C04_duplicate_refused fe t k h0 h v ex :
  attached t k = Some h0 ->
  exists t', fib_attach fe t k h v ex = (t', Err EValue) /\ forall q, attached t' q = attached t q.
Proof. exact (top_duplicate_refused fe t k h0 h v ex). Qed.
Print Assumptions C04_duplicate_refused.

(* ... and leaves the whole node of every prefix as it was: the occupying handler keeps its validator and its options
   (need_raw_packet / need_sig_ptrs), whatever validator / options the refused call carried *)
Theorem C04_duplicate_refused_keeps_options fe t k h0 h v ex :
  attached t k = Some h0 ->
  exists t', fib_attach fe t k h v ex = (t', Err EValue) /\ forall q, t_get t' q = t_get t q.
Proof. exact (top_duplicate_refused_nodes fe t k h0 h v ex). Qed.
Print Assumptions C04_duplicate_refused_keeps_options.

(* attaching to a free prefix succeeds and changes that prefix only *)
Theorem C04_attach_frame fe t k h v ex :
  attached t k = None ->
  exists t', fib_attach fe t k h v ex = (t', Ok tt) /\ attached t' k = h /\
             forall q, q <> k -> attached t' q = attached t q.
Proof. exact (top_attach_frame fe t k h v ex). Qed.
Print Assumptions C04_attach_frame.

(* detach frees exactly that prefix: shorter, longer and unrelated prefixes keep their handlers *)
Theorem C04_detach_frame fe ops k h :
  Forall wf_op ops ->
  let t := s_fib (exec fe st0 ops) in
  attached t k = Some h ->
  exists t', fib_detach t k = (t', Ok tt) /\ attached t' k = None /\
             forall q, q <> k -> attached t' q = attached t q.
Proof. exact (top_detach_frame fe ops k h). Qed.
Print Assumptions C04_detach_frame.

Theorem C04_detach_absent fe ops k :
  Forall wf_op ops ->
  let t := s_fib (exec fe st0 ops) in
  attached t k = None -> fib_detach t k = (t, Err EKey).
Proof. exact (top_detach_absent fe ops k). Qed.
Print Assumptions C04_detach_absent.

(* attach followed by detach of a free prefix gives back the identical table (structure included) *)
Theorem C04_attach_detach_inverse fe ops k h v ex :
  Forall wf_op ops ->
  let t := s_fib (exec fe st0 ops) in
  attached t k = None ->
  fib_detach (fst (fib_attach fe t k h v ex)) k = (t, Ok tt).
Proof. exact (top_attach_detach_inverse fe ops k h v ex). Qed.
Print Assumptions C04_attach_detach_inverse.

(* after its detach a handler receives nothing, whatever happens next, until it is attached again
   (invocations already queued by earlier Interests excluded by the third hypothesis) *)
Theorem C04_detached_receives_nothing fe ops0 p h ops :
  Forall wf_op ops0 ->
  let s := exec fe st0 ops0 in
  attached (s_fib s) p = Some h -> (forall q, attached (s_fib s) q = Some h -> q = p) ->
  Forall (fun c => c_h c <> h) (s_pending s) ->
  Forall wf_op ops -> Forall (no_attach_of h) ops ->
  exists new, s_calls (exec fe s (ODetach p :: ops)) = s_calls s ++ new /\ Forall (fun c => c_h c <> h) new.
Proof. exact (top_detached_receives_nothing fe ops0 p h ops). Qed.
Print Assumptions C04_detached_receives_nothing.

(* whole histories: event by event the model shows the application what the specification machine
   (partial map prefix -> handler; longest occupied prefix; sent iff t <= deadline and the face is up,
   reported = sent -- a NetworkError out of reply() reads as "nothing sent, not reported as sent")
   prescribes; same invocations in the same order; same attachments at the end *)
Theorem C04_refines fe ops sops :
  sops_of fe ops = Some sops ->
  map abs_obs (snd (run_ops fe ops)) = map Some (snd (srun fe sops)) /\
  s_calls (fst (run_ops fe ops)) = ss_calls (fst (srun fe sops)) /\
  s_pending (fst (run_ops fe ops)) = ss_pending (fst (srun fe sops)) /\
  forall p, attached (s_fib (fst (run_ops fe ops))) p = ss_att (fst (srun fe sops)) p.
Proof. exact (top_refines fe ops sops). Qed.
Print Assumptions C04_refines.

(* the executable specification lookup is the relational one *)
Theorem C04_spec_lookup (a : amap) n :
  match s_lookup a n with
  | Some (p, h) => is_lpm a n p h
  | None => forall p, prefix p n -> a p = None
  end.
Proof. exact (lp_fun_spec a n). Qed.
Print Assumptions C04_spec_lookup.

(* reply: transmitted only while the lifetime has not elapsed (always then, when the face is up), and
   the return value is True exactly when it was transmitted, False otherwise — never None *)
Theorem C04_reply_truthful d t running sent r :
  reply_closure d t running = Ok (sent, r) ->
  (sent = true -> t <= d) /\ (running = true -> (sent = true <-> t <= d)) /\
  r = (if sent then RTrue else RFalse).
Proof. exact (top_reply_truthful d t running sent r). Qed.
Print Assumptions C04_reply_truthful.

(* ... whatever the state of the face when the handler calls reply (it may have gone down between the
   delivery of the Interest and the reply): transmitted iff inside the lifetime AND the face is up
   (the specification's s_reply_out); the return value is True exactly then; an exception is
   NetworkError and only when nothing was transmitted -- "sent" is never reported for a Data that
   did not go out *)
Theorem C04_reply_truthful_any_face d t running :
  match reply_closure d t running with
  | Ok (sent, r) => sent = s_reply_out d t running /\ r = (if sent then RTrue else RFalse)
  | Err e => e = E_NETWORK /\ s_reply_out d t running = false /\ running = false /\ t <= d
  end.
Proof. exact (top_reply_any_face d t running). Qed.
Print Assumptions C04_reply_truthful_any_face.

(* whatever representation names the prefix (encoded name, component list, canonical URI, list of
   component strings) attach and detach act on the same key — corollary of C09_normalize_agree *)
Theorem C04_repr_independent_attach fe t n h v ex :
  Forall uri_comp n -> N.of_nat (name_value_length n) < two64 ->
  fib_attach_ns fe t (NSWire (name_encode n)) h v ex = fib_attach fe t n h v ex /\
  fib_attach_ns fe t (NSList (map NCBytes n)) h v ex = fib_attach fe t n h v ex /\
  (forall u, name_to_canonical_uri n = Ok u -> fib_attach_ns fe t (NSStr u) h v ex = fib_attach fe t n h v ex) /\
  (forall ss, canon_strs n = Ok ss -> fib_attach_ns fe t (NSList (map NCStr ss)) h v ex = fib_attach fe t n h v ex).
Proof. exact (attach_repr_independent fe t n h v ex). Qed.
Print Assumptions C04_repr_independent_attach.

Theorem C04_repr_independent_detach t n :
  Forall uri_comp n -> N.of_nat (name_value_length n) < two64 ->
  fib_detach_ns t (NSWire (name_encode n)) = fib_detach t n /\
  fib_detach_ns t (NSList (map NCBytes n)) = fib_detach t n /\
  (forall u, name_to_canonical_uri n = Ok u -> fib_detach_ns t (NSStr u) = fib_detach t n) /\
  (forall ss, canon_strs n = Ok ss -> fib_detach_ns t (NSList (map NCStr ss)) = fib_detach t n).
Proof. exact (detach_repr_independent t n). Qed.
Print Assumptions C04_repr_independent_detach.

(* the table never keeps an empty node: what a detach frees is given back *)
Theorem C04_no_garbage fe ops : t_pruned (s_fib (exec fe st0 ops)) = true.
Proof. exact (top_no_garbage fe ops). Qed.
Print Assumptions C04_no_garbage.

(* pygtrie's longest_prefix as modelled (last step of prefixes) is the longest valued prefix *)
Theorem C04_trie_longest_prefix (t : trie pnode) n :
  match t_longest_prefix t n with
  | Some (p, v) => is_lpm (t_get t) n p v
  | None => forall p, prefix p n -> t_get t p = None
  end.
Proof. exact (eq_ind_r (fun o => match o with Some (p, v) => is_lpm (t_get t) n p v
                                   | None => forall p, prefix p n -> t_get t p = None end)
                (lp_fun_spec (t_get t) n) (t_longest_prefix_lp t n)). Qed.
Print Assumptions C04_trie_longest_prefix.

(* T1 tie re-established on this run *)
Theorem C04_tie_default_lifetime : Generated.ConstsApp.DEFAULT_LIFETIME = DEFAULT_LIFETIME.
Proof. exact default_lifetime_agree. Qed.

(* T2 tie re-established on this run: the reply closure and the deadline computation as translated from
   the source of appv2.NDNApp._on_interest are the model's *)
Theorem C04_tie_reply_closure d t r : Generated.ReplyGen.reply_gen d t r = reply_closure d t r.
Proof. exact (reply_gen_eq d t r). Qed.
Theorem C04_tie_deadline life now : Generated.ReplyGen.deadline_gen life now = deadline_of FE_V2 life now.
Proof. exact (deadline_gen_eq life now). Qed.

(* ---- the registration API of the legacy front-end (route / register / unregister: Model/DispatchV1.v) ------
   vexec fe st0 l = the state after ANY history l of the events above and of the table steps of
   register(k, h | None, ...) and unregister(k), in whatever order the loop ran them and whatever the forwarder
   answered (answers are not events: they never reach the table). *)
Theorem C04_v1_lpm fe l n h :
  Forall wf_vop l ->
  let t := s_fib (vexec fe st0 l) in
  dispatch t n = Some h <-> exists p, is_lpm (attached t) n p h.
Proof. exact (v1_lpm fe l n h). Qed.
Print Assumptions C04_v1_lpm.

Theorem C04_v1_none fe l n :
  Forall wf_vop l ->
  let t := s_fib (vexec fe st0 l) in
  dispatch t n = None <-> forall p, prefix p n -> attached t p = None.
Proof. exact (v1_none fe l n). Qed.
Print Assumptions C04_v1_none.

(* register(k, None): the forwarder is told, the table is not: no handler attached, detached or hidden *)
Theorem C04_v1_register_without_handler fe s k v ex : vstep fe s (VRegister k None v ex) = (s, ObOk).
Proof. exact (v1_register_none fe s k v ex). Qed.
Print Assumptions C04_v1_register_without_handler.

(* register(k, h) attaches as set_interest_filter does (so C04_duplicate_refused / C04_attach_frame apply) *)
Theorem C04_v1_register_is_attach fe s k h v ex :
  vstep fe s (VRegister k (Some h) v ex) = step fe s (OAttach k (Some h) v ex).
Proof. exact (v1_register_some fe s k h v ex). Qed.
Print Assumptions C04_v1_register_is_attach.

(* unregister(k): never an error, k is free afterwards, every other prefix keeps its handler *)
Theorem C04_v1_unregister_frame fe l k :
  Forall wf_vop l ->
  let s := vexec fe st0 l in
  let r := vstep fe s (VUnregister k) in
  snd r = ObOk /\ attached (s_fib (fst r)) k = None /\
  (forall q, q <> k -> attached (s_fib (fst r)) q = attached (s_fib s) q) /\
  s_pending (fst r) = s_pending s /\ s_calls (fst r) = s_calls s.
Proof. exact (v1_unregister_frame fe l k). Qed.
Print Assumptions C04_v1_unregister_frame.

(* event by event these histories are the specification machine's (Spec/DispatchV1Spec.v) *)
Theorem C04_v1_refines fe l sl :
  svops_of fe l = Some sl ->
  map abs_obs (snd (vrun_ops fe l)) = map Some (snd (svrun fe sl)) /\
  s_calls (fst (vrun_ops fe l)) = ss_calls (fst (svrun fe sl)) /\
  s_pending (fst (vrun_ops fe l)) = ss_pending (fst (svrun fe sl)) /\
  forall p, attached (s_fib (fst (vrun_ops fe l))) p = ss_att (fst (svrun fe sl)) p.
Proof. exact (v1_refines fe l sl). Qed.
Print Assumptions C04_v1_refines.

(* non-vacuity: a history on the v2 front-end with nested and sibling prefixes (/, /a, /a/b, /a/b/c, /e),
   a refused duplicate, a detach, Interests before and after; every hypothesis above is met by it *)
Definition ex_a : bytes := [8;1;97].
Definition ex_b : bytes := [8;1;98].
Definition ex_c : bytes := [8;1;99].
Definition ex_e : bytes := [8;1;101].
Definition ex_ops : list op :=
  [OAttach [ex_a] (Some 1) None (false, false); OAttach [ex_a; ex_b; ex_c] (Some 3) None (false, false);
   OAttach [ex_a; ex_b] (Some 2) None (false, false); OAttach [] (Some 9) None (false, false);
   OAttach [ex_e] (Some 5) None (false, false); OAttach [ex_a; ex_b] (Some 7) None (false, false);
   ORecv [ex_a; ex_b; ex_e] (Some 100) 1000; OSettle;
   ODetach [ex_a; ex_b]; ORecv [ex_a; ex_b; ex_e] None 1000; ORecv [ex_a; ex_b; ex_c; ex_e] (Some 0) 1000;
   ORecv [ex_c] None 1001; OSettle; OReply 0 1100 true; OReply 0 1101 true;
   (* the face goes down after the delivery: inside the lifetime reply raises, after it it returns False;
      once the face is up again the Data goes out *)
   OReply 1 1200 false; OReply 0 1200 false; OReply 1 1201 true].
Example C04_example :
  Forall wf_op ex_ops /\
  (exists sops, sops_of FE_V2 ex_ops = Some sops) /\
  map (fun c => (c_h c, c_deadline c)) (s_calls (exec FE_V2 st0 ex_ops)) = [(2, 1100); (1, 5000); (3, 1000); (9, 5001)] /\
  snd (run_ops FE_V2 ex_ops) =
    [ObOk; ObOk; ObOk; ObOk; ObOk; ObErr EValue;
     ObRecv (LHit [ex_a; ex_b] 2); ObCalls [mk_call 2 [ex_a; ex_b; ex_e] 1100];
     ObOk; ObRecv (LHit [ex_a] 1); ObRecv (LHit [ex_a; ex_b; ex_c] 3); ObRecv (LHit [] 9);
     ObCalls [mk_call 1 [ex_a; ex_b; ex_e] 5000; mk_call 3 [ex_a; ex_b; ex_c; ex_e] 1000; mk_call 9 [ex_c] 5001];
     ObReply true RTrue; ObReply false RFalse;
     ObErr E_NETWORK; ObReply false RFalse; ObReply true RTrue] /\
  map abs_obs (skipn 15 (snd (run_ops FE_V2 ex_ops))) =
    [Some (SoReply false false); Some (SoReply false false); Some (SoReply true true)] /\
  attached (s_fib (exec FE_V2 st0 ex_ops)) [ex_a; ex_b] = None /\
  attached (s_fib (exec FE_V2 st0 ex_ops)) [ex_a; ex_b; ex_c] = Some 3 /\
  Forall uri_comp [ex_a; ex_b].
Proof.
  split; [repeat (constructor; try exact I)|].
  split; [eexists; vm_compute; reflexivity|].
  split; [vm_compute; reflexivity|]. split; [vm_compute; reflexivity|]. split; [vm_compute; reflexivity|].
  split; [vm_compute; reflexivity|]. split; [vm_compute; reflexivity|].
  assert (U : forall x, x < 256 -> uri_comp [8; 1; x]).
  { intros x Hx. exists 8, [x]. split; [vm_compute; reflexivity|]. split; [split; lia|].
    split; [repeat constructor; exact Hx|vm_compute; reflexivity]. }
  repeat constructor; apply U; lia.
Qed.

(* non-vacuity of the registration statements: handler 1 at /a; /a/b announced to the forwarder without a
   handler -- /a/b/c still reaches 1 --; then registered with handler 2 (a second registration is refused);
   unregistered twice (never an error) -- /a/b/c reaches 1 again *)
Definition ex_v1 : list vop :=
  [VBase (OAttach [ex_a] (Some 1) None (false, false)); VRegister [ex_a; ex_b] None None (false, false);
   VBase (ORecv [ex_a; ex_b; ex_c] None 1000); VBase OSettle;
   VRegister [ex_a; ex_b] (Some 2) None (true, false); VRegister [ex_a; ex_b] (Some 3) None (false, false);
   VBase (ORecv [ex_a; ex_b; ex_c] None 1000); VBase OSettle;
   VUnregister [ex_a; ex_b]; VUnregister [ex_a; ex_b]; VBase (ORecv [ex_a; ex_b; ex_c] None 1000); VBase OSettle].
Example C04_v1_example :
  Forall wf_vop ex_v1 /\ (exists sl, svops_of FE_V1 ex_v1 = Some sl) /\
  snd (vrun_ops FE_V1 ex_v1) =
    [ObOk; ObOk; ObRecv (LHit [ex_a] 1); ObCalls [mk_call 1 [ex_a; ex_b; ex_c] 0];
     ObOk; ObErr EValue; ObRecv (LHit [ex_a; ex_b] 2); ObCalls [mk_call 2 [ex_a; ex_b; ex_c] 0];
     ObOk; ObOk; ObRecv (LHit [ex_a] 1); ObCalls [mk_call 1 [ex_a; ex_b; ex_c] 0]].
Proof.
  split; [repeat (constructor; try exact I)|]. split; [eexists; vm_compute; reflexivity|]. vm_compute. reflexivity.
Qed.
