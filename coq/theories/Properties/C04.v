(* C04 — placeholder while the proofs are being written *)
From NDN Require Import Base.Prelude Model.Trie Model.Dispatch Spec.DispatchSpec Proofs.ConstsAppAgree.
