(* C17 — prefix registration speaks the forwarder management protocol correctly.
   Only statements, [exact]s and Print Assumptions live here.

   Protocol part: [run_events fe clock evs] is the registration machine of Model/Registerer.v for a front-end
   [fe] (how register / unregister are written: the records extracted from the source), ANY clock stream
   [clock : nat -> N] (not even monotone) and ANY event history (calls, replies of every kind to the i-th
   outstanding command, 1 ms ticks, junk, routes, connect / disconnect).  [log] is what an observer sees. *)
From NDN Require Import Base.Prelude Base.Utf8 Model.TlvVar Model.Name Model.Tlv Spec.TlvWf.
From NDN Require Import Model.NfdMgmt Model.Registerer Spec.Registration Model.NfdEnums Spec.NfdEnums.
From NDN Require Generated.NfdEnums.
From NDN Require Import Proofs.NfdMgmtProofs Proofs.RegistererBase Proofs.RegistererInv Proofs.RegistererAuto
  Proofs.RegSpecMeaning Proofs.RegProtoOk Proofs.RegistererMain Proofs.NfdEnumsOk.
From Coq Require Import Sorting.Sorted.
Local Open Scope N_scope.

(* ---- the theorems below apply to the code as shipped ------------------------------------------------------------- *)
Theorem C17_shipped_protocols_ok : frontend_ok fe_v2 /\ frontend_ok fe_v1.
Proof. exact (conj shipped_v2_ok shipped_v1_ok). Qed.
Print Assumptions C17_shipped_protocols_ok.

(* ---- codec -------------------------------------------------------------------------------------------------------- *)
(* a register / unregister command is /localhost|localhop/nfd/rib/<verb>/<parameters> and the parameters
   component decodes to parameters naming exactly that prefix *)
Theorem C17_command_names_prefix local verb prefix nm :
  verb = s_register \/ verb = s_unregister ->
  Forall good_comp prefix ->
  make_command_v2 local s_rib verb (params_of_prefix prefix) = Ok nm ->
  N.of_nat (length (concat nm)) < two64 ->
  exists c, nm = [c_of (if local then [108;111;99;97;108;104;111;115;116] else [108;111;99;97;108;104;111;112]);
                  c_of [110;102;100]; c_of s_rib; c_of verb; c] /\
            command_parameters nm = Ok (params_of_prefix prefix).
Proof. exact (command_names_prefix local verb prefix nm). Qed.
Print Assumptions C17_command_names_prefix.

(* ... and so does every command with every legal keyword set *)
Theorem C17_command_parameters_roundtrip local module command cpv nm :
  Forall2 (fun f v => fits (snd f) v) CPV cpv ->
  make_command_v2 local module command cpv = Ok nm ->
  N.of_nat (length (concat nm)) < two64 ->
  exists pre c, nm = pre ++ [c] /\ command_prefix local module command = Ok pre /\ command_parameters nm = Ok cpv.
Proof. exact (command_parameters_roundtrip local module command cpv nm). Qed.
Print Assumptions C17_command_parameters_roundtrip.

(* the command-Interest format of the v1 front-end: the v2 name, then timestamp, nonce, SignatureInfo and
   SignatureValue = SHA-256 over everything before it (sha256 : any function) *)
Theorem C17_command_signed_v1 (sha256 : bytes -> bytes) local module command cpv ts nonce nm :
  make_command sha256 local module command cpv ts nonce = Ok nm ->
  exists base,
    make_command_v2 local module command cpv = Ok base /\ ts < two64 /\ nonce < two64 /\
    let signed := base ++ [comp_enc TYPE_GENERIC (N_to_be 8 ts); comp_enc TYPE_GENERIC (N_to_be 8 nonce);
                           comp_enc TYPE_GENERIC [TYPE_SIGNATURE_INFO; 3; 27; 1; 0]] in
    nm = signed ++ [comp_enc TYPE_GENERIC ([TYPE_SIGNATURE_VALUE; 32] ++ sha256 (concat signed))].
Proof. exact (make_command_shape sha256 local module command cpv ts nonce nm). Qed.
Print Assumptions C17_command_signed_v1.

(* decoding a management response returns the fields that were encoded *)
Theorem C17_response_roundtrip sc st body w :
  Forall2 (fun f v => fits (snd f) v) CR [sc; st; body] ->
  response_wire sc st body = Ok w -> N.of_nat (length w) < two64 ->
  parse_response (Some w) = Ok (sc, st, params_of_body body).
Proof. exact (response_roundtrip sc st body w). Qed.
Print Assumptions C17_response_roundtrip.

(* the same for every status dataset / management model of nfd_mgmt.py *)
Theorem C17_dataset_roundtrip fs d ic vs w :
  In fs nfd_models -> Forall2 (fun f v => fits (snd f) v) fs vs ->
  encode_model d fs vs = Ok w -> N.of_nat (length w) < two64 ->
  parse_model d fs ic w = Ok vs.
Proof. exact (dataset_roundtrip fs d ic vs w). Qed.
Print Assumptions C17_dataset_roundtrip.

(* ... in the form an application uses it: Cls.parse(obj.encode()) on the class's own descriptor *)
Theorem C17_dataset_parse_wire fs vs w :
  In fs nfd_models -> Forall2 (fun f v => fits (snd f) v) fs vs ->
  dataset_wire fs vs = Ok w -> N.of_nat (length w) < two64 ->
  dataset_parse fs w = Ok vs.
Proof. exact (dataset_parse_wire fs vs w). Qed.
Print Assumptions C17_dataset_parse_wire.

(* ... and at the level of the typed attributes an application reads: for every enumerated field of the management
   models (table regenerated from nfd_mgmt.py: Enum / Flag type and member values) and every number the management
   protocol defines for it (a member; for the bit fields Flags / Mask every union of members, none included), reading
   the attribute returns the encoded number - it does not raise -, and two members of a bit field can be joined with |
   to write their union *)
Theorem C17_enumerated_field_reads_back f v :
  In f Generated.NfdEnums.nfd_enum_fields -> In v (domain (ef_type f) (ef_members f)) ->
  typed_read (ef_kind f) (ef_members f) v = Ok v.
Proof. exact (shipped_typed_read f v). Qed.
Print Assumptions C17_enumerated_field_reads_back.

Theorem C17_flags_can_be_joined f a b :
  In f Generated.NfdEnums.nfd_enum_fields -> bitfield_type (ef_type f) = true ->
  In a (ef_members f) -> In b (ef_members f) -> join (ef_kind f) a b = Ok (N.lor a b).
Proof. exact (shipped_join f a b). Qed.
Print Assumptions C17_flags_can_be_joined.

(* whatever the members: a (strict) Flag type reads every union of its members *)
Theorem C17_flag_type_reads_unions ms v : In v (unions ms) -> typed_read EFlag ms v = Ok v.
Proof. exact (flag_reads_unions ms v). Qed.
Print Assumptions C17_flag_type_reads_unions.

(* ---- protocol ----------------------------------------------------------------------------------------------------- *)
Section Protocol.
  Variable fe : kind -> proto.
  Variable clock : nat -> N.
  Hypothesis Hfe : frontend_ok fe.

  (* what a call returns, for every kind of reply: True for a decodable ControlResponse with status 200
     (that passes validation where the front-end validates), False for everything else - other status, no
     status, response without body, damaged / empty / missing Content, bad signature, Nack, silence *)
  Theorem C17_reply_table k r : finish (fe k) r = Ret (answers_200 (p_validates (fe k)) r).
  Proof. exact (main_reply_table fe Hfe k r). Qed.

  (* every call that returned, returned True iff its command was answered with status 200 ... *)
  Theorem C17_success_iff_200 evs id r o :
    In (ODone id r o) (log (run_events fe clock evs)) -> o = Ret (answers_200 (p_validates (fe KReg)) r).
  Proof. exact (main_success_iff_200 fe clock Hfe evs id r o). Qed.

  (* ... and no call ever raised, whatever the replies *)
  Theorem C17_failures_do_not_raise evs id r o :
    In (ODone id r o) (log (run_events fe clock evs)) -> exists b, o = Ret b.
  Proof. exact (main_no_raise fe clock Hfe evs id r o). Qed.

  (* at most one command awaits its reply, at any time, however many calls are made concurrently *)
  Theorem C17_one_at_a_time evs :
    serial_ok (log (run_events fe clock evs)) = true /\ (length (outst (run_events fe clock evs)) <= 1)%nat.
  Proof. exact (main_one_at_a_time fe clock Hfe evs). Qed.

  (* spelled out: between two commands on the face, the call of the first one has returned *)
  Theorem C17_one_at_a_time_meaning evs l1 c1 l2 c2 l3 :
    log (run_events fe clock evs) = l1 ++ OSend c1 :: l2 ++ OSend c2 :: l3 ->
    exists r o, In (ODone (m_call c1) r o) l2.
  Proof. exact (main_one_at_a_time_meaning fe clock Hfe evs l1 c1 l2 c2 l3). Qed.

  (* the timestamps of the commands, in the order they are sent, are strictly increasing - for any clock *)
  Theorem C17_timestamps_strictly_increase evs :
    StronglySorted N.lt (map m_ts (sends (log (run_events fe clock evs)))).
  Proof. exact (main_timestamps fe clock Hfe evs). Qed.

  (* every call sends at most one command, it names the verb and prefix of the call, and a call returns only
     after its command went out *)
  Theorem C17_one_command_per_call evs : percall_ok (log (run_events fe clock evs)) = true.
  Proof. exact (main_percall fe clock Hfe evs). Qed.

  (* spelled out: no call sends two commands; every command names the verb and prefix of a call that was
     entered; a call returns only after its command went out *)
  Theorem C17_one_command_per_call_meaning evs :
    let l := log (run_events fe clock evs) in
    NoDup (map m_call (sends l)) /\
    (forall c, In c (sends l) -> exists a, In (OCall (m_call c) (m_kind c) (m_prefix c) a) l) /\
    (forall l1 id r o l2, l = l1 ++ ODone id r o :: l2 -> exists c, In c (sends l1) /\ m_call c = id).
  Proof. exact (main_percall_meaning fe clock Hfe evs). Qed.

  (* progress of the timestamp loop: the call that holds the semaphore and sleeps with l readings left has its
     command on the face after at most l+1 ticks, whatever the clock does *)
  Theorem C17_command_goes_out evs l id :
    (forall k, exists n, p_ts (fe k) = TsLoop n true) ->
    status (run_events fe clock evs) id = Some (CSleep l) ->
    exists n, (n <= S l)%nat /\
              status (fold_left (step fe clock) (repeat ETick n) (run_events fe clock evs)) id = Some COut.
  Proof. exact (main_holder_sends fe clock Hfe evs l id). Qed.

  (* on every connection the starting task registers every declared route exactly once, in order, and
     finishes without an exception *)
  Theorem C17_autoreg_once_per_connection evs : autoreg_ok (log (run_events fe clock evs)) = true.
  Proof. exact (main_autoreg fe clock Hfe evs). Qed.
End Protocol.
Print Assumptions C17_reply_table.
Print Assumptions C17_success_iff_200.
Print Assumptions C17_failures_do_not_raise.
Print Assumptions C17_one_at_a_time.
Print Assumptions C17_one_at_a_time_meaning.
Print Assumptions C17_timestamps_strictly_increase.
Print Assumptions C17_one_command_per_call.
Print Assumptions C17_one_command_per_call_meaning.
Print Assumptions C17_command_goes_out.
Print Assumptions C17_autoreg_once_per_connection.

(* ---- non-vacuity ----------------------------------------------------------------------------------------------------- *)
Definition ex_name (c : N) : name := [comp_enc TYPE_GENERIC [c]].
(* the response  65 03 66 01 c8  (status 200, no text, no body) and  65 04 66 02 01 94  (status 404) *)
Definition ex_200 : reply := RData (Some [101; 3; 102; 1; 200]) true.
Definition ex_404 : reply := RData (Some [101; 4; 102; 2; 1; 148]) true.
(* a route declared before connecting, three concurrent calls, a clock that never advances; replies 200 / 404 /
   garbage / Nack, with the ticks the timestamp loop needs in between *)
Definition ex_events : list event :=
  [ERoute (ex_name 114); EConnect; ECall KReg (ex_name 97); ECall KUnreg (ex_name 98); ECall KReg (ex_name 99);
   EReply 0 ex_200] ++ repeat ETick 10 ++ [EReply 0 ex_404] ++ repeat ETick 10 ++
  [EReply 0 (RData (Some [1; 2; 3]) true)] ++ repeat ETick 10 ++ [EReply 0 (RNack 0)].

Example C17_example_v2 :
  let l := log (run_events fe_v2 (fun _ => 5) ex_events) in
  map m_ts (sends l) = [5; 6; 7; 8] /\
  map (fun o => match o with ODone id _ (Ret b) => Some (id, b) | _ => None end)
      (filter (fun o => match o with ODone _ _ _ => true | _ => false end) l)
  = [Some (0%nat, true); Some (1%nat, false); Some (2%nat, false); Some (3%nat, false)] /\
  autoreg_ok l = true.
Proof. vm_compute. repeat split. Qed.

Example C17_example_v1 :
  map m_ts (sends (log (run_events fe_v1 (fun _ => 5) ex_events))) = [5; 6; 7; 8].
Proof. vm_compute. reflexivity. Qed.

Example C17_example_command :
  exists nm, make_command_v2 true s_rib s_register (params_of_prefix (ex_name 97)) = Ok nm /\
             command_parameters nm = Ok (params_of_prefix (ex_name 97)).
Proof. eexists. split; vm_compute; reflexivity. Qed.
