(* C09 — Name representations (URI, component list, wire) are mutually consistent.
   Only statements, [exact]s and Print Assumptions live here. *)
From NDN Require Import Base.Prelude Base.Text Model.TlvVar Model.Name Spec.NdnOrder.
From NDN Require Import Proofs.TlvVarProofs Proofs.TlvVarBridge Proofs.NameWire Proofs.NameOrder
  Proofs.NameUri Proofs.NameUriName Proofs.NameNormalize Proofs.ConstsNameAgree Proofs.NameBuild.
Local Open Scope N_scope.

(* wire: decode (encode n) = n, for any number of components, any types, any value lengths *)
Theorem C09_wire_roundtrip (n : name) (rest : bytes) :
  Forall wf_comp n -> N.of_nat (name_value_length n) < two64 ->
  name_decode (name_encode n ++ rest) = Ok (n, N.of_nat (length (name_encode n))).
Proof. exact (name_decode_encode n rest). Qed.
Print Assumptions C09_wire_roundtrip.

(* canonical URI of a component / of a name parses back to it *)
Theorem C09_canonical_uri_roundtrip_comp t v :
  valid_type t -> wf_bytes v -> N.of_nat (length v) < two64 ->
  (do u <- comp_to_canonical_uri (comp_enc t v) ;; comp_from_str u) = Ok (comp_enc t v).
Proof. exact (comp_canonical_uri_roundtrip t v). Qed.
Print Assumptions C09_canonical_uri_roundtrip_comp.

Theorem C09_canonical_uri_roundtrip n :
  Forall uri_comp n -> (do u <- name_to_canonical_uri n ;; name_from_str u) = Ok n.
Proof. exact (name_canonical_uri_roundtrip n). Qed.
Print Assumptions C09_canonical_uri_roundtrip.

(* URI with naming-convention shorthands.  [uri_comp_num]: a component of a naming-convention type whose value has
   1, 2, 4 or 8 octets (the only ones printed as a number, after fix 5dad9f3) is the shortest-width encoding of that
   number; every other component -- any type, any value bytes, any length -- is unrestricted *)
Theorem C09_uri_roundtrip n :
  Forall uri_comp_num n -> (do u <- name_to_str n ;; name_from_str u) = Ok n.
Proof. exact (name_uri_roundtrip n). Qed.
Print Assumptions C09_uri_roundtrip.

(* every accepted input form of the same name normalises to the same components *)
Theorem C09_normalize_agree n :
  Forall uri_comp n -> N.of_nat (name_value_length n) < two64 ->
  name_normalize (NSWire (name_encode n)) = Ok n /\
  name_normalize (NSList (map NCBytes n)) = Ok n /\
  (do u <- name_to_canonical_uri n ;; name_normalize (NSStr u)) = Ok n /\
  (do ss <- canon_strs n ;; name_normalize (NSList (map NCStr ss))) = Ok n.
Proof. exact (normalize_agree n). Qed.
Print Assumptions C09_normalize_agree.

(* prefix test = component-wise equality *)
Theorem C09_prefix (a b : name) : name_is_prefix a b = true <-> exists r, b = a ++ r.
Proof. exact (name_is_prefix_spec a b). Qed.
Print Assumptions C09_prefix.

(* byte-wise comparison of encoded components / names = NDN canonical order *)
Theorem C09_order_comp (c1 c2 : scomp) :
  wf_scomp c1 -> wf_scomp c2 -> bytes_cmp (enc_scomp c1) (enc_scomp c2) = canon_comp_cmp c1 c2.
Proof. exact (comp_cmp_canonical c1 c2). Qed.
Print Assumptions C09_order_comp.

Theorem C09_order (a b : list scomp) :
  Forall wf_scomp a -> Forall wf_scomp b ->
  name_cmp (map enc_scomp a) (map enc_scomp b) = canon_name_cmp a b.
Proof. exact (name_cmp_canonical a b). Qed.
Print Assumptions C09_order.

(* var-number kernel: shortest form, round trip (used by the order theorem) *)
Theorem C09_varnum_roundtrip v r : v < two64 -> tl_dec (tl_enc v ++ r) = Ok (v, tl_size v).
Proof. exact (tl_dec_enc v r). Qed.
Print Assumptions C09_varnum_roundtrip.

(* components BUILT from a value and a type number (from_bytes / from_hex; from_number through the shortest
   big-endian value): for every legal type 1..65535 and every value, the result is Type, Length, Value in shortest form
   and its type and value read back; every other type number is refused *)
Theorem C09_built_component t v :
  0 < t <= 65535 -> N.of_nat (length v) < two64 ->
  comp_from_bytes v (Z.of_N t) = Ok (comp_enc t v) /\
  comp_get_type (comp_enc t v) = Ok t /\ comp_get_value (comp_enc t v) = Ok v.
Proof. exact (built_component t v). Qed.
Print Assumptions C09_built_component.

Theorem C09_built_component_refused v (t : Z) : (t <= 0 \/ 65535 < t)%Z -> comp_from_bytes v t = Err EValue.
Proof. exact (built_component_refused v t). Qed.

Theorem C09_built_number (n t : N) :
  0 < t <= 65535 -> n < two64 ->
  exists b, nni_enc_r n = Ok b /\ comp_from_number (Z.of_N n) t = Ok (comp_enc t b) /\
            comp_get_type (comp_enc t b) = Ok t.
Proof. exact (built_number n t). Qed.
Print Assumptions C09_built_number.

(* T1/T2 ties re-established on this run *)
Theorem C09_tie_charset c : in_charset c = existsb (N.eqb c) Generated.ConstsName.charset_codes.
Proof. exact (charset_agree c). Qed.
Theorem C09_tie_varnum_size (v : N) : Generated.TlvVarGen.get_tl_num_size (Z.of_N v) = Ok (Z.of_nat (tl_size v)).
Proof. exact (gen_size_eq v). Qed.
Theorem C09_tie_varnum_parse buf (off : nat) :
  wf_bytes buf -> Generated.TlvVarGen.parse_tl_num buf (Z.of_nat off) = map_res zpair (tl_dec (skipn off buf)).
Proof. exact (gen_parse_eq buf off). Qed.

(* non-vacuity: a concrete 3-component name (generic "a", empty generic, segment 300) meets every hypothesis *)
Example C09_example :
  let n := [comp_enc 8 [97]; comp_enc 8 []; comp_enc 50 (nni_enc 300)] in
  name_decode (name_encode n) = Ok (n, 11) /\
  (do u <- name_to_str n ;; name_from_str u) = Ok n /\
  name_to_str n = Ok [47;97;47;47;115;101;103;61;51;48;48] /\
  name_is_prefix (firstn 2 n) n = true.
Proof. vm_compute. repeat split; reflexivity. Qed.
