(* C04 — statements that are FALSE on a faithful model, with their witnesses.

   †11 (fixed in the library, commit "fix: appv2 reply() returns True after the Data was sent"):
   before the fix the reply closure fell off the end of the function after a successful send. *)
From NDN Require Import Base.Prelude Model.Name Model.Trie Model.Dispatch Spec.DispatchSpec
  Proofs.TrieProofs Proofs.DispatchProofs.
Local Open Scope N_scope.

(* the closure as it was before the fix *)
Definition reply_closure_before_fix (deadline now : N) (running : bool) : res (bool * retval) :=
  if deadline <? now then Ok (false, RFalse)
  else if running then Ok (true, RNone) else Err E_NETWORK.

(* "the callback reports truthfully whether it was sent" fails: sent, yet a falsy value is returned.
   Witness replayed on the unfixed code: attach /a, Interest /a/b with lifetime 0 at t = 1000000,
   reply at t = 1000000 -> one packet on the face, return value None. *)
Theorem C04_reply_truthful_before_fix_refuted :
  exists d t, reply_closure_before_fix d t true = Ok (true, RNone) /\ t <= d.
Proof. exists 1000000, 1000000. split; [vm_compute; reflexivity|lia]. Qed.

(* Why the theorems ask for callable handlers: None passed as a handler (outside the documented type,
   accepted by attach_handler) occupies its prefix and hides the shorter handler behind 'No callback'. *)
Theorem C04_lpm_needs_callable_handlers :
  exists ops n p h,
    let t := s_fib (exec FE_V2 st0 ops) in
    is_lpm (attached t) n p h /\ dispatch t n = None /\ ~ Forall wf_op ops.
Proof.
  exists [OAttach [[8;1;97]] (Some 1) None (false, false); OAttach [[8;1;97]; [8;1;98]] None None (false, false)].
  exists [[8;1;97]; [8;1;98]; [8;1;99]], [[8;1;97]], 1. cbv zeta.
  split; [|split].
  - match goal with |- is_lpm ?a ?n _ _ => pose proof (lp_fun_spec a n) as S;
      assert (E : lp_fun a n = Some ([[8;1;97]], 1)) by (vm_compute; reflexivity); rewrite E in S; exact S end.
  - vm_compute. reflexivity.
  - intros H. inversion H as [|? ? _ H2]; subst. inversion H2 as [|? ? W _]; subst. exact W.
Qed.
