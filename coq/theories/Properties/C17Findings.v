(* C17 — the clauses are FALSE for the registration code as it was found (protocol records [proto_*_orig] of
   Model/Registerer.v = what tools/gen_regproto.py extracts from the unrepaired source).  Each witness was
   replayed on the real NDNApp (docs/C17.md); the defects are repaired by the fix: commits listed in
   known_findings.d/C17.json, after which the generated records pass [proto_ok] and Properties/C17.v applies. *)
From NDN Require Import Base.Prelude Model.TlvVar Model.Name Model.Tlv Model.NfdMgmt Model.Registerer Spec.Registration.
Local Open Scope N_scope.

Definition fe_v2_orig : kind -> proto := fe_of proto_v2_reg_orig proto_v2_unreg_orig.
Definition fe_v1_orig : kind -> proto := fe_of proto_v1_reg_orig proto_v1_unreg_orig.

Definition nm (c : N) : name := [comp_enc TYPE_GENERIC [c]].
Definition r200_nobody : reply := RData (Some [101; 3; 102; 1; 200]) true.   (* 65 03 66 01 c8 *)
Definition r404 : reply := RData (Some [101; 4; 102; 2; 1; 148]) true.
Definition r_garbage : reply := RData (Some [1; 2; 3]) true.
Definition r_nocontent : reply := RData None true.

(* a 200 response without body: AttributeError out of register (both front-ends) *)
Theorem C17_no_body_raises_refuted :
  exists clock evs, never_raises (log (run_events fe_v2_orig clock evs)) = false /\
                    never_raises (log (run_events fe_v1_orig clock evs)) = false.
Proof. exists (fun _ => 5), [EConnect; ECall KReg (nm 97); EReply 0 r200_nobody]. vm_compute. split; reflexivity. Qed.

(* undecodable or missing Content: ValueError / TypeError out of register *)
Theorem C17_garbage_reply_raises_refuted :
  exists clock evs1 evs2, never_raises (log (run_events fe_v2_orig clock evs1)) = false /\
                          never_raises (log (run_events fe_v2_orig clock evs2)) = false.
Proof.
  exists (fun _ => 5), [EConnect; ECall KReg (nm 97); EReply 0 r_garbage],
         [EConnect; ECall KReg (nm 97); EReply 0 r_nocontent].
  vm_compute. split; reflexivity.
Qed.

(* unregister answers True to a 404 *)
Theorem C17_unregister_success_iff_200_refuted :
  exists clock evs, outcomes_ok false (log (run_events fe_v2_orig clock evs)) = false /\
                    never_raises (log (run_events fe_v2_orig clock evs)) = true.
Proof. exists (fun _ => 5), [EConnect; ECall KUnreg (nm 97); EReply 0 r404]. vm_compute. split; reflexivity. Qed.

(* appv2: the signature time is read after the recorded timestamp - two commands with the same timestamp
   under a perfectly ordinary clock 5, 6, 6, 6, ... *)
Theorem C17_timestamps_v2_refuted :
  exists clock evs, (forall i, clock i <= clock (S i)) /\
                    timestamps_ok (log (run_events fe_v2_orig clock evs)) = false.
Proof.
  exists (fun i => match i with O => 5 | _ => 6 end),
         [EConnect; ECall KReg (nm 97); ECall KReg (nm 98); EReply 0 r200_nobody].
  split; [intros [|i]; cbn; lia|]. vm_compute. reflexivity.
Qed.

(* v1: two commands within one millisecond *)
Theorem C17_timestamps_v1_refuted :
  exists evs, timestamps_ok (log (run_events fe_v1_orig (fun _ => 5) evs)) = false.
Proof. exists [EConnect; ECall KReg (nm 97); ECall KReg (nm 98); EReply 0 r404]. vm_compute. reflexivity. Qed.

(* v1: unregister does not take the semaphore - two commands outstanding *)
Theorem C17_one_at_a_time_v1_refuted :
  exists evs, serial_ok (log (run_events fe_v1_orig (fun i => N.of_nat i) evs)) = false /\
              length (outst (run_events fe_v1_orig (fun i => N.of_nat i) evs)) = 2%nat.
Proof. exists [EConnect; ECall KReg (nm 97); ECall KUnreg (nm 98)]. vm_compute. split; reflexivity. Qed.

(* consequence for auto-registration: an undecodable reply to the first route ends the starting task and the
   second declared route is never registered *)
Theorem C17_autoreg_refuted :
  exists evs, autoreg_ok (log (run_events fe_v2_orig (fun i => N.of_nat (S i)) evs)) = false.
Proof. exists [ERoute (nm 97); ERoute (nm 98); EConnect; EReply 0 r_garbage]. vm_compute. reflexivity. Qed.
