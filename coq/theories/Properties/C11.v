(* C11 — A compiled trust schema matches exactly the names its source text describes.
   Only statements, [exact]s and Print Assumptions live here. *)
From NDN Require Import Base.Prelude Base.Text Model.LvsAst Model.LvsChecker Model.LvsCompiler Spec.LvsSem Spec.LvsTree.
From NDN Require Import Proofs.LvsMachine Proofs.LvsTreePaths Proofs.LvsCheckerThms Proofs.LvsSanity
  Proofs.LvsFlatten Proofs.LvsGenTree Proofs.LvsCompileTree Proofs.LvsCompileThms Proofs.LvsCompileAccepts
  Proofs.LvsRepresents Proofs.LvsSimD Proofs.LvsEndToEnd Proofs.LvsExamples.
From NDN Require Import Spec.LvsChains.
Local Open Scope N_scope.

(* Checker.match on any model that passes the loader = "there is a root-to-node path whose edges are
   satisfied left to right" (Spec/LvsTree.v): the iterative machine with edge_indices / matches / context
   enumerates exactly the tree paths, with exactly the contexts *)
Theorem C11_match_tree ufn m (Hs : sane m) fuel name nm l :
  strip_digest name = Ok nm -> (match_cost m nm <= fuel)%nat -> lvs_match ufn m fuel name = Ok l ->
  forall rs cn, In (rs, cn) l <->
    exists n c, tree_match ufn m nm [] n c /\ node_rule_names m n = Ok rs /\ cn = context_to_name m c.
Proof. exact (lvs_match_spec ufn m Hs fuel name nm l). Qed.
Print Assumptions C11_match_tree.

Definition ufn_t := ident -> option (bytes -> list (option bytes) -> res bool).

(* ---- the full statement (DESIGN section 3, C11) -----------------------------------------------------------
   S is the parsed text of a schema.  [sem] (Spec/LvsSem.v) reads S directly: pick a definition of r, one of its
   alternative constraint sets, replace every rule reference by a chain of any definition of that rule, then match
   the name left to right.  No tree, no numbering, no merging.  The theorem covers parser AST -> rule sorting
   (Kahn) -> pattern numbering -> _replicate_rules with renaming of temporaries -> tree generation with edge merging
   -> preorder flattening -> signer resolution -> the iterative matching machine -> _context_to_name.
   Hypotheses: [static_ok S] (none of the documented static errors) and [schema_wf S] (what the lexer guarantees:
   no empty literal component, options well formed); r is a rule name, not the "#_<node>" the checker invents for
   an unnamed node. *)
Theorem C11_match_iff (ufn : ufn_t) (S : lvsfile) m : static_ok S = true -> schema_wf S = true -> compile S = Ok m ->
  forall fuel name nm l, strip_digest name = Ok nm -> (match_cost m nm <= fuel)%nat -> lvs_match ufn m fuel name = Ok l ->
  forall r env, not_pseudo r ->
    ((exists rs, In (rs, map (fun pv => (Some (fst pv), snd pv)) env) l /\ In r rs) <-> sem ufn S r name env).
Proof.
  exact (fun H1 H2 H3 fuel name nm l Hs Hf Hl r env Hnp => match_iff ufn S m H1 H2 H3 fuel name nm l r env Hs Hf Hl Hnp).
Qed.
Print Assumptions C11_match_iff.

(* the hypotheses hold for a schema with a rule reference, a constrained temporary, a constraint between named patterns
   and a signer; on /a/d/b the compiled model reports #pkt with x=d, y=b, hence (by the theorem) so does the text *)
Example C11_match_iff_example :
  static_ok ex_schema = true /\ schema_wf ex_schema = true /\ compile ex_schema = Ok ex_model /\ not_pseudo i_pkt /\
  sem no_ufn ex_schema i_pkt ex_pkt [(p_x, gc 100); (p_y, gc 98)].
Proof.
  exact (conj ex_static (conj ex_wf (conj ex_compile (conj ex_not_pseudo
    (match ex_match with ex_intro _ l (conj Hl (conj Hf (conj Hs Hin))) =>
       proj1 (match_iff no_ufn ex_schema ex_model ex_static ex_wf ex_compile 1000 ex_pkt ex_pkt l i_pkt [(p_x, gc 100); (p_y, gc 98)] Hs Hf Hl ex_not_pseudo) Hin end))))).
Qed.

(* the model produced from a schema's numbered chains passes the loader *)
Theorem C11_compiled_sane (ufn : ufn_t) S chains st m :
  chains_of S = Ok (chains, st) -> compile S = Ok m -> chains_ok (N.of_nat (length (ns_named st))) chains -> sane m.
Proof. exact (compile_sane ufn S chains st m). Qed.
Print Assumptions C11_compiled_sane.

(* ---- the two halves of the proof, usable on their own ---------------------------------------------------------- *)
(* (1) from the numbered, replicated rule chains ([chains_of S]) to the answers of Checker.match on the compiled model.
   [chain_sem] reads ONE chain on its own: literals equal; a named pattern is constrained at its first occurrence
   and must equal its binding afterwards; a temporary pattern is constrained at every occurrence and binds nothing. *)
Theorem C11_match_chains (ufn : ufn_t) S chains st m :
  chains_of S = Ok (chains, st) -> compile S = Ok m -> chains_ok (N.of_nat (length (ns_named st))) chains ->
  forall fuel name nm l r,
    strip_digest name = Ok nm -> (match_cost m nm <= fuel)%nat -> lvs_match ufn m fuel name = Ok l -> not_pseudo r ->
    forall c', (exists rs, In (rs, context_to_name m c') l /\ In r rs /\
                           exists n, tree_match ufn m nm [] n c' /\ node_rule_names m n = Ok rs) <->
               (exists rc, In rc chains /\ ch_id rc = r /\ chain_sem_from ufn 0 rc nm [] c').
Proof. exact (match_chains ufn S chains st m). Qed.
Print Assumptions C11_match_chains.

(* (2) [chains_of S] holds, for every definition of S (temporary rules labelled "#_x#k" in source order), exactly the
   chains the text gives it ([expand]), each represented with numbered patterns: same literals, named patterns numbered
   by the symbol table, every temporary occurrence carrying the constraints written for it. *)
Theorem C11_chains_of_expand S chains st : chains_of S = Ok (chains, st) ->
  (forall rc, In rc chains -> exists lbl d f, In (lbl, d) (labelled 1 S) /\ In f (expand (ref_fuel S) S d) /\ ch_id rc = lbl /\
        represents (ns_named st) rc f /\ ch_sign rc = isort str_leb (r_sign d)) /\
  (forall lbl d f, In (lbl, d) (labelled 1 S) -> In f (expand (ref_fuel S) S d) ->
        exists rc, In rc chains /\ ch_id rc = lbl /\ represents (ns_named st) rc f /\ ch_sign rc = isort str_leb (r_sign d)).
Proof. exact (chains_of_expand S chains st). Qed.
Print Assumptions C11_chains_of_expand.
