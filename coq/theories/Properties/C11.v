(* C11 — A compiled trust schema matches exactly the names its source text describes.
   Only statements, [exact]s and Print Assumptions live here. *)
From NDN Require Import Base.Prelude Base.Text Model.LvsAst Model.LvsChecker Model.LvsCompiler Spec.LvsSem Spec.LvsTree.
From NDN Require Import Proofs.LvsMachine Proofs.LvsTreePaths Proofs.LvsCheckerThms Proofs.LvsSanity
  Proofs.LvsFlatten Proofs.LvsGenTree Proofs.LvsCompileTree Proofs.LvsCompileThms Proofs.LvsCompileAccepts.
From NDN Require Import Spec.LvsChains.
Local Open Scope N_scope.

(* Checker.match on any model that passes the loader = "there is a root-to-node path whose edges are
   satisfied left to right" (Spec/LvsTree.v): the iterative machine with edge_indices / matches / context
   enumerates exactly the tree paths, with exactly the contexts *)
Theorem C11_match_tree ufn m (Hs : sane m) fuel name nm l :
  strip_digest name = Ok nm -> (match_cost m nm <= fuel)%nat -> lvs_match ufn m fuel name = Ok l ->
  forall rs cn, In (rs, cn) l <->
    exists n c, tree_match ufn m nm [] n c /\ node_rule_names m n = Ok rs /\ cn = context_to_name m c.
Proof. exact (lvs_match_spec ufn m Hs fuel name nm l). Qed.
Print Assumptions C11_match_tree.

(* ---- the full statement (DESIGN section 3, C11) ---------------------------------------------------------
   What is proved of it is [C11_match_iff_partial] below; the missing link is named there. *)
Definition C11_match_iff_statement : Prop :=
  forall ufn (S : lvsfile) m, static_ok S = true -> compile S = Ok m ->
  forall fuel name nm l, strip_digest name = Ok nm -> (match_cost m nm <= fuel)%nat -> lvs_match ufn m fuel name = Ok l ->
  forall r env, not_pseudo r ->
    (exists rs, In (rs, map (fun pv => (Some (fst pv), snd pv)) env) l /\ In r rs) <-> sem ufn S r name env.

Definition ufn_t := ident -> option (bytes -> list (option bytes) -> res bool).

(* the model produced from a schema's numbered chains passes the loader *)
Theorem C11_compiled_sane (ufn : ufn_t) S chains st m :
  chains_of S = Ok (chains, st) -> compile S = Ok m -> chains_ok (N.of_nat (length (ns_named st))) chains -> sane m.
Proof. exact (compile_sane ufn S chains st m). Qed.
Print Assumptions C11_compiled_sane.

(* PARTIAL: from the numbered, replicated rule chains ([chains_of S]: rule references inlined, one chain per
   alternative constraint set, patterns numbered) to the answers of Checker.match on the compiled model
   -- tree generation with edge merging, preorder flattening, signer resolution, the iterative matching machine.
   [chain_sem] reads ONE chain on its own: literals equal; a named pattern is constrained at its first occurrence
   and must equal its binding afterwards; a temporary pattern is constrained at every occurrence and binds nothing.
   Missing for [C11_match_iff_statement]: (a) [chains_of S] satisfies [chains_ok] and (b) the chains of rule r
   satisfy [chain_sem] exactly when [sem S r] holds (pattern numbering + _replicate_rules); both are covered on
   every run by the correspondence check and by the [sem] oracle evaluated on the implementation's answers. *)
Theorem C11_match_iff_partial (ufn : ufn_t) S chains st m :
  chains_of S = Ok (chains, st) -> compile S = Ok m -> chains_ok (N.of_nat (length (ns_named st))) chains ->
  forall fuel name nm l r,
    strip_digest name = Ok nm -> (match_cost m nm <= fuel)%nat -> lvs_match ufn m fuel name = Ok l -> not_pseudo r ->
    forall c', (exists rs, In (rs, context_to_name m c') l /\ In r rs /\
                           exists n, tree_match ufn m nm [] n c' /\ node_rule_names m n = Ok rs) <->
               (exists rc, In rc chains /\ ch_id rc = r /\ chain_sem_from ufn 0 rc nm [] c').
Proof. exact (match_chains ufn S chains st m). Qed.
Print Assumptions C11_match_iff_partial.

(* the same for every schema free of static errors ([static_ok], [schema_wf] as in C13_compile_accepts): it compiles, and
   Checker.match on the result reports rule r with context c' iff one of the numbered chains of r is satisfied.
   The only link missing for [C11_match_iff_statement] is now: the chains [chains_of S] of rule r mean [sem S r]. *)
Theorem C11_match_iff_partial_static (ufn : ufn_t) S : static_ok S = true -> schema_wf S = true ->
  exists chains st m, chains_of S = Ok (chains, st) /\ compile S = Ok m /\ sane m /\
  forall fuel name nm l r,
    strip_digest name = Ok nm -> (match_cost m nm <= fuel)%nat -> lvs_match ufn m fuel name = Ok l -> not_pseudo r ->
    forall c', (exists rs, In (rs, context_to_name m c') l /\ In r rs /\
                           exists n, tree_match ufn m nm [] n c' /\ node_rule_names m n = Ok rs) <->
               (exists rc, In rc chains /\ ch_id rc = r /\ chain_sem_from ufn 0 rc nm [] c').
Proof.
  intros H1 H2. destruct (compile_accepts S H1 H2) as (chains & st & m & Hc & Hm & Hok).
  exists chains, st, m. split; [exact Hc|]. split; [exact Hm|]. split; [exact (compile_sane ufn S chains st m Hc Hm Hok)|].
  exact (match_chains ufn S chains st m Hc Hm Hok).
Qed.
Print Assumptions C11_match_iff_partial_static.
