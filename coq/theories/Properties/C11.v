(* C11 — A compiled trust schema matches exactly the names its source text describes.
   Only statements, [exact]s and Print Assumptions live here. *)
From NDN Require Import Base.Prelude Base.Text Model.LvsAst Model.LvsChecker Model.LvsCompiler Spec.LvsSem Spec.LvsTree.
From NDN Require Import Proofs.LvsMachine Proofs.LvsTreePaths Proofs.LvsCheckerThms Proofs.LvsSanity.
Local Open Scope N_scope.

(* Checker.match on any model that passes the loader = "there is a root-to-node path whose edges are
   satisfied left to right" (Spec/LvsTree.v): the iterative machine with edge_indices / matches / context
   enumerates exactly the tree paths, with exactly the contexts *)
Theorem C11_match_tree ufn m (Hs : sane m) fuel name nm l :
  strip_digest name = Ok nm -> (match_cost m nm <= fuel)%nat -> lvs_match ufn m fuel name = Ok l ->
  forall rs cn, In (rs, cn) l <->
    exists n c, tree_match ufn m nm [] n c /\ node_rule_names m n = Ok rs /\ cn = context_to_name m c.
Proof. exact (lvs_match_spec ufn m Hs fuel name nm l). Qed.
Print Assumptions C11_match_tree.
