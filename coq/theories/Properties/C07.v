(* C07 — Packet decoders accept exactly the well-formed packets.
   Only statements, [exact]s and Print Assumptions live here.  The clause "every nested element lies
   entirely inside its parent" is FALSE for the library as it stands (Properties/C07Findings.v,
   known findings C07-overrun-...); the theorems below are the parts that hold. *)
From NDN Require Import Base.Prelude Model.TlvVar Model.Name Model.Tlv Model.Packet Spec.StrictTlv Spec.TlvWf.
From NDN Require Import Model.TlvChecked Proofs.PacketChecked.
From NDN Require Import Proofs.TlvMore Proofs.PacketDecode Proofs.PacketTotal Proofs.PacketProps Proofs.TlvVarBridge.
Local Open Scope N_scope.

(* every byte string is accepted or rejected with a documented decoding error (DecodeError, IndexError,
   ValueError/UnicodeDecodeError, struct.error); in particular the model's fuel never runs out: decoding
   terminates on every input *)
Theorem C07_total_interest w : res_documented (dec_interest w).
Proof. exact (dec_interest_doc w). Qed.
Theorem C07_total_data w : res_documented (dec_data w).
Proof. exact (dec_data_doc w). Qed.
Theorem C07_total_lp w : res_documented (dec_lp w).
Proof. exact (dec_lp_doc w). Qed.
Theorem C07_total_cert w : res_documented (dec_cert w).
Proof. exact (dec_cert_doc w). Qed.
Print Assumptions C07_total_interest.
Print Assumptions C07_total_cert.

(* whatever a strict reading of the format accepts, the library accepts, with the same fields *)
Theorem C07_strict_implies_accept_interest w vs : strict_interest w = Ok vs -> dec_interest w = Ok vs.
Proof. exact (strict_interest_sound w vs). Qed.
Theorem C07_strict_implies_accept_data w vs : strict_data w = Ok vs -> dec_data w = Ok vs.
Proof. exact (strict_data_sound w vs). Qed.
Theorem C07_strict_implies_accept_lp w vs : strict_lp w = Ok vs -> dec_lp w = Ok vs.
Proof. exact (strict_lp_sound w vs). Qed.
Theorem C07_strict_implies_accept_cert w vs : strict_cert w = Ok vs -> dec_cert w = Ok vs.
Proof. exact (strict_cert_sound w vs). Qed.
Print Assumptions C07_strict_implies_accept_data.

(* partial converse (C07_accept_implies_strict_partial): at any one level, when no element declares a
   Length beyond what is left, the library's split IS the strict split.  The full converse is refuted. *)
Theorem C07_accept_implies_strict_partial fuel w els :
  elements fuel w = Ok els -> Forall exact els -> strict_elements fuel w = Some els.
Proof. exact (elements_exact_strict fuel w els). Qed.
Print Assumptions C07_accept_implies_strict_partial.

(* the converse at EVERY depth, stated against the decoder plus ONE check (Model/TlvChecked.v: the library's
   decoder verbatim, except that an element declaring a Length beyond what is left of its parent is refused --
   the check whose absence is the known finding): that decoder accepts EXACTLY the strictly well-formed packets,
   with the same fields, and it refines the library's decoder.  Hence: accepted by the library, and no
   end-of-parent check would have fired => strictly well-formed, same fields. *)
Theorem C07_checked_iff_strict d fs ic w vs : parse_model_c d fs ic w = Ok vs <-> strict_model d fs ic w = Ok vs.
Proof. exact (checked_iff_strict d fs ic w vs). Qed.
Print Assumptions C07_checked_iff_strict.
Theorem C07_checked_refines d fs ic w vs : parse_model_c d fs ic w = Ok vs -> parse_model d fs ic w = Ok vs.
Proof. exact (checked_refines d fs ic w vs). Qed.
Theorem C07_checked_iff_strict_interest w vs : dec_interest_c w = Ok vs <-> strict_interest w = Ok vs.
Proof. exact (interest_c_iff w vs). Qed.
Theorem C07_checked_iff_strict_data w vs : dec_data_c w = Ok vs <-> strict_data w = Ok vs.
Proof. exact (data_c_iff w vs). Qed.
Theorem C07_checked_iff_strict_cert w vs : dec_cert_c w = Ok vs <-> strict_cert w = Ok vs.
Proof. exact (cert_c_iff w vs). Qed.
Theorem C07_checked_iff_strict_lp w vs : dec_lp_c w = Ok vs <-> strict_lp w = Ok vs.
Proof. exact (lp_c_iff w vs). Qed.
Theorem C07_accept_no_overrun_strict_interest w vs :
  dec_interest w = Ok vs -> (exists vs', dec_interest_c w = Ok vs') -> strict_interest w = Ok vs.
Proof. exact (accept_no_overrun_interest w vs). Qed.
Theorem C07_accept_no_overrun_strict_data w vs :
  dec_data w = Ok vs -> (exists vs', dec_data_c w = Ok vs') -> strict_data w = Ok vs.
Proof. exact (accept_no_overrun_data w vs). Qed.
Theorem C07_accept_no_overrun_strict_cert w vs :
  dec_cert w = Ok vs -> (exists vs', dec_cert_c w = Ok vs') -> strict_cert w = Ok vs.
Proof. exact (accept_no_overrun_cert w vs). Qed.
Theorem C07_accept_no_overrun_strict_lp w vs :
  dec_lp w = Ok vs -> (exists vs', dec_lp_c w = Ok vs') -> strict_lp w = Ok vs.
Proof. exact (accept_no_overrun_lp w vs). Qed.
Print Assumptions C07_accept_no_overrun_strict_interest.

(* mandatory name *)
Theorem C07_name_mandatory_interest w vs :
  dec_interest w = Ok vs -> field_value Generated.Schemas.ndn_format_0_3_InterestPacketValue vs TYPE_NAME <> VNone.
Proof. exact (require_name_inv _ _ vs). Qed.
Theorem C07_name_mandatory_data w vs :
  dec_data w = Ok vs -> field_value Generated.Schemas.ndn_format_0_3_DataPacketValue vs TYPE_NAME <> VNone.
Proof. exact (require_name_inv _ _ vs). Qed.

(* legal integer widths *)
Theorem C07_int_width d fx e v :
  parse_val (S d) (KUint fx) e = Ok v ->
  (e_dlen e = 1 \/ e_dlen e = 2 \/ e_dlen e = 4 \/ e_dlen e = 8) /\
  N.of_nat (length (e_payload e)) = e_dlen e /\ v = VUint (be_to_N (e_payload e)).
Proof. exact (parse_uint_width d fx e v). Qed.

(* recognised critical fields once and in order; unrecognised critical fields refused *)
Theorem C07_critical_once_in_order pv fs pos e r acc :
  N.odd (e_type e) = true ->
  (forall j k, nth_error fs j = Some (e_type e, k) -> (j < pos)%nat) ->
  assign_with pv fs false PNormal pos (e :: r) acc = Err EDecode.
Proof. exact (assign_rejects_out_of_order pv fs pos e r acc). Qed.
Theorem C07_unknown_critical_refused pv fs e0 :
  ~ In (e_type e0) (level_types fs) -> N.odd (e_type e0) = true ->
  forall a b st pos acc, st_ok fs st -> is_ok (assign_with pv fs false st pos (a ++ e0 :: b) acc) = false.
Proof. exact (assign_rejects_critical pv fs e0). Qed.

(* the work is linear: at most |w|/2 elements per level *)
Theorem C07_linear fuel w els : elements fuel w = Ok els -> (2 * length els <= length w)%nat.
Proof. exact (elements_linear fuel w els). Qed.
Print Assumptions C07_linear.

(* non-vacuity: a Data packet /a with content "hi" is accepted by both readers with the same fields *)
Example C07_example :
  let w := [6; 9; 7; 3; 8; 1; 97; 21; 2; 104; 105] in
  exists vs, dec_data w = Ok vs /\ strict_data w = Ok vs /\ field_value Generated.Schemas.ndn_format_0_3_DataPacketValue vs 21 = VBytes [104; 105].
Proof. eexists. vm_compute. repeat split; reflexivity. Qed.

(* T2 tie: the outer Type/Length check translated from the source on this run is the model's *)
Theorem C07_tie_parse_and_check_tl wire (t : N) :
  wf_bytes wire -> Generated.TlvVarGen.parse_and_check_tl wire (Z.of_N t) = parse_and_check_tl wire t.
Proof. exact (Proofs.TlvVarBridge.gen_pact_eq wire t). Qed.
