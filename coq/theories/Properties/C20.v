(* C20 — Client configuration resolves with environment over file over platform default.
   Only statements, [exact]s and Print Assumptions live here.

   Reading guide.  [w : world] is the outside world (os.environ, os.path.exists, file contents).
   [get_path w] is the configuration file in use ("" when none).  [lines] is a client.conf as its author
   writes it (Spec: entries / comments / blank lines, arbitrary values), [render lines] its text.
   [setting_ok w it raw out]  :=  out = scheme(raw) ++ ":" ++ o  for an  o  with
   [location_ok exists cfg defaults location(raw) o] — the location rule of the specification. *)
From NDN Require Import Base.Prelude Base.Text Model.ConfBase Model.ClientConf Spec.ClientConfSpec.
From NDN Require Import Proofs.ConfBaseLemmas Proofs.ClientConfProofs Proofs.ConfIni Proofs.ConfFace
  Proofs.ClientConfMain Proofs.ConstsConfAgree.
From Coq Require Strings.String Strings.Ascii.
Import Coq.Strings.String.StringSyntax Coq.Strings.Ascii.AsciiSyntax.
Local Open Scope N_scope.

(* ---- which file ---------------------------------------------------------------------------------- *)
(* the configuration file in use is the first existing candidate path (after $VAR expansion) *)
Theorem C20_first_existing_file w :
  get_path w = match find (w_exists w) (expanded_candidates w) with Some p => p | None => [] end.
Proof. exact (get_path_first_existing w). Qed.
Print Assumptions C20_first_existing_file.

(* with no '$' in the home directory the candidates / default locations are the platform's, verbatim *)
Theorem C20_candidates_plain w :
  contains ch_dollar (user_home w) = false ->
  expanded_candidates w = client_conf_paths (the_platform w) /\
  expanded_defaults w Pib = default_pib_paths (the_platform w) /\
  expanded_defaults w Tpm = default_tpm_paths (the_platform w).
Proof. exact (candidates_plain w). Qed.
Print Assumptions C20_candidates_plain.

(* ---- precedence: environment > first existing file > platform default ------------------------------ *)
Theorem C20_precedence w lines :
  wf_conf lines = true -> nonempty (get_path w) = true -> read_file w (get_path w) = Ok (render lines) ->
  exists c, read_client_conf w = Ok c /\
    c_transport c = spec_value (env_of w (slit "NDN_CLIENT_TRANSPORT")) (file_lookup key_transport lines)
                               (default_transport (the_platform w)) /\
    setting_ok w Pib (spec_value (env_of w (slit "NDN_CLIENT_PIB")) (file_lookup key_pib lines)
                                 (default_pib_scheme (the_platform w))) (c_pib c) /\
    setting_ok w Tpm (spec_value (env_of w (slit "NDN_CLIENT_TPM")) (file_lookup key_tpm lines)
                                 (default_tpm_scheme (the_platform w))) (c_tpm c).
Proof. exact (precedence_file w lines). Qed.
Print Assumptions C20_precedence.

Theorem C20_precedence_no_file w :
  get_path w = [] ->
  exists c, read_client_conf w = Ok c /\
    c_transport c = spec_value (env_of w (slit "NDN_CLIENT_TRANSPORT")) None (default_transport (the_platform w)) /\
    setting_ok w Pib (spec_value (env_of w (slit "NDN_CLIENT_PIB")) None (default_pib_scheme (the_platform w))) (c_pib c) /\
    setting_ok w Tpm (spec_value (env_of w (slit "NDN_CLIENT_TPM")) None (default_tpm_scheme (the_platform w))) (c_tpm c).
Proof. exact (precedence_nofile w). Qed.
Print Assumptions C20_precedence_no_file.

(* an environment override wins over ANY file content, as long as reading succeeds at all *)
Theorem C20_env_wins_transport w c v :
  read_client_conf w = Ok c -> env_get (w_env w) (env_name key_transport) = Some v -> c_transport c = v.
Proof. exact (env_wins_transport w c v). Qed.
Print Assumptions C20_env_wins_transport.

Theorem C20_env_wins_store w c it v :
  read_client_conf w = Ok c ->
  env_get (w_env w) (env_name (match it with Pib => key_pib | Tpm => key_tpm end)) = Some v ->
  setting_ok w it v (match it with Pib => c_pib c | Tpm => c_tpm c end).
Proof. exact (env_wins_store w c it v). Qed.
Print Assumptions C20_env_wins_store.

(* the only way read_client_conf fails: the file in use cannot be read or is not an INI file *)
Theorem C20_failure_is_file_failure w e : read_client_conf w = Err e <-> file_of w = Err e.
Proof. exact (read_client_conf_error_iff w e). Qed.
Print Assumptions C20_failure_is_file_failure.

(* the INI reader returns exactly the entries of a well-formed client.conf, in order *)
Theorem C20_file_values lines :
  wf_conf lines = true -> ini_read (slit "[DEFAULT]" ++ ch_nl :: render lines) = Ok (entries_of lines).
Proof. exact (ini_read_render lines). Qed.
Print Assumptions C20_file_values.

(* ---- store locations ------------------------------------------------------------------------------------ *)
(* for EVERY setting string (any number of colons, empty parts): scheme kept, location by the rule *)
Theorem C20_location w path it value :
  exists out,
    resolve_location w path it value = Ok (fst (split_setting value) ++ ch_colon :: out) /\
    location_ok (w_exists w) (cfg_of path) (expanded_defaults w it) (snd (split_setting value)) out = true.
Proof. exact (resolve_location_spec w path it value). Qed.
Print Assumptions C20_location.

(* the rule, clause by clause *)
Theorem C20_location_as_given ex cfg dflts loc out :
  location_ok ex cfg dflts loc out = true -> nonempty loc = true -> ex loc = true -> out = loc.
Proof. exact (location_as_given ex cfg dflts loc out). Qed.
Theorem C20_location_relative ex c dflts loc out :
  location_ok ex (Some c) dflts loc out = true -> nonempty loc = true -> ex loc = false ->
  ex (path_join (path_dirname c) loc) = true -> out = path_join (path_dirname c) loc.
Proof. exact (location_relative ex c dflts loc out). Qed.
Theorem C20_location_default ex cfg dflts loc out p :
  location_ok ex cfg dflts loc out = true ->
  (nonempty loc = false \/
   (ex loc = false /\ match cfg with Some c => ex (path_join (path_dirname c) loc) = false | None => True end)) ->
  find ex dflts = Some p -> out = p.
Proof. exact (location_default ex cfg dflts loc out p). Qed.
Print Assumptions C20_location_default.

(* ---- transport URIs ------------------------------------------------------------------------------------------ *)
(* scheme://host[:port][tail], tcp*/udp* scheme in any letter case, port 1..65535 or absent (6363) *)
Theorem C20_face nf scheme k h port tail :
  scheme_kind (lower scheme) = Some k -> k <> KUnix ->
  host_ok h = true -> port_ok port = true -> tail_ok tail = true ->
  default_face nf (uri_text scheme h port tail) = Ok (denoted_face k h port tail).
Proof. exact (default_face_denoted nf scheme k h port tail). Qed.
Print Assumptions C20_face.

Theorem C20_face_unix nf scheme path :
  scheme_kind (lower scheme) = Some KUnix -> unix_path_ok path = true ->
  default_face nf (scheme ++ slit "://" ++ path) = Ok (FUnix path).
Proof. exact (default_face_unix nf scheme path). Qed.
Print Assumptions C20_face_unix.

(* for ANY string: a face is produced only for a scheme of the table, and it is of that scheme's kind *)
Theorem C20_face_known_only nf uri f :
  default_face nf uri = Ok f ->
  exists u, urlsplit nf uri = Ok u /\ scheme_kind (u_scheme u) = Some (face_kind_of f).
Proof. exact (default_face_known_only nf uri f). Qed.
Print Assumptions C20_face_known_only.

(* an unknown scheme is an error, whatever follows the colon *)
Theorem C20_unknown_scheme_error nf scheme rest :
  scheme_ok scheme = true -> scheme_kind (lower scheme) = None ->
  exists e, default_face nf (scheme ++ ch_colon :: rest) = Err e.
Proof. exact (default_face_unknown_scheme nf scheme rest). Qed.
Print Assumptions C20_unknown_scheme_error.

(* the platform default transport is itself a URI that default_face accepts *)
Theorem C20_platform_transport_face nf w :
  default_face nf (default_transport (the_platform w)) = Ok (FUnix (slit "/run/nfd/nfd.sock")) \/
  default_face nf (default_transport (the_platform w)) = Ok (FUnix (slit "/run/nfd.sock")).
Proof. exact (platform_transport_face nf w). Qed.
Print Assumptions C20_platform_transport_face.

(* ---- keychain dispatch ------------------------------------------------------------------------------------------ *)
Theorem C20_keychain_known pib_loc tpm_loc :
  default_keychain (slit "pib-sqlite3" ++ ch_colon :: pib_loc) (slit "tpm-file" ++ ch_colon :: tpm_loc)
  = Ok (path_join pib_loc (slit "pib.db"), tpm_loc).
Proof. exact (default_keychain_known pib_loc tpm_loc). Qed.
Theorem C20_keychain_known_only pib tpm r :
  default_keychain pib tpm = Ok r ->
  fst (split_setting pib) = slit "pib-sqlite3" /\ fst (split_setting tpm) = slit "tpm-file" /\
  r = (path_join (snd (split_setting pib)) (slit "pib.db"), snd (split_setting tpm)).
Proof. exact (default_keychain_unknown pib tpm r). Qed.
Print Assumptions C20_keychain_known_only.

(* ---- T1 ties re-established on this run --------------------------------------------------------------------------- *)
Theorem C20_tie_platform (ex : str -> bool) :
  let P := linux_platform Generated.ConstsConf.home ex in
  client_conf_paths P = Generated.ConstsConf.client_conf_paths /\
  default_pib_scheme P = Generated.ConstsConf.default_pib_scheme /\
  default_pib_paths P = Generated.ConstsConf.default_pib_paths /\
  default_tpm_scheme P = Generated.ConstsConf.default_tpm_scheme /\
  default_tpm_paths P = Generated.ConstsConf.default_tpm_paths.
Proof. exact (platform_agree ex). Qed.
Theorem C20_tie_transport :
  map (fun ab => (ab, linux_default_transport (sock_fs (fst ab) (snd ab))))
      [(false, false); (false, true); (true, false); (true, true)] = Generated.ConstsConf.default_transport_table.
Proof. exact transport_agree. Qed.
Theorem C20_tie_keys :
  Generated.ConstsConf.conf_keys = [key_transport; key_pib; key_tpm] /\
  map env_name Generated.ConstsConf.conf_keys =
    map (fun k => Generated.ConstsConf.env_prefix ++ upper k) Generated.ConstsConf.conf_keys /\
  map env_name Generated.ConstsConf.conf_keys = [slit "NDN_CLIENT_TRANSPORT"; slit "NDN_CLIENT_PIB"; slit "NDN_CLIENT_TPM"].
Proof. exact keys_agree. Qed.
Theorem C20_tie_faces :
  Generated.ConstsConf.unix_face_default_path = unix_default_path /\
  Generated.ConstsConf.tcp_face_default_host = tcp_default_host /\
  Generated.ConstsConf.default_face_port = default_port /\
  Generated.ConstsConf.default_face_port = spec_default_port /\
  Generated.ConstsConf.udp_face_default_port = default_port /\
  Generated.ConstsConf.tcp_face_default_port = default_port.
Proof. exact face_consts_agree. Qed.
Theorem C20_tie_schemes :
  Generated.ConstsConf.default_face_schemes =
    [slit "tcp"; slit "tcp4"; slit "tcp6"; slit "udp"; slit "udp4"; slit "udp6"; slit "unix"] /\
  forallb (fun s => existsb (str_eqb s) Generated.ConstsConf.default_face_schemes) (map fst scheme_table) = true /\
  forallb (fun s => match scheme_kind s with Some _ => true | None => false end)
          Generated.ConstsConf.default_face_schemes = true.
Proof. exact schemes_agree. Qed.
Print Assumptions C20_tie_schemes.

(* ---- non-vacuity ---------------------------------------------------------------------------------------------------- *)
(* HOME=/home/u, NDN_CLIENT_TRANSPORT set; ~/.ndn/client.conf with a comment, a padded pib entry whose location
   is relative to the file, a blank line and a (losing) Transport entry; the default key directory exists *)
Example C20_example :
  let lines := [Comment [] ch_semi (slit " client configuration");
                Entry (slit "pib") (slit " ") ch_eq (slit " ") (slit "pib-sqlite3:stores/pib") [];
                Blank [];
                Entry (slit "Transport") [] ch_eq [] (slit "udp://file-host:2") []] in
  let fs := [slit "/home/u/.ndn/client.conf"; slit "/home/u/.ndn/stores/pib"; slit "/home/u/.ndn/ndnsec-key-file"] in
  let w := mk_world [(slit "HOME", slit "/home/u"); (slit "NDN_CLIENT_TRANSPORT", slit "tcp://[::1]:7")]
                    (fun p => existsb (str_eqb p) fs)
                    [(slit "/home/u/.ndn/client.conf", Ok (render lines))] (slit "/root") in
  wf_conf lines = true /\ get_path w = slit "/home/u/.ndn/client.conf" /\
  read_client_conf w = Ok (mk_conf (slit "tcp://[::1]:7") (slit "pib-sqlite3:/home/u/.ndn/stores/pib")
                                   (slit "tpm-file:/home/u/.ndn/ndnsec-key-file")) /\
  default_face (fun _ => false) (slit "tcp://[::1]:7") = Ok (FTcp (slit "::1") 7) /\
  default_face (fun _ => false) (slit "tcp://[::1]:7") =
    Ok (denoted_face KTcp (HV6 (slit "::1")) (Some (slit "7")) []) /\
  host_ok (HV6 (slit "::1")) = true /\ port_ok (Some (slit "7")) = true /\
  default_face (fun _ => false) (default_transport (the_platform w)) = Ok (FUnix (slit "/run/nfd/nfd.sock")).
Proof. vm_compute. repeat split; reflexivity. Qed.
