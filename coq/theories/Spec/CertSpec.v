(* Specification of an issued certificate (NDN certificate format v2), stated on the field values a reader
   extracts from the packet, addressed by Type number:

     Name            = key name / issuer id / version      (version: a Type-54 component holding an integer)
     MetaInfo        ContentType = KEY (2)
     Content         = the public key bits
     SignatureInfo   SignatureType and KeyLocator = those of the issuing signer
       ValidityPeriod  NotBefore / NotAfter = the requested instants, as UTC "YYYYMMDDTHHMMSS" (15 octets)
     SignatureValue  = what the issuer's signature primitive returns for Name .. SignatureInfo

   A validity timestamp is read strictly: 15 octets, digits and a 'T', a date that exists. *)
From NDN Require Import Base.Prelude Base.Text Model.TlvVar Model.Name Model.Tlv Model.Packet Model.Cert.
From NDN Require Import Generated.Schemas.
Local Open Scope N_scope.

(* ---- reading a validity timestamp -------------------------------------------------------------------------- *)
Definition days_in_month (y m : N) : N :=
  if m =? 2 then (if is_leap y then 29 else 28)
  else if (m =? 4) || (m =? 6) || (m =? 9) || (m =? 11) then 30 else 31.

(* the fields denote an existing date and time of day, year 1..9999 *)
Definition valid_bdt (t : bdt) : bool :=
  (1 <=? t_year t) && (t_year t <=? 9999) && (1 <=? t_mon t) && (t_mon t <=? 12) &&
  (1 <=? t_day t) && (t_day t <=? days_in_month (t_year t) (t_mon t)) &&
  (t_hour t <? 24) && (t_min t <? 60) && (t_sec t <? 60).

Definition dig (c : N) : N := c - 48.
Definition parse_validity (b : bytes) : option bdt :=
  match b with
  | [y1; y2; y3; y4; m1; m2; d1; d2; sep; h1; h2; i1; i2; s1; s2] =>
      if (sep =? 84) && forallb is_digit [y1; y2; y3; y4; m1; m2; d1; d2; h1; h2; i1; i2; s1; s2] then
        let t := {| t_year := dig y1 * 1000 + dig y2 * 100 + dig y3 * 10 + dig y4;
                    t_mon := dig m1 * 10 + dig m2; t_day := dig d1 * 10 + dig d2;
                    t_hour := dig h1 * 10 + dig h2; t_min := dig i1 * 10 + dig i2; t_sec := dig s1 * 10 + dig s2 |} in
        if valid_bdt t then Some t else None
      else None
  | _ => None
  end.

(* the instant a validity field denotes: seconds since 1970-01-01T00:00:00 UTC *)
Definition validity_instant (v : value) : option Z :=
  match v with
  | VBytes b => option_map bdt_to_secs (parse_validity b)
  | _ => None
  end.

(* ---- the certificate --------------------------------------------------------------------------------------- *)
Record issue_req := {
  q_key_name : list bytes;            (* the subject key name, component list *)
  q_issuer : bytes;                   (* issuer-id component *)
  q_pub : bytes;                      (* public key bits *)
  q_not_before : Z; q_not_after : Z;  (* requested instants, seconds since the epoch *)
  q_sig_type : value; q_key_locator : value   (* what the issuing signer is configured to announce *) }.

Definition inner (fs : list field) (v : value) (t : N) : value :=
  match v with VModel l => field_value fs l t | _ => VNone end.

(* a version component: Type 54 and a non-negative integer of width 1, 2, 4 or 8 *)
Definition is_version (c : bytes) : bool :=
  match comp_split c with
  | Ok (t, v) => (t =? 54) && ((length v =? 1) || (length v =? 2) || (length v =? 4) || (length v =? 8))%nat
  | Err _ => false
  end.

Definition name_shape_ok (key_name : list bytes) (issuer : bytes) (n : list bytes) : bool :=
  match skipn (length key_name) n with
  | [i; v] => name_eqb (firstn (length key_name) n) key_name && bytes_eqb i issuer && is_version v
  | _ => false
  end.

Definition flat_eqb (a b : value) : bool :=    (* SignatureType numbers; key locators that carry a name *)
  match a, b with
  | VNone, VNone => true
  | VUint x, VUint y => x =? y
  | VModel [VName x; VNone], VModel [VName y; VNone] => name_eqb x y
  | _, _ => false
  end.

Definition opt_z_eqb (o : option Z) (z : Z) : bool := match o with Some x => (x =? z)%Z | None => false end.

(* [vs]: the values of CertificateV2Value in descriptor order, as a reader returns them *)
Definition cert_fields_ok (q : issue_req) (vs : list value) : bool :=
  let fs := security_v2_CertificateV2Value in
  let info := field_value fs vs 22 in
  let vp := inner security_v2_CertificateV2SignatureInfo info 253 in
  match field_value fs vs 7 with VName n => name_shape_ok (q_key_name q) (q_issuer q) n | _ => false end
  && match inner ndn_format_0_3_MetaInfo (field_value fs vs 20) 24 with VUint ct => ct =? 2 | _ => false end
  && match field_value fs vs 21 with VBytes c => bytes_eqb c (q_pub q) | _ => false end
  && opt_z_eqb (validity_instant (inner security_v2_ValidityPeriod vp 254)) (q_not_before q)
  && opt_z_eqb (validity_instant (inner security_v2_ValidityPeriod vp 255)) (q_not_after q)
  && flat_eqb (inner security_v2_CertificateV2SignatureInfo info 27) (q_sig_type q)
  && flat_eqb (inner security_v2_CertificateV2SignatureInfo info 28) (q_key_locator q).

Definition signature_of (vs : list value) : value := field_value security_v2_CertificateV2Value vs 23.
