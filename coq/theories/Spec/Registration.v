(* Specification of prefix registration (C17), stated on what an observer sees: the log of
   calls entered, command Interests put on the face, replies and results ([obs], Model/Registerer.v).
   Every clause is a small automaton run over the log ([*_step], failure = None), so the same
   definitions are extracted and evaluated on the log recorded from the real NDNApp. *)
From NDN Require Import Base.Prelude Model.TlvVar Model.Name Model.Tlv Model.NfdMgmt Model.Registerer.
Local Open Scope N_scope.

Definition is_some {A} (o : option A) : bool := match o with Some _ => true | None => false end.
Definition check {S} (stp : option S -> obs -> option S) (i : S) (l : list obs) : option S :=
  fold_left stp l (Some i).

(* ---- (1) success iff the forwarder answers 200; every other reply: False, nothing raised --------- *)
(* the reply is a ControlResponse (TLV type 101, exactly one element, decodable by the generic TLV
   reader against the ControlResponse layout of the source) whose StatusCode is 200 *)
Definition status_200 (content : option bytes) : bool :=
  match content with
  | None => false
  | Some b =>
      match parse_and_check_tl b RESPONSE_TYPE with
      | Err _ => false
      | Ok v => match parse_model (depth_of CR) CR false v with
                | Ok (VUint n :: _) => n =? 200
                | _ => false
                end
      end
  end.

(* [validates]: the front-end validates replies, so a Data failing validation is a validation failure *)
Definition answers_200 (validates : bool) (r : reply) : bool :=
  match r with
  | RData c sig_ok => (sig_ok || negb validates) && status_200 c
  | RNack _ | RTimeout => false      (* a Nack is a failure whatever reason it carries *)
  end.

Definition outcome_ok (validates : bool) (o : obs) : bool :=
  match o with
  | ODone _ r (Ret b) => Bool.eqb b (answers_200 validates r)
  | ODone _ _ (Raise _) => false
  | _ => true
  end.
Definition outcomes_ok (validates : bool) (l : list obs) : bool := forallb (outcome_ok validates) l.
Definition never_raises (l : list obs) : bool :=
  forallb (fun o => match o with ODone _ _ (Raise _) => false | _ => true end) l.

(* ---- (2) one at a time: a command goes out only while no other command awaits its reply ---------- *)
(* state: the call whose command is outstanding *)
Definition serial_step (a : option (option nat)) (o : obs) : option (option nat) :=
  match a, o with
  | None, _ => None
  | Some None, OSend c => Some (Some (m_call c))
  | Some (Some _), OSend _ => None
  | Some (Some j), ODone id _ _ => if Nat.eqb id j then Some None else None
  | Some None, ODone _ _ _ => None
  | Some b, _ => Some b
  end.
Definition serial_ok (l : list obs) : bool := is_some (check serial_step None l).

(* ---- (3) strictly increasing command timestamps --------------------------------------------------- *)
(* state: the timestamp of the latest command *)
Definition ts_step (a : option (option N)) (o : obs) : option (option N) :=
  match a, o with
  | None, _ => None
  | Some None, OSend c => Some (Some (m_ts c))
  | Some (Some t), OSend c => if t <? m_ts c then Some (Some (m_ts c)) else None
  | Some b, _ => Some b
  end.
Definition timestamps_ok (l : list obs) : bool := is_some (check ts_step None l).

(* ---- (4) exactly one command per call, naming that call's verb and prefix ------------------------- *)
Definition kind_eqb (a b : kind) : bool :=
  match a, b with KReg, KReg | KUnreg, KUnreg => true | _, _ => false end.
(* state: per call (ids are handed out in order) its verb, prefix and whether its command went out *)
Definition percall_step (a : option (list (kind * name * bool))) (o : obs) : option (list (kind * name * bool)) :=
  match a, o with
  | None, _ => None
  | Some t, OCall id k nm _ => if Nat.eqb id (length t) then Some (t ++ [(k, nm, false)]) else None
  | Some t, OSend c =>
      match nth_error t (m_call c) with
      | Some (k, nm, false) =>
          if kind_eqb k (m_kind c) && name_eqb nm (m_prefix c) then Some (upd t (m_call c) (fun _ => (k, nm, true)))
          else None
      | _ => None
      end
  | Some t, ODone id _ _ =>
      match nth_error t id with Some (_, _, true) => Some t | _ => None end
  | Some t, _ => Some t
  end.
Definition percall_ok (l : list obs) : bool := is_some (check percall_step [] l).

(* ---- (5) routes are registered once per connection ------------------------------------------------- *)
(* state: the routes declared so far; the prefixes the starting task of the current connection has
   registered so far (None: no starting task is running) *)
Definition auto_step (a : option (list name * option (list name))) (o : obs) : option (list name * option (list name)) :=
  match a, o with
  | None, _ => None
  | Some (rs, cur), ORoute nm => Some (rs ++ [nm], cur)
  | Some (rs, None), OConnect => Some (rs, Some [])
  | Some (rs, Some _), OConnect => None
  | Some (rs, Some l), OCall _ KReg nm true => Some (rs, Some (l ++ [nm]))
  | Some (rs, _), OCall _ _ _ true => None
  | Some (rs, Some l), OStarted clean =>
      if clean && list_eqb name_eqb l rs then Some (rs, None) else None
  | Some (rs, None), OStarted _ => None
  | Some (rs, Some _), ODisconnect => None
  | Some b, _ => Some b
  end.
Definition autoreg_ok (l : list obs) : bool := is_some (check auto_step ([], None) l).

(* ---- what the shipped protocol records must say for the theorems to apply ---------------------------- *)
Definition ts_mode_ok (m : ts_mode) : bool :=
  match m with TsMax => true | TsLoop _ bump => bump | TsNone => false end.
Definition proto_ok (p : proto) : bool :=
  p_sem p && ts_mode_ok (p_ts p) && p_recorded p && p_checks p
  && match p_cmp p with CNe => true | _ => false end && (p_code p =? 200)
  && p_catch_decode p && p_catch_express p && p_body_optional p.
Definition frontend_ok (fe : kind -> proto) : Prop :=
  proto_ok (fe KReg) = true /\ proto_ok (fe KUnreg) = true /\ p_validates (fe KReg) = p_validates (fe KUnreg).
