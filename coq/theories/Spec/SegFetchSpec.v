(* Specification for C19 (segmented fetch).  Readable on its own: a published object, a network
   that loses / nacks / corrupts individual Interests, and what a correct consumer must deliver.

   A *scenario* is
     - an object of [nseg] published segments; segment i is the Data named  base/seg=i  carrying
       [content i] and the FinalBlockId [marker i] (None = absent; it may be any component, also one
       that designates another segment or is encoded non-canonically);
     - the answer to the discovery Interest (CanBePrefix, name [prefix]): segment k of the object, or
       an unsegmented Data;
     - for every key (the discovery Interest, the Interest for segment i) and every n, the fate of
       the n-th Interest sent for that key: lost, nacked, answered by Data that fails validation,
       or delivered.
   A segment is *designated final* when it carries its own name component as FinalBlockId. *)
From NDN Require Import Base.Prelude Model.TlvVar Model.Name Model.SegFetch.
Local Open Scope nat_scope.

Record object := mkObj {
  base : name;
  nseg : nat;
  content : nat -> bytes;
  marker : nat -> option bytes }.

Inductive discovery :=
| DSeg (k : nat)                                   (* the first response is segment k *)
| DWhole (nm : name) (c : bytes) (m : option bytes). (* an unsegmented Data named nm *)

Inductive key := KDisc | KSeg (i : nat).
Inductive fate := Lost | Nacked | Invalid | Delivered.

Record scenario := mkScn {
  obj : object;
  prefix : name;
  disc : discovery;
  fate_of : key -> nat -> fate }.

(* the canonical segment component seg=i and the name of segment i *)
Definition seg_comp (i : nat) : bytes := comp_enc TYPE_SEGMENT (nni_enc (N.of_nat i)).
Definition seg_name (ob : object) (i : nat) : name := base ob ++ [seg_comp i].
Definition is_final (ob : object) (i : nat) : bool := fb_eq (marker ob i) (seg_comp i).

(* ---- the producer + network as an oracle for the consumer --------------------------------- *)

Definition data := (name * bytes * option bytes)%type.       (* Data name, content, FinalBlockId *)
Definition rdata (d : data) : response := RData (fst (fst d)) (snd (fst d)) (snd d).
Definition seg_data (ob : object) (i : nat) : data := (seg_name ob i, content ob i, marker ob i).

Definition key_of (S : scenario) (rq : request) : option key :=
  if rq_cbp rq then (if name_eqb (rq_name rq) (prefix S) then Some KDisc else None)
  else option_map KSeg (find (fun i => name_eqb (seg_name (obj S) i) (rq_name rq)) (seq 0 (nseg (obj S)))).

Definition data_of (S : scenario) (k : key) : data :=
  match k with
  | KSeg i => seg_data (obj S) i
  | KDisc => match disc S with DSeg k => seg_data (obj S) k | DWhole nm c m => (nm, c, m) end
  end.

(* an Interest nobody can answer times out *)
Definition oracle_of (S : scenario) : oracle := fun rq n =>
  match key_of S rq with
  | None => RExc XTimeout
  | Some k =>
      match fate_of S k n with
      | Lost => RExc XTimeout
      | Nacked => RExc XNack
      | Invalid => RExc XValFail
      | Delivered => rdata (data_of S k)
      end
  end.

(* ---- what the consumer must deliver -------------------------------------------------------- *)

(* one key, at most [attempts] Interests: the first one that is not lost decides *)
Inductive key_result := KExhausted | KFailed (x : exc) | KAnswered.
Fixpoint burst (f : nat -> fate) (n attempts : nat) : key_result :=
  match attempts with
  | O => KExhausted
  | S a =>
      match f n with
      | Lost => burst f (S n) a
      | Nacked => KFailed XNack
      | Invalid => KFailed XValFail
      | Delivered => KAnswered
      end
  end.
(* retry_times is the number of attempts; at least one Interest is always sent *)
Definition attempts_of (retry : nat) : nat := Nat.max 1 retry.
Definition result_of (S : scenario) (retry : nat) (k : key) : key_result :=
  burst (fate_of S k) 0 (attempts_of retry).

(* fetch the segments listed in [idx] one after the other; running past the last published
   segment means asking for a segment that does not exist *)
Fixpoint walk (S : scenario) (retry : nat) (idx : list nat) : list bytes * ending :=
  match idx with
  | [] => ([], Raised XTimeout)
  | i :: r =>
      match result_of S retry (KSeg i) with
      | KExhausted => ([], Raised XTimeout)
      | KFailed x => ([], Raised x)
      | KAnswered =>
          if is_final (obj S) i then ([content (obj S) i], Completed)
          else let '(ys, e) := walk S retry r in (content (obj S) i :: ys, e)
      end
  end.

Definition expected (S : scenario) (retry : nat) : list bytes * ending :=
  match result_of S retry KDisc with
  | KExhausted => ([], Raised XTimeout)
  | KFailed x => ([], Raised x)
  | KAnswered =>
      match disc S with
      | DWhole _ c _ => ([c], Completed)
      | DSeg O =>
          if is_final (obj S) 0 then ([content (obj S) 0], Completed)
          else let '(ys, e) := walk S retry (seq 1 (nseg (obj S) - 1)) in (content (obj S) 0 :: ys, e)
      | DSeg _ => walk S retry (seq 0 (nseg (obj S)))
      end
  end.

(* ---- what the producer must see ------------------------------------------------------------ *)

(* Interests one key receives: up to and including the first that is not lost, at most [attempts] *)
Fixpoint burst_len (f : nat -> fate) (n attempts : nat) : nat :=
  match attempts with
  | O => O
  | S a => match f n with Lost => S (burst_len f (S n) a) | _ => 1 end
  end.
Definition seg_req (S : scenario) (cfg : config) (i : nat) : request := mk_req cfg (seg_name (obj S) i) false.
Definition disc_req (S : scenario) (cfg : config) : request := mk_req cfg (prefix S) true.
Definition asks_for (S : scenario) (cfg : config) (k : key) (rq : request) : list request :=
  repeat rq (burst_len (fate_of S k) 0 (attempts_of (retry_times cfg))).

(* segments i, i+1, …, i+len-1, then the Interest for the segment that does not exist *)
Fixpoint walk_asks (S : scenario) (cfg : config) (i len : nat) : list request :=
  match len with
  | O => repeat (seg_req S cfg i) (attempts_of (retry_times cfg))
  | Datatypes.S l =>
      asks_for S cfg (KSeg i) (seg_req S cfg i) ++
      match result_of S (retry_times cfg) (KSeg i) with
      | KAnswered => if is_final (obj S) i then [] else walk_asks S cfg (Datatypes.S i) l
      | _ => []
      end
  end.

Definition expected_asks (S : scenario) (cfg : config) : list request :=
  asks_for S cfg KDisc (disc_req S cfg) ++
  match result_of S (retry_times cfg) KDisc with
  | KAnswered =>
      match disc S with
      | DWhole _ _ _ => []
      | DSeg O => if is_final (obj S) 0 then [] else walk_asks S cfg 1 (nseg (obj S) - 1)
      | DSeg _ => walk_asks S cfg 0 (nseg (obj S))
      end
  | _ => []
  end.

(* ---- vocabulary of the headline theorems --------------------------------------------------- *)

(* the object has N >= 1 segments and exactly the last one is designated final *)
Definition well_marked (ob : object) : Prop :=
  1 <= nseg ob /\ is_final ob (nseg ob - 1) = true /\ forall i, i < nseg ob - 1 -> is_final ob i = false.

(* the discovery answer is one of the object's segments, or a Data whose last component is not a segment *)
Definition wf_scenario (S : scenario) : Prop :=
  (N.of_nat (nseg (obj S)) < two64)%N /\
  match disc S with
  | DSeg k => k < nseg (obj S)
  | DWhole nm _ _ => exists t, (do c <- last_comp nm ;; comp_get_type c) = Ok t /\ t <> TYPE_SEGMENT
  end.

(* the keys a fetch has to obtain: the discovery Interest, then the segments from [first_needed]
   on in increasing order (segment 0 comes with the discovery answer when that answer is segment 0) *)
Definition first_needed (S : scenario) : nat := match disc S with DSeg O => 1 | _ => 0 end.
Definition needed (S : scenario) (k : key) : Prop :=
  match k with
  | KDisc => True
  | KSeg i => match disc S with DWhole _ _ _ => False | DSeg _ => first_needed S <= i < nseg (obj S) end
  end.
(* the contents a consumer has received when it is about to ask for key k *)
Definition contents_before (S : scenario) (k : key) : list bytes :=
  match k with KDisc => [] | KSeg j => map (content (obj S)) (seq 0 j) end.
Definition all_contents (S : scenario) : list bytes :=
  match disc S with DWhole _ c _ => [c] | DSeg _ => map (content (obj S)) (seq 0 (nseg (obj S))) end.
(* key k' is asked before key k *)
Definition before (k' k : key) : Prop :=
  match k', k with
  | KDisc, KSeg _ => True
  | KSeg i, KSeg j => i < j
  | _, KDisc => False
  end.

(* "lost fewer than retry_times times in a row, then delivered" *)
Definition tolerable (S : scenario) (retry : nat) (k : key) : Prop := result_of S retry k = KAnswered.
Definition tolerable_explicit (S : scenario) (retry : nat) (k : key) : Prop :=
  exists j, j < attempts_of retry /\ fate_of S k j = Delivered /\ forall j', j' < j -> fate_of S k j' = Lost.
Definition exhausted (S : scenario) (retry : nat) (k : key) : Prop :=
  forall j, j < attempts_of retry -> fate_of S k j = Lost.
Definition no_faults (S : scenario) : Prop := forall k n, fate_of S k n = Lost \/ fate_of S k n = Delivered.
Definition exc_of (r : key_result) : exc := match r with KFailed x => x | _ => XTimeout end.
