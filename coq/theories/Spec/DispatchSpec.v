(* Specification for C04: what an application may rely on, without any table structure.

   The handler table is a partial function  prefix -> handler.
     attach p h   refused (ValueError) when p is occupied, otherwise p |-> h
     detach p     KeyError when p is free, otherwise p is freed; nothing else changes
     an Interest named n goes to the handler of the longest occupied prefix of n, to nobody when no
       prefix of n is occupied; it is invoked once, when the loop next runs
     reply at time t is transmitted iff t <= arrival + lifetime and the face is up at that moment; the
       callback tells the application exactly that fact: it reports "sent" (returns True) iff the Data
       went out on the face -- when nothing went out it returns False or raises NetworkError           *)
From NDN Require Import Base.Prelude Model.Name Model.Dispatch.
Local Open Scope N_scope.

Definition amap := name -> option N.
Definition a_empty : amap := fun _ => None.
Definition a_upd (a : amap) (p : name) (v : option N) : amap :=
  fun q => if name_eqb q p then v else a q.

Definition prefix (p n : name) : Prop := exists r, n = p ++ r.

(* p |-> h is the longest occupied prefix of n *)
Definition is_lpm {X} (a : name -> option X) (n p : name) (h : X) : Prop :=
  a p = Some h /\ prefix p n /\
  forall p' h', a p' = Some h' -> prefix p' n -> (length p' <= length p)%nat.

(* executable form: try the prefixes of n from the longest to the shortest *)
Fixpoint inits {A} (l : list A) : list (list A) :=
  [] :: match l with [] => [] | x :: r => map (cons x) (inits r) end.
Fixpoint first_some {A B} (f : A -> option B) (l : list A) : option B :=
  match l with [] => None | x :: r => match f x with Some y => Some y | None => first_some f r end end.
Definition s_lookup (a : amap) (n : name) : option (name * N) :=
  first_some (fun p => match a p with Some h => Some (p, h) | None => None end) (rev (inits n)).

(* reply: transmitted iff the lifetime has not elapsed; the return value says which *)
Definition s_reply_sent (deadline now : N) : bool := now <=? deadline.
(* ... and nothing can be transmitted over a face that is down (connection lost / shut down, possibly
   between the delivery of the Interest and the reply) *)
Definition s_reply_out (deadline now : N) (up : bool) : bool := s_reply_sent deadline now && up.

Record sst := mk_sst { ss_att : amap; ss_pending : list call; ss_calls : list call }.
Definition sst0 : sst := mk_sst a_empty [] [].

(* specification-level events: handlers are real callables *)
Inductive sop :=
| SAttach (p : name) (h : N)
| SDetach (p : name)
| SRecv (n : name) (life : option N) (now : N)
| SSettle
| SReply (i : nat) (now : N) (up : bool)   (* up: the state of the face when reply is called *)
| SDisconnect.

Inductive sobs :=
| SoOk | SoRefused | SoKeyError | SoNothing
| SoCalls (l : list call)
| SoDispatch (b : bool) (l : list call)
| SoReply (sent : bool) (reported : bool)   (* reported: the callback told the application "sent" *)
| SoNoSuchCall.

Definition sstep (fe : frontend) (s : sst) (o : sop) : sst * sobs :=
  match o with
  | SAttach p h =>
      match ss_att s p with
      | Some _ => (s, SoRefused)
      | None => (mk_sst (a_upd (ss_att s) p (Some h)) (ss_pending s) (ss_calls s), SoOk)
      end
  | SDetach p =>
      match ss_att s p with
      | None => (s, SoKeyError)
      | Some _ => (mk_sst (a_upd (ss_att s) p None) (ss_pending s) (ss_calls s), SoOk)
      end
  | SRecv n life now =>
      let hit := match s_lookup (ss_att s) n with
                 | Some (_, h) => [mk_call h n (deadline_of fe life now)]
                 | None => []
                 end in
      match fe with
      | FE_Disp => (mk_sst (ss_att s) (ss_pending s) (ss_calls s ++ hit),
                    SoDispatch (match hit with [] => false | _ => true end) hit)
      | _ => (mk_sst (ss_att s) (ss_pending s ++ hit) (ss_calls s), SoNothing)
      end
  | SSettle => (mk_sst (ss_att s) [] (ss_calls s ++ ss_pending s), SoCalls (ss_pending s))
  | SReply i now up =>
      match nth_error (ss_calls s) i with
      | None => (s, SoNoSuchCall)
      | Some c => let sent := s_reply_out (c_deadline c) now up in (s, SoReply sent sent)
      end
  | SDisconnect =>
      match fe with
      | FE_V1 => (mk_sst a_empty (ss_pending s) (ss_calls s), SoOk)   (* v1 forgets its filters *)
      | _ => (s, SoOk)
      end
  end.

Fixpoint srun_from (fe : frontend) (s : sst) (l : list sop) : sst * list sobs :=
  match l with
  | [] => (s, [])
  | o :: r => let '(s1, b) := sstep fe s o in let '(s2, bs) := srun_from fe s1 r in (s2, b :: bs)
  end.
Definition srun (fe : frontend) (l : list sop) : sst * list sobs := srun_from fe sst0 l.

(* ---- reading the model through the specification's eyes ------------------------------------- *)
(* the handler attached at prefix p in a table of the model *)
Definition attached (t : fib) (p : name) : option N :=
  match Trie.t_get t p with Some node => pn_cb node | None => None end.

(* histories the specification talks about: handlers are callables (not None) *)
Definition wf_op (o : op) : Prop := match o with OAttach _ None _ _ => False | _ => True end.

(* ... and, for the event-by-event comparison, replies are made through a v2 handler's callback (the
   face may be up or down at that moment) *)
Definition sop_of (fe : frontend) (o : op) : option sop :=
  match o with
  | OAttach k (Some h) _ _ => Some (SAttach k h)
  | OAttach _ None _ _ => None
  | ODetach k => Some (SDetach k)
  | ORecv n life now => Some (SRecv n life now)
  | OSettle => Some SSettle
  | OReply i now running => match fe with FE_V2 => Some (SReply i now running) | _ => None end
  | OCleanUp => Some SDisconnect
  end.
Fixpoint sops_of (fe : frontend) (l : list op) : option (list sop) :=
  match l with
  | [] => Some []
  | o :: r => match sop_of fe o, sops_of fe r with Some x, Some xs => Some (x :: xs) | _, _ => None end
  end.

(* what the application sees of a model observation *)
Definition abs_obs (o : obs) : option sobs :=
  match o with
  | ObOk => Some SoOk
  | ObErr EValue => Some SoRefused
  | ObErr EKey => Some SoKeyError
  | ObErr EIndex => Some SoNoSuchCall
  | ObErr (EOther 1) => Some (SoReply false false)   (* E_NETWORK out of reply(): nothing sent, "sent" not reported *)
  | ObErr _ => None
  | ObRecv _ => Some SoNothing
  | ObCalls l => Some (SoCalls l)
  | ObDispatch b l => Some (SoDispatch b l)
  | ObReply sent r => Some (SoReply sent (match r with RTrue => true | _ => false end))
  end.
