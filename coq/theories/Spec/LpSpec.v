(* C10 specification — what an NDNLPv2 envelope means, read directly off its elements.

     LpPacket  = 0x64 LENGTH  header*  [0x50 LENGTH network-packet]
     PitToken  = 0x62 LENGTH bytes         (an empty token is a token)
     Nack      = 0x0320 LENGTH [0x0321 LENGTH nonNegativeInteger]     (no NackReason = reason 0)
     FragIndex = 0x52, FragCount = 0x53    (fragmentation: not supported, such envelopes are refused)
     any other header is to be ignored.

   The reading is deliberately independent of TlvModel.parse and of the order of the headers: the first
   element of each Type counts.  [SUnspec] = the bytes are not a well-formed envelope in the sense below;
   the property says nothing about them (C07 does). *)
From NDN Require Import Base.Prelude Model.TlvVar Model.Tlv Spec.StrictTlv.
Local Open Scope N_scope.

Definition T_LP_PACKET : N := 100.      (* 0x64 *)
Definition T_FRAGMENT : N := 80.        (* 0x50 *)
Definition T_FRAG_INDEX : N := 82.      (* 0x52 *)
Definition T_FRAG_COUNT : N := 83.      (* 0x53 *)
Definition T_PIT_TOKEN : N := 98.       (* 0x62 *)
Definition T_NACK : N := 800.           (* 0x0320 *)
Definition T_NACK_REASON : N := 801.    (* 0x0321 *)

Inductive spec_result :=
| SUnspec                                            (* not a well-formed envelope *)
| SReject                                            (* fragmented: must be dropped *)
| SIdle                                              (* no network packet inside: nothing happens *)
| SNack (reason : N) (interest : bytes)              (* the Interests named by [interest] complete with [reason] *)
| SPacket (typ : N) (token : option bytes) (pkt : bytes).   (* exactly as [pkt] received bare, plus the token *)

Definition first_of (t : N) (els : list elem) : option bytes :=
  option_map e_payload (find (fun e => e_type e =? t) els).
Definition has (t : N) (els : list elem) : bool := existsb (fun e => e_type e =? t) els.

Definition nni (p : bytes) : option N :=
  let l := length p in
  if Nat.eqb l 1 || Nat.eqb l 2 || Nat.eqb l 4 || Nat.eqb l 8 then Some (be_to_N p) else None.

(* Some None: no Nack header; Some (Some r): Nack with reason r; None: malformed header *)
Definition spec_nack (els : list elem) : option (option N) :=
  match first_of T_NACK els with
  | None => Some None
  | Some p =>
      match strict_split p with
      | Some [] => Some (Some 0)
      | Some [e] => if e_type e =? T_NACK_REASON then option_map Some (nni (e_payload e)) else None
      | _ => None
      end
  end.

(* the value part of a whole element of Type [t] *)
Definition whole (t : N) (w : bytes) : option bytes :=
  match strict_split w with
  | Some [e] => if e_type e =? t then Some (e_payload e) else None
  | _ => None
  end.

Definition spec_envelope (w : bytes) : spec_result :=
  match whole T_LP_PACKET w with
  | None => SUnspec
  | Some v =>
      match strict_split v with
      | None => SUnspec
      | Some els =>
          if has T_FRAG_INDEX els || has T_FRAG_COUNT els then SReject
          else match spec_nack els with
               | None => SUnspec
               | Some nack =>
                   match first_of T_FRAGMENT els with
                   | None | Some [] => SIdle
                   | Some pkt =>
                       match tl_dec pkt with
                       | Err _ => SIdle          (* not even a Type number: no network packet *)
                       | Ok (t, _) =>
                           match nack with
                           | Some r => SNack r pkt
                           | None => SPacket t (first_of T_PIT_TOKEN els) pkt
                           end
                       end
                   end
               end
      end
  end.

(* what the application front-end must do with (typ, data) handed over by the face *)
Definition spec_receive (typ : N) (data : bytes) : spec_result :=
  if typ =? T_LP_PACKET then spec_envelope data else SPacket typ None data.

(* what must be put on the face when a reply [data] is sent for an Interest that arrived with [token] *)
Definition spec_reply_wire (token : option bytes) (data : bytes) : bytes :=
  match token with
  | None => data
  | Some k => tlv T_LP_PACKET (tlv T_PIT_TOKEN k ++ tlv T_FRAGMENT data)
  end.

(* the Nack envelope for [interest] with [reason] *)
Definition spec_nack_wire (interest : bytes) (reason : N) : bytes :=
  tlv T_LP_PACKET (tlv T_NACK (tlv T_NACK_REASON (nni_enc reason)) ++ tlv T_FRAGMENT interest).
