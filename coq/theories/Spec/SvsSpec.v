(* Specification for C18 (state-vector sync).  No implementation detail.

   A state vector is a finite map from node ids to sequence numbers, absent = 0.  It is
   represented by a list of pairs that is only ever read through [vget]; everything below is
   characterised pointwise (Proofs/SvsSpecFacts.v: [pmax_get], [newerb_spec], [denote_get]...). *)
From NDN Require Import Base.Prelude.
Local Open Scope N_scope.

Definition id := bytes.
Definition vec := list (id * N).

Fixpoint vget (v : vec) (k : id) : N :=
  match v with [] => 0 | (k', x) :: r => if bytes_eqb k k' then x else vget r k end.
Definition keys (v : vec) : list id := map fst v.

Definition veq (a b : vec) : Prop := forall k, vget a k = vget b k.
Definition vle (a b : vec) : Prop := forall k, vget a k <= vget b k.

(* entry-wise maximum *)
Definition pmax (a b : vec) : vec := map (fun k => (k, N.max (vget a k) (vget b k))) (keys a ++ keys b).
(* [a] is newer than [b] in some entry *)
Definition newer (a b : vec) : Prop := exists k, vget b k < vget a k.
Definition newerb (a b : vec) : bool := existsb (fun k => vget b k <? vget a k) (keys a).

(* A received vector as decoded from the wire: entries in wire order; an entry may lack the node
   name (it then says nothing) or the sequence number (the vector is then malformed). *)
Definition wentry := (option id * option N)%type.
Definition wire := list wentry.

Definition well_formed (w : wire) : Prop := forall k, ~ In (Some k, None) w.
Definition well_formedb (w : wire) : bool :=
  forallb (fun e => match e with (Some _, None) => false | _ => true end) w.

(* the map a well-formed wire vector denotes: successive assignment (a repeated id: last wins) *)
Fixpoint assign (v : vec) (k : id) (x : N) : vec :=
  match v with
  | [] => [(k, x)]
  | (k', y) :: r => if bytes_eqb k k' then (k', x) :: r else (k', y) :: assign r k x
  end.
Definition denote (w : wire) : vec :=
  fold_left (fun acc e => match e with (Some k, Some x) => assign acc k x | _ => acc end) w [].

(* the vector claims more data of node [self] than [self] has produced (any entry does) *)
Definition overclaims (self : id) (seq : N) (w : wire) : Prop := exists q, In (Some self, Some q) w /\ seq < q.
Definition overclaimsb (self : id) (seq : N) (w : wire) : bool :=
  existsb (fun e => match e with (Some k, Some q) => bytes_eqb k self && (seq <? q) | _ => false end) w.

Definition accepted (self : id) (seq : N) (w : wire) : Prop := well_formed w /\ ~ overclaims self seq w.
Definition acceptedb (self : id) (seq : N) (w : wire) : bool := well_formedb w && negb (overclaimsb self seq w).

(* the vector raises some entry of [loc] *)
Definition raises (loc : vec) (w : wire) : Prop := exists k, vget loc k < vget (denote w) k.

(* ---- local vector over a history ----------------------------------------------------------
   what the local vector and the own sequence number must be after a history of received
   vectors ([HRecv], accepted or not) and publications *)
Inductive hev := HRecv (w : wire) | HPublish | HOther.
Definition spec_step (self : id) (ls : vec * N) (e : hev) : vec * N :=
  match e with
  | HRecv w => if acceptedb self (snd ls) w then (pmax (fst ls) (denote w), snd ls) else ls
  | HPublish => (assign (fst ls) self (snd ls + 1), snd ls + 1)
  | HOther => ls
  end.
Definition spec_run (self : id) (ls : vec * N) (h : list hev) : vec * N := fold_left (spec_step self) h ls.

(* ---- suppression window -------------------------------------------------------------------
   Observation of one event: the accepted vector it delivered (if any) and whether the instance is
   in suppression after it.  The window is the maximal run of events after which the instance is
   in suppression; [heard] is the entry-wise maximum of the accepted vectors received in it,
   including the one that opened it.  (When suppression is entered is not specified here.) *)
Definition obs := (option vec * bool)%type.
Definition heard_step (cur : option vec) (o : obs) : option vec :=
  if snd o then
    match fst o with
    | Some v => Some (match cur with Some h => pmax h v | None => v end)
    | None => cur
    end
  else None.
Definition heard (tr : list obs) : option vec := fold_left heard_step tr None.
