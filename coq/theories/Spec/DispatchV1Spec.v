(* Specification of the registration API of the legacy front-end, as far as the question "who receives an
   Interest" goes (continues Spec/DispatchSpec.v; the commands themselves are Spec/Registration.v, C17).

     register p (Some h)   attaches h at p exactly as attach does (refused when p is occupied)
     register p None       tells the forwarder only: NO handler is attached, detached or hidden -- every
                           Interest goes where it went before
     unregister p          p is free afterwards, whether or not a handler was attached there; nothing else
                           changes; it is never an error
   Whatever the forwarder answers (or does not answer) changes nothing in the table.                  *)
From NDN Require Import Base.Prelude Model.Name Model.Dispatch Spec.DispatchSpec Model.DispatchV1.
Local Open Scope N_scope.

Inductive svop :=
| SVBase (o : sop)
| SRegister (p : name) (h : option N)
| SUnregister (p : name).

Definition svstep (fe : frontend) (s : sst) (o : svop) : sst * sobs :=
  match o with
  | SVBase o => sstep fe s o
  | SRegister p None => (s, SoOk)
  | SRegister p (Some h) => sstep fe s (SAttach p h)
  | SUnregister p => (mk_sst (a_upd (ss_att s) p None) (ss_pending s) (ss_calls s), SoOk)
  end.

Fixpoint svrun_from (fe : frontend) (s : sst) (l : list svop) : sst * list sobs :=
  match l with
  | [] => (s, [])
  | o :: r => let '(s1, b) := svstep fe s o in let '(s2, bs) := svrun_from fe s1 r in (s2, b :: bs)
  end.
Definition svrun (fe : frontend) (l : list svop) : sst * list sobs := svrun_from fe sst0 l.

(* histories the specification talks about *)
Definition wf_vop (o : vop) : Prop := match o with VBase o => wf_op o | _ => True end.

Definition svop_of (fe : frontend) (o : vop) : option svop :=
  match o with
  | VBase o => option_map SVBase (sop_of fe o)
  | VRegister k h _ _ => Some (SRegister k h)
  | VUnregister k => Some (SUnregister k)
  end.
Fixpoint svops_of (fe : frontend) (l : list vop) : option (list svop) :=
  match l with
  | [] => Some []
  | o :: r => match svop_of fe o, svops_of fe r with Some x, Some xs => Some (x :: xs) | _, _ => None end
  end.
