(* Light VerSec: what matching a *binary model* means (docs/src/lvs/binary-format.rst, "Node" and
   "Constraint"): a name matches node [n] with context [c'] iff there is a path from the start node
   to [n] whose edges are satisfied by the components of the name, left to right.
   - a ValueEdge is satisfied by a component equal to its value (the first such edge of a node is
     the one taken, value edges before pattern edges);
   - a PatternEdge is satisfied if every constraint has an option that holds (CNF) and, when its
     tag is already bound, the component equals the binding; a named tag (<= NamedPatternCnt) that
     is not bound yet gets bound.
   No stack, no edge indices, no backtracking. *)
From NDN Require Import Base.Prelude Base.Text Model.LvsAst.
Local Open Scope N_scope.

Definition tctx := list (N * bytes).

Section Tree.
  Variable ufn : ident -> option (bytes -> list (option bytes) -> res bool).
  Variable m : lvsmodel.

  Definition tget (c : tctx) (t : N) : option bytes := al_get N.eqb c t.

  Definition targ (c : tctx) (a : ufarg) : option bytes :=
    match ua_tag a with
    | Some t => match tget c t with Some v => Some v | None => ua_value a end
    | None => ua_value a
    end.

  (* one option holds for component [v] *)
  Definition option_true (v : bytes) (c : tctx) (op : copt) : Prop :=
    match co_value op, co_tag op, co_fn op with
    | Some x, _, _ => v = x
    | None, Some t, _ => tget c t = Some v
    | None, None, Some fn => exists fid g, uf_id fn = Some fid /\ ufn fid = Some g /\ g v (map (targ c) (uf_args fn)) = Ok true
    | None, None, None => False
    end.

  Definition cnf_true (v : bytes) (c : tctx) (cs : list pcons) : Prop :=
    Forall (fun k => Exists (option_true v c) k) cs.

  Definition is_named (t : N) : Prop := exists k, m_npc m = Some k /\ t <= k.

  (* crossing pattern edge [pe] with component [v]: context c becomes c' *)
  Definition pedge_pass (pe : pedge) (v : bytes) (c c' : tctx) : Prop :=
    exists t, pe_tag pe = Some t /\ cnf_true v c (pe_cons pe) /\
      match tget c t with
      | Some w => v = w /\ c' = c
      | None => (is_named t /\ c' = c ++ [(t, v)]) \/ (~ is_named t /\ c' = c)
      end.

  (* the value edge taken for component [v]: the first one carrying that value *)
  Definition vedge_taken (nd : node) (v : bytes) (ve : vedge) : Prop :=
    find (fun e => match ve_value e with Some x => bytes_eqb v x | None => false end) (n_vedges nd) = Some ve.

  Inductive path : N -> list bytes -> tctx -> N -> tctx -> Prop :=
  | path_end cur nd c : get_node m cur = Some nd -> path cur [] c cur c
  | path_value cur nd v rest c ve d n c' :
      get_node m cur = Some nd -> vedge_taken nd v ve -> ve_dest ve = Some d ->
      path d rest c n c' -> path cur (v :: rest) c n c'
  | path_pattern cur nd v rest c pe d c1 n c' :
      get_node m cur = Some nd -> In pe (n_pedges nd) -> pedge_pass pe v c c1 -> pe_dest pe = Some d ->
      path d rest c1 n c' -> path cur (v :: rest) c n c'.

  (* a name matches node n with context c', starting from context c *)
  Definition tree_match (name : list bytes) (c : tctx) (n : N) (c' : tctx) : Prop :=
    exists s, m_start m = Some s /\ path s name c n c'.
End Tree.
