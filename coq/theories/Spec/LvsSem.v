(* Light VerSec: what a schema MEANS, written on the source AST (docs/src/lvs/lvs.rst) with no
   tree, no pattern numbering, no merging; and what a well-formed binary model is
   (docs/src/lvs/binary-format.rst, "Sanity Check").

   1. [expand]: a rule definition is flattened to chains: pick one of its constraint sets, replace
      every rule reference by a chain of any definition of that rule.  A chain is a list of
      literals / named patterns / temporary patterns (each temporary carries the constraints
      written for it in its own definition) plus the constraints on named patterns collected from
      every level ("inherited" and "added").
   2. [chain_match]: a chain is matched against a name left to right.  A named pattern, the first
      time it occurs in this name, must satisfy every constraint on it w.r.t. the bindings made so
      far (and equal its binding if the packet name already bound it); later occurrences must equal
      the binding.  A temporary pattern binds nothing; every occurrence is subject to its constraints.
   3. [sem] / [can_sign]; trailing implicit-digest components are ignored.
   4. [sane]: the documented loader rules, for the nodes reachable from the start node.
   5. [static_ok]: the documented static errors of a schema.                                        *)
From NDN Require Import Base.Prelude Base.Text Model.TlvVar Model.Name Model.LvsAst.
Local Open Scope N_scope.

Definition env := list (ident * bytes).        (* bindings of named patterns, in binding order *)

Section Sem.
  (* user functions: None = not supplied *)
  Variable ufn : ident -> option (bytes -> list (option bytes) -> res bool).

  (* ---- constraints ------------------------------------------------------------------------- *)
  Definition arg_val (e : env) (a : arg) : option bytes :=
    match a with ALit c => Some c | APat p => al_get ident_eqb e p end.

  Definition opt_holds (e : env) (v : bytes) (o : opt) : bool :=
    match o with
    | OLit c => bytes_eqb v c
    | OPat p => match al_get ident_eqb e p with Some w => bytes_eqb v w | None => false end
    | OFn f args =>
        match ufn f with
        | Some g => match g v (map (arg_val e) args) with Ok b => b | Err _ => false end
        | None => false
        end
    end.

  (* every constraint is satisfied by one of its options *)
  Definition cons_hold (e : env) (v : bytes) (cs : list (list opt)) : bool :=
    forallb (existsb (opt_holds e v)) cs.

  (* ---- 1. flattening ------------------------------------------------------------------------ *)
  Inductive fcomp := FLit (c : bytes) | FNamed (p : ident) | FTemp (cs : list (list opt)).
  Record flat := { f_comps : list fcomp; f_ncons : list tagcons }.

  Definition cons_on (p : ident) (cs : list tagcons) : list (list opt) :=
    map tc_opts (filter (fun tc => ident_eqb (tc_pat tc) p) cs).

  (* the alternatives "& {..} | {..}"; a rule without constraints has the empty set *)
  Definition choices (d : rule) : list (list tagcons) :=
    match r_cons d with [] => [[]] | l => l end.

  Definition defs_of (S : lvsfile) (r : ident) : list rule := filter (fun d => ident_eqb (r_id d) r) S.

  Fixpoint product {A} (l : list (list A)) : list (list A) :=
    match l with
    | [] => [[]]
    | alts :: r => flat_map (fun a => map (cons a) (product r)) alts
    end.

  (* [fuel] bounds the depth of rule references; [ref_fuel S] is enough for a schema without cyclic references *)
  Fixpoint expand (fuel : nat) (S : lvsfile) (d : rule) : list flat :=
    match fuel with
    | O => []
    | Datatypes.S k =>
        flat_map (fun cs =>
          map (fun parts => {| f_comps := concat (map f_comps parts);
                               f_ncons := filter (fun tc => negb (is_temp_pat (tc_pat tc))) cs
                                          ++ concat (map f_ncons parts) |})
              (product (map (fun c =>
                         match c with
                         | CLit v => [{| f_comps := [FLit v]; f_ncons := [] |}]
                         | CPat p => if is_temp_pat p then [{| f_comps := [FTemp (cons_on p cs)]; f_ncons := [] |}]
                                     else [{| f_comps := [FNamed p]; f_ncons := [] |}]
                         | CRef r => flat_map (expand k S) (defs_of S r)
                         end) (r_name d))))
          (choices d)
    end.

  (* ---- 2. matching one chain ------------------------------------------------------------------ *)
  Definition imem (p : ident) (l : list ident) : bool := existsb (ident_eqb p) l.

  Fixpoint chain_match (ncons : list tagcons) (ch : list fcomp) (n : list bytes) (e : env) (seen : list ident)
    : option env :=
    match ch, n with
    | [], [] => Some e
    | FLit c :: ch', v :: n' => if bytes_eqb c v then chain_match ncons ch' n' e seen else None
    | FTemp cs :: ch', v :: n' => if cons_hold e v cs then chain_match ncons ch' n' e seen else None
    | FNamed p :: ch', v :: n' =>
        match al_get ident_eqb e p with
        | Some w =>
            if negb (bytes_eqb v w) then None
            else if imem p seen then chain_match ncons ch' n' e seen                       (* later occurrence *)
            else if cons_hold e v (cons_on p ncons) then chain_match ncons ch' n' e (p :: seen)   (* bound by the packet *)
            else None
        | None =>
            if cons_hold e v (cons_on p ncons) then chain_match ncons ch' n' (e ++ [(p, v)]) (p :: seen)
            else None
        end
    | _, _ => None
    end.

  (* ---- 3. rules, names, signing --------------------------------------------------------------- *)
  (* temporary rules "#_x" may be defined many times and cannot be referred to; the library
     reports them as "#_x#k", k counting temporary definitions in source order *)
  Fixpoint labelled (k : N) (S : lvsfile) : list (ident * rule) :=
    match S with
    | [] => []
    | d :: r => if is_temp_rule (r_id d) then (r_id d ++ ch_hash :: dec_print k, d) :: labelled (k + 1) r
                else (r_id d, d) :: labelled k r
    end.

  (* more than the depth of references of any schema without cyclic references *)
  Definition ref_fuel (S : lvsfile) : nat := 3 + length S.

  (* all (label, definition, bindings) under which [n] matches, starting from bindings [e0] *)
  Definition matches_of (S : lvsfile) (e0 : env) (n : list bytes) : list (ident * rule * env) :=
    flat_map (fun ld =>
      flat_map (fun f => match chain_match (f_ncons f) (f_comps f) n e0 [] with
                         | Some e => [(fst ld, snd ld, e)]
                         | None => []
                         end) (expand (ref_fuel S) S (snd ld)))
      (labelled 1 S).

  (* a trailing implicit-digest component is ignored *)
  Definition is_digest (c : bytes) : bool :=
    match comp_get_type c with Ok t => t =? TYPE_IMPLICIT_SHA256 | Err _ => false end.
  Definition strip (n : list bytes) : list bytes :=
    match rev n with
    | c :: _ => if is_digest c then removelast n else n
    | [] => n
    end.

  (* C11: name [n] satisfies rule [r] with bindings [e] *)
  Definition sem (S : lvsfile) (r : ident) (n : list bytes) (e : env) : Prop :=
    exists d, In (r, d, e) (matches_of S [] (strip n)).

  (* C12: some definition matches the packet, and one of the rules it lists as signers matches the
     key, starting from the packet's bindings *)
  Definition can_sign (S : lvsfile) (pkt key : list bytes) : Prop :=
    exists r d e, In (r, d, e) (matches_of S [] (strip pkt)) /\
    exists k, In k (r_sign d) /\ exists d' e', In (k, d', e') (matches_of S e (strip key)).

  Definition can_signb (S : lvsfile) (pkt key : list bytes) : bool :=
    existsb (fun m => existsb (fun k => existsb (fun m' => ident_eqb (fst (fst m')) k)
                                                (matches_of S (snd m) (strip key)))
                              (r_sign (snd (fst m))))
            (matches_of S [] (strip pkt)).
End Sem.

(* ---- 4. well-formed binary models ----------------------------------------------------------------- *)
Definition MIN_SUPPORTED_VERSION : N := 69632.     (* 0x00011000 *)
Definition SUPPORTED_VERSION : N := 69632.

Definition dests (nd : node) : list (option N) := map ve_dest (n_vedges nd) ++ map pe_dest (n_pedges nd).

Inductive reach (m : lvsmodel) : N -> Prop :=
| reach_start s : m_start m = Some s -> reach m s
| reach_edge a nd d : reach m a -> get_node m a = Some nd -> In (Some d) (dests nd) -> reach m d.

(* exactly one of Value / Tag / UserFn; a user function has a name *)
Definition option_ok (op : copt) : bool :=
  match co_value op, co_tag op, co_fn op with
  | Some _, None, None => true
  | None, Some _, None => true
  | None, None, Some fn => match uf_id fn with Some (_ :: _) => true | _ => false end
  | _, _, _ => false
  end.

(* destination exists and names the source as its parent *)
Definition child_ok (m : lvsmodel) (src : N) (d : option N) : bool :=
  match d with
  | Some c => match get_node m c with
              | Some nd => match n_parent nd with Some p => p =? src | None => false end
              | None => false
              end
  | None => false
  end.

Definition node_ok (m : lvsmodel) (i : N) : bool :=
  match get_node m i with
  | None => false
  | Some nd =>
      match n_id nd with Some j => j =? i | None => false end
      && forallb (fun ve => child_ok m i (ve_dest ve) && match ve_value ve with Some (_ :: _) => true | _ => false end)
                 (n_vedges nd)
      && forallb (fun pe => child_ok m i (pe_dest pe) && match pe_tag pe with Some _ => true | None => false end
                            && forallb (forallb option_ok) (pe_cons pe))
                 (n_pedges nd)
      && forallb (fun k => k <? N.of_nat (length (m_nodes m))) (n_sign nd)
  end.

Definition version_supported (m : lvsmodel) : bool :=
  match m_version m with
  | Some v => (MIN_SUPPORTED_VERSION <=? v) && (v <=? SUPPORTED_VERSION)
  | None => false
  end.

Definition root_ok (m : lvsmodel) : bool :=
  match m_start m with
  | Some s => match get_node m s with
              | Some nd => match n_parent nd with None => true | Some _ => false end
              | None => false
              end
  | None => false
  end.

Definition sane (m : lvsmodel) : Prop :=
  version_supported m = true /\ root_ok m = true /\ forall i, reach m i -> node_ok m i = true.

(* executable form: a set containing the start node and closed under edges, all of whose members
   are [node_ok]  (Proofs/LvsSanity.v: [saneb m = true -> sane m]) *)
Definition valid_dests (m : lvsmodel) (i : N) : list N :=
  match get_node m i with
  | Some nd => flat_map (fun d => match d with Some x => [x] | None => [] end) (dests nd)
  | None => []
  end.
Definition nmem (x : N) (l : list N) : bool := existsb (N.eqb x) l.
Fixpoint reach_iter (k : nat) (m : lvsmodel) (r : list N) : list N :=
  match k with
  | O => r
  | Datatypes.S k' =>
      reach_iter k' m (fold_left (fun acc d => if nmem d acc then acc else acc ++ [d]) (flat_map (valid_dests m) r) r)
  end.
Definition reach_set (m : lvsmodel) : list N :=
  match m_start m with Some s => reach_iter (length (m_nodes m)) m [s] | None => [] end.
Definition closedb (m : lvsmodel) (r : list N) : bool :=
  forallb (fun i => forallb (fun d => nmem d r) (valid_dests m i)) r.
Definition saneb (m : lvsmodel) : bool :=
  version_supported m && root_ok m &&
  match m_start m with Some s => nmem s (reach_set m) | None => false end &&
  closedb m (reach_set m) && forallb (node_ok m) (reach_set m).

(* the signing relation between reachable nodes has no cycle: there is a ranking *)
Definition sign_acyclic (m : lvsmodel) : Prop :=
  exists rank : N -> nat, forall i nd k, reach m i -> get_node m i = Some nd -> In k (n_sign nd) -> (rank k < rank i)%nat.

(* executable form of [sign_acyclic]: from no node does a signing chain of more than #nodes steps start *)
Fixpoint sign_depth_ok (fuel : nat) (m : lvsmodel) (i : N) : bool :=
  match fuel with
  | O => false
  | Datatypes.S k => match get_node m i with
                     | Some nd => forallb (sign_depth_ok k m) (n_sign nd)
                     | None => true
                     end
  end.
Definition sign_acyclicb (m : lvsmodel) : bool :=
  forallb (sign_depth_ok (Datatypes.S (length (m_nodes m))) m) (reach_set m).

(* ---- 5. static errors of a schema ------------------------------------------------------------------ *)
Definition rule_refs (d : rule) : list ident := flat_map (fun c => match c with CRef r => [r] | _ => [] end) (r_name d).
Definition name_pats (d : rule) : list ident := flat_map (fun c => match c with CPat p => [p] | _ => [] end) (r_name d).
Definition named_pats_of (S : lvsfile) : list ident := filter (fun p => negb (is_temp_pat p)) (flat_map name_pats S).
Definition defined (S : lvsfile) (r : ident) : bool :=
  negb (is_temp_rule r) && existsb (fun d => ident_eqb (r_id d) r) S.

(* no reference chain longer than the number of rules *)
Fixpoint ref_depth_ok (fuel : nat) (S : lvsfile) (r : ident) : bool :=
  match fuel with
  | O => false
  | Datatypes.S k => forallb (fun d => forallb (ref_depth_ok k S) (rule_refs d)) (filter (fun d => ident_eqb (r_id d) r) S)
  end.

Definition rhs_pats (o : opt) : list ident :=
  match o with
  | OLit _ => []
  | OPat p => [p]
  | OFn _ args => flat_map (fun a => match a with APat p => [p] | ALit _ => [] end) args
  end.

Definition cons_ok (S : lvsfile) (d : rule) (tc : tagcons) : bool :=
  (if is_temp_pat (tc_pat tc) then imem (tc_pat tc) (name_pats d)           (* a temporary is local to its rule *)
   else imem (tc_pat tc) (named_pats_of S))
  && forallb (fun p => negb (is_temp_pat p) && imem p (named_pats_of S)) (flat_map rhs_pats (tc_opts tc)).

Definition static_ok (S : lvsfile) : bool :=
  forallb (fun d => forallb (defined S) (rule_refs d)) S                                   (* undefined / temporary rule *)
  && forallb (fun d => ref_depth_ok (Datatypes.S (length S)) S (r_id d)) S               (* cyclic references *)
  && forallb (fun d => forallb (forallb (cons_ok S d)) (r_cons d)) S                       (* unknown / temporary pattern *)
  && forallb (fun d => forallb (defined S) (r_sign d)) S.                                  (* unknown signer *)

(* cyclic signing relations between rules: some rule is, transitively, its own signer *)
Fixpoint rule_sign_depth_ok (fuel : nat) (S : lvsfile) (r : ident) : bool :=
  match fuel with
  | O => false
  | Datatypes.S k => forallb (fun d => forallb (rule_sign_depth_ok k S) (r_sign d)) (filter (fun d => ident_eqb (r_id d) r) S)
  end.
Definition no_rule_sign_cycle (S : lvsfile) : bool :=
  forallb (fun d => rule_sign_depth_ok (Datatypes.S (length S)) S (r_id d)) S.
