(* C06 (A) — specification of stream framing.  No implementation detail: a packet on a stream is a
   Type number, a Length number and exactly Length bytes; numbers may use any (not necessarily the
   shortest) of the four NDN forms. *)
From NDN Require Import Base.Prelude.
Local Open Scope N_scope.

(* w is one complete variable-size number with value v *)
Inductive varnum : bytes -> N -> Prop :=
| varnum1 b : b <= 252 -> varnum [b] b
| varnum3 r : length r = 2%nat -> varnum (253 :: r) (be_to_N r)
| varnum5 r : length r = 4%nat -> varnum (254 :: r) (be_to_N r)
| varnum9 r : length r = 8%nat -> varnum (255 :: r) (be_to_N r).

(* (t, w): w is one complete packet of Type t, Type and Length fields included *)
Inductive framed : N * bytes -> Prop :=
| framed_intro t tn ln body :
    varnum tn t -> varnum ln (N.of_nat (length body)) -> framed (t, tn ++ ln ++ body).

(* the bytes of a sequence of packets *)
Definition stream_of (ps : list (N * bytes)) : bytes := flat_map snd ps.

(* pre is a proper prefix of a complete packet (possibly empty: the stream ended cleanly) *)
Definition partial_packet (pre : bytes) : Prop :=
  exists t suf, suf <> [] /\ framed (t, pre ++ suf).
