(* C06 (A) — specification of stream framing.  No implementation detail: a packet on a stream is a
   Type number, a Length number and exactly Length bytes; numbers may use any (not necessarily the
   shortest) of the four NDN forms. *)
From NDN Require Import Base.Prelude.
Local Open Scope N_scope.

(* w is one complete variable-size number with value v *)
Inductive varnum : bytes -> N -> Prop :=
| varnum1 b : b <= 252 -> varnum [b] b
| varnum3 r : length r = 2%nat -> varnum (253 :: r) (be_to_N r)
| varnum5 r : length r = 4%nat -> varnum (254 :: r) (be_to_N r)
| varnum9 r : length r = 8%nat -> varnum (255 :: r) (be_to_N r).

(* (t, w): w is one complete packet of Type t, Type and Length fields included *)
Inductive framed : N * bytes -> Prop :=
| framed_intro t tn ln body :
    varnum tn t -> varnum ln (N.of_nat (length body)) -> framed (t, tn ++ ln ++ body).

(* the bytes of a sequence of packets *)
Definition stream_of (ps : list (N * bytes)) : bytes := flat_map snd ps.

(* pre is a proper prefix of a complete packet (possibly empty: the stream ended cleanly) *)
Definition partial_packet (pre : bytes) : Prop :=
  exists t suf, suf <> [] /\ framed (t, pre ++ suf).

(* ---- executable form: the complete packets at the front of ANY byte string ------------------------- *)
(* value and size of the variable-size number at the front of w, if it is all there *)
Definition take_varnum (w : bytes) : option (N * nat) :=
  match w with
  | [] => None
  | b :: r =>
      if b <=? 252 then Some (b, 1%nat)
      else let k := if b =? 253 then 2%nat else if b =? 254 then 4%nat else 8%nat in
           if Nat.leb k (length r) then Some (be_to_N (firstn k r), S k) else None
  end.

(* the first packet of w, if it is all there, and what follows it *)
Definition first_packet (w : bytes) : option ((N * bytes) * bytes) :=
  match take_varnum w with
  | None => None
  | Some (t, a) =>
      match take_varnum (skipn a w) with
      | None => None
      | Some (l, b) =>
          let body := skipn (a + b) w in
          if l <=? N.of_nat (length body)
          then Some ((t, firstn (a + b + N.to_nat l) w), skipn (N.to_nat l) body)
          else None
      end
  end.

(* all complete packets at the front of w, and the incomplete remainder *)
Fixpoint split_stream (fuel : nat) (w : bytes) : list (N * bytes) * bytes :=
  match fuel with
  | O => ([], w)
  | S f =>
      match first_packet w with
      | None => ([], w)
      | Some (p, rest) => let '(ps, r) := split_stream f rest in (p :: ps, r)
      end
  end.
(* every packet has at least two bytes, so [length w] rounds suffice *)
Definition packets_of (w : bytes) : list (N * bytes) * bytes := split_stream (length w) w.
