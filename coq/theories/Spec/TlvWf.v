(* Well-formed descriptors and legal values: the hypotheses of the C08 theorems.
   [wf_fieldsb] is the boolean the shipped models are pushed through (Generated/SchemasWf.v). *)
From NDN Require Import Base.Prelude Base.Utf8 Model.TlvVar Model.Name Model.Tlv.
Local Open Scope N_scope.

(* kinds that occupy exactly one element when present *)
Definition single (k : fkind) : bool :=
  match k with KRepeated _ | KMap _ _ _ => false | _ => true end.
Definition keykind (k : fkind) : bool :=
  match k with KUint _ | KBytes _ => true | _ => false end.
Definition fixed_ok (fx : option N) : bool :=
  match fx with None | Some 1 | Some 2 | Some 4 | Some 8 => true | Some _ => false end.

Inductive wfk : N -> fkind -> Prop :=
| wf_uint t fx : t < two64 -> fixed_ok fx = true -> wfk t (KUint fx)
| wf_bool t : t < two64 -> wfk t KBool
| wf_kbytes t s : t < two64 -> wfk t (KBytes s)
| wf_name : wfk TYPE_NAME KName
| wf_model t fs ic : t < two64 -> wf_fields fs -> wfk t (KModel fs ic)
| wf_rep t e : single e = true -> wfk t e -> wfk t (KRepeated e)
| wf_map t kk vt vk : keykind kk = true -> wfk t kk -> single vk = true -> wfk vt vk -> wfk t (KMap kk vt vk)
with wf_fields : list field -> Prop :=
| wf_fs fs : NoDup (map fst fs) -> (forall t k, In (t, k) fs -> wfk t k) -> wf_fields fs.

(* legal values.  VNone = field omitted; lists and maps are non-empty (an empty one is "omitted") *)
Inductive fits : fkind -> value -> Prop :=
| fits_none k : fits k VNone
| fits_uint fx n w : fixed_width fx n = Ok w -> n < 256 ^ N.of_nat w -> fits (KUint fx) (VUint n)
| fits_true : fits KBool VTrue
| fits_bytes s b : (s = true -> utf8_valid b = true) -> fits (KBytes s) (VBytes b)
| fits_name n : Forall (fun c => exists t v, c = comp_enc t v /\ t < two64 /\ N.of_nat (length v) < two64) n ->
                fits KName (VName n)
| fits_model fs ic vs : Forall2 (fun f v => fits (snd f) v) fs vs -> fits (KModel fs ic) (VModel vs)
| fits_rep e l : l <> [] -> Forall (fun x => x <> VNone /\ fits e x) l -> fits (KRepeated e) (VList l)
| fits_map kk vt vk l :
    l <> [] ->
    Forall (fun kv => fst kv <> VNone /\ fits kk (fst kv) /\ snd kv <> VNone /\ fits vk (snd kv)) l ->
    NoDup_keys l -> fits (KMap kk vt vk) (VMap l)
with NoDup_keys : list (value * value) -> Prop :=
| ndk_nil : NoDup_keys []
| ndk_cons k v l : (forall k' v', In (k', v') l -> value_eqb_flat k k' = false) -> NoDup_keys l ->
                   NoDup_keys (l ++ [(k, v)]).

(* boolean well-formedness, with depth fuel; [wf_fieldsb] implies [wf_fields] (Proofs/TlvWfProofs.v) *)
Fixpoint nodupb (l : list N) : bool :=
  match l with [] => true | x :: r => negb (existsb (N.eqb x) r) && nodupb r end.

Fixpoint wfkb (d : nat) (t : N) (k : fkind) : bool :=
  match d with
  | O => false
  | S d' =>
      match k with
      | KUint fx => (t <? two64) && fixed_ok fx
      | KBool | KBytes _ => t <? two64
      | KName => t =? TYPE_NAME
      | KModel fs _ => (t <? two64) && nodupb (map fst fs) && forallb (fun f => wfkb d' (fst f) (snd f)) fs
      | KRepeated e => single e && wfkb d' t e
      | KMap kk vt vk => keykind kk && wfkb d' t kk && single vk && wfkb d' vt vk
      end
  end.
Definition wf_fieldsb (fs : list field) : bool :=
  nodupb (map fst fs) && forallb (fun f => wfkb (S (fields_depth fs)) (fst f) (snd f)) fs.
