(* Specification: a strict reading of the TLV packet format.  Every element must lie entirely inside
   its parent (no truncation), integers have width 1/2/4/8, recognised critical elements appear once
   and in order, unrecognised critical ones are refused, text is valid UTF-8, a Name consists of whole
   components.  Written independently of the library's offset arithmetic. *)
From NDN Require Import Base.Prelude Base.Utf8 Model.TlvVar Model.Name Model.Tlv.
Local Open Scope N_scope.

(* exact split: fails when a declared Length exceeds what is left *)
Fixpoint strict_elements (fuel : nat) (w : bytes) : option (list elem) :=
  match w with
  | [] => Some []
  | _ =>
      match fuel with
      | O => None
      | S f =>
          match tl_dec w with
          | Ok (t, st) =>
              match tl_dec (skipn st w) with
              | Ok (l, sl) =>
                  let body := skipn (st + sl) w in
                  if N.of_nat (length body) <? l then None
                  else let k := N.to_nat l in
                       match strict_elements f (skipn k body) with
                       | Some r => Some (Elem t l (firstn k body) :: r)
                       | None => None
                       end
              | Err _ => None
              end
          | Err _ => None
          end
      end
  end.
Definition strict_split (w : bytes) : option (list elem) := strict_elements (S (length w)) w.

Fixpoint strict_val (d : nat) (k : fkind) (e : elem) : res value :=
  match d with
  | O => Err EFuel
  | S d' =>
      let p := e_payload e in
      match k with
      | KUint _ =>
          let l := N.of_nat (length p) in
          if (l =? 1) || (l =? 2) || (l =? 4) || (l =? 8) then Ok (VUint (be_to_N p)) else Err EValue
      | KBool => Ok VTrue
      | KBytes s => if s && negb (utf8_valid p) then Err EUnicode else Ok (VBytes p)
      | KName =>
          if negb (e_type e =? TYPE_NAME) then Err EValue
          else do n <- name_components (S (length p)) p ;; Ok (VName n)
      | KModel fs ic =>
          match strict_split p with
          | Some els => do vs <- assign_with (strict_val d') fs ic PNormal 0 els (blank fs) ;; Ok (VModel vs)
          | None => Err EIndex
          end
      | KRepeated _ | KMap _ _ _ => Err EType
      end
  end.

Definition strict_model (d : nat) (fs : list field) (ic : bool) (w : bytes) : res (list value) :=
  match strict_split w with
  | Some els => assign_with (strict_val d) fs ic PNormal 0 els (blank fs)
  | None => Err EIndex
  end.
