(* C03 / C05 — specification of the Interest/Data pipeline: the event alphabet and, per expressed Interest, a
   four-state automaton.  No PIT, no futures, no tasks.

   The outcome of an Interest is the FIRST, in history order, of
     - a Data that matches it (equal name, or longer name when CanBePrefix is set; and the packet hash when the
       Interest carries an implicit digest) received strictly before its deadline D = t_express + lifetime,
       followed by the verdict of the validator supplied with the Interest
          (V2: if the verdict is there strictly before D, otherwise Timeout;  V1: no deadline on the validator);
     - a Nack for exactly its name (incl. the implicit digest), strictly before D;
     - the deadline;
     - Cancel i (the caller cancels the awaitable);
     - Shutdown while no matching Data has arrived yet.
   Ties (an event at exactly t = D): packets, validator completions and shutdown lose against the timer whatever
   the order inside the loop turn; only the caller's own cancel wins when it is linearised before the waiter has
   been resumed ([EvFirst], [Mid]).  *)
From NDN Require Import Base.Prelude.
Local Open Scope N_scope.

Inductive frontend := V2 | V1.

Definition name := list N.
Definition name_eqb : name -> name -> bool := list_eqb N.eqb.
Definition is_prefix : name -> name -> bool := is_prefixb N.eqb.
Definition odig_eqb (a b : option N) : bool :=
  match a, b with None, None => true | Some x, Some y => x =? y | _, _ => false end.

(* how an event is linearised against timers that are due at exactly its time (DESIGN 2.6):
   NoTie: the timers ran first.  EvFirst: the event's synchronous part runs, then the timers, in one loop turn.
   Mid: the timer callbacks ran, the waiters they woke have not, then the event's synchronous part runs. *)
Inductive tie := NoTie | EvFirst | Mid.
(* validator supplied with an Interest: answers at once with verdict v, or suspends until a VDone event *)
Inductive vmode := VImm (v : N) | VDef.

Inductive outcome :=
| OGot (d : N) | OInvalid (d v : N) | ONack (r : N) | OTimeout | OCancelled | OErr (e : err).

Inductive ev :=
| Express (i : N) (n : name) (cbp : bool) (dig : option N) (life : N) (vm : vmode) (t : N)
| Await (i : N) (t : N)            (* operational only: the awaitable returned by express starts to run *)
| Data (d : N) (n : name) (hash : N) (t : N)
| Nack (n : name) (dig : option N) (reason : N) (t : N)
| VDone (i : N) (v : N) (t : N)    (* the suspended validator of Interest i answers v *)
| Cancel (i : N) (t : N)
| Shutdown (t : N)
| AdvanceTo (t : N)
| Attach (p : name) (hasv : bool) (t : N)
| Incoming (k : N) (n : name) (has_params : bool) (sig : N) (digest_ok : bool) (v : N) (t : N)
(* the application replaces its application-wide Interest validator (legacy: app.int_validator := ...):
   own = true: by a validator of its own (its verdict on an Interest k is k_verdict); false: back to the library default *)
| SetDefault (own : bool) (t : N).

Definition ev_time (e : ev) : N :=
  match e with
  | Express _ _ _ _ _ _ t | Await _ t | Data _ _ _ t | Nack _ _ _ t | VDone _ _ t | Cancel _ t
  | Shutdown t | AdvanceTo t | Attach _ _ t | Incoming _ _ _ _ _ _ t | SetDefault _ t => t
  end.

(* verdicts.  V2 (types.ValidResult): 0 FAIL 1 TIMEOUT 2 SILENCE 3 PASS 4 ALLOW_BYPASS; 5 = the validator raised
   TimeoutError, reported as TIMEOUT.  V1: truthiness, 0 = falsy; a failure carries the default result FAIL. *)
Definition pass (fe : frontend) (v : N) : bool :=
  match fe with V2 => (v =? 3) || (v =? 4) | V1 => negb (v =? 0) end.
Definition norm_verdict (fe : frontend) (v : N) : N :=
  match fe with V2 => if v =? 5 then 1 else v | V1 => 0 end.
Definition verdict_outcome (fe : frontend) (d v : N) : outcome :=
  if pass fe v then OGot d else OInvalid d (norm_verdict fe v).

(* ---------------------------------------------------------------------------------------------- *)
(* what Express i fixed *)
Record ispec := mkSp { s_name : name; s_cbp : bool; s_dig : option N; s_D : N; s_vm : vmode }.

Inductive istate := INone | IPending (r : ispec) | IValidating (r : ispec) (d : N) | IDone (o : outcome).

Definition matches (r : ispec) (n : name) (hash : N) : bool :=
  (name_eqb r.(s_name) n || (r.(s_cbp) && is_prefix r.(s_name) n))
  && match r.(s_dig) with None => true | Some x => x =? hash end.

Definition due (strict : bool) (D t : N) : bool := if strict then D <? t else D <=? t.

(* the deadline; the legacy front-end puts no deadline on its validator (known finding C05-v1-validator-deadline) *)
Definition expire (fe : frontend) (strict : bool) (t : N) (st : istate) : istate :=
  match st with
  | IPending r => if due strict r.(s_D) t then IDone OTimeout else st
  | IValidating r d =>
      match fe with
      | V2 => if due strict r.(s_D) t then IDone OTimeout else st
      | V1 => st
      end
  | _ => st
  end.

Definition react (fe : frontend) (i : N) (st : istate) (e : ev) : istate :=
  match e, st with
  | Express j n cbp dig life vm t, INone =>
      if j =? i then IPending (mkSp n cbp dig (t + life) vm) else st
  | Data d n h t, IPending r =>
      if matches r n h && (t <? r.(s_D)) then
        match r.(s_vm) with VImm v => IDone (verdict_outcome fe d v) | VDef => IValidating r d end
      else st
  | Nack n dig reason t, IPending r =>
      if name_eqb n r.(s_name) && odig_eqb dig r.(s_dig) && (t <? r.(s_D)) then IDone (ONack reason) else st
  | VDone j v t, IValidating r d =>
      if (j =? i) && match fe with V2 => t <? r.(s_D) | V1 => true end then IDone (verdict_outcome fe d v) else st
  | Cancel j t, IPending _ | Cancel j t, IValidating _ _ =>
      if j =? i then IDone OCancelled else st
  | Shutdown t, IPending r => if t <? r.(s_D) then IDone OCancelled else st
  | _, _ => st
  end.

Definition spec_step (fe : frontend) (i : N) (st : istate) (x : tie * ev) : istate :=
  let t := ev_time (snd x) in
  let st1 := expire fe (match fst x with NoTie => false | _ => true end) t st in
  expire fe false t (react fe i st1 (snd x)).

Definition spec_state (fe : frontend) (h : list (tie * ev)) (i : N) : istate :=
  fold_left (spec_step fe i) h INone.

Definition outcome_of (fe : frontend) (h : list (tie * ev)) (i : N) : option outcome :=
  match spec_state fe h i with IDone o => Some o | _ => None end.

(* ---------------------------------------------------------------------------------------------- *)
(* incoming Interests (C05, second half): when may the handler be called *)
Record inc := mkInc { k_id : N; k_name : name; k_params : bool; k_sig : N; k_digest_ok : bool; k_verdict : N }.

Definition plain (k : inc) : bool := negb k.(k_params) && (k.(k_sig) =? 0).
Definition signed (k : inc) : bool := negb (k.(k_sig) =? 0).

(* Which validator is in force for an Interest dispatched to a route, after the history [h]:
   the route's own validator if it was attached with one; otherwise, in the legacy front-end, the application-wide
   validator AS IT IS WHEN THE INTEREST IS DISPATCHED ([default_of h] = the last SetDefault of the history; a later
   replacement applies to the routes that already exist); the current front-end has no application-wide validator.
   [in_force ...] = true: a validator supplied by the application is in force (its verdict on k is k_verdict);
   false: none is (V2: rejection; V1: the library default sha256_digest_checker). *)
Definition default_of (h : list (tie * ev)) : bool :=
  fold_left (fun d x => match snd x with SetDefault own _ => own | _ => d end) h false.
Definition in_force (fe : frontend) (route_has_validator : bool) (app_default_own : bool) : bool :=
  route_has_validator || match fe with V1 => app_default_own | V2 => false end.

(* the validator in force accepted the Interest.
   [own] = true: it is a validator supplied by the application (route or application-wide; its verdict is k_verdict);
   V2: no validator means rejection.  V1: the library default sha256_digest_checker
   (signature class 2 = DigestSha256 with a wrong value is the only thing it rejects). *)
Definition validator_accepts (fe : frontend) (own : bool) (k : inc) : bool :=
  match fe with
  | V2 => own && pass V2 k.(k_verdict)
  | V1 => if own then pass V1 k.(k_verdict) else negb (k.(k_sig) =? 2)
  end.

(* C05: an Interest with parameters or a signature is dropped unless its digest is right and reaches the handler
   only after the validator in force accepted it: every such Interest in V2, the signed ones in V1 *)
Definition may_deliver (fe : frontend) (own : bool) (k : inc) : bool :=
  plain k ||
  (k.(k_digest_ok) &&
   match fe with
   | V2 => validator_accepts V2 own k
   | V1 => negb (signed k) || validator_accepts V1 own k
   end).
