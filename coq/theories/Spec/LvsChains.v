(* Executable side conditions on the numbered rule chains (the hypothesis [chains_ok] of the chain-level
   theorems, Proofs/LvsCompileTree.v): literal components are non-empty byte strings, user function
   identifiers look like "$name", named tags lie in 1..NamedPatternCnt.  Evaluated by the harness on the chains
   of every generated schema; Proofs/LvsChainsOk.v proves that they imply [chains_ok]. *)
From NDN Require Import Base.Prelude Base.Text Model.LvsAst Model.LvsChecker Model.LvsCompiler.
Local Open Scope N_scope.

Definition fid_ok (f : ident) : bool :=
  match f with
  | 36 :: _ => forallb (fun c => negb ((c =? 40) || (c =? 44) || (c =? 125))) f
  | _ => false
  end.
Definition arg_ok (a : narg) : bool := match a with NALit c => wf_bytesb c | NAPat _ => true end.
Definition opt_ok (o : nopt) : bool :=
  match o with
  | NOLit c => wf_bytesb c
  | NOPat _ => true
  | NOFn f args => fid_ok f && forallb arg_ok args
  end.
Definition cons_ok (c : ncons) : bool := forallb opt_ok (nc_opts c).
Definition chain_keys_ok (rc : chain) : bool := forallb cons_ok (ch_cons rc).

Definition comp_okb (npc : N) (c : ncomp) : bool :=
  match c with
  | NLit v => match v with [] => false | _ => true end
  | NPat t => (t <? 0)%Z || (Z.to_N t <=? npc)
  | NRef _ => true
  end.

Definition chains_okb (npc : N) (chains : list chain) : bool :=
  forallb chain_keys_ok chains
  && forallb (fun rc => forallb (comp_okb npc) (ch_name rc)) chains.


Definition schema_chains_ok (S : lvsfile) : res bool :=
  do cs <- chains_of S ;; Ok (chains_okb (N.of_nat (length (ns_named (snd cs)))) (fst cs)).

(* what the lexer guarantees of a schema and the chain-level theorems need: literal components are non-empty
   byte strings, user function identifiers look like "$name" *)
Definition arg_wf (a : arg) : bool := match a with ALit c => wf_bytesb c | APat _ => true end.
Definition opt_wf (o : opt) : bool :=
  match o with
  | OLit c => wf_bytesb c
  | OPat _ => true
  | OFn f args => fid_ok f && forallb arg_wf args
  end.
Definition rule_wf (d : rule) : bool :=
  forallb (fun c => match c with CLit v => match v with [] => false | _ => true end | _ => true end) (r_name d)
  && forallb (forallb (fun tc => forallb opt_wf (tc_opts tc))) (r_cons d).
Definition schema_wf (S : lvsfile) : bool := forallb rule_wf S.
