(* C20 — specification of client configuration.  Readable in minutes; nothing of client_conf.py's
   control flow appears here.  Four parts:
     1. precedence          value = environment ?? file ?? platform default
     2. client.conf         the file as its author writes it (entries, comments, blank lines)
     3. store locations     as given if it exists / relative to the file's directory / platform default
     4. transport URIs      scheme table, host, port (default 6363); unknown scheme = error
   os.path.join / os.path.dirname / decimal value come from Model/ConfBase.v (CPython primitives). *)
From NDN Require Import Base.Prelude Base.Text Model.ConfBase.
From Coq Require Strings.String Strings.Ascii.
Import Coq.Strings.String.StringSyntax Coq.Strings.Ascii.AsciiSyntax.
Local Open Scope N_scope.

(* ---- 1. precedence -------------------------------------------------------------------------------- *)
Definition spec_value (env_v file_v : option str) (platform_v : str) : str :=
  match env_v, file_v with
  | Some v, _ => v
  | None, Some v => v
  | None, None => platform_v
  end.

(* ---- 2. client.conf as written ---------------------------------------------------------------------- *)
Inductive conf_line :=
| Entry (k ws1 : str) (d : N) (ws2 v ws3 : str)     (* k ws1 d ws2 v ws3   with d '=' (or ':') *)
| Comment (ws : str) (mark : N) (text : str)        (* ws mark text        with mark ';' or '#' *)
| Blank (ws : str).

Definition line_text (l : conf_line) : str :=
  match l with
  | Entry k ws1 d ws2 v ws3 => k ++ ws1 ++ d :: ws2 ++ v ++ ws3
  | Comment ws mark text => ws ++ mark :: text
  | Blank ws => ws
  end.
Definition render (ls : list conf_line) : str := flat_map (fun l => line_text l ++ [ch_nl]) ls.

(* the value the file gives to [key] (option names are case-insensitive) *)
Fixpoint file_lookup (key : str) (ls : list conf_line) : option str :=
  match ls with
  | [] => None
  | Entry k _ _ _ v _ :: r => if str_eqb (lower key) (lower k) then Some v else file_lookup key r
  | _ :: r => file_lookup key r
  end.

(* well-formed client.conf: what the theorems quantify over *)
Definition no_nl (s : str) : bool := forallb (fun c => negb (c =? ch_nl)) s.
Definition blank_ws (s : str) : bool := forallb is_space s && no_nl s.
Definition key_ok (k : str) : bool :=
  forallb (fun c => negb (is_space c) && negb (is_delim c)) k &&
  match k with
  | [] => false
  | c :: _ => negb ((c =? ch_lbr) || (c =? ch_hash) || (c =? ch_semi))
  end.
Definition edge_ok (v : str) : bool :=                  (* no leading / trailing white space *)
  match v with [] => true | c :: _ => negb (is_space c) end &&
  match rev v with [] => true | c :: _ => negb (is_space c) end.
Definition value_ok (v : str) : bool := no_nl v && edge_ok v.
Definition line_ok (l : conf_line) : bool :=
  match l with
  | Entry k ws1 d ws2 v ws3 => key_ok k && blank_ws ws1 && is_delim d && blank_ws ws2 && value_ok v && blank_ws ws3
  | Comment ws mark text => blank_ws ws && ((mark =? ch_hash) || (mark =? ch_semi)) && no_nl text
  | Blank ws => blank_ws ws
  end.
Fixpoint keys_of (ls : list conf_line) : list str :=
  match ls with
  | [] => []
  | Entry k _ _ _ _ _ :: r => lower k :: keys_of r
  | _ :: r => keys_of r
  end.
Fixpoint nodupb (l : list str) : bool :=
  match l with [] => true | x :: r => negb (existsb (str_eqb x) r) && nodupb r end.
Definition wf_conf (ls : list conf_line) : bool := forallb line_ok ls && nodupb (keys_of ls).

(* ---- 3. store locations ------------------------------------------------------------------------------ *)
(* "scheme:location" — the location is everything after the first ':' *)
Definition split_setting (v : str) : str * str :=
  match partition_on ch_colon v with
  | (a, Some b) => (a, b)
  | (a, None) => (a, [])
  end.

(* [cfg]: path of the configuration file in use, if any.  [dflts]: platform default locations.
   None = nothing suitable exists: the result is unconstrained. *)
Definition spec_location (ex : str -> bool) (cfg : option str) (dflts : list str) (loc : str) : option str :=
  if nonempty loc && ex loc then Some loc
  else
    let rel := match cfg with Some c => path_join (path_dirname c) loc | None => loc end in
    if nonempty loc && ex rel then Some rel
    else find ex dflts.

Definition location_ok (ex : str -> bool) (cfg : option str) (dflts : list str) (loc out : str) : bool :=
  match spec_location ex cfg dflts loc with
  | Some e => str_eqb out e
  | None => true
  end.

(* ---- 4. transport URIs --------------------------------------------------------------------------------- *)
Inductive face_kind := KUnix | KTcp | KUdp.
Definition scheme_table : list (str * face_kind) :=
  [(slit "unix", KUnix); (slit "tcp", KTcp); (slit "tcp4", KTcp); (slit "tcp6", KTcp);
   (slit "udp", KUdp); (slit "udp4", KUdp); (slit "udp6", KUdp)].
Definition scheme_kind (s : str) : option face_kind := al_get str_eqb scheme_table s.
Definition face_kind_of (f : face) : face_kind :=
  match f with FUnix _ => KUnix | FTcp _ _ => KTcp | FUdp _ _ => KUdp end.

Definition spec_default_port : N := 6363.

Inductive host := HName (n : str) | HV6 (a : str).     (* registered name / IPv4, or [IPv6] *)
Definition host_text (h : host) : str :=
  match h with HName n => n | HV6 a => ch_lbr :: a ++ [ch_rbr] end.
(* the address: case-insensitive, except an IPv6 zone identifier (RFC 6874) *)
Definition host_addr (h : host) : str :=
  match h with
  | HName n => lower n
  | HV6 a => match partition_on ch_pct a with
             | (x, Some z) => lower x ++ ch_pct :: z
             | (x, None) => lower x
             end
  end.

(* scheme://host[:port][tail]   tail = "" or starts with '/', '?' or '#' *)
Definition uri_text (scheme : str) (h : host) (port : option str) (tail : str) : str :=
  scheme ++ slit "://" ++ host_text h ++ match port with Some p => ch_colon :: p | None => [] end ++ tail.

Definition denoted_port (port : option str) : N :=
  match port with Some p => dec_of p | None => spec_default_port end.

Definition denoted_face (k : face_kind) (h : host) (port : option str) (tail : str) : face :=
  match k with
  | KUnix => FUnix tail
  | KTcp => FTcp (host_addr h) (denoted_port port)
  | KUdp => FUdp (Some (host_addr h)) (denoted_port port)
  end.

(* side conditions of a well-formed URI *)
Definition uri_plain (c : N) : bool := (32 <? c) && (c <? 127).
Definition name_char (c : N) : bool :=
  uri_plain c && negb (existsb (N.eqb c) [ch_slash; ch_q; ch_hash; ch_at; ch_colon; ch_lbr; ch_rbr; ch_pct]).
Definition v6_char (c : N) : bool :=
  uri_plain c && negb (existsb (N.eqb c) [ch_slash; ch_q; ch_hash; ch_at; ch_lbr; ch_rbr]).
Definition host_ok (h : host) : bool :=
  match h with
  | HName n => nonempty n && forallb name_char n
  | HV6 a => forallb v6_char a && bracketed_host_ok a
  end.
Definition port_ok (port : option str) : bool :=
  match port with
  | None => true
  | Some p => nonempty p && forallb is_digit p && (1 <=? dec_of p) && (dec_of p <=? 65535)
  end.
Definition tail_ok (t : str) : bool :=
  match t with [] => true | c :: _ => is_netloc_end c end.
(* the path of a unix:// URI: absolute, no query / fragment / tab / CR / LF *)
Definition unix_path_ok (p : str) : bool :=
  starts_with [ch_slash] p && forallb (fun c => negb ((c =? ch_q) || (c =? ch_hash) || is_unsafe c)) p.
