(* Specification: NDN canonical order (NDN packet format 0.3, "Canonical Order").
   Components are compared by type, then by value length, then by value bytes; names are
   compared component-wise, a proper prefix ordering first.  No TLV encoding appears here. *)
From NDN Require Import Base.Prelude.
Local Open Scope N_scope.

Definition scomp := (N * bytes)%type.          (* (type, value) *)

Fixpoint lex_bytes (a b : bytes) : comparison :=
  match a, b with
  | [], [] => Eq
  | [], _ => Lt
  | _, [] => Gt
  | x :: a', y :: b' => match x ?= y with Eq => lex_bytes a' b' | c => c end
  end.

Definition canon_comp_cmp (a b : scomp) : comparison :=
  match fst a ?= fst b with
  | Eq => match N.of_nat (length (snd a)) ?= N.of_nat (length (snd b)) with
          | Eq => lex_bytes (snd a) (snd b)
          | c => c
          end
  | c => c
  end.

Fixpoint canon_name_cmp (a b : list scomp) : comparison :=
  match a, b with
  | [], [] => Eq
  | [], _ => Lt
  | _, [] => Gt
  | x :: a', y :: b' => match canon_comp_cmp x y with Eq => canon_name_cmp a' b' | c => c end
  end.
