(* Specification of the enumerated fields of the forwarder management protocol: which numbers a field may carry.
   Flags (TLV type 108) and Mask (112) are bit fields - every union of declared bits, none included; every other
   enumerated field carries exactly one of the declared numbers.  "Decoding returns the fields that were encoded":
   reading such a field returns the encoded number, and a union of flags can be written with the flag type. *)
From NDN Require Import Base.Prelude Model.NfdEnums.
Local Open Scope N_scope.

Definition bitfield_type (t : N) : bool := (t =? 108) || (t =? 112).

Fixpoint unions (ms : list N) : list N :=
  match ms with
  | [] => [0]
  | m :: r => let u := unions r in u ++ map (N.lor m) u
  end.

Definition domain (t : N) (ms : list N) : list N := if bitfield_type t then unions ms else ms.

Definition reads_back (k : ekind) (ms : list N) (v : N) : bool :=
  match typed_read k ms v with Ok w => w =? v | Err _ => false end.

Definition joins (k : ekind) (a b : N) : bool :=
  match join k a b with Ok w => w =? N.lor a b | Err _ => false end.

Definition field_ok (f : efield) : bool :=
  forallb (reads_back (ef_kind f) (ef_members f)) (domain (ef_type f) (ef_members f)) &&
  (negb (bitfield_type (ef_type f)) ||
   forallb (fun a => forallb (joins (ef_kind f) a) (ef_members f)) (ef_members f)).
