(* Specification (NDN packet format 0.3, "Signature"): which bytes of a packet a signature / a
   parameters digest covers, defined by scanning the top-level elements of the packet's value. *)
From NDN Require Import Base.Prelude Model.TlvVar Model.Name.
Local Open Scope N_scope.

Definition T_NAME : N := 7.

(* one top-level element of [w]: (type, whole element bytes, rest); None if not well-formed *)
Definition next_element (w : bytes) : option (N * bytes * bytes) :=
  match tl_dec w with
  | Ok (t, st) =>
      match tl_dec (skipn st w) with
      | Ok (l, sl) =>
          if N.of_nat (length w - (st + sl)) <? l then None
          else let n := (st + sl + N.to_nat l)%nat in Some (t, firstn n w, skipn n w)
      | Err _ => None
      end
  | Err _ => None
  end.

(* bytes of [w] before the first top-level element of Type [t]; None if there is none *)
Fixpoint before_type (fuel : nat) (t : N) (w : bytes) : option bytes :=
  match fuel with
  | O => None
  | S f =>
      match next_element w with
      | Some (t', e, r) => if t' =? t then Some [] else option_map (app e) (before_type f t r)
      | None => None
      end
  end.

(* bytes of [w] from the first top-level element of Type [t] on; None if there is none *)
Fixpoint from_type (fuel : nat) (t : N) (w : bytes) : option bytes :=
  match fuel with
  | O => None
  | S f =>
      match next_element w with
      | Some (t', e, r) => if t' =? t then Some w else from_type f t r
      | None => None
      end
  end.

(* value bytes of the first top-level element of Type [t] *)
Fixpoint value_of_type (fuel : nat) (t : N) (w : bytes) : option bytes :=
  match fuel with
  | O => None
  | S f =>
      match next_element w with
      | Some (t', e, r) =>
          if t' =? t then
            match tl_dec e with
            | Ok (_, st) => match tl_dec (skipn st e) with Ok (_, sl) => Some (skipn (st + sl) e) | Err _ => None end
            | Err _ => None
            end
          else value_of_type f t r
      | None => None
      end
  end.

(* the components of a Name value, each as whole element bytes *)
Fixpoint components (fuel : nat) (v : bytes) : option (list bytes) :=
  match v with
  | [] => Some []
  | _ =>
      match fuel with
      | O => None
      | S f => match next_element v with
               | Some (_, e, r) => option_map (cons e) (components f r)
               | None => None
               end
      end
  end.

Definition comp_type (c : bytes) : N := match tl_dec c with Ok (t, _) => t | Err _ => 0 end.

(* Data value [v]: Name through SignatureInfo = from the Name element (Type 7) up to but excluding
   SignatureValue (Type 23) *)
Definition signed_portion_data (v : bytes) : option bytes :=
  match before_type (S (length v)) 23 v with
  | Some pre => from_type (S (length pre)) T_NAME pre
  | None => None
  end.

(* Interest value [v]: all name components except ParametersSha256 (Type 2), then from
   ApplicationParameters (Type 36) up to but excluding InterestSignatureValue (Type 46) *)
Definition signed_portion_interest (v : bytes) : option bytes :=
  match value_of_type (S (length v)) T_NAME v with
  | Some nv =>
      match components (S (length nv)) nv with
      | Some comps =>
          match before_type (S (length v)) 46 v with
          | Some pre => option_map (app (concat (filter (fun c => negb (comp_type c =? 2)) comps)))
                                   (from_type (S (length pre)) 36 pre)
          | None => None
          end
      | None => None
      end
  | None => None
  end.

(* Interest value [v]: from ApplicationParameters to the end of the Interest *)
Definition digest_portion (v : bytes) : option bytes := from_type (S (length v)) 36 v.

(* the value of the ParametersSha256 component of the name, if exactly that is present *)
Definition digest_component (v : bytes) : option bytes :=
  match value_of_type (S (length v)) T_NAME v with
  | Some nv =>
      match components (S (length nv)) nv with
      | Some comps =>
          match filter (fun c => comp_type c =? 2) comps with
          | [c] => match tl_dec c with
                   | Ok (_, st) => match tl_dec (skipn st c) with Ok (_, sl) => Some (skipn (st + sl) c) | Err _ => None end
                   | Err _ => None
                   end
          | _ => None
          end
      | None => None
      end
  | None => None
  end.

(* the packet value as a sequence of well-formed top-level elements: (Type, whole element bytes) *)
Fixpoint strict_split (fuel : nat) (w : bytes) : option (list (N * bytes)) :=
  match w with
  | [] => Some []
  | _ =>
      match fuel with
      | O => None
      | S f =>
          match next_element w with
          | Some (t, e, r) => option_map (cons (t, e)) (strict_split f r)
          | None => None
          end
      end
  end.
Definition well_formed_value (v : bytes) : Prop := exists sel, strict_split (S (length v)) v = Some sel.
