(* C14 — specification: what it means for a packet to have a valid chain to the trust anchor.
   Mentions only: the schema's signing check, the anchor, the packet, the retrievable certificates. *)
From NDN Require Import Base.Prelude Model.Validator.
Local Open Scope N_scope.

(* What a validator is configured with. *)
Record trust := {
  t_anchor_name : vname;
  t_anchor_key  : bytes;
  t_allowed     : vname -> vname -> bool      (* the schema's signing check: may [key] sign [packet]? *)
}.

(* Signature types that have a public key. *)
Definition asymmetric (ty : N) : bool := (ty =? SIG_RSA) || (ty =? SIG_ECDSA) || (ty =? SIG_ED25519).

(* The packet's signature verifies under the public key [k] (which must not be empty). *)
Definition verifies_sig (w : world) (k : bytes) (p : pkt) : Prop :=
  exists si, p_sig p = Some si /\ asymmetric (s_type si) = true /\ w_verify w (s_type si) k p = Ok true.
Definition verifies (w : world) (k : bytes) (p : pkt) : Prop := k <> [] /\ verifies_sig w k p.

(* The packet names [cn] as its key. *)
Definition names_key (p : pkt) (cn : vname) : Prop :=
  cn <> [] /\ exists si, p_sig p = Some si /\ s_kl si = Some cn.

Inductive Chain (w : world) (t : trust) : pkt -> Prop :=
| ByAnchor p :
    names_key p (t_anchor_name t) ->
    t_allowed t (p_name p) (t_anchor_name t) = true ->
    verifies w (t_anchor_key t) p ->
    Chain w t p
| ByCert p cn c k :
    names_key p cn -> cn <> t_anchor_name t ->
    t_allowed t (p_name p) cn = true ->
    w_fetch w cn = FData c ->                 (* the certificate can be retrieved *)
    p_content c = Some k ->
    verifies w k p ->
    Chain w t c ->
    Chain w t p.

(* The trust configuration of a validator instance. *)
Definition allowed_of (chk : option (vname -> vname -> res bool)) (n cn : vname) : bool :=
  match chk with
  | None => true                              (* bare CascadeChecker: no schema *)
  | Some f => match f n cn with Ok true => true | _ => false end
  end.

Definition trust_of (c : cfg) : trust :=
  {| t_anchor_name := c_anchor_name c; t_anchor_key := c_anchor_key c; t_allowed := allowed_of (c_check c) |}.

(* Constructor: the anchor matches the schema's roots of trust ... *)
Definition anchor_matches (sc : schema) (a : pkt) : Prop :=
  exists ms, sc_match sc (p_name a) = Ok ms /\ ms <> [] /\
             forall r, In r (sc_roots sc) -> In r ms.
(* ... and is properly self-signed: its signature verifies under the key it carries. *)
Definition self_signed (w : world) (a : pkt) : Prop :=
  exists k, p_content a = Some k /\ verifies_sig w k a.

(* boolean forms, used by the harness oracle (equivalences in Proofs/ValidatorProofs.v) *)
Definition anchor_matchesb (sc : schema) (a : pkt) : bool :=
  match sc_match sc (p_name a) with
  | Ok (m :: ms) => subsetb (sc_roots sc) (m :: ms)
  | _ => false
  end.

(* ------------------------------------------------------------------------------------------------
   Executable reference decision of [Chain] (used by the harness as the direct oracle; proved
   equivalent to [Chain] in Proofs/ValidatorProofs.v).  None = fuel exhausted (certificate loop). *)
Definition verifies_sigb (w : world) (k : bytes) (p : pkt) : bool :=
  match p_sig p with
  | Some si => asymmetric (s_type si) && match w_verify w (s_type si) k p with Ok true => true | _ => false end
  | None => false
  end.
Definition verifiesb (w : world) (k : bytes) (p : pkt) : bool :=
  match k with [] => false | _ => verifies_sigb w k p end.

Definition self_signedb (w : world) (a : pkt) : bool :=
  match p_content a with Some k => verifies_sigb w k a | None => false end.

Fixpoint chainb (w : world) (t : trust) (fuel : nat) (p : pkt) : option bool :=
  match key_locator p with
  | None => Some false
  | Some cn =>
      if negb (t_allowed t (p_name p) cn) then Some false
      else if name_eqb cn (t_anchor_name t) then Some (verifiesb w (t_anchor_key t) p)
      else match w_fetch w cn with
           | FData c =>
               match p_content c with
               | Some k =>
                   if verifiesb w k p then
                     match fuel with O => None | S f => chainb w t f c end
                   else Some false
               | None => Some false
               end
           | _ => Some false
           end
  end.
