(* What the documentation of TlvModel derivation promises (docs/src/examples/tlv_model.rst, "Derivation",
   "Overriding"), stated without the position dictionary:

     including a base behaves as if the base's own body had been written at the place of the IncludeBase
     (recursively);  in the resulting sequence of declarations every name is encoded ONCE, at the place
     where it was declared FIRST, with the field that was declared LAST.                                  *)
From NDN Require Import Base.Prelude Model.TlvCollect.
Local Open Scope N_scope.

Section Spec.
  Context {A : Type}.

  (* the body with every IncludeBase textually replaced by the base's body *)
  Fixpoint pasted (b : body A) : list (N * A) :=
    match b with
    | BNil => []
    | BOwn n a r => (n, a) :: pasted r
    | BIncl base r => pasted base ++ pasted r
    end.

  Definition drop (x : N) (l : list N) : list N := filter (fun y => negb (y =? x)) l.
  (* the distinct names of a sequence, each at its first occurrence *)
  Fixpoint firsts (l : list N) : list N :=
    match l with [] => [] | x :: r => x :: drop x (firsts r) end.

  (* the last declaration of a name *)
  Fixpoint last_def (n : N) (l : list (N * A)) : option A :=
    match l with
    | [] => None
    | (m, a) :: r => match last_def n r with Some b => Some b | None => if n =? m then Some a else None end
    end.

  (* the expected field list of a sequence of declarations *)
  Definition declared_order (l : list (N * A)) : list N := firsts (map fst l).
  Definition collected_ok (l : list (N * A)) (got : list (N * A)) : Prop :=
    map fst got = declared_order l /\ forall n, al_get N.eqb got n = last_def n l.
End Spec.
