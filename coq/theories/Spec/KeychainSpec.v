(* Specification of the keychain (C15): nested finite maps identity -> key -> certificate with one
   optional default per scope, plus the set of private keys.  No tables, row ids, transactions or caches.

   Ownership follows the NDN naming convention: key K belongs to identity K[:-2], certificate C to key
   C[:-2].  Maps are association lists in insertion order. *)
From NDN Require Import Base.Prelude Model.Keychain.
Local Open Scope N_scope.

Record skey := mkSK { sk_bits : N; sk_certs : list (name * N); sk_defcert : option name }.
Record sident := mkSI { si_keys : list (name * skey); si_defkey : option name }.
Record skc := mkSKC { s_ids : list (name * sident); s_defid : option name; s_tpm : list (name * N) }.
Definition s_empty : skc := mkSKC [] None [].

Notation nget := (al_get name_eqb).
Notation nset := (al_set name_eqb).
Notation ndel := (al_del name_eqb).
Notation nmem := (al_mem name_eqb).

(* ---- the three Mapping views ------------------------------------------------------------------ *)
Definition view_names {V} (m : list (name * V)) : list name := map fst m.     (* iteration *)
Definition view_len {V} (m : list (name * V)) : nat := length m.              (* len() *)
Definition view_get {V} (m : list (name * V)) (n : name) : option V := nget m n.   (* [] / get *)
Definition view_mem {V} (m : list (name * V)) (n : name) : bool := nmem m n.  (* in *)

Definition s_ident (a : skc) (idn : name) : option sident := nget (s_ids a) idn.
Definition s_key (a : skc) (kn : name) : option skey :=
  odo i <- s_ident a (drop2 kn) ;; nget (si_keys i) kn.
Definition s_cert (a : skc) (cn : name) : option N :=
  odo k <- s_key a (drop2 cn) ;; nget (sk_certs k) cn.

(* ---- updates ---------------------------------------------------------------------------------- *)
Definition first_default (d : option name) (n : name) : option name :=
  match d with None => Some n | Some _ => d end.           (* the first member of a scope becomes its default *)
Definition clear_default (d : option name) (n : name) : option name :=
  match d with Some x => if name_eqb x n then None else d | None => None end.

Definition upd_ident (a : skc) (idn : name) (f : sident -> sident) : skc :=
  match s_ident a idn with
  | Some i => mkSKC (nset (s_ids a) idn (f i)) (s_defid a) (s_tpm a)
  | None => a
  end.
Definition upd_key (a : skc) (kn : name) (f : skey -> skey) : skc :=
  upd_ident a (drop2 kn) (fun i =>
    match nget (si_keys i) kn with
    | Some k => mkSI (nset (si_keys i) kn (f k)) (si_defkey i)
    | None => i
    end).

Definition s_add_identity (n : name) (a : skc) : skc :=
  mkSKC (nset (s_ids a) n (mkSI [] None)) (first_default (s_defid a) n) (s_tpm a).
Definition s_add_key (kn : name) (bits : N) (a : skc) : skc :=
  let a' := upd_ident a (drop2 kn) (fun i => mkSI (nset (si_keys i) kn (mkSK bits [] None)) (first_default (si_defkey i) kn)) in
  mkSKC (s_ids a') (s_defid a') (nset (s_tpm a') kn bits).
Definition s_add_cert (cn : name) (data : N) (a : skc) : skc :=
  upd_key a (drop2 cn) (fun k => mkSK (sk_bits k) (nset (sk_certs k) cn data) (first_default (sk_defcert k) cn)).

Definition s_remove_cert (cn : name) (a : skc) : skc :=
  upd_key a (drop2 cn) (fun k => mkSK (sk_bits k) (ndel (sk_certs k) cn) (clear_default (sk_defcert k) cn)).
(* a key goes with its certificates and its private key *)
Definition s_remove_key (kn : name) (a : skc) : skc :=
  let a' := upd_ident a (drop2 kn) (fun i => mkSI (ndel (si_keys i) kn) (clear_default (si_defkey i) kn)) in
  mkSKC (s_ids a') (s_defid a') (ndel (s_tpm a') kn).
(* an identity goes with all its keys *)
Definition s_remove_identity (n : name) (a : skc) : skc :=
  match s_ident a n with
  | None => a
  | Some i =>
      let a' := fold_left (fun x kn => s_remove_key kn x) (view_names (si_keys i)) a in
      mkSKC (ndel (s_ids a') n) (clear_default (s_defid a') n) (s_tpm a')
  end.

(* ---- operations: None = the call is refused (raises) and changes nothing ----------------------- *)
Definition guard (b : bool) (a : skc) : option skc := if b then Some a else None.

Definition s_new_key (idn : name) (ktype : N) (ks : kidspec) (bits ver : N) (a : skc) : option skc :=
  odo _ <- s_ident a idn ;;
  if 2 <=? ktype then None else
  odo kid <- (match ks with KidExplicit c => Some c | KidRandom cs => to_option (pick_kid idn cs (s_tpm a)) end) ;;
  let kn := idn ++ [C_KEY; kid] in
  if nmem (s_tpm a) kn then None else
  match s_key a kn with Some _ => None | None =>
    Some (s_add_cert (kn ++ [C_SELF; ver]) 0 (s_add_key kn bits a)) end.

Definition spec_step (o : op) (a : skc) : option skc :=
  match o with
  | ONewIdentity n =>
      match s_ident a n with Some _ => None | None => Some (s_add_identity n a) end
  | OTouchIdentity n cs m v =>
      match s_ident a n with
      | Some _ => Some (mkSKC (s_ids a) (first_default (s_defid a) n) (s_tpm a))
      | None => s_new_key n 0 (KidRandom cs) m v (s_add_identity n a)
      end
  | ONewKey idn t ks m v => s_new_key idn t ks m v a
  | OImportCert kn cn d =>
      match s_key a kn, s_cert a cn with
      | Some _, None => Some (s_add_cert cn d a)
      | _, _ => None
      end
  | OSetDefaultIdentity n =>
      Some (match s_ident a n with Some _ => mkSKC (s_ids a) (Some n) (s_tpm a) | None => a end)
  | OSetDefaultKey idn kn =>
      odo _ <- s_ident a idn ;;
      Some (match s_key a kn with
            | Some _ => upd_ident a (drop2 kn) (fun i => mkSI (si_keys i) (Some kn))
            | None => a end)
  | OSetDefaultCert idn kn cn =>
      odo i <- s_ident a idn ;; odo _ <- nget (si_keys i) kn ;;
      Some (match s_cert a cn with
            | Some _ => upd_key a (drop2 cn) (fun k => mkSK (sk_bits k) (sk_certs k) (Some cn))
            | None => a end)
  | ODelCert cn => Some (s_remove_cert cn a)
  | ODelKey kn => odo _ <- s_key a kn ;; Some (s_remove_key kn a)
  | ODelIdentity n => odo _ <- s_ident a n ;; Some (s_remove_identity n a)
  | OIdDelKey idn kn => odo _ <- s_ident a idn ;; odo _ <- s_key a kn ;; Some (s_remove_key kn a)
  | OKeyDelCert idn kn cn =>
      odo i <- s_ident a idn ;; odo _ <- nget (si_keys i) kn ;; Some (s_remove_cert cn a)
  | OGetSigner _ => Some a
  | OReopen => Some a
  end.

(* ---- the signer for given signing arguments ---------------------------------------------------- *)
(* selected key and certificate: explicit certificate > explicit key > identity > default identity *)
Definition s_select (g : sign_args) (a : skc) : option (name * name) :=
  match a_cert g with
  | Some cn => Some (drop2 cn, cn)
  | None =>
    match a_key g with
    | Some kn => odo k <- s_key a kn ;; odo d <- sk_defcert k ;; Some (kn, d)
    | None =>
        odo idn <- (match a_ident g with Some n => Some n | None => s_defid a end) ;;
        odo i <- s_ident a idn ;; odo kn <- si_defkey i ;;
        odo k <- nget (si_keys i) kn ;; odo d <- sk_defcert k ;; Some (kn, d)
    end
  end.
(* private key of the selected key; key locator = explicit key_locator or the selected certificate *)
Definition signer_of (g : sign_args) (a : skc) : option signer :=
  if a_nosig g then Some SgNone else if a_digest g then Some SgDigest else
  odo kc <- s_select g a ;;
  odo m <- nget (s_tpm a) (fst kc) ;;
  Some (SgKey m (match a_locator g with Some l => l | None => snd kc end)).

(* ---- the histories the specification speaks about: certificates are imported under their key ---------- *)
Definition wf_op (o : op) : Prop :=
  match o with
  | OImportCert kn cn _ => drop2 cn = kn /\ (2 <= length cn)%nat
  | _ => True
  end.

(* ---- the defaults invariant -------------------------------------------------------------------- *)
(* a default, when there is one, is a member of its scope (at most one per scope holds by construction) *)
Definition default_ok {V} (m : list (name * V)) (d : option name) : bool :=
  match d with Some n => nmem m n | None => true end.
Definition s_defaults_ok (a : skc) : bool :=
  default_ok (s_ids a) (s_defid a) &&
  forallb (fun i => default_ok (si_keys (snd i)) (si_defkey (snd i)) &&
                    forallb (fun k => default_ok (sk_certs (snd k)) (sk_defcert (snd k))) (si_keys (snd i))) (s_ids a).
