(* Extraction entry point for C01. *)
From NDN Require Import Extract.PacketRun.
From Coq Require Extraction ExtrOcamlBasic.
Extraction "../ocaml/build/C01/model.ml" run.
