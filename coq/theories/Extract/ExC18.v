(* Extraction entry point for C18 (state-vector sync): model (ops 1-3) and specification (ops 10-19). *)
From NDN Require Import Base.Prelude Base.Sexp Model.Svs Spec.SvsSpec.
From Coq Require Extraction ExtrOcamlBasic.
Local Open Scope N_scope.

Definition or_bad (o : option sexp) : sexp := match o with Some s => s | None => s_bad_request end.

Definition as_vec (s : sexp) : option (list (bytes * N)) := as_list_of (as_pair as_bytes as_num) s.
Definition s_vec (v : list (bytes * N)) : sexp := s_list (s_pair SBytes SNum) v.
Definition as_wire (s : sexp) : option (list (option bytes * option N)) :=
  as_list_of (as_pair (as_opt as_bytes) (as_opt as_num)) s.

Definition as_cfg (s : sexp) : option cfg :=
  match s with
  | SList [SBytes self; i; u] =>
      odo i' <- as_num i ;; odo u' <- as_num u ;;
      Some {| c_self := self; c_sync_interval := i'; c_sup_interval := u' |}
  | _ => None
  end.
Definition as_mode (s : sexp) : option svs_mode :=
  odo n <- as_num s ;; Some (if n =? 0 then Steady else Suppression).
Definition s_mode (m : svs_mode) : sexp := SNum (match m with Steady => 0 | Suppression => 1 end).
Definition as_st (s : sexp) : option st :=
  match s with
  | SList [l; a; m; q; t] =>
      odo l' <- as_vec l ;; odo a' <- as_vec a ;; odo m' <- as_mode m ;; odo q' <- as_num q ;; odo t' <- as_num t ;;
      Some {| local := l'; agg := a'; mode := m'; self_seq := q'; next_timing := t' |}
  | _ => None
  end.
Definition s_st (s : st) : sexp :=
  SList [s_vec (local s); s_vec (agg s); s_mode (mode s); SNum (self_seq s); SNum (next_timing s)].
Definition s_out (o : out) : sexp :=
  SList [s_bool (o_cb o); s_opt s_vec (o_emit o); s_bool (o_raise o); SNum (o_tag o)].

Definition as_class (s : sexp) : option recv_class :=
  match s with
  | SList [SNum 0] => Some RBadLen
  | SList [SNum 1] => Some RParseFail
  | SList [SNum 2] => Some RParseRaise
  | SList [SNum 3] => Some RNoVec
  | SList [SNum 4; w] => option_map RVec (as_wire w)
  | _ => None
  end.
Definition as_event (s : sexp) : option event :=
  match s with
  | SList [SNum 0; now; r; x] =>
      odo n <- as_num now ;; odo r' <- as_num r ;; odo x' <- as_class x ;; Some (ERecv n r' x')
  | SList [SNum 1] => Some EPublish
  | SList [SNum 2; now; r] => odo n <- as_num now ;; odo r' <- as_num r ;; Some (EClock n r')
  | _ => None
  end.

Definition as_hev (s : sexp) : option hev :=
  match s with
  | SList [SNum 0; w] => option_map HRecv (as_wire w)
  | SList [SNum 1] => Some HPublish
  | SList [SNum 2] => Some HOther
  | _ => None
  end.

Fixpoint run_all (c : cfg) (s : st) (h : list event) : list sexp :=
  match h with
  | [] => []
  | e :: h' => let '(s', o) := step c s e in SList [s_st s'; s_out o] :: run_all c s' h'
  end.

Definition run (req : sexp) : sexp :=
  match req with
  (* model *)
  | SList [SNum 1; c; last; k] =>
      or_bad (odo c' <- as_cfg c ;; odo l <- as_num last ;; odo k' <- as_num k ;;
              if 1000 <? k' then None else Some (s_st (init c' l (N.to_nat k'))))
  | SList [SNum 2; c; s; e] =>
      or_bad (odo c' <- as_cfg c ;; odo s' <- as_st s ;; odo e' <- as_event e ;;
              let '(s2, o) := step c' s' e' in Some (SList [s_st s2; s_out o]))
  | SList [SNum 3; c; s; h] =>
      or_bad (odo c' <- as_cfg c ;; odo s' <- as_st s ;; odo h' <- as_list_of as_event h ;;
              Some (SList (run_all c' s' h')))
  (* life cycle: the constructed (not started) state; start() of a constructed / stopped state *)
  | SList [SNum 4; last] => or_bad (odo l <- as_num last ;; Some (s_st (construct l)))
  | SList [SNum 5; c; s] => or_bad (odo c' <- as_cfg c ;; odo s' <- as_st s ;; Some (s_st (start c' s')))
  (* specification *)
  | SList [SNum 10; SBytes self; q; w] =>
      or_bad (odo q' <- as_num q ;; odo w' <- as_wire w ;; Some (s_bool (acceptedb self q' w')))
  | SList [SNum 11; w] => or_bad (odo w' <- as_wire w ;; Some (s_vec (denote w')))
  | SList [SNum 12; a; b] => or_bad (odo a' <- as_vec a ;; odo b' <- as_vec b ;; Some (s_vec (pmax a' b')))
  | SList [SNum 13; a; b] => or_bad (odo a' <- as_vec a ;; odo b' <- as_vec b ;; Some (s_bool (newerb a' b')))
  | SList [SNum 14; cur; v; m] =>
      or_bad (odo cur' <- as_opt as_vec cur ;; odo v' <- as_opt as_vec v ;; odo m' <- as_bool m ;;
              Some (s_opt s_vec (heard_step cur' (v', m'))))
  | SList [SNum 15; SBytes self; q; w] =>
      or_bad (odo q' <- as_num q ;; odo w' <- as_wire w ;; Some (s_bool (overclaimsb self q' w')))
  | SList [SNum 16; SBytes self; l; q; e] =>
      or_bad (odo l' <- as_vec l ;; odo q' <- as_num q ;; odo e' <- as_hev e ;;
              let r := spec_step self (l', q') e' in Some (SList [s_vec (fst r); SNum (snd r)]))
  | SList [SNum 17; v; SBytes k] => or_bad (odo v' <- as_vec v ;; Some (SNum (vget v' k)))
  | SList [SNum 18; w] => or_bad (odo w' <- as_wire w ;; Some (s_bool (well_formedb w')))
  | _ => s_bad_request
  end.

Extraction "../ocaml/build/C18/model.ml" run.
