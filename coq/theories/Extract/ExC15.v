(* Extraction entry point for C15 (keychain): the model run on whole histories, and the specification
   (one step of the nested-map keychain, the signer selection, the defaults check). *)
From NDN Require Import Base.Prelude Base.Sexp Model.Keychain Spec.KeychainSpec.
From Coq Require Extraction ExtrOcamlBasic.
Local Open Scope N_scope.

Definition as_name (s : sexp) : option name := as_list_of as_num s.
Definition s_name (n : name) : sexp := s_list SNum n.
Definition or_bad (o : option sexp) : sexp := match o with Some s => s | None => s_bad_request end.

Definition as_kidspec (s : sexp) : option kidspec :=
  match s with
  | SList (SNum 0 :: l) => option_map KidRandom (omap as_num l)
  | SList [SNum 1; c] => option_map KidExplicit (as_num c)
  | _ => None
  end.
Definition as_args (s : sexp) : option sign_args :=
  match s with
  | SList [ns; dg; c; k; i; l] =>
      odo ns <- as_bool ns ;; odo dg <- as_bool dg ;; odo c <- as_opt as_name c ;; odo k <- as_opt as_name k ;;
      odo i <- as_opt as_name i ;; odo l <- as_opt as_name l ;; Some (mkArgs ns dg c k i l)
  | _ => None
  end.
Definition as_op (s : sexp) : option op :=
  match s with
  | SList [SNum 1; n] => option_map ONewIdentity (as_name n)
  | SList [SNum 2; n; SList cs; m; v] =>
      odo n <- as_name n ;; odo cs <- omap as_num cs ;; odo m <- as_num m ;; odo v <- as_num v ;;
      Some (OTouchIdentity n cs m v)
  | SList [SNum 3; n; t; ks; m; v] =>
      odo n <- as_name n ;; odo t <- as_num t ;; odo ks <- as_kidspec ks ;; odo m <- as_num m ;; odo v <- as_num v ;;
      Some (ONewKey n t ks m v)
  | SList [SNum 4; k; c; d] => odo k <- as_name k ;; odo c <- as_name c ;; odo d <- as_num d ;; Some (OImportCert k c d)
  | SList [SNum 5; n] => option_map OSetDefaultIdentity (as_name n)
  | SList [SNum 6; i; k] => odo i <- as_name i ;; odo k <- as_name k ;; Some (OSetDefaultKey i k)
  | SList [SNum 7; i; k; c] => odo i <- as_name i ;; odo k <- as_name k ;; odo c <- as_name c ;; Some (OSetDefaultCert i k c)
  | SList [SNum 8; c] => option_map ODelCert (as_name c)
  | SList [SNum 9; k] => option_map ODelKey (as_name k)
  | SList [SNum 10; n] => option_map ODelIdentity (as_name n)
  | SList [SNum 11; i; k] => odo i <- as_name i ;; odo k <- as_name k ;; Some (OIdDelKey i k)
  | SList [SNum 12; i; k; c] => odo i <- as_name i ;; odo k <- as_name k ;; odo c <- as_name c ;; Some (OKeyDelCert i k c)
  | SList [SNum 13; a] => option_map OGetSigner (as_args a)
  | SList [SNum 14] => Some OReopen
  | _ => None
  end.
Definition as_fop (s : sexp) : option (option nat * op) := as_pair (as_opt as_nat) as_op s.

Definition s_signer (g : signer) : sexp :=
  match g with
  | SgNone => SList [SNum 0]
  | SgDigest => SList [SNum 1]
  | SgKey m l => SList [SNum 2; SNum m; s_name l]
  end.
Definition s_rv (r : rv) : sexp :=
  match r with
  | RNone => SList [SNum 0]
  | RIdent n d => SList [SNum 1; s_name n; s_bool d]
  | RKey n b d => SList [SNum 2; s_name n; SNum b; s_bool d]
  | RSigner g => SList [SNum 3; s_signer g]
  end.
Definition s_ocert (c : ocert) : sexp := SList [s_name (oc_name c); SNum (oc_data c); s_bool (oc_def c)].
Definition s_okey (k : okey) : sexp :=
  SList [s_name (ok_name k); SNum (ok_bits k); s_bool (ok_def k); s_nat (ok_len k); s_list s_ocert (ok_certs k);
         s_opt s_name (ok_default k)].
Definition s_oident (i : oident) : sexp :=
  SList [s_name (oi_name i); s_bool (oi_def i); s_nat (oi_len i); s_list s_okey (oi_keys i); s_opt s_name (oi_default i)].
Definition s_tpm_l (l : list (name * N)) : sexp := s_list (s_pair s_name SNum) l.
Definition s_obs (o : obs) : sexp :=
  SList [s_nat (o_len o); s_list s_oident (o_ids o); s_opt s_name (o_default o); s_tpm_l (o_tpm o)].

(* run a history from the empty store; per operation: result and what is observable afterwards;
   the last element tells whether a transaction was left open (db <> disk is reported by the flag) *)
Definition tables_eqb (a b : tables) : bool :=
  let req (x y : row) := (r_id x =? r_id y) && (r_par x =? r_par y) && name_eqb (r_name x) (r_name y)
                         && (r_val x =? r_val y) && Bool.eqb (r_def x) (r_def y) in
  list_eqb req (t_ids a) (t_ids b) && list_eqb req (t_keys a) (t_keys b) && list_eqb req (t_certs a) (t_certs b).
Fixpoint run_trace (h : list (option nat * op)) (s : cst) : list sexp :=
  match h with
  | [] => []
  | (f, o) :: r =>
      let (res, s') := run_op f o s in
      SList [s_res s_rv res; s_obs (observe s'); s_bool (tables_eqb (db s') (disk s'))] :: run_trace r s'
  end.

(* specification state *)
Definition as_skey (s : sexp) : option skey :=
  match s with
  | SList [b; cs; d] => odo b <- as_num b ;; odo cs <- as_list_of (as_pair as_name as_num) cs ;;
                        odo d <- as_opt as_name d ;; Some (mkSK b cs d)
  | _ => None end.
Definition as_sident (s : sexp) : option sident :=
  match s with
  | SList [ks; d] => odo ks <- as_list_of (as_pair as_name as_skey) ks ;; odo d <- as_opt as_name d ;; Some (mkSI ks d)
  | _ => None end.
Definition as_skc (s : sexp) : option skc :=
  match s with
  | SList [ids; d; t] => odo ids <- as_list_of (as_pair as_name as_sident) ids ;; odo d <- as_opt as_name d ;;
                         odo t <- as_list_of (as_pair as_name as_num) t ;; Some (mkSKC ids d t)
  | _ => None end.
Definition s_skey (k : skey) : sexp := SList [SNum (sk_bits k); s_tpm_l (sk_certs k); s_opt s_name (sk_defcert k)].
Definition s_sident (i : sident) : sexp := SList [s_list (s_pair s_name s_skey) (si_keys i); s_opt s_name (si_defkey i)].
Definition s_skc (a : skc) : sexp :=
  SList [s_list (s_pair s_name s_sident) (s_ids a); s_opt s_name (s_defid a); s_tpm_l (s_tpm a)].

Definition run (req : sexp) : sexp :=
  match req with
  | SList [SNum 1; SList h] => or_bad (odo h <- omap as_fop h ;; Some (SList (run_trace h init_core)))
  | SList [SNum 2; a; o] => or_bad (odo a <- as_skc a ;; odo o <- as_op o ;; Some (s_opt s_skc (spec_step o a)))
  | SList [SNum 3; a; g] => or_bad (odo a <- as_skc a ;; odo g <- as_args g ;; Some (s_opt s_signer (signer_of g a)))
  | SList [SNum 4; a] => or_bad (odo a <- as_skc a ;; Some (s_bool (s_defaults_ok a)))
  | SList [SNum 5; a; g] => or_bad (odo a <- as_skc a ;; odo g <- as_args g ;;
                                    Some (s_opt (s_pair s_name s_name) (s_select g a)))
  | _ => s_bad_request
  end.

Extraction "../ocaml/build/C15/model.ml" run.
