(* Extraction entry point for C11 (Light VerSec).  The dispatcher is shared: Extract/LvsRun.v. *)
From NDN Require Import Base.Prelude Base.Sexp Extract.LvsRun.
From Coq Require Extraction ExtrOcamlBasic.

Definition run := LvsRun.run.

Extraction "../ocaml/build/C11/model.ml" run.
