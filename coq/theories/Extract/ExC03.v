(* Extraction entry point for C03 / C05: the operational pipeline model and its specification. *)
From NDN Require Import Base.Prelude Base.Sexp Spec.ExpressSpec Model.ExpressPipeline.
From Coq Require Extraction ExtrOcamlBasic.
Local Open Scope N_scope.

Definition as_fe (s : sexp) : option frontend :=
  odo n <- as_num s ;; Some (if n =? 2 then V2 else V1).
Definition as_name (s : sexp) : option name := as_list_of as_num s.
Definition as_tie (s : sexp) : option tie :=
  odo n <- as_num s ;; Some (if n =? 0 then NoTie else if n =? 1 then EvFirst else Mid).
Definition as_vm (s : sexp) : option vmode :=
  match s with
  | SList [SNum 0; v] => option_map VImm (as_num v)
  | SList [SNum 1] => Some VDef
  | _ => None
  end.
Definition as_ev (s : sexp) : option ev :=
  match s with
  | SList [SNum 0; i; n; cbp; dig; life; vm; t] =>
      odo i <- as_num i ;; odo n <- as_name n ;; odo cbp <- as_bool cbp ;; odo dig <- as_opt as_num dig ;;
      odo life <- as_num life ;; odo vm <- as_vm vm ;; odo t <- as_num t ;; Some (Express i n cbp dig life vm t)
  | SList [SNum 1; i; t] => odo i <- as_num i ;; odo t <- as_num t ;; Some (Await i t)
  | SList [SNum 2; d; n; h; t] =>
      odo d <- as_num d ;; odo n <- as_name n ;; odo h <- as_num h ;; odo t <- as_num t ;; Some (Data d n h t)
  | SList [SNum 3; n; dig; r; t] =>
      odo n <- as_name n ;; odo dig <- as_opt as_num dig ;; odo r <- as_num r ;; odo t <- as_num t ;; Some (Nack n dig r t)
  | SList [SNum 4; i; v; t] => odo i <- as_num i ;; odo v <- as_num v ;; odo t <- as_num t ;; Some (VDone i v t)
  | SList [SNum 5; i; t] => odo i <- as_num i ;; odo t <- as_num t ;; Some (Cancel i t)
  | SList [SNum 6; t] => odo t <- as_num t ;; Some (Shutdown t)
  | SList [SNum 7; t] => odo t <- as_num t ;; Some (AdvanceTo t)
  | SList [SNum 8; p; hv; t] => odo p <- as_name p ;; odo hv <- as_bool hv ;; odo t <- as_num t ;; Some (Attach p hv t)
  | SList [SNum 9; k; n; hp; sg; dok; v; t] =>
      odo k <- as_num k ;; odo n <- as_name n ;; odo hp <- as_bool hp ;; odo sg <- as_num sg ;; odo dok <- as_bool dok ;;
      odo v <- as_num v ;; odo t <- as_num t ;; Some (Incoming k n hp sg dok v t)
  | SList [SNum 10; own; t] => odo own <- as_bool own ;; odo t <- as_num t ;; Some (SetDefault own t)
  | _ => None
  end.
Definition as_hist (s : sexp) : option (list (tie * ev)) := as_list_of (as_pair as_tie as_ev) s.

Definition s_outcome (o : outcome) : sexp :=
  match o with
  | OGot d => SList [SNum 0; SNum d]
  | OInvalid d v => SList [SNum 1; SNum d; SNum v]
  | ONack r => SList [SNum 2; SNum r]
  | OTimeout => SList [SNum 3]
  | OCancelled => SList [SNum 4]
  | OErr e => SList [SNum 5; SNum (err_code e)]
  end.
Definition s_istate (x : istate) : sexp :=
  match x with
  | INone => SList [SNum 0]
  | IPending _ => SList [SNum 1]
  | IValidating _ d => SList [SNum 2; SNum d]
  | IDone o => SList [SNum 3; s_outcome o]
  end.
Definition s_obs (s : st) : sexp :=
  SList [ s_list (fun x : N * outcome * N => SList [SNum (fst (fst x)); s_outcome (snd (fst x)); SNum (snd x)]) s.(log);
          s_list SNum s.(face_out);
          s_list (fun e => SNum (err_code e)) s.(errs);
          s_nat (pit_nodes s);
          s_list SNum (pit_entries s);
          s_list (s_pair SNum SNum) s.(vcalls);
          s_list SNum s.(refused);
          s_list (fun x : N * inc => SList [SNum (fst x); SNum (snd x).(k_id)]) s.(hcalls);
          s_list SNum s.(ivcalls) ].

Definition or_bad (o : option sexp) : sexp := match o with Some s => s | None => s_bad_request end.

Definition run (req : sexp) : sexp :=
  match req with
  (* model: observations after a history *)
  | SList [SNum 1; fe; h] => or_bad (odo fe <- as_fe fe ;; odo h <- as_hist h ;; Some (s_obs (run_hist fe h)))
  (* specification: state of the automaton of Interest i after a history *)
  | SList [SNum 2; fe; h; is] =>
      or_bad (odo fe <- as_fe fe ;; odo h <- as_hist h ;; odo is <- as_list_of as_num is ;;
              Some (s_list (fun i => s_istate (spec_state fe h i)) is))
  (* specification: is an application-supplied validator in force on a route (with / without its own validator)
     for an Interest dispatched after the history h *)
  | SList [SNum 4; fe; hv; h] =>
      or_bad (odo fe <- as_fe fe ;; odo hv <- as_bool hv ;; odo h <- as_hist h ;;
              Some (s_bool (in_force fe hv (default_of h))))
  (* specification: may this incoming Interest be delivered when an application-supplied validator is / is not in force *)
  | SList [SNum 3; fe; hv; SList [k; n; hp; sg; dok; v]] =>
      or_bad (odo fe <- as_fe fe ;; odo hv <- as_bool hv ;; odo k <- as_num k ;; odo n <- as_name n ;; odo hp <- as_bool hp ;;
              odo sg <- as_num sg ;; odo dok <- as_bool dok ;; odo v <- as_num v ;;
              Some (s_bool (may_deliver fe hv (mkInc k n hp sg dok v))))
  | _ => s_bad_request
  end.

Extraction "../ocaml/build/C03/model.ml" run.
