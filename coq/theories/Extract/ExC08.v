(* Extraction entry point for C08 (generic TLV models). *)
From NDN Require Import Base.Prelude Base.Sexp Base.Utf8 Model.TlvVar Model.Tlv Model.TlvCollect Extract.TlvSexp.
From Coq Require Extraction ExtrOcamlBasic.
Local Open Scope N_scope.

(* a class body: ((0 name field-id) | (1 <body of the included base>)) ...   (Model/TlvCollect.v) *)
Fixpoint as_body (fuel : nat) (s : sexp) : option (body N) :=
  match fuel with
  | O => None
  | S f =>
      match s with
      | SList items =>
          (fix go (its : list sexp) : option (body N) :=
             match its with
             | [] => Some BNil
             | SList [SNum 0; n; a] :: r =>
                 odo nn <- as_num n ;; odo aa <- as_num a ;; odo rr <- go r ;; Some (BOwn nn aa rr)
             | SList [SNum 1; b] :: r =>
                 odo bb <- as_body f b ;; odo rr <- go r ;; Some (BIncl bb rr)
             | _ => None
             end) items
      | _ => None
      end
  end.

Definition run (req : sexp) : sexp :=
  match req with
  | SList [SNum 1; fs; vs] =>
      or_bad (odo f <- as_fields fs ;; odo v <- as_values vs ;;
              Some (s_res SBytes (encode_model (S (fields_depth f)) f v)))
  | SList [SNum 2; fs; vs] =>
      or_bad (odo f <- as_fields fs ;; odo v <- as_values vs ;;
              Some (s_res SNum (encoded_length_model (S (fields_depth f)) f v)))
  | SList [SNum 3; fs; ic; SBytes w] =>
      or_bad (odo f <- as_fields fs ;; odo i <- as_bool ic ;;
              Some (s_res s_values (parse_model (S (fields_depth f)) f i w)))
  | SList [SNum 4; SBytes w] => s_res (s_list s_elem) (split_wire w)
  | SList [SNum 5; SBytes b] => s_bool (utf8_valid b)
  | SList [SNum 6; b] =>
      or_bad (odo bb <- as_body 64 b ;; Some (s_list (s_pair SNum SNum) (collect bb)))
  | _ => s_bad_request
  end.

Extraction "../ocaml/build/C08/model.ml" run.
