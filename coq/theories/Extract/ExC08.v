(* Extraction entry point for C08 (generic TLV models). *)
From NDN Require Import Base.Prelude Base.Sexp Base.Utf8 Model.TlvVar Model.Tlv Extract.TlvSexp.
From Coq Require Extraction ExtrOcamlBasic.
Local Open Scope N_scope.

Definition run (req : sexp) : sexp :=
  match req with
  | SList [SNum 1; fs; vs] =>
      or_bad (odo f <- as_fields fs ;; odo v <- as_values vs ;;
              Some (s_res SBytes (encode_model (S (fields_depth f)) f v)))
  | SList [SNum 2; fs; vs] =>
      or_bad (odo f <- as_fields fs ;; odo v <- as_values vs ;;
              Some (s_res SNum (encoded_length_model (S (fields_depth f)) f v)))
  | SList [SNum 3; fs; ic; SBytes w] =>
      or_bad (odo f <- as_fields fs ;; odo i <- as_bool ic ;;
              Some (s_res s_values (parse_model (S (fields_depth f)) f i w)))
  | SList [SNum 4; SBytes w] => s_res (s_list s_elem) (split_wire w)
  | SList [SNum 5; SBytes b] => s_bool (utf8_valid b)
  | _ => s_bad_request
  end.

Extraction "../ocaml/build/C08/model.ml" run.
