(* Extraction entry point for C17 (prefix registration): codec helpers, the registration machine and
   the specification automata. *)
From NDN Require Import Base.Prelude Base.Sexp Base.Text Model.TlvVar Model.Name Model.Tlv Extract.TlvSexp.
From NDN Require Import Model.NfdMgmt Model.Registerer Spec.Registration Model.NfdEnums Spec.NfdEnums.
From NDN Require Generated.NfdEnums.
From Coq Require Extraction ExtrOcamlBasic.
Local Open Scope N_scope.

Definition as_name (s : sexp) : option name := as_list_of as_bytes s.
Definition s_name (n : name) : sexp := s_list SBytes n.

Definition as_kindr (s : sexp) : option kind :=
  match as_num s with Some 0 => Some KReg | Some 1 => Some KUnreg | _ => None end.
Definition s_kindr (k : kind) : sexp := SNum (match k with KReg => 0 | KUnreg => 1 end).

Definition as_cmp (s : sexp) : option cmpop :=
  match as_num s with
  | Some 0 => Some CNe | Some 1 => Some CEq | Some 2 => Some CLt | Some 3 => Some CLe
  | Some 4 => Some CGt | Some 5 => Some CGe | _ => None
  end.
Definition s_cmp (c : cmpop) : sexp :=
  SNum (match c with CNe => 0 | CEq => 1 | CLt => 2 | CLe => 3 | CGt => 4 | CGe => 5 end).

Definition as_tsmode (s : sexp) : option ts_mode :=
  match s with
  | SList [SNum 0] => Some TsNone
  | SList [SNum 1; k; b] => odo kk <- as_nat k ;; odo bb <- as_bool b ;; Some (TsLoop kk bb)
  | SList [SNum 2] => Some TsMax
  | _ => None
  end.
Definition s_tsmode (m : ts_mode) : sexp :=
  match m with
  | TsNone => SList [SNum 0]
  | TsLoop k b => SList [SNum 1; s_nat k; s_bool b]
  | TsMax => SList [SNum 2]
  end.

Definition as_proto (s : sexp) : option proto :=
  match s with
  | SList [sem; ts; rec; chk; cmp; code; cd; ce; va; bo] =>
      odo a <- as_bool sem ;; odo b <- as_tsmode ts ;; odo c <- as_bool rec ;; odo d <- as_bool chk ;;
      odo e <- as_cmp cmp ;; odo f <- as_num code ;; odo g <- as_bool cd ;; odo h <- as_bool ce ;;
      odo i <- as_bool va ;; odo j <- as_bool bo ;;
      Some {| p_sem := a; p_ts := b; p_recorded := c; p_checks := d; p_cmp := e; p_code := f;
              p_catch_decode := g; p_catch_express := h; p_validates := i; p_body_optional := j |}
  | _ => None
  end.
Definition s_proto (p : proto) : sexp :=
  SList [s_bool (p_sem p); s_tsmode (p_ts p); s_bool (p_recorded p); s_bool (p_checks p); s_cmp (p_cmp p);
         SNum (p_code p); s_bool (p_catch_decode p); s_bool (p_catch_express p); s_bool (p_validates p);
         s_bool (p_body_optional p)].

Definition as_reply (s : sexp) : option reply :=
  match s with
  | SList [SNum 0; c; ok] => odo cc <- as_opt as_bytes c ;; odo b <- as_bool ok ;; Some (RData cc b)
  | SList [SNum 1; r] => option_map RNack (as_num r)
  | SList [SNum 1] => Some (RNack 150)                (* replay files written before the reason was an input *)
  | SList [SNum 2] => Some RTimeout
  | _ => None
  end.
Definition s_reply (r : reply) : sexp :=
  match r with
  | RData c ok => SList [SNum 0; s_opt SBytes c; s_bool ok]
  | RNack n => SList [SNum 1; SNum n]
  | RTimeout => SList [SNum 2]
  end.

Definition as_outcome (s : sexp) : option outcome :=
  match s with
  | SList [SNum 1; b] => option_map Ret (as_bool b)
  | SList [SNum 0; _] => Some (Raise (EOther 0))        (* the class is not part of the specification *)
  | _ => None
  end.
Definition s_outcome (o : outcome) : sexp :=
  match o with Ret b => SList [SNum 1; s_bool b] | Raise e => s_err e end.

Definition as_event (s : sexp) : option event :=
  match s with
  | SList [SNum 0; k; nm] => odo kk <- as_kindr k ;; odo n <- as_name nm ;; Some (ECall kk n)
  | SList [SNum 1; i; r] => odo ii <- as_nat i ;; odo rr <- as_reply r ;; Some (EReply ii rr)
  | SList [SNum 2] => Some ETick
  | SList [SNum 3] => Some EJunk
  | SList [SNum 4; nm] => option_map ERoute (as_name nm)
  | SList [SNum 5] => Some EConnect
  | SList [SNum 6] => Some EDisconnect
  | _ => None
  end.

Definition as_obs (s : sexp) : option obs :=
  match s with
  | SList [SNum 0; id; k; nm; au] =>
      odo i <- as_nat id ;; odo kk <- as_kindr k ;; odo n <- as_name nm ;; odo a <- as_bool au ;; Some (OCall i kk n a)
  | SList [SNum 1; id; k; nm; ts] =>
      odo i <- as_nat id ;; odo kk <- as_kindr k ;; odo n <- as_name nm ;; odo t <- as_num ts ;;
      Some (OSend {| m_call := i; m_kind := kk; m_prefix := n; m_ts := t |})
  | SList [SNum 2; id; r; o] =>
      odo i <- as_nat id ;; odo rr <- as_reply r ;; odo oo <- as_outcome o ;; Some (ODone i rr oo)
  | SList [SNum 3; nm] => option_map ORoute (as_name nm)
  | SList [SNum 4] => Some OConnect
  | SList [SNum 5; c] => option_map OStarted (as_bool c)
  | SList [SNum 6] => Some ODisconnect
  | _ => None
  end.
Definition s_obs (o : obs) : sexp :=
  match o with
  | OCall id k nm a => SList [SNum 0; s_nat id; s_kindr k; s_name nm; s_bool a]
  | OSend c => SList [SNum 1; s_nat (m_call c); s_kindr (m_kind c); s_name (m_prefix c); SNum (m_ts c)]
  | ODone id r o => SList [SNum 2; s_nat id; s_reply r; s_outcome o]
  | ORoute nm => SList [SNum 3; s_name nm]
  | OConnect => SList [SNum 4]
  | OStarted c => SList [SNum 5; s_bool c]
  | ODisconnect => SList [SNum 6]
  end.

Definition s_cstatus (c : cstatus) : sexp :=
  match c with
  | CWait => SList [SNum 0]
  | CSleep l => SList [SNum 1; s_nat l]
  | COut => SList [SNum 2]
  | CDone o => SList [SNum 3; s_outcome o]
  end.

(* the scripted clock of the harness: the listed readings, then the last one plus [stp] per further reading *)
Definition clock_of (l : list N) (stp : N) (i : nat) : N :=
  match nth_error l i with
  | Some v => v
  | None => last l 0 + stp * N.of_nat (i - length l + 1)
  end.

Definition s_state (s : state) : sexp :=
  SList [s_list s_obs (log s); s_list (fun c => s_cstatus (c_st c)) (calls s); SNum (last_ts s); s_nat (clk s);
         s_list s_nat (outst s); s_bool (connected s)].

Definition s_triple (t : value * value * list value) : sexp :=
  let '(sc, st, ps) := t in SList [s_value 8 sc; s_value 8 st; s_values ps].

Definition as_ekind (s : sexp) : option ekind :=
  match as_num s with Some 0 => Some EEnum | Some 1 => Some EFlag | Some 2 => Some EFlagKeep | _ => None end.
Definition s_ekind (k : ekind) : sexp := SNum (match k with EEnum => 0 | EFlag => 1 | EFlagKeep => 2 end).
Definition s_efield (f : efield) : sexp :=
  SList [s_nat (ef_class f); SNum (ef_type f); s_ekind (ef_kind f); s_list SNum (ef_members f)].

Definition run (req : sexp) : sexp :=
  match req with
  | SList [SNum 1; loc; SBytes m; SBytes c; vs] =>
      or_bad (odo l <- as_bool loc ;; odo v <- as_values vs ;; Some (s_res s_name (make_command_v2 l m c v)))
  | SList [SNum 2; loc; SBytes m; SBytes c; vs; ts; nonce; SBytes dig] =>
      or_bad (odo l <- as_bool loc ;; odo v <- as_values vs ;; odo t <- as_num ts ;; odo n <- as_num nonce ;;
              Some (s_res s_name (make_command (fun _ => dig) l m c v t n)))
  | SList [SNum 3; buf] => or_bad (odo b <- as_opt as_bytes buf ;; Some (s_res s_triple (parse_response b)))
  | SList [SNum 4; nm] => or_bad (odo n <- as_name nm ;; Some (s_res s_values (command_parameters n)))
  | SList [SNum 5; sc; st; body] =>
      or_bad (odo a <- as_value 8 sc ;; odo b <- as_value 8 st ;; odo c <- as_value 8 body ;;
              Some (s_res SBytes (response_wire a b c)))
  | SList [SNum 6; pr; pu; SList [cl; stp]; evs] =>
      or_bad (odo r <- as_proto pr ;; odo u <- as_proto pu ;; odo l <- as_list_of as_num cl ;; odo sp <- as_num stp ;;
              odo es <- as_list_of as_event evs ;;
              Some (s_state (run_events (fe_of r u) (clock_of l sp) es)))
  | SList [SNum 7; va; lg] =>
      or_bad (odo v <- as_bool va ;; odo l <- as_list_of as_obs lg ;;
              Some (SList [s_bool (outcomes_ok v l); s_bool (never_raises l); s_bool (serial_ok l);
                           s_bool (timestamps_ok l); s_bool (percall_ok l); s_bool (autoreg_ok l)]))
  | SList [SNum 9; SBytes c] => s_bool (status_200 (Some c))
  (* status datasets / management models: the k-th descriptor of nfd_models (order of Generated/Schemas.v) *)
  | SList [SNum 10; k; vs] =>
      or_bad (odo i <- as_nat k ;; odo fs <- nth_error nfd_models i ;; odo v <- as_values vs ;;
              Some (s_res SBytes (dataset_wire fs v)))
  | SList [SNum 11; k; SBytes w] =>
      or_bad (odo i <- as_nat k ;; odo fs <- nth_error nfd_models i ;; Some (s_res s_values (dataset_parse fs w)))
  | SList [SNum 12] => SNum (N.of_nat (length nfd_models))
  (* enumerated fields: the regenerated table, the typed read / join of the model, the protocol domain of the spec *)
  | SList [SNum 13] => s_list s_efield Generated.NfdEnums.nfd_enum_fields
  | SList [SNum 14; k; ms; v] =>
      or_bad (odo kk <- as_ekind k ;; odo m <- as_list_of as_num ms ;; odo n <- as_num v ;;
              Some (s_res SNum (typed_read kk m n)))
  | SList [SNum 15; t; ms] =>
      or_bad (odo ty <- as_num t ;; odo m <- as_list_of as_num ms ;; Some (SList [SNum 1; s_list SNum (domain ty m)]))
  | SList [SNum 16; k; a; b] =>
      or_bad (odo kk <- as_ekind k ;; odo x <- as_num a ;; odo y <- as_num b ;; Some (s_res SNum (join kk x y)))
  | _ => s_bad_request
  end.

Extraction "../ocaml/build/C17/model.ml" run.
