(* Extraction entry point for C04: handler table model (Model/Trie.v, Model/Dispatch.v) and the
   specification machine (Spec/DispatchSpec.v). *)
From NDN Require Import Base.Prelude Base.Sexp Base.Text Model.TlvVar Model.Name Model.Trie Model.Dispatch
  Spec.DispatchSpec Model.DispatchV1 Spec.DispatchV1Spec.
From Coq Require Extraction ExtrOcamlBasic.
Local Open Scope N_scope.

Definition as_str (s : sexp) : option str :=
  match s with
  | SBytes b => Some b
  | SList l => omap as_num l
  | _ => None
  end.
Definition as_name (s : sexp) : option name := as_list_of as_bytes s.
Definition s_name (n : name) : sexp := s_list SBytes n.
Definition as_ns_comp (s : sexp) : option ns_comp :=
  match s with
  | SList [SNum 0; SBytes b] => Some (NCBytes b)
  | SList [SNum 1; x] => option_map NCStr (as_str x)
  | _ => None
  end.
Definition as_ns_name (s : sexp) : option ns_name :=
  match s with
  | SList [SNum 0; SBytes w] => Some (NSWire w)
  | SList [SNum 1; x] => option_map NSStr (as_str x)
  | SList [SNum 2; SList l] => option_map NSList (omap as_ns_comp l)
  | _ => None
  end.
Definition or_bad (o : option sexp) : sexp := match o with Some s => s | None => s_bad_request end.

Definition as_fe (s : sexp) : option frontend :=
  match s with SNum 2 => Some FE_V2 | SNum 1 => Some FE_V1 | SNum 0 => Some FE_Disp | _ => None end.

(* ops:  (1 name h? v? raw sig) attach | (2 name) detach | (3 name life? now) recv | (4) settle
         | (5 i now running) reply | (6) clean-up *)
Definition as_op (s : sexp) : option op :=
  match s with
  | SList [SNum 1; k; h; v; a; b] =>
      odo k <- as_name k ;; odo h <- as_opt as_num h ;; odo v <- as_opt as_num v ;;
      odo a <- as_bool a ;; odo b <- as_bool b ;; Some (OAttach k h v (a, b))
  | SList [SNum 2; k] => odo k <- as_name k ;; Some (ODetach k)
  | SList [SNum 3; n; l; t] =>
      odo n <- as_name n ;; odo l <- as_opt as_num l ;; odo t <- as_num t ;; Some (ORecv n l t)
  | SList [SNum 4] => Some OSettle
  | SList [SNum 5; i; t; r] =>
      odo i <- as_nat i ;; odo t <- as_num t ;; odo r <- as_bool r ;; Some (OReply i t r)
  | SList [SNum 6] => Some OCleanUp
  | _ => None
  end.

Definition s_call (c : call) : sexp := SList [SNum (c_h c); s_name (c_name c); SNum (c_deadline c)].
Definition s_lookup_res (r : lookup_res) : sexp :=
  match r with
  | LNoRoute => SList [SNum 0]
  | LNoCallback p => SList [SNum 1; s_name p]
  | LHit p h => SList [SNum 2; s_name p; SNum h]
  end.
Definition s_retval (r : retval) : sexp := SNum (match r with RNone => 0 | RFalse => 1 | RTrue => 2 end).
(* (0 code) error | (1) ok | (2 lookup) | (3 calls) | (4 sent ret) | (5 b calls) *)
Definition s_obs (o : obs) : sexp :=
  match o with
  | ObOk => SList [SNum 1]
  | ObErr e => s_err e
  | ObRecv r => SList [SNum 2; s_lookup_res r]
  | ObCalls l => SList [SNum 3; s_list s_call l]
  | ObReply sent r => SList [SNum 4; s_bool sent; s_retval r]
  | ObDispatch b l => SList [SNum 5; s_bool b; s_list s_call l]
  end.

Definition s_pnode (p : pnode) : sexp :=
  SList [s_opt SNum (pn_cb p); s_opt SNum (pn_vd p);
         s_opt (fun e => SList [s_bool (fst e); s_bool (snd e)]) (pn_extra p)].

(* final state: len(trie), items (key, node), "no empty node below the root", pending, #calls *)
Definition s_state (s : st) : sexp :=
  SList [s_nat (t_len (s_fib s)); s_list (s_pair s_name s_pnode) (t_items (s_fib s) []);
         s_bool (t_pruned (s_fib s)); s_list s_call (s_pending s); s_nat (length (s_calls s))].

(* specification side.  events: (1 p h) | (2 p) | (3 n life? now) | (4) | (5 i now [up]) | (6) *)
Definition as_sop (s : sexp) : option sop :=
  match s with
  | SList [SNum 1; k; h] => odo k <- as_name k ;; odo h <- as_num h ;; Some (SAttach k h)
  | SList [SNum 2; k] => odo k <- as_name k ;; Some (SDetach k)
  | SList [SNum 3; n; l; t] =>
      odo n <- as_name n ;; odo l <- as_opt as_num l ;; odo t <- as_num t ;; Some (SRecv n l t)
  | SList [SNum 4] => Some SSettle
  | SList [SNum 5; i; t] => odo i <- as_nat i ;; odo t <- as_num t ;; Some (SReply i t true)
  | SList [SNum 5; i; t; u] =>
      odo i <- as_nat i ;; odo t <- as_num t ;; odo u <- as_bool u ;; Some (SReply i t u)
  | SList [SNum 6] => Some SDisconnect
  | _ => None
  end.
(* (1) ok | (2) refused | (3) key error | (4) nothing | (5 calls) | (6 b calls) | (7 sent reported) | (8) *)
Definition s_sobs (o : sobs) : sexp :=
  match o with
  | SoOk => SList [SNum 1]
  | SoRefused => SList [SNum 2]
  | SoKeyError => SList [SNum 3]
  | SoNothing => SList [SNum 4]
  | SoCalls l => SList [SNum 5; s_list s_call l]
  | SoDispatch b l => SList [SNum 6; s_bool b; s_list s_call l]
  | SoReply a b => SList [SNum 7; s_bool a; s_bool b]
  | SoNoSuchCall => SList [SNum 8]
  end.

(* registration API of the legacy front-end: the events above, plus
     model  (7 name h? v? raw sig) table step of register | (8 name) table step of unregister
     spec   (7 p h?) register | (8 p) unregister *)
Definition as_vop (s : sexp) : option vop :=
  match s with
  | SList [SNum 7; k; h; v; a; b] =>
      odo k <- as_name k ;; odo h <- as_opt as_num h ;; odo v <- as_opt as_num v ;;
      odo a <- as_bool a ;; odo b <- as_bool b ;; Some (VRegister k h v (a, b))
  | SList [SNum 8; k] => odo k <- as_name k ;; Some (VUnregister k)
  | _ => option_map VBase (as_op s)
  end.
Definition as_svop (s : sexp) : option svop :=
  match s with
  | SList [SNum 7; k; h] => odo k <- as_name k ;; odo h <- as_opt as_num h ;; Some (SRegister k h)
  | SList [SNum 8; k] => odo k <- as_name k ;; Some (SUnregister k)
  | _ => option_map SVBase (as_sop s)
  end.

Definition run (req : sexp) : sexp :=
  match req with
  (* model: run a history from the empty table *)
  | SList [SNum 1; fe; ops] =>
      or_bad (odo fe <- as_fe fe ;; odo ops <- as_list_of as_op ops ;;
              let '(s, obs) := run_ops fe ops in
              Some (SList [s_list s_obs obs; s_state s]))
  (* specification: run a history *)
  | SList [SNum 2; fe; ops] =>
      or_bad (odo fe <- as_fe fe ;; odo ops <- as_list_of as_sop ops ;;
              let '(_, obs) := srun fe ops in Some (s_list s_sobs obs))
  (* key normalisation of an attach/detach argument (Name.normalize, C09 model) *)
  | SList [SNum 3; n] => or_bad (odo x <- as_ns_name n ;; Some (s_res s_name (name_normalize x)))
  (* specification: reply decision *)
  | SList [SNum 4; d; t] => or_bad (odo d <- as_num d ;; odo t <- as_num t ;; Some (s_bool (s_reply_sent d t)))
  (* specification: reply decision given the state of the face *)
  | SList [SNum 4; d; t; u] =>
      or_bad (odo d <- as_num d ;; odo t <- as_num t ;; odo u <- as_bool u ;; Some (s_bool (s_reply_out d t u)))
  (* model: the reply closure alone *)
  | SList [SNum 5; d; t; r] =>
      or_bad (odo d <- as_num d ;; odo t <- as_num t ;; odo r <- as_bool r ;;
              Some (s_res (fun p => SList [s_bool (fst p); s_retval (snd p)]) (reply_closure d t r)))
  | SList [SNum 6] => SNum DEFAULT_LIFETIME
  (* model / specification: a history with register / unregister events *)
  | SList [SNum 7; fe; ops] =>
      or_bad (odo fe <- as_fe fe ;; odo ops <- as_list_of as_vop ops ;;
              let '(s, obs) := vrun_ops fe ops in
              Some (SList [s_list s_obs obs; s_state s]))
  | SList [SNum 8; fe; ops] =>
      or_bad (odo fe <- as_fe fe ;; odo ops <- as_list_of as_svop ops ;;
              let '(_, obs) := svrun fe ops in Some (s_list s_sobs obs))
  | _ => s_bad_request
  end.

Extraction "../ocaml/build/C04/model.ml" run.
