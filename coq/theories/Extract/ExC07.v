(* Extraction entry point for C07 (packet decoders) *)
From NDN Require Import Base.Prelude Base.Sexp Model.TlvVar Model.Name Model.Tlv Model.Packet Model.PacketPtrs Spec.StrictTlv Spec.SignedPortion Extract.TlvSexp.
From NDN Require Generated.Schemas.
From Coq Require Extraction ExtrOcamlBasic.
Local Open Scope N_scope.

Definition s_ptrs (p : ptrs) : sexp :=
  SList [s_list SBytes (p_sig_covered p); s_opt SBytes (p_sig_value p);
         s_list SBytes (p_dig_covered p); s_opt SBytes (p_dig_value p)].

Definition run (req : sexp) : sexp :=
  match req with
  | SList [SNum 1; SBytes w] => s_res s_values (dec_interest w)
  | SList [SNum 2; SBytes w] => s_res s_values (dec_data w)
  | SList [SNum 3; SBytes w] => s_res s_values (dec_lp w)
  | SList [SNum 4; SBytes w] => s_res s_values (dec_cert w)
  | SList [SNum 5; SBytes w] => s_res (s_list SBytes) (name_from_bytes w)
  | SList [SNum 11; SBytes w] => s_res s_values (strict_interest w)
  | SList [SNum 12; SBytes w] => s_res s_values (strict_data w)
  | SList [SNum 13; SBytes w] => s_res s_values (strict_lp w)
  | SList [SNum 14; SBytes w] => s_res s_values (strict_cert w)
  (* generic: (20 fields ic wire) library reader, (21 ...) strict reader *)
  | SList [SNum 20; fs; ic; SBytes w] =>
      or_bad (odo f <- as_fields fs ;; odo i <- as_bool ic ;; Some (s_res s_values (parse_model (depth_of f) f i w)))
  | SList [SNum 21; fs; ic; SBytes w] =>
      or_bad (odo f <- as_fields fs ;; odo i <- as_bool ic ;; Some (s_res s_values (strict_model (depth_of f) f i w)))
  (* specification of the signed / digest portions of a packet value (Spec/SignedPortion.v) *)
  | SList [SNum 30; SBytes v] => s_opt SBytes (signed_portion_data v)
  | SList [SNum 31; SBytes v] => s_opt SBytes (signed_portion_interest v)
  | SList [SNum 32; SBytes v] => s_opt SBytes (digest_portion v)
  | SList [SNum 33; SBytes v] => s_opt SBytes (digest_component v)
  (* what the decoders report as covered (Model/PacketPtrs.v over the reflected layouts) *)
  | SList [SNum 34; SBytes v] => s_res s_ptrs (ptrs_interest_with Generated.Schemas.ndn_format_0_3_InterestPacketValue_layout v)
  | SList [SNum 35; SBytes v] => s_res s_ptrs (ptrs_data_with Generated.Schemas.ndn_format_0_3_DataPacketValue_layout v)
  | SList [SNum 36; SBytes v] => s_res s_ptrs (ptrs_data_with Generated.Schemas.security_v2_CertificateV2Value_layout v)
  | _ => s_bad_request
  end.

Extraction "../ocaml/build/C07/model.ml" run.
