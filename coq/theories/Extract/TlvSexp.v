(* S-expression codecs for descriptors and values of Model/Tlv.v (shared by ExC08/ExC07/ExC01 ...). *)
From NDN Require Import Base.Prelude Base.Sexp Model.TlvVar Model.Tlv.
Local Open Scope N_scope.

Fixpoint as_kind (fuel : nat) (s : sexp) : option fkind :=
  match fuel with
  | O => None
  | S f =>
      match s with
      | SList [SNum 0] => Some (KUint None)
      | SList [SNum 0; x] => option_map (fun n => KUint (Some n)) (as_num x)
      | SList [SNum 1] => Some KBool
      | SList [SNum 2; b] => option_map KBytes (as_bool b)
      | SList [SNum 3] => Some KName
      | SList [SNum 4; ic; SList fs] =>
          odo i <- as_bool ic ;;
          odo l <- omap (fun x => match x with
                                  | SList [t; k] => odo tn <- as_num t ;; odo kk <- as_kind f k ;; Some (tn, kk)
                                  | _ => None end) fs ;;
          Some (KModel l i)
      | SList [SNum 5; e] => option_map KRepeated (as_kind f e)
      | SList [SNum 6; k; vt; v] =>
          odo kk <- as_kind f k ;; odo t <- as_num vt ;; odo vv <- as_kind f v ;; Some (KMap kk t vv)
      | _ => None
      end
  end.

Definition as_fields (s : sexp) : option (list field) :=
  match as_kind 64 (SList [SNum 4; SNum 0; s]) with
  | Some (KModel fs _) => Some fs
  | _ => None
  end.

Fixpoint as_value (fuel : nat) (s : sexp) : option value :=
  match fuel with
  | O => None
  | S f =>
      match s with
      | SList [] => Some VNone
      | SList [SNum 1; n] => option_map VUint (as_num n)
      | SList [SNum 2] => Some VTrue
      | SList [SNum 3; SBytes b] => Some (VBytes b)
      | SList [SNum 4; n] => option_map VName (as_list_of as_bytes n)
      | SList [SNum 5; SList l] => option_map VModel (omap (as_value f) l)
      | SList [SNum 6; SList l] => option_map VList (omap (as_value f) l)
      | SList [SNum 7; SList l] =>
          option_map VMap (omap (fun x => match x with
                                          | SList [a; b] => odo x <- as_value f a ;; odo y <- as_value f b ;; Some (x, y)
                                          | _ => None end) l)
      | _ => None
      end
  end.

Fixpoint s_value (fuel : nat) (v : value) : sexp :=
  match fuel with
  | O => SList [SNum 99]
  | S f =>
      match v with
      | VNone => SList []
      | VUint n => SList [SNum 1; SNum n]
      | VTrue => SList [SNum 2]
      | VBytes b => SList [SNum 3; SBytes b]
      | VName n => SList [SNum 4; SList (map SBytes n)]
      | VModel l => SList [SNum 5; SList (map (s_value f) l)]
      | VList l => SList [SNum 6; SList (map (s_value f) l)]
      | VMap l => SList [SNum 7; SList (map (fun kv => SList [s_value f (fst kv); s_value f (snd kv)]) l)]
      end
  end.

Definition s_values (l : list value) : sexp := SList (map (s_value 64) l).
Definition as_values (s : sexp) : option (list value) := as_list_of (as_value 64) s.
Definition s_elem (e : elem) : sexp := SList [SNum (e_type e); SNum (e_dlen e); SBytes (e_payload e)].
Definition or_bad (o : option sexp) : sexp := match o with Some s => s | None => s_bad_request end.
