(* Extraction entry point for C20 (client configuration): model AND specification behind the
   s-expression interface. *)
From NDN Require Import Base.Prelude Base.Sexp Base.Text Model.ConfBase Model.ClientConf Spec.ClientConfSpec.
From Coq Require Extraction ExtrOcamlBasic.
Local Open Scope N_scope.

Definition as_str (s : sexp) : option str :=
  match s with
  | SBytes b => Some b
  | SList l => omap as_num l
  | _ => None
  end.
Definition s_str (s : str) : sexp := if forallb (fun c => c <? 256) s then SBytes s else SList (map SNum s).
Definition or_bad (o : option sexp) : sexp := match o with Some s => s | None => s_bad_request end.

Definition as_err (s : sexp) : option err :=
  odo n <- as_num s ;;
  Some (if n =? 101 then EOSError else if n =? 6 then EUnicode else if n =? 3 then EValue else EOther (n - 100)).
Definition as_file (s : sexp) : option (str * res str) :=
  match s with
  | SList [p; SList [SNum 1; t]] => odo p' <- as_str p ;; odo t' <- as_str t ;; Some (p', Ok t')
  | SList [p; SList [SNum 0; c]] => odo p' <- as_str p ;; odo e <- as_err c ;; Some (p', Err e)
  | _ => None
  end.
Definition as_world (env fs files pw : sexp) : option world :=
  odo e <- as_list_of (as_pair as_str as_str) env ;;
  odo f <- as_list_of as_str fs ;;
  odo fl <- as_list_of as_file files ;;
  odo p <- as_str pw ;;
  Some (mk_world e (fun x => existsb (str_eqb x) f) fl p).

Definition s_conf (c : conf) : sexp := SList [s_str (c_transport c); s_str (c_pib c); s_str (c_tpm c)].
Definition s_face (f : face) : sexp :=
  match f with
  | FUnix p => SList [SNum 0; s_str p]
  | FTcp h p => SList [SNum 1; s_str h; SNum p]
  | FUdp h p => SList [SNum 2; s_opt s_str h; SNum p]
  end.
Definition s_kind (k : face_kind) : sexp := SNum (match k with KUnix => 0 | KTcp => 1 | KUdp => 2 end).

Definition as_line (s : sexp) : option conf_line :=
  match s with
  | SList [SNum 0; k; w1; d; w2; v; w3] =>
      odo k' <- as_str k ;; odo a <- as_str w1 ;; odo d' <- as_num d ;; odo b <- as_str w2 ;;
      odo v' <- as_str v ;; odo c <- as_str w3 ;; Some (Entry k' a d' b v' c)
  | SList [SNum 1; w; m; t] => odo w' <- as_str w ;; odo m' <- as_num m ;; odo t' <- as_str t ;; Some (Comment w' m' t')
  | SList [SNum 2; w] => odo w' <- as_str w ;; Some (Blank w')
  | _ => None
  end.
Definition as_host (s : sexp) : option host :=
  match s with
  | SList [SNum 0; n] => option_map HName (as_str n)
  | SList [SNum 1; a] => option_map HV6 (as_str a)
  | _ => None
  end.

Definition run (req : sexp) : sexp :=
  match req with
  (* ---- model ---- *)
  | SList [SNum 1; env; fs; files; pw] =>
      or_bad (odo w <- as_world env fs files pw ;; Some (s_res s_conf (read_client_conf w)))
  | SList [SNum 2; a; b] =>
      or_bad (odo x <- as_str a ;; odo y <- as_str b ;; Some (s_res (s_pair s_str s_str) (default_keychain x y)))
  | SList [SNum 3; u; nf] => or_bad (odo x <- as_str u ;; odo b <- as_bool nf ;; Some (s_res s_face (default_face (fun _ => b) x)))
  | SList [SNum 4; l] => or_bad (odo x <- as_str l ;; Some (SList (map (fun c => s_bool (is_space c)) x)))
  | SList [SNum 5; t] => or_bad (odo x <- as_str t ;; Some (s_res (s_list (s_pair s_str s_str)) (ini_read x)))
  | SList [SNum 6; u; nf] =>
      or_bad (odo x <- as_str u ;; odo b <- as_bool nf ;;
              Some (s_res (fun v : url => SList [s_str (u_scheme v); s_str (u_netloc v); s_str (u_path v);
                                                 s_opt s_str (url_hostname (u_netloc v));
                                                 s_res (s_opt SNum) (url_port (u_netloc v))])
                          (urlsplit (fun _ => b) x)))
  | SList [SNum 7; env; s] =>
      or_bad (odo e <- as_list_of (as_pair as_str as_str) env ;; odo x <- as_str s ;; Some (s_str (expandvars e x)))
  | SList [SNum 8; a; b] => or_bad (odo x <- as_str a ;; odo y <- as_str b ;; Some (s_str (path_join x y)))
  | SList [SNum 9; p] => or_bad (odo x <- as_str p ;; Some (s_str (path_dirname x)))
  | SList [SNum 10; h] => or_bad (odo x <- as_str h ;; Some (s_bool (bracketed_host_ok x)))
  | SList [SNum 11; env; fs; pw] =>
      or_bad (odo w <- as_world env fs (SList []) pw ;;
              let P := the_platform w in
              Some (SList [s_list s_str (client_conf_paths P); s_str (default_transport P);
                           s_str (default_pib_scheme P); s_list s_str (default_pib_paths P);
                           s_str (default_tpm_scheme P); s_list s_str (default_tpm_paths P)]))
  (* ---- specification ---- *)
  | SList [SNum 20; ls] =>
      or_bad (odo l <- as_list_of as_line ls ;;
              Some (SList [s_bool (wf_conf l); s_str (render l);
                           s_opt s_str (file_lookup key_transport l); s_opt s_str (file_lookup key_pib l);
                           s_opt s_str (file_lookup key_tpm l)]))
  | SList [SNum 21; e; f; p] =>
      or_bad (odo e' <- as_opt as_str e ;; odo f' <- as_opt as_str f ;; odo p' <- as_str p ;;
              Some (s_str (spec_value e' f' p')))
  | SList [SNum 22; fs; cfg; dflts; loc] =>
      or_bad (odo f <- as_list_of as_str fs ;; odo c <- as_opt as_str cfg ;; odo d <- as_list_of as_str dflts ;;
              odo l <- as_str loc ;;
              Some (s_opt s_str (spec_location (fun x => existsb (str_eqb x) f) c d l)))
  | SList [SNum 23; sc; h; p; t] =>
      or_bad (odo s <- as_str sc ;; odo h' <- as_host h ;; odo p' <- as_opt as_str p ;; odo t' <- as_str t ;;
              Some (SList [s_bool (host_ok h' && port_ok p' && tail_ok t'); s_str (uri_text s h' p' t');
                           s_opt (fun k => SList [s_kind k; s_face (denoted_face k h' p' t')]) (scheme_kind s)]))
  | SList [SNum 24; sc] => or_bad (odo s <- as_str sc ;; Some (s_opt s_kind (scheme_kind s)))
  | SList [SNum 25; v] => or_bad (odo x <- as_str v ;; Some (s_pair s_str s_str (split_setting x)))
  | SList [SNum 26; p] => or_bad (odo x <- as_str p ;; Some (s_bool (unix_path_ok x)))
  | _ => s_bad_request
  end.

Extraction "../ocaml/build/C20/model.ml" run.
