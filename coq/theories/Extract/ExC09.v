(* Extraction entry point for C09 (names) and the tlv_var kernel. *)
From NDN Require Import Base.Prelude Base.Sexp Base.Text Model.TlvVar Model.Name Spec.NdnOrder.
From Coq Require Extraction ExtrOcamlBasic.
Local Open Scope N_scope.

Definition as_str (s : sexp) : option str :=
  match s with
  | SBytes b => Some b
  | SList l => omap as_num l
  | _ => None
  end.
Definition s_str (s : str) : sexp := if forallb (fun c => c <? 256) s then SBytes s else SList (map SNum s).
Definition as_name (s : sexp) : option name := as_list_of as_bytes s.
Definition s_name (n : name) : sexp := s_list SBytes n.
Definition as_z (s : sexp) : option Z :=
  match s with
  | SList [SNum 0; x] => option_map Z.of_N (as_num x)
  | SList [SNum 1; x] => option_map (fun n => (- Z.of_N n)%Z) (as_num x)
  | _ => None
  end.
Definition as_ns_comp (s : sexp) : option ns_comp :=
  match s with
  | SList [SNum 0; SBytes b] => Some (NCBytes b)
  | SList [SNum 1; x] => option_map NCStr (as_str x)
  | _ => None
  end.
Definition as_ns_name (s : sexp) : option ns_name :=
  match s with
  | SList [SNum 0; SBytes w] => Some (NSWire w)
  | SList [SNum 1; x] => option_map NSStr (as_str x)
  | SList [SNum 2; SList l] => option_map NSList (omap as_ns_comp l)
  | _ => None
  end.
Definition s_cmp (c : comparison) : sexp := SNum (match c with Lt => 0 | Eq => 1 | Gt => 2 end).
Definition or_bad (o : option sexp) : sexp := match o with Some s => s | None => s_bad_request end.

Definition run (req : sexp) : sexp :=
  match req with
  | SList [SNum 1; s] => or_bad (odo x <- as_str s ;; Some (s_res SBytes (comp_from_str x)))
  | SList [SNum 2; SBytes c] => s_res s_str (comp_to_str c)
  | SList [SNum 3; SBytes c] => s_res s_str (comp_to_canonical_uri c)
  | SList [SNum 4; s] => or_bad (odo x <- as_str s ;; Some (s_res s_name (name_from_str x)))
  | SList [SNum 5; n] => or_bad (odo x <- as_name n ;; Some (s_res s_str (name_to_str x)))
  | SList [SNum 6; n] => or_bad (odo x <- as_name n ;; Some (s_res s_str (name_to_canonical_uri x)))
  | SList [SNum 7; SBytes w] => s_res (s_pair s_name SNum) (name_decode w)
  | SList [SNum 8; n] => or_bad (odo x <- as_name n ;; Some (SBytes (name_encode x)))
  | SList [SNum 9; n] => or_bad (odo x <- as_ns_name n ;; Some (s_res s_name (name_normalize x)))
  | SList [SNum 10; a; b] => or_bad (odo x <- as_name a ;; odo y <- as_name b ;; Some (s_bool (name_is_prefix x y)))
  | SList [SNum 11; a; b] => or_bad (odo x <- as_name a ;; odo y <- as_name b ;; Some (s_cmp (name_cmp x y)))
  | SList [SNum 12; SBytes a; SBytes b] => s_cmp (bytes_cmp a b)
  | SList [SNum 13; v; t] => or_bad (odo x <- as_z v ;; odo y <- as_num t ;; Some (s_res SBytes (comp_from_number x y)))
  | SList [SNum 14; SBytes c] => s_res SNum (comp_to_number c)
  | SList [SNum 15; s] => or_bad (odo x <- as_str s ;; Some (s_res s_str (escape_str x)))
  | SList [SNum 16; SBytes c] => s_res SNum (comp_get_type c)
  | SList [SNum 17; SBytes c] => s_res SBytes (comp_get_value c)
  | SList [SNum 18; n] => or_bad (odo x <- as_ns_name n ;; Some (s_res SBytes (name_to_bytes x)))
  (* tlv_var kernel *)
  | SList [SNum 19; SBytes b; t] => or_bad (odo y <- as_z t ;; Some (s_res SBytes (comp_from_bytes b y)))
  | SList [SNum 20; v] => or_bad (odo x <- as_num v ;; Some (s_res SBytes (tl_enc_r x)))
  | SList [SNum 21; SBytes w] => s_res (s_pair SNum s_nat) (tl_dec w)
  | SList [SNum 22; v] => or_bad (odo x <- as_num v ;; Some (s_res SBytes (nni_enc_r x)))
  | SList [SNum 23; v] => or_bad (odo x <- as_num v ;; Some (s_nat (tl_size x)))
  | SList [SNum 24; SBytes w; t] => or_bad (odo x <- as_num t ;; Some (s_res SBytes (parse_and_check_tl w x)))
  | SList [SNum 25; SBytes w; v] => or_bad (odo x <- as_nat v ;; Some (s_res SBytes (shrink_length w x)))
  (* specification side: NDN canonical order on (type, value) pairs *)
  | SList [SNum 30; a; b] =>
      or_bad (odo x <- as_list_of (as_pair as_num as_bytes) a ;; odo y <- as_list_of (as_pair as_num as_bytes) b ;;
              Some (s_cmp (canon_name_cmp x y)))
  | _ => s_bad_request
  end.

Extraction "../ocaml/build/C09/model.ml" run.
