(* Extraction entry point for C02. *)
From NDN Require Import Extract.PacketRun.
From Coq Require Extraction ExtrOcamlBasic.
Extraction "../ocaml/build/C02/model.ml" run.
