(* Request dispatcher shared by C11, C12, C13 (model AND specification side of Light VerSec).
   Encodings (harness/props/lvs_common.py mirrors them):
     option x        = () | (x)
     comp            = (0 bytes) | (1 ident) | (2 ident)            literal / pattern / rule reference
     arg             = (0 bytes) | (1 ident)
     opt             = (0 bytes) | (1 ident) | (2 ident (arg..))
     tagcons         = (ident (opt..))
     rule            = (ident (comp..) ((tagcons..)..) (ident..))
     model           = (version? start? npc? (node..) (symbol..))
     node            = (id? parent? (ident..) (vedge..) (pedge..) (num..))
     vedge           = (dest? value?)      pedge = (dest? tag? ((copt..)..))
     copt            = (value? tag? fn?)   fn = (id? (ufarg..))   ufarg = (value? tag?)
     symbol          = (tag? ident?)
     fnenv           = ((ident impl)..)    impl = 0 ($eq) | 1 ($eq_type) | (2 ((value (arg?..))..)) table *)
From NDN Require Import Base.Prelude Base.Sexp Base.Text Model.LvsAst Model.LvsChecker Model.LvsCompiler Spec.LvsSem Spec.LvsChains.
Local Open Scope N_scope.

Definition as_name (s : sexp) : option (list bytes) := as_list_of as_bytes s.

Definition as_comp (s : sexp) : option comp :=
  match s with
  | SList [SNum 0; SBytes b] => Some (CLit b)
  | SList [SNum 1; SBytes b] => Some (CPat b)
  | SList [SNum 2; SBytes b] => Some (CRef b)
  | _ => None
  end.
Definition as_arg (s : sexp) : option arg :=
  match s with
  | SList [SNum 0; SBytes b] => Some (ALit b)
  | SList [SNum 1; SBytes b] => Some (APat b)
  | _ => None
  end.
Definition as_opt_ (s : sexp) : option opt :=
  match s with
  | SList [SNum 0; SBytes b] => Some (OLit b)
  | SList [SNum 1; SBytes b] => Some (OPat b)
  | SList [SNum 2; SBytes f; args] => odo l <- as_list_of as_arg args ;; Some (OFn f l)
  | _ => None
  end.
Definition as_tagcons (s : sexp) : option tagcons :=
  match s with
  | SList [SBytes p; opts] => odo l <- as_list_of as_opt_ opts ;; Some {| tc_pat := p; tc_opts := l |}
  | _ => None
  end.
Definition as_rule (s : sexp) : option rule :=
  match s with
  | SList [SBytes i; nm; cs; sg] =>
      odo n <- as_list_of as_comp nm ;;
      odo c <- as_list_of (as_list_of as_tagcons) cs ;;
      odo g <- as_list_of as_bytes sg ;;
      Some {| r_id := i; r_name := n; r_cons := c; r_sign := g |}
  | _ => None
  end.
Definition as_ast (s : sexp) : option lvsfile := as_list_of as_rule s.

Definition as_ufarg (s : sexp) : option ufarg :=
  match s with
  | SList [v; t] => odo a <- as_opt as_bytes v ;; odo b <- as_opt as_num t ;; Some {| ua_value := a; ua_tag := b |}
  | _ => None
  end.
Definition as_ufcall (s : sexp) : option ufcall :=
  match s with
  | SList [i; args] => odo a <- as_opt as_bytes i ;; odo b <- as_list_of as_ufarg args ;; Some {| uf_id := a; uf_args := b |}
  | _ => None
  end.
Definition as_copt (s : sexp) : option copt :=
  match s with
  | SList [v; t; f] =>
      odo a <- as_opt as_bytes v ;; odo b <- as_opt as_num t ;; odo c <- as_opt as_ufcall f ;;
      Some {| co_value := a; co_tag := b; co_fn := c |}
  | _ => None
  end.
Definition as_pedge (s : sexp) : option pedge :=
  match s with
  | SList [d; t; cs] =>
      odo a <- as_opt as_num d ;; odo b <- as_opt as_num t ;; odo c <- as_list_of (as_list_of as_copt) cs ;;
      Some {| pe_dest := a; pe_tag := b; pe_cons := c |}
  | _ => None
  end.
Definition as_vedge (s : sexp) : option vedge :=
  match s with
  | SList [d; v] => odo a <- as_opt as_num d ;; odo b <- as_opt as_bytes v ;; Some {| ve_dest := a; ve_value := b |}
  | _ => None
  end.
Definition as_node (s : sexp) : option node :=
  match s with
  | SList [i; p; rn; ves; pes; sg] =>
      odo a <- as_opt as_num i ;; odo b <- as_opt as_num p ;; odo c <- as_list_of as_bytes rn ;;
      odo d <- as_list_of as_vedge ves ;; odo e <- as_list_of as_pedge pes ;; odo f <- as_list_of as_num sg ;;
      Some {| n_id := a; n_parent := b; n_rule := c; n_vedges := d; n_pedges := e; n_sign := f |}
  | _ => None
  end.
Definition as_symbol (s : sexp) : option tagsym :=
  match s with
  | SList [t; i] => odo a <- as_opt as_num t ;; odo b <- as_opt as_bytes i ;; Some {| ts_tag := a; ts_ident := b |}
  | _ => None
  end.
Definition as_model (s : sexp) : option lvsmodel :=
  match s with
  | SList [v; st; npc; nodes; syms] =>
      odo a <- as_opt as_num v ;; odo b <- as_opt as_num st ;; odo c <- as_opt as_num npc ;;
      odo d <- as_list_of as_node nodes ;; odo e <- as_list_of as_symbol syms ;;
      Some {| m_version := a; m_start := b; m_npc := c; m_nodes := d; m_symbols := e |}
  | _ => None
  end.

Definition as_fnimpl (s : sexp) : option fnimpl :=
  match s with
  | SNum 0 => Some FEq
  | SNum 1 => Some FEqType
  | SList [SNum 2; rows] =>
      odo r <- as_list_of (as_pair as_bytes (as_list_of (as_opt as_bytes))) rows ;; Some (FTable r)
  | _ => None
  end.
Definition as_fnenv (s : sexp) : option fnenv := as_list_of (as_pair as_bytes as_fnimpl) s.

(* printing *)
Definition s_on (o : option N) : sexp := s_opt SNum o.
Definition s_ob (o : option bytes) : sexp := s_opt SBytes o.
Definition s_ufarg (a : ufarg) : sexp := SList [s_ob (ua_value a); s_on (ua_tag a)].
Definition s_ufcall (f : ufcall) : sexp := SList [s_ob (uf_id f); s_list s_ufarg (uf_args f)].
Definition s_copt (o : copt) : sexp := SList [s_ob (co_value o); s_on (co_tag o); s_opt s_ufcall (co_fn o)].
Definition s_pedge (e : pedge) : sexp := SList [s_on (pe_dest e); s_on (pe_tag e); s_list (s_list s_copt) (pe_cons e)].
Definition s_vedge (e : vedge) : sexp := SList [s_on (ve_dest e); s_ob (ve_value e)].
Definition s_node (n : node) : sexp :=
  SList [s_on (n_id n); s_on (n_parent n); s_list SBytes (n_rule n); s_list s_vedge (n_vedges n);
         s_list s_pedge (n_pedges n); s_list SNum (n_sign n)].
Definition s_symbol (t : tagsym) : sexp := SList [s_on (ts_tag t); s_ob (ts_ident t)].
Definition s_model (m : lvsmodel) : sexp :=
  SList [s_on (m_version m); s_on (m_start m); s_on (m_npc m); s_list s_node (m_nodes m); s_list s_symbol (m_symbols m)].

Definition s_ctxname (l : list (option ident * bytes)) : sexp := s_list (s_pair s_ob SBytes) l.
Definition s_env (e : env) : sexp := s_list (s_pair SBytes SBytes) e.
Definition or_bad (o : option sexp) : sexp := match o with Some s => s | None => s_bad_request end.

Definition run (req : sexp) : sexp :=
  match req with
  (* model side *)
  | SList [SNum 1; a] => or_bad (odo x <- as_ast a ;; Some (s_res s_model (compile x)))
  | SList [SNum 2; mm] =>
      or_bad (odo x <- as_model mm ;;
              Some (s_res (s_pair (s_list SBytes) (s_list SNum)) (sanity_check (sanity_fuel x) x)))
  | SList [SNum 3; mm; fe; fuel; nm] =>
      or_bad (odo x <- as_model mm ;; odo e <- as_fnenv fe ;; odo k <- as_nat fuel ;; odo n <- as_name nm ;;
              Some (s_res (s_list (s_pair (s_list SBytes) s_ctxname)) (lvs_match (fnenv_lookup e) x k n)))
  | SList [SNum 4; mm; fe; fuel; p; q] =>
      or_bad (odo x <- as_model mm ;; odo e <- as_fnenv fe ;; odo k <- as_nat fuel ;;
              odo pn <- as_name p ;; odo kn <- as_name q ;;
              Some (s_res s_bool (lvs_check (fnenv_lookup e) x k pn kn)))
  (* specification side *)
  | SList [SNum 5; a; fe; nm] =>
      or_bad (odo x <- as_ast a ;; odo e <- as_fnenv fe ;; odo n <- as_name nm ;;
              Some (s_list (fun t => SList [SBytes (fst (fst t)); s_env (snd t)])
                           (matches_of (fnenv_lookup e) x [] (strip n))))
  | SList [SNum 6; a; fe; p; q] =>
      or_bad (odo x <- as_ast a ;; odo e <- as_fnenv fe ;; odo pn <- as_name p ;; odo kn <- as_name q ;;
              Some (s_bool (can_signb (fnenv_lookup e) x pn kn)))
  | SList [SNum 7; mm] => or_bad (odo x <- as_model mm ;; Some (s_bool (saneb x)))
  | SList [SNum 8; a] => or_bad (odo x <- as_ast a ;; Some (SList [s_bool (static_ok x); s_bool (no_rule_sign_cycle x)]))
  | SList [SNum 10; a] => or_bad (odo x <- as_ast a ;; Some (s_res s_model (compile_pool x)))
  | SList [SNum 11; a] => or_bad (odo x <- as_ast a ;; Some (s_res s_bool (schema_chains_ok x)))
  | SList [SNum 9; mm] => or_bad (odo x <- as_model mm ;; Some (s_bool (sign_acyclicb x)))
  (* batch forms: one answer per name / pair *)
  | SList [SNum 13; mm; fe; fuel; nms] =>
      or_bad (odo x <- as_model mm ;; odo e <- as_fnenv fe ;; odo k <- as_nat fuel ;; odo ns <- as_list_of as_name nms ;;
              Some (s_list (fun n => s_res (s_list (s_pair (s_list SBytes) s_ctxname)) (lvs_match (fnenv_lookup e) x k n)) ns))
  | SList [SNum 14; mm; fe; fuel; prs] =>
      or_bad (odo x <- as_model mm ;; odo e <- as_fnenv fe ;; odo k <- as_nat fuel ;;
              odo ps <- as_list_of (as_pair as_name as_name) prs ;;
              Some (s_list (fun pq => s_res s_bool (lvs_check (fnenv_lookup e) x k (fst pq) (snd pq))) ps))
  | SList [SNum 15; a; fe; nms] =>
      or_bad (odo x <- as_ast a ;; odo e <- as_fnenv fe ;; odo ns <- as_list_of as_name nms ;;
              Some (s_list (fun n => s_list (fun t => SList [SBytes (fst (fst t)); s_env (snd t)])
                                            (matches_of (fnenv_lookup e) x [] (strip n))) ns))
  | SList [SNum 16; a; fe; prs] =>
      or_bad (odo x <- as_ast a ;; odo e <- as_fnenv fe ;; odo ps <- as_list_of (as_pair as_name as_name) prs ;;
              Some (s_list (fun pq => s_bool (can_signb (fnenv_lookup e) x (fst pq) (snd pq))) ps))
  | _ => s_bad_request
  end.
