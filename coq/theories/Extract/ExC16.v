(* Extraction entry point for C16 (certificate issuance): model and specification behind one dispatcher. *)
From NDN Require Import Base.Prelude Base.Sexp Base.Text Model.TlvVar Model.Name Model.Tlv Model.Packet Model.PacketEnc
  Model.Cert Spec.StrictTlv Spec.SignedPortion Spec.CertSpec Extract.TlvSexp.
From Coq Require Extraction ExtrOcamlBasic.
Local Open Scope N_scope.

Definition as_str (s : sexp) : option str :=
  match s with
  | SBytes b => Some b
  | SList l => omap as_num l
  | _ => None
  end.
Definition as_z (s : sexp) : option Z :=
  match s with
  | SList [SNum 0; x] => option_map Z.of_N (as_num x)
  | SList [SNum 1; x] => option_map (fun n => (- Z.of_N n)%Z) (as_num x)
  | _ => None
  end.
Definition s_z (z : Z) : sexp :=
  if (z <? 0)%Z then SList [SNum 1; SNum (Z.to_N (- z))] else SList [SNum 0; SNum (Z.to_N z)].
Definition as_ns_comp (s : sexp) : option ns_comp :=
  match s with
  | SList [SNum 0; SBytes b] => Some (NCBytes b)
  | SList [SNum 1; x] => option_map NCStr (as_str x)
  | _ => None
  end.
Definition as_ns_name (s : sexp) : option ns_name :=
  match s with
  | SList [SNum 0; SBytes w] => Some (NSWire w)
  | SList [SNum 1; x] => option_map NSStr (as_str x)
  | SList [SNum 2; SList l] => option_map NSList (omap as_ns_comp l)
  | _ => None
  end.
Definition as_bdt (s : sexp) : option bdt := odo l <- as_list_of as_num s ;; Some (mk_bdt l).
Definition s_bdt (t : bdt) : sexp :=
  SList (map SNum [t_year t; t_mon t; t_day t; t_hour t; t_min t; t_sec t]).
Definition as_atime (s : sexp) : option atime :=
  match s with
  | SList [f; off] => odo t <- as_bdt f ;; odo o <- as_opt as_z off ;; Some {| a_fields := t; a_offset := o |}
  | _ => None
  end.
Definition as_signer (s : sexp) : option (option signer_in) :=
  match s with
  | SList [] => Some None
  | SList [w; r] => odo l <- as_values w ;; odo n <- as_num r ;; Some (Some {| sg_written := l; sg_reserved := n |})
  | _ => None
  end.
Definition as_issuer (s : sexp) : option issuer_in :=
  match s with
  | SList [SNum 0; SBytes b] => Some (IssComp b)
  | SList [SNum 1; x] => option_map IssText (as_str x)
  | _ => None
  end.
Definition as_cert_in (s : sexp) : option cert_in :=
  match s with
  | SList [kn; SBytes iss; now; SBytes pub; sg; st; en] =>
      odo k <- as_ns_name kn ;; odo n <- as_z now ;; odo g <- as_signer sg ;; odo a <- as_atime st ;; odo b <- as_atime en ;;
      Some {| c_key_name := k; c_issuer := iss; c_now := n; c_pub := pub; c_signer := g; c_start := a; c_end := b |}
  | _ => None
  end.
Definition as_req (s : sexp) : option issue_req :=
  match s with
  | SList [kn; SBytes iss; SBytes pub; nb; na; st; kl] =>
      odo k <- as_list_of as_bytes kn ;; odo b <- as_z nb ;; odo a <- as_z na ;;
      odo t <- as_value 64 st ;; odo l <- as_value 64 kl ;;
      Some {| q_key_name := k; q_issuer := iss; q_pub := pub; q_not_before := b; q_not_after := a;
              q_sig_type := t; q_key_locator := l |}
  | _ => None
  end.

Definition s_made (m : made) : sexp :=
  SList [SBytes (m_wire m); SList (map SBytes (m_final_name m)); SBytes (m_sig_covered m)].
Definition s_obytes (o : option bytes) : sexp := s_opt SBytes o.

(* the signature primitive is supplied as data: the bytes the real signer produced *)
Definition run (req : sexp) : sexp :=
  match req with
  (* ---- model *)
  | SList [SNum 1; a; SBytes sv] => or_bad (odo x <- as_cert_in a ;; Some (s_res s_made (new_cert (fun _ => sv) x)))
  | SList [SNum 2; kn; SBytes pub; sg; ts; now; SBytes sv] =>
      or_bad (odo k <- as_ns_name kn ;; odo g <- as_signer sg ;; odo t <- as_z ts ;; odo n <- as_bdt now ;;
              Some (s_res s_made (self_sign (fun _ => sv) k pub g t n)))
  | SList [SNum 3; kn; SBytes pub; sg; ts; now1; now2; SBytes sv] =>
      or_bad (odo k <- as_ns_name kn ;; odo g <- as_signer sg ;; odo t <- as_z ts ;; odo n1 <- as_bdt now1 ;;
              odo n2 <- as_bdt now2 ;; Some (s_res s_made (sign_req (fun _ => sv) k pub g t n1 n2)))
  | SList [SNum 4; kn; iss; SBytes pub; sg; ts; st; ex; SBytes sv] =>
      or_bad (odo k <- as_ns_name kn ;; odo i <- as_issuer iss ;; odo g <- as_signer sg ;; odo t <- as_z ts ;;
              odo a <- as_atime st ;; odo e <- as_z ex ;; Some (s_res s_made (derive_cert (fun _ => sv) k i pub g t a e)))
  | SList [SNum 5; SBytes w] => s_res s_values (dec_cert w)
  | SList [SNum 6; f; t] => or_bad (odo x <- as_str f ;; odo y <- as_bdt t ;; Some (s_res SBytes (strftime x y)))
  | SList [SNum 7; t; z] => or_bad (odo x <- as_bdt t ;; odo y <- as_z z ;; Some (s_res s_bdt (add_seconds x y)))
  | SList [SNum 8; a] => or_bad (odo x <- as_atime a ;; Some (s_res s_bdt (to_utc x)))
  (* ---- specification *)
  | SList [SNum 10; SBytes w] => s_res s_values (strict_cert w)
  | SList [SNum 11; q; vs] => or_bad (odo x <- as_req q ;; odo y <- as_values vs ;; Some (s_bool (cert_fields_ok x y)))
  | SList [SNum 12; SBytes v] => s_obytes (signed_portion_data v)
  | SList [SNum 13; SBytes b] => s_opt s_bdt (parse_validity b)
  | SList [SNum 14; t] => or_bad (odo x <- as_bdt t ;; Some (s_z (bdt_to_secs x)))
  | SList [SNum 15; SBytes w; t] => or_bad (odo x <- as_num t ;; Some (s_res SBytes (parse_and_check_tl w x)))
  | SList [SNum 16; vs] => or_bad (odo y <- as_values vs ;; Some (s_value 64 (signature_of y)))
  | _ => s_bad_request
  end.

Extraction "../ocaml/build/C16/model.ml" run.
