(* Extraction entry point for C06 (stream framing; reception) *)
From NDN Require Import Base.Prelude Base.Sexp Model.TlvVar Model.Name Model.Tlv Model.Packet Model.Stream Model.Receive
  Spec.Framing Extract.TlvSexp.
From NDN Require Generated.ReceiveGen.
From Coq Require Extraction ExtrOcamlBasic.

Local Open Scope N_scope.

Definition s_pkt (p : pkt) : sexp := SList [SNum (fst p); SBytes (snd p)].

Definition as_event (s : sexp) : option event :=
  match s with
  | SList [SNum 0; SBytes c] => Some (Feed c)
  | SList [SNum 1] => Some Eof
  | SList [SNum 2] => Some Reset
  | SList [SNum 3] => Some Shutdown
  | _ => None
  end.

Definition s_cstate (c : cstate) : sexp :=
  match c with
  | CBlocked _ => SList [SNum 0]
  | CFinished => SList [SNum 1]
  | CCrashed e => SList [SNum 2; SNum (err_code e)]
  | COutOfFuel => SList [SNum 3]
  end.

Definition s_face (f : face) : sexp :=
  SList [s_bool (f_running f); s_cstate (f_co f); SBytes (f_buf f); s_bool (f_eof f); s_bool (f_closed f)].

Definition s_action (a : action) : sexp :=
  match a with
  | ADrop site => SList [SNum 0; SNum site]
  | ARaise e => SList [SNum 1; SNum (err_code e)]
  | ANack n r => SList [SNum 2; s_list SBytes n; SNum r]
  | AInterest n t vs raw => SList [SNum 3; s_list SBytes n; s_opt SBytes t; SBytes raw; s_values vs]
  | AData n vs raw => SList [SNum 4; s_list SBytes n; SBytes raw; s_values vs]
  end.

Definition as_errs (s : sexp) : option (list err) :=
  as_list_of (fun x => odo n <- as_num x ;;
    if n =? 1 then Some EDecode else if n =? 2 then Some EIndex else if n =? 3 then Some EValue
    else if n =? 4 then Some EStruct else if n =? 5 then Some EType else if n =? 6 then Some EUnicode
    else if n =? 7 then Some EKey else None) s.

(* the except tuples as written in the source of this run *)
Definition run_cfg_gen : run_cfg :=
  RunCfg (catches ReceiveGen.run_caught EIncomplete) (catches ReceiveGen.run_caught EConnReset).
Definition cfg_gen (front : N) (nd : option N) : rcfg :=
  if front =? 1
  then RCfg ReceiveGen.v1_catch_lp ReceiveGen.v1_catch_nack ReceiveGen.v1_catch_interest ReceiveGen.v1_catch_data ReceiveGen.v1_frag_guard ReceiveGen.v1_catch_fragtl nd
  else RCfg ReceiveGen.v2_catch_lp ReceiveGen.v2_catch_nack ReceiveGen.v2_catch_interest ReceiveGen.v2_catch_data ReceiveGen.v2_frag_guard ReceiveGen.v2_catch_fragtl nd.
Definition tuple_orig : list err := [EDecode; EType; EValue; EStruct].
Definition cfg_orig : rcfg := RCfg tuple_orig tuple_orig tuple_orig tuple_orig 0 [] None.

Definition run (req : sexp) : sexp :=
  match req with
  (* (1 events): StreamFace over an event history -> (face (deliveries per event)) *)
  | SList [SNum 1; evs] =>
      or_bad (odo l <- as_list_of as_event evs ;;
              let '(f, outs) := run_events run_cfg_gen face_init l in
              Some (SList [s_face f; s_list (s_list s_pkt) outs]))
  (* (2 bytes): specification: complete packets at the front of a byte string, and the remainder *)
  | SList [SNum 2; SBytes w] =>
      let '(ps, r) := packets_of w in SList [s_list s_pkt ps; SBytes r]
  (* (3 data): UdpFace.datagram_received with the source's except tuple; (13 data): without guard *)
  | SList [SNum 3; SBytes d] => s_res (s_opt s_pkt) (datagram_received ReceiveGen.udp_caught d)
  | SList [SNum 13; SBytes d] => s_res (s_opt s_pkt) (datagram_received [] d)
  (* (4 front nack_default typ data): _receive up to the handler call, except tuples from the source *)
  | SList [SNum 4; fr; nd; t; SBytes d] =>
      or_bad (odo f <- as_num fr ;; odo n <- as_opt as_num nd ;; odo typ <- as_num t ;;
              Some (s_action (classify (cfg_gen f n) typ d)))
  (* (5 typ data): the same for the code before the fixes *)
  | SList [SNum 5; t; SBytes d] =>
      or_bad (odo typ <- as_num t ;; Some (s_action (classify cfg_orig typ d)))
  (* (6): what the translator read from the source *)
  | SList [SNum 6] =>
      SList [s_bool (catch_incomplete run_cfg_gen); s_bool (catch_reset run_cfg_gen); s_bool ReceiveGen.run_spawns_task;
             s_bool ReceiveGen.udp_guarded; SNum ReceiveGen.v1_frag_guard; SNum ReceiveGen.v2_frag_guard;
             s_list (fun e => SNum (err_code e)) ReceiveGen.v1_catch_lp; s_list (fun e => SNum (err_code e)) ReceiveGen.v2_catch_lp]
  | _ => s_bad_request
  end.

Extraction "../ocaml/build/C06/model.ml" run.
