(* Request dispatcher shared by C01 and C02 (packet encoders, signed portions). *)
From NDN Require Import Base.Prelude Base.Sexp Model.TlvVar Model.Name Model.Tlv Model.Packet Model.PacketEnc Model.PacketPtrs
  Spec.StrictTlv Spec.SignedPortion Extract.TlvSexp Model.SignerSizes.
From NDN Require Generated.Schemas Generated.SignerSizes.
Local Open Scope N_scope.

Definition as_sig (s : sexp) : option (option sig_in) :=
  match s with
  | SList [] => Some None
  | SList [info; res] => odo v <- as_value 64 info ;; odo r <- as_num res ;; Some (Some {| si_info := v; si_reserved := r |})
  | _ => None
  end.
Definition as_onum := as_opt as_num.
Definition as_obytes := as_opt as_bytes.
Definition as_names (s : sexp) : option (list (list bytes)) := as_list_of (as_list_of as_bytes) s.

Definition as_interest (s : sexp) : option interest_in :=
  match s with
  | SList [n; cbp; mbf; hint; nonce; life; hop; app; sg] =>
      odo n' <- as_list_of as_bytes n ;; odo c <- as_bool cbp ;; odo m <- as_bool mbf ;; odo h <- as_names hint ;;
      odo no <- as_onum nonce ;; odo li <- as_onum life ;; odo ho <- as_onum hop ;; odo a <- as_obytes app ;;
      odo sg' <- as_sig sg ;;
      Some {| i_name := n'; i_cbp := c; i_mbf := m; i_hint := h; i_nonce := no; i_life := li; i_hop := ho;
              i_app := a; i_sig := sg' |}
  | _ => None
  end.
Definition as_data (s : sexp) : option data_in :=
  match s with
  | SList [n; meta; content; sg] =>
      odo n' <- as_list_of as_bytes n ;; odo m <- as_value 64 meta ;; odo c <- as_obytes content ;; odo sg' <- as_sig sg ;;
      Some {| d_name := n'; d_meta := m; d_content := c; d_sig := sg' |}
  | _ => None
  end.

Definition s_made (m : made) : sexp :=
  SList [SBytes (m_wire m); SList (map SBytes (m_final_name m)); SBytes (m_sig_covered m); SBytes (m_digest_covered m)].
Definition s_obytes (o : option bytes) : sexp := s_opt SBytes o.
Definition s_ptrs (p : ptrs) : sexp :=
  SList [s_list SBytes (p_sig_covered p); s_opt SBytes (p_sig_value p);
         s_list SBytes (p_dig_covered p); s_opt SBytes (p_dig_value p)].

(* the hash and signature primitives are supplied as data: (digest, signature bytes) *)
Definition run (req : sexp) : sexp :=
  match req with
  | SList [SNum 1; i; SBytes digest; SBytes sigval] =>
      or_bad (odo x <- as_interest i ;; Some (s_res s_made (make_interest (fun _ => digest) (fun _ => sigval) x)))
  | SList [SNum 2; d; SBytes sigval] =>
      or_bad (odo x <- as_data d ;; Some (s_res s_made (make_data (fun _ => sigval) x)))
  | SList [SNum 3; SBytes w] => s_res s_values (dec_interest w)
  | SList [SNum 4; SBytes w] => s_res s_values (dec_data w)
  | SList [SNum 6; SBytes w] => s_res s_values (strict_interest w)
  | SList [SNum 7; SBytes w] => s_res s_values (strict_data w)
  | SList [SNum 5; SBytes w; v] => or_bad (odo n <- as_nat v ;; Some (s_res SBytes (shrink_length w n)))
  (* specification: signed / digest portions of a packet value *)
  | SList [SNum 10; SBytes v] => s_obytes (signed_portion_data v)
  | SList [SNum 11; SBytes v] => s_obytes (signed_portion_interest v)
  | SList [SNum 12; SBytes v] => s_obytes (digest_portion v)
  | SList [SNum 13; SBytes v] => s_obytes (digest_component v)
  (* what the decoders report as covered (Model/PacketPtrs.v over the reflected declared order) *)
  | SList [SNum 15; SBytes v] => s_res s_ptrs (ptrs_interest_with Generated.Schemas.ndn_format_0_3_InterestPacketValue_layout v)
  | SList [SNum 16; SBytes v] => s_res s_ptrs (ptrs_data_with Generated.Schemas.ndn_format_0_3_DataPacketValue_layout v)
  | SList [SNum 14; SBytes w; t] => or_bad (odo x <- as_num t ;; Some (s_res SBytes (parse_and_check_tl w x)))
  (* the size contract of the signers (Model/SignerSizes.v, Generated/SignerSizes.v) *)
  | SList [SNum 20; b] => or_bad (odo b' <- as_num b ;; Some (SNum (Generated.SignerSizes.ecdsa_reserved b')))
  | SList [SNum 21; r; s] => or_bad (odo r' <- as_num r ;; odo s' <- as_num s ;; Some (SNum (der_sig_len r' s')))
  | SList [SNum 22] => SList [SNum Generated.SignerSizes.ed25519_reserved; SNum Generated.SignerSizes.hmac_reserved;
                              SNum Generated.SignerSizes.digest_reserved; SNum Generated.SignerSizes.null_reserved]
  | _ => s_bad_request
  end.
