(* Extraction entry point for C14 (trust-schema validator): model AND specification.
   Worlds, schemas and histories arrive as finite tables; a lookup that misses a table answers
   Err (EOther 97) (code 197) so that a harness gap is visible instead of silently "false". *)
From NDN Require Import Base.Prelude Base.Sexp Model.Validator Model.ValidatorConc Model.ValidatorMem Spec.ChainSpec.
From Coq Require Extraction ExtrOcamlBasic.
Local Open Scope N_scope.

Definition err_of_code (c : N) : err :=
  if c =? 1 then EDecode else if c =? 2 then EIndex else if c =? 3 then EValue else if c =? 4 then EStruct
  else if c =? 5 then EType else if c =? 6 then EUnicode else if c =? 7 then EKey else if c =? 8 then EInvalidState
  else if c =? 9 then EAttr else if c =? 10 then EOverflow else if c =? 99 then EFuel else EOther (c - 100).

Definition missing {A} : res A := Err (EOther 97).

Definition as_name (s : sexp) : option vname := as_list_of as_bytes s.
Definition s_name (n : vname) : sexp := s_list SBytes n.

(* 0 | 1 | (code) *)
Definition as_resbool (s : sexp) : option (res bool) :=
  match s with
  | SList [c] => option_map (fun c => Err (err_of_code c)) (as_num c)
  | _ => option_map Ok (as_bool s)
  end.

Definition as_siginfo (s : sexp) : option siginfo :=
  match s with
  | SList [ty; kl] => odo t <- as_num ty ;; odo k <- as_opt as_name kl ;; Some {| s_type := t; s_kl := k |}
  | _ => None
  end.

Definition as_pkt (s : sexp) : option pkt :=
  match s with
  | SList [i; n; sg; c] =>
      odo i' <- as_num i ;; odo n' <- as_name n ;; odo sg' <- as_opt as_siginfo sg ;; odo c' <- as_opt as_bytes c ;;
      Some {| p_id := i'; p_name := n'; p_sig := sg'; p_content := c' |}
  | _ => None
  end.

Fixpoint find_pkt (ps : list pkt) (i : N) : option pkt :=
  match ps with [] => None | p :: r => if p_id p =? i then Some p else find_pkt r i end.

Definition as_fetch (ps : list pkt) (s : sexp) : option (vname * fetch_result) :=
  match s with
  | SList [n; SList [SNum 0; i]] => odo n' <- as_name n ;; odo i' <- as_num i ;; odo p <- find_pkt ps i' ;; Some (n', FData p)
  | SList [n; SList [SNum 1]] => odo n' <- as_name n ;; Some (n', FNack)
  | SList [n; SList [SNum 2]] => odo n' <- as_name n ;; Some (n', FTimeout)
  | SList [n; SList [SNum 3; c]] => odo n' <- as_name n ;; odo c' <- as_num c ;; Some (n', FFail (err_of_code c'))
  | _ => None
  end.

Definition as_ventry (s : sexp) : option (N * bytes * N * res bool) :=
  match s with
  | SList [a; SBytes k; i; r] => odo a' <- as_num a ;; odo i' <- as_num i ;; odo r' <- as_resbool r ;; Some (a', k, i', r')
  | _ => None
  end.

Fixpoint vlookup (t : list (N * bytes * N * res bool)) (a : N) (k : bytes) (i : N) : res bool :=
  match t with
  | [] => missing
  | (a', k', i', r) :: rest => if (a =? a') && bytes_eqb k k' && (i =? i') then r else vlookup rest a k i
  end.

Definition as_world (s : sexp) : option (list pkt * world) :=
  match s with
  | SList [ps; fs; vs] =>
      odo ps' <- as_list_of as_pkt ps ;;
      odo fs' <- as_list_of (as_fetch ps') fs ;;
      odo vs' <- as_list_of as_ventry vs ;;
      Some (ps', {| w_fetch := fun n => match al_get name_eqb fs' n with Some r => r | None => FTimeout end;
                    w_verify := fun a k p => vlookup vs' a k (p_id p) |})
  | _ => None
  end.

(* check table: (name certname r) *)
Definition as_centry (s : sexp) : option (vname * vname * res bool) :=
  match s with
  | SList [n; cn; r] => odo n' <- as_name n ;; odo cn' <- as_name cn ;; odo r' <- as_resbool r ;; Some (n', cn', r')
  | _ => None
  end.
Fixpoint clookup (t : list (vname * vname * res bool)) (n cn : vname) : res bool :=
  match t with
  | [] => missing
  | (n', cn', r) :: rest => if name_eqb n n' && name_eqb cn cn' then r else clookup rest n cn
  end.

Definition as_mentry (s : sexp) : option (vname * res (list bytes)) :=
  match s with
  | SList [n; SList [SNum 1; l]] => odo n' <- as_name n ;; odo l' <- as_list_of as_bytes l ;; Some (n', Ok l')
  | SList [n; SList [SNum 0; c]] => odo n' <- as_name n ;; odo c' <- as_num c ;; Some (n', Err (err_of_code c'))
  | _ => None
  end.

Definition as_schema (s : sexp) : option schema :=
  match s with
  | SList [f; rs; ms; cs] =>
      odo f' <- as_bool f ;; odo rs' <- as_list_of as_bytes rs ;;
      odo ms' <- as_list_of as_mentry ms ;; odo cs' <- as_list_of as_centry cs ;;
      Some {| sc_fns_ok := f'; sc_roots := rs';
              sc_match := fun n => match al_get name_eqb ms' n with Some r => r | None => missing end;
              sc_check := clookup cs' |}
  | _ => None
  end.

Definition as_anchor (ps : list pkt) (s : sexp) : option (res pkt) :=
  match s with
  | SList [SNum 1; i] => odo i' <- as_num i ;; odo p <- find_pkt ps i' ;; Some (Ok p)
  | SList [SNum 0; c] => odo c' <- as_num c ;; Some (Err (err_of_code c'))
  | _ => None
  end.

Definition as_sarg (s : sexp) : option sarg :=
  match s with
  | SList [] => Some SDefault
  | SList [i] => option_map SGiven (as_nat i)
  | _ => None
  end.

Definition as_op (ps : list pkt) (scs : list schema) (s : sexp) : option op :=
  match s with
  | SList [SNum 0] => Some ONewStorage
  | SList [SNum 1; si; a; sa] =>
      odo si' <- as_nat si ;; odo sc <- nth_error scs si' ;; odo a' <- as_anchor ps a ;; odo sa' <- as_sarg sa ;;
      Some (ONewLvs sc a' sa')
  | SList [SNum 2; a; sa] => odo a' <- as_anchor ps a ;; odo sa' <- as_sarg sa ;; Some (ONewCascade a' sa')
  | SList [SNum 3; i; pid] => odo i' <- as_nat i ;; odo pid' <- as_num pid ;; odo p <- find_pkt ps pid' ;; Some (OValidate i' p)
  | _ => None
  end.

Definition s_obs (b : obs) : sexp :=
  match b with
  | BStorage sid => SList [SNum 0; s_nat sid]
  | BNew r => SList [SNum 1; s_res s_nat r]
  | BVal r tr => SList [SNum 2; s_res s_bool r; s_list s_name tr]
  | BBad => SList [SNum 9]
  end.

(* ---- the caller's memory (Model/ValidatorMem.v): (10 buffer ANCHOR) load | (11 buffer) overwrite | (0) storage |
   (1 schema buffer sarg) lvs_validator from the buffer | (2 buffer sarg) CascadeChecker | (3 instance buffer) ---- *)
Definition as_mop (ps : list pkt) (scs : list schema) (s : sexp) : option mop :=
  match s with
  | SList [SNum 10; b; a] => odo b' <- as_nat b ;; odo a' <- as_anchor ps a ;; Some (MLoad b' a')
  | SList [SNum 11; b] => option_map MScribble (as_nat b)
  | SList [SNum 0] => Some MNewStorage
  | SList [SNum 1; si; b; sa] =>
      odo si' <- as_nat si ;; odo sc <- nth_error scs si' ;; odo b' <- as_nat b ;; odo sa' <- as_sarg sa ;;
      Some (MNewLvs sc b' sa')
  | SList [SNum 2; b; sa] => odo b' <- as_nat b ;; odo sa' <- as_sarg sa ;; Some (MNewCascade b' sa')
  | SList [SNum 3; i; b] => odo i' <- as_nat i ;; odo b' <- as_nat b ;; Some (MValidate i' b')
  | _ => None
  end.

Definition as_trust (s : sexp) : option trust :=
  match s with
  | SList [n; SBytes k; cs] =>
      odo n' <- as_name n ;;
      odo cs' <- as_opt (as_list_of as_centry) cs ;;
      Some {| t_anchor_name := n'; t_anchor_key := k;
              t_allowed := allowed_of (option_map clookup cs') |}
  | _ => None
  end.

(* ---- validations that overlap in time on one instance (Model/ValidatorConc.v) ---- *)
(* the instance: the same constructor requests as in a history, (1 schema anchor sarg) | (2 anchor sarg) *)
Definition as_ctor (w : world) (ps : list pkt) (scs : list schema) (s : sexp) : option (res cfg) :=
  match as_op ps scs s with
  | Some (ONewLvs sc a _) => Some (lvs_init w sc a)
  | Some (ONewCascade a _) => Some (cascade_init w a None)
  | _ => None
  end.

(* (0 pid) start | (1 tid) resume | (2 name) deliver | (3) expire *)
Definition as_cev (ps : list pkt) (s : sexp) : option cev :=
  match s with
  | SList [SNum 0; pid] => odo pid' <- as_num pid ;; odo p <- find_pkt ps pid' ;; Some (CStart p)
  | SList [SNum 1; tid] => option_map CResume (as_nat tid)
  | SList [SNum 2; n] => option_map CDeliver (as_name n)
  | SList [SNum 3] => Some CExpire
  | _ => None
  end.

Definition s_thread (th : thread) : sexp :=
  SList [SNum (p_id (th_pkt th));
         match th_state th with
         | TDone r => SList [SNum 0; s_res s_bool r]
         | TWait ((_, cn) :: _) => SList [SNum 1; s_name cn]
         | TWait [] => SList [SNum 9]
         end;
         s_list s_name (th_sent th)].

(* the outstanding Interests, in the order expressed: (tid name) *)
Definition s_queue (cs : cstate) : sexp :=
  s_list (fun tid => SList [s_nat tid;
                            match nth_error (cs_threads cs) tid with
                            | Some th => match waiting_on th with Some cn => s_name cn | None => s_nil end
                            | None => s_nil
                            end]) (cs_queue cs).

Definition s_cstate (cs : cstate) : sexp :=
  SList [s_list s_thread (cs_threads cs); s_queue cs; s_list (s_pair s_name SBytes) (cs_cache cs)].

Definition or_bad (o : option sexp) : sexp := match o with Some s => s | None => s_bad_request end.

Definition run (req : sexp) : sexp :=
  match req with
  (* model: a whole history.  (1 legacy fuel WORLD SCHEMAS OPS) -> list of observations *)
  | SList [SNum 1; lg; fu; wd; scs; ops] =>
      or_bad (odo lg' <- as_bool lg ;; odo fu' <- as_nat fu ;;
              odo pw <- as_world wd ;; odo scs' <- as_list_of as_schema scs ;;
              odo ops' <- as_list_of (as_op (fst pw) scs') ops ;;
              Some (s_list s_obs (snd (run_history lg' (snd pw) fu' init_state ops'))))
  (* specification: does the packet have a chain?  (2 fuel WORLD TRUST pid) -> () | (b) *)
  | SList [SNum 2; fu; wd; tr; pid] =>
      or_bad (odo fu' <- as_nat fu ;; odo pw <- as_world wd ;; odo t <- as_trust tr ;;
              odo pid' <- as_num pid ;; odo p <- find_pkt (fst pw) pid' ;;
              Some (s_opt s_bool (chainb (snd pw) t fu' p)))
  (* specification: constructor conditions.  (3 WORLD SCHEMA pid) -> (matches self_signed) *)
  | SList [SNum 3; wd; sc; pid] =>
      or_bad (odo pw <- as_world wd ;; odo sc' <- as_schema sc ;;
              odo pid' <- as_num pid ;; odo p <- find_pkt (fst pw) pid' ;;
              Some (SList [s_bool (sc_fns_ok sc');
                           s_bool (anchor_matchesb sc' p);
                           s_bool (self_signedb (snd pw) p)]))
  (* model: overlapping validations on one instance.  (4 WORLD SCHEMAS CTOR EVENTS) ->
     (0 code) constructor failed | (1 (queue after each event ...) final-state) *)
  | SList [SNum 4; wd; scs; ct; evs] =>
      or_bad (odo pw <- as_world wd ;; odo scs' <- as_list_of as_schema scs ;;
              odo rc <- as_ctor (snd pw) (fst pw) scs' ct ;;
              odo evs' <- as_list_of (as_cev (fst pw)) evs ;;
              Some (match rc with
                    | Err e => s_err e
                    | Ok c => SList [SNum 1; s_list s_queue (crun (snd pw) c (cinit []) evs');
                                     s_cstate (cfinal (snd pw) c (cinit []) evs')]
                    end))
  (* model: a history with the caller's memory.  (5 legacy fuel WORLD SCHEMAS MOPS) -> per operation () | (observation) *)
  | SList [SNum 5; lg; fu; wd; scs; ops] =>
      or_bad (odo lg' <- as_bool lg ;; odo fu' <- as_nat fu ;;
              odo pw <- as_world wd ;; odo scs' <- as_list_of as_schema scs ;;
              odo ops' <- as_list_of (as_mop (fst pw) scs') ops ;;
              Some (s_list (s_opt s_obs)
                           (snd (mrun lg' (snd pw) fu' {| m_mem := []; m_st := init_state |} ops'))))
  | _ => s_bad_request
  end.

Extraction "../ocaml/build/C14/model.ml" run.
