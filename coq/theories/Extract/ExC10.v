(* Extraction entry point for C10 (link-layer envelopes): model AND specification. *)
From NDN Require Import Base.Prelude Base.Sexp Model.TlvVar Model.Tlv Model.Packet Model.Lp Spec.LpSpec Extract.TlvSexp.
From Coq Require Extraction ExtrOcamlBasic.
Local Open Scope N_scope.

Definition s_obytes : option bytes -> sexp := s_opt SBytes.
Definition s_unwrapped (u : unwrapped) : sexp :=
  match u with
  | UDrop w => SList [SNum 0; SNum w]
  | URaise e => SList [SNum 1; SNum (err_code e)]
  | UNack r f => SList [SNum 2; SNum r; SBytes f]
  | UPacket t tok d => SList [SNum 3; SNum t; s_obytes tok; SBytes d]
  end.
Definition s_spec (r : spec_result) : sexp :=
  match r with
  | SUnspec => SList [SNum 10]
  | SReject => SList [SNum 11]
  | SIdle => SList [SNum 12]
  | SNack r f => SList [SNum 2; SNum r; SBytes f]
  | SPacket t tok d => SList [SNum 3; SNum t; s_obytes tok; SBytes d]
  end.
Definition s_nackpair (p : option N * option bytes) : sexp := SList [s_opt SNum (fst p); s_obytes (snd p)].
Definition s_wires : list bytes -> sexp := s_list SBytes.

Definition as_event (s : sexp) : option lp_event :=
  match s with
  | SList [SNum 0; tok; dl] => odo t <- as_opt as_bytes tok ;; odo d <- as_num dl ;; Some (EvInterest t d)
  | SList [SNum 1; i; now; SBytes data] => odo i' <- as_nat i ;; odo n <- as_num now ;; Some (EvReply i' n data)
  | _ => None
  end.

Definition run (req : sexp) : sexp :=
  match req with
  | SList [SNum 1; typ; SBytes w] => or_bad (odo t <- as_num typ ;; Some (s_unwrapped (unwrap_v2 t w)))
  | SList [SNum 2; typ; SBytes w] => or_bad (odo t <- as_num typ ;; Some (s_unwrapped (unwrap_v1 t w)))
  | SList [SNum 3; typ; SBytes w] => or_bad (odo t <- as_num typ ;; Some (s_spec (spec_receive t w)))
  | SList [SNum 4; SBytes i; r] => or_bad (odo r' <- as_num r ;; Some (s_res SBytes (make_network_nack i r')))
  | SList [SNum 5; SBytes w] => s_res s_nackpair (parse_lp_packet w)
  | SList [SNum 6; SBytes w] => s_res s_nackpair (parse_network_nack w)
  | SList [SNum 7; run; SBytes data; SBytes tok] =>
      or_bad (odo r <- as_bool run ;; Some (s_res s_wires (put_raw_packet_with_pit_token r data tok)))
  | SList [SNum 8; run; now; tok; dl; SBytes data] =>
      or_bad (odo r <- as_bool run ;; odo n <- as_num now ;; odo t <- as_opt as_bytes tok ;; odo d <- as_num dl ;;
              Some (s_res s_wires (reply_v2 r n (Closure t d) data)))
  | SList [SNum 9; tok; SBytes data] => or_bad (odo t <- as_opt as_bytes tok ;; Some (SBytes (spec_reply_wire t data)))
  | SList [SNum 10; SBytes i; r] => or_bad (odo r' <- as_num r ;; Some (SBytes (spec_nack_wire i r')))
  | SList [SNum 11; run; SList evs] =>
      or_bad (odo r <- as_bool run ;; odo h <- omap as_event evs ;;
              Some (s_list (fun o => SList [s_nat (fst o); s_res s_wires (snd o)]) (snd (lp_run r h))))
  | SList [SNum 12; SBytes w] => s_res s_values (parse_lp_packet_v2 w)
  | SList [SNum 14; run; SBytes data; SBytes tok] =>
      or_bad (odo r <- as_bool run ;; Some (s_res s_wires (put_raw_packet_with_pit_token_nocopy r data tok)))
  | SList [SNum 13; tl; SBytes w] => or_bad (odo b <- as_bool tl ;; Some (s_res s_values (parse_lp_packet_v2_gen b w)))
  | _ => s_bad_request
  end.

Extraction "../ocaml/build/C10/model.ml" run.
