(* Extraction entry point for C19 (segment_fetcher): the model against a table-driven producer,
   the model against the oracle of a scenario, the specification ([expected], [oracle_of]). *)
From NDN Require Import Base.Prelude Base.Sexp Model.TlvVar Model.Name Model.SegFetch Spec.SegFetchSpec.
From Coq Require Extraction ExtrOcamlBasic.
Local Open Scope N_scope.

Definition or_bad (o : option sexp) : sexp := match o with Some s => s | None => s_bad_request end.
Definition as_name (s : sexp) : option name := as_list_of as_bytes s.
Definition s_name (n : name) : sexp := s_list SBytes n.

(* exceptions: (0) timeout (1) nack (2) validation failure (3 n) other (4 code) raised by the fetcher itself *)
Definition s_exc (x : exc) : sexp :=
  match x with
  | XTimeout => SList [SNum 0] | XNack => SList [SNum 1] | XValFail => SList [SNum 2]
  | XOther n => SList [SNum 3; SNum n] | XPy e => SList [SNum 4; SNum (err_code e)]
  end.
Definition as_exc (s : sexp) : option exc :=
  match s with
  | SList [SNum 0] => Some XTimeout | SList [SNum 1] => Some XNack | SList [SNum 2] => Some XValFail
  | SList [SNum 3; SNum n] => Some (XOther n)
  | _ => None
  end.
(* responses: (1 name content fbid?) | (0 exc) *)
Definition s_resp (r : response) : sexp :=
  match r with
  | RData nm c fb => SList [SNum 1; s_name nm; SBytes c; s_opt SBytes fb]
  | RExc x => SList [SNum 0; s_exc x]
  end.
Definition as_resp (s : sexp) : option response :=
  match s with
  | SList [SNum 1; nm; SBytes c; fb] => odo n <- as_name nm ;; odo f <- as_opt as_bytes fb ;; Some (RData n c f)
  | SList [SNum 0; x] => option_map RExc (as_exc x)
  | _ => None
  end.
Definition s_req (q : request) : sexp :=
  SList [s_name (rq_name q); s_bool (rq_cbp q); s_bool (rq_mbf q); SNum (rq_lifetime q)].
Definition as_req (s : sexp) : option request :=
  match s with
  | SList [nm; c; m; l] =>
      odo n <- as_name nm ;; odo cb <- as_bool c ;; odo mb <- as_bool m ;; odo lt <- as_num l ;;
      Some (mkReq n cb mb lt)
  | _ => None
  end.
Definition s_event (e : event) : sexp :=
  match e with EvAsk q r => SList [SNum 0; s_req q; s_resp r] | EvYield c => SList [SNum 1; SBytes c] end.
Definition s_ending (e : ending) : sexp :=
  match e with Completed => SList [SNum 0] | Raised x => SList [SNum 1; s_exc x] | OutOfFuel => SList [SNum 2] end.
Definition s_run (r : list event * ending) : sexp := SList [s_list s_event (fst r); s_ending (snd r)].
Definition s_obs (r : list bytes * ending) : sexp := SList [s_list SBytes (fst r); s_ending (snd r)].

(* (retry_times lifetime must_be_fresh) *)
Definition as_cfg (s : sexp) : option config :=
  match s with
  | SList [r; l; m] => odo rt <- as_nat r ;; odo lt <- as_num l ;; odo mb <- as_bool m ;; Some (mkCfg rt lt mb)
  | _ => None
  end.

(* a table-driven producer: ((request (response …) default-response) …); unknown requests time out *)
Definition table := list (request * (list response * response)).
Definition as_table (s : sexp) : option table :=
  as_list_of (fun e => match e with
                       | SList [q; rs; d] =>
                           odo rq <- as_req q ;; odo l <- as_list_of as_resp rs ;; odo dr <- as_resp d ;;
                           Some (rq, (l, dr))
                       | _ => None end) s.
Definition oracle_of_table (t : table) : oracle := fun rq n =>
  match al_get req_eqb t rq with
  | Some (l, d) => nth n l d
  | None => RExc XTimeout
  end.

(* scenarios: (base nseg (content …) (marker? …)) prefix disc ((key (fate …) default) …) *)
Definition as_key (s : sexp) : option key :=
  match s with SList [] => Some KDisc | SList [i] => option_map KSeg (as_nat i) | _ => None end.
Definition key_eqb (a b : key) : bool :=
  match a, b with KDisc, KDisc => true | KSeg i, KSeg j => Nat.eqb i j | _, _ => false end.
Definition as_fate (s : sexp) : option fate :=
  match s with
  | SNum 0 => Some Lost | SNum 1 => Some Nacked | SNum 2 => Some Invalid | SNum 3 => Some Delivered
  | _ => None
  end.
Definition as_disc (s : sexp) : option discovery :=
  match s with
  | SList [SNum 0; k] => option_map DSeg (as_nat k)
  | SList [SNum 1; nm; SBytes c; m] => odo n <- as_name nm ;; odo f <- as_opt as_bytes m ;; Some (DWhole n c f)
  | _ => None
  end.
Definition as_scenario (s : sexp) : option scenario :=
  match s with
  | SList [SList [b; n; cs; ms]; p; d; fs] =>
      odo bn <- as_name b ;; odo ns <- as_nat n ;; odo cl <- as_list_of as_bytes cs ;;
      odo ml <- as_list_of (as_opt as_bytes) ms ;; odo pn <- as_name p ;; odo dd <- as_disc d ;;
      odo ft <- as_list_of (fun e => match e with
                                     | SList [k; l; df] =>
                                         odo kk <- as_key k ;; odo ll <- as_list_of as_fate l ;; odo dd <- as_fate df ;;
                                         Some (kk, (ll, dd))
                                     | _ => None end) fs ;;
      Some (mkScn (mkObj bn ns (fun i => nth i cl []) (fun i => nth i ml None)) pn dd
                  (fun k n => match al_get key_eqb ft k with Some (l, df) => nth n l df | None => Delivered end))
  | _ => None
  end.

Definition run (req : sexp) : sexp :=
  match req with
  (* model against a table-driven producer *)
  | SList [SNum 1; c; f; nm; t] =>
      or_bad (odo cfg <- as_cfg c ;; odo fuel <- as_nat f ;; odo n <- as_name nm ;; odo tb <- as_table t ;;
              Some (s_run (segment_fetcher fuel cfg (oracle_of_table tb) n)))
  (* model against the oracle of a scenario *)
  | SList [SNum 2; c; f; s] =>
      or_bad (odo cfg <- as_cfg c ;; odo fuel <- as_nat f ;; odo sc <- as_scenario s ;;
              Some (s_run (segment_fetcher fuel cfg (oracle_of sc) (prefix sc))))
  (* specification: what must be delivered *)
  | SList [SNum 3; r; s] =>
      or_bad (odo rt <- as_nat r ;; odo sc <- as_scenario s ;; Some (s_obs (expected sc rt)))
  (* specification: the producer's answer to the n-th Interest [rq] *)
  | SList [SNum 4; s; q; n] =>
      or_bad (odo sc <- as_scenario s ;; odo rq <- as_req q ;; odo k <- as_nat n ;; Some (s_resp (oracle_of sc rq k)))
  (* specification: the Interests the producer must see *)
  | SList [SNum 7; c; s] =>
      or_bad (odo cfg <- as_cfg c ;; odo sc <- as_scenario s ;; Some (s_list s_req (expected_asks sc cfg)))
  (* helpers *)
  | SList [SNum 5; i] => or_bad (odo k <- as_nat i ;; Some (SBytes (seg_comp k)))
  | SList [SNum 6; n] => or_bad (odo k <- as_num n ;; Some (s_res SBytes (comp_from_segment k)))
  | _ => s_bad_request
  end.

Extraction "../ocaml/build/C19/model.ml" run.
