(* Extraction entry point for C05: same operational model and specification as C03. *)
From NDN Require Import Base.Prelude Base.Sexp Spec.ExpressSpec Model.ExpressPipeline Extract.ExC03.
From Coq Require Extraction ExtrOcamlBasic.

Definition run := ExC03.run.

Extraction "../ocaml/build/C05/model.ml" run.
