(* Extraction entry point for C05: same operational model and specification as C03, plus the model of suspended
   Interest validators under route changes (Model/GateSuspend.v, request 5). *)
From NDN Require Import Base.Prelude Base.Sexp Spec.ExpressSpec Model.ExpressPipeline Model.GateSuspend Extract.ExC03.
From Coq Require Extraction ExtrOcamlBasic.
Local Open Scope N_scope.

Definition as_inc (s : sexp) : option inc :=
  match s with
  | SList [k; n; hp; sg; dok; v] =>
      odo k <- as_num k ;; odo n <- as_name n ;; odo hp <- as_bool hp ;; odo sg <- as_num sg ;; odo dok <- as_bool dok ;;
      odo v <- as_num v ;; Some (mkInc k n hp sg dok v)
  | _ => None
  end.
Definition as_gev (s : sexp) : option gev :=
  match s with
  | SList [SNum 0; p; hv] => odo p <- as_name p ;; odo hv <- as_bool hv ;; Some (GAttach p hv)
  | SList [SNum 1; p] => odo p <- as_name p ;; Some (GDetach p)
  | SList [SNum 2; own] => odo own <- as_bool own ;; Some (GSetDefault own)
  | SList [SNum 3; k; sp] => odo k <- as_inc k ;; odo sp <- as_bool sp ;; Some (GArrive k sp)
  | SList [SNum 4; kid; v] => odo kid <- as_num kid ;; odo v <- as_num v ;; Some (GVerdict kid v)
  | _ => None
  end.

Definition run (req : sexp) : sexp :=
  match req with
  | SList [SNum 5; fe; evs] =>
      or_bad (odo fe <- as_fe fe ;; odo evs <- as_list_of as_gev evs ;;
              let s := g_run fe evs in
              Some (SList [ s_list (fun x : N * inc => SList [SNum (fst x); SNum (snd x).(k_id)]) s.(g_hc);
                            s_list SNum s.(g_iv) ]))
  | _ => ExC03.run req
  end.

(* the driver calls [Model.run]: the dispatcher of ExC03 must not take that name in the extracted file *)
Extraction Inline ExC03.run.
Extraction "../ocaml/build/C05/model.ml" run.
