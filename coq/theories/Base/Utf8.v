(* Strict UTF-8 well-formedness (RFC 3629 / Unicode Table 3-7), i.e. exactly the byte strings that
   CPython's bytes.decode('utf-8') accepts.  Exercised against CPython by the correspondence runs. *)
From NDN Require Import Base.Prelude.
Local Open Scope N_scope.

Definition cont (c : N) : bool := (128 <=? c) && (c <=? 191).
Definition inr (lo hi c : N) : bool := (lo <=? c) && (c <=? hi).

Fixpoint utf8_valid (b : bytes) : bool :=
  match b with
  | [] => true
  | c :: r =>
      if c <? 128 then utf8_valid r
      else if inr 194 223 c then
        match r with c1 :: r' => cont c1 && utf8_valid r' | _ => false end
      else if c =? 224 then
        match r with c1 :: c2 :: r' => inr 160 191 c1 && cont c2 && utf8_valid r' | _ => false end
      else if inr 225 236 c || inr 238 239 c then
        match r with c1 :: c2 :: r' => cont c1 && cont c2 && utf8_valid r' | _ => false end
      else if c =? 237 then
        match r with c1 :: c2 :: r' => inr 128 159 c1 && cont c2 && utf8_valid r' | _ => false end
      else if c =? 240 then
        match r with c1 :: c2 :: c3 :: r' => inr 144 191 c1 && cont c2 && cont c3 && utf8_valid r' | _ => false end
      else if inr 241 243 c then
        match r with c1 :: c2 :: c3 :: r' => cont c1 && cont c2 && cont c3 && utf8_valid r' | _ => false end
      else if c =? 244 then
        match r with c1 :: c2 :: c3 :: r' => inr 128 143 c1 && cont c2 && cont c3 && utf8_valid r' | _ => false end
      else false
  end.
