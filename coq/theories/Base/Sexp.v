(* S-expressions: the only data format crossing the model/harness boundary.
   Text format (see ocaml/driver.ml):  123  |  x0aff (bytes, hex; "x" = empty)  |  ( ... )   *)
From NDN Require Import Base.Prelude.

Inductive sexp := SNum (n : N) | SBytes (b : bytes) | SList (l : list sexp).

Definition s_nil : sexp := SList [].
Definition s_bool (b : bool) : sexp := SNum (if b then 1 else 0)%N.
Definition s_nat (n : nat) : sexp := SNum (N.of_nat n).
Definition s_tag (t : N) (l : list sexp) : sexp := SList (SNum t :: l).
Definition s_opt {A} (f : A -> sexp) (o : option A) : sexp :=
  match o with None => SList [] | Some a => SList [f a] end.
Definition s_list {A} (f : A -> sexp) (l : list A) : sexp := SList (map f l).
Definition s_pair {A B} (f : A -> sexp) (g : B -> sexp) (p : A * B) : sexp :=
  SList [f (fst p); g (snd p)].

(* Error codes shown to the harness: (0 code) ; results: (1 payload) *)
Definition err_code (e : err) : N :=
  match e with
  | EDecode => 1 | EIndex => 2 | EValue => 3 | EStruct => 4 | EType => 5 | EUnicode => 6
  | EKey => 7 | EInvalidState => 8 | EAttr => 9 | EOverflow => 10 | EFuel => 99
  | EOther n => 100 + n
  end%N.
Definition s_err (e : err) : sexp := SList [SNum 0; SNum (err_code e)].
Definition s_res {A} (f : A -> sexp) (r : res A) : sexp :=
  match r with Ok a => SList [SNum 1; f a] | Err e => s_err e end.

(* request decoding; a malformed request yields None and the dispatcher answers (0 98) *)
Definition as_num (s : sexp) : option N :=
  match s with SNum n => Some n | SBytes b => Some (be_to_N b) | SList _ => None end.
Definition as_nat (s : sexp) : option nat := option_map N.to_nat (as_num s).
Definition as_bool (s : sexp) : option bool := option_map (fun n => negb (N.eqb n 0)) (as_num s).
Definition as_bytes (s : sexp) : option bytes :=
  match s with SBytes b => Some b | _ => None end.
Definition as_list (s : sexp) : option (list sexp) :=
  match s with SList l => Some l | _ => None end.

Fixpoint omap {A B} (f : A -> option B) (l : list A) : option (list B) :=
  match l with
  | [] => Some []
  | x :: r => odo y <- f x ;; odo ys <- omap f r ;; Some (y :: ys)
  end.
Definition as_list_of {A} (f : sexp -> option A) (s : sexp) : option (list A) :=
  odo l <- as_list s ;; omap f l.
Definition as_opt {A} (f : sexp -> option A) (s : sexp) : option (option A) :=
  match s with
  | SList [] => Some None
  | SList [x] => option_map Some (f x)
  | _ => None
  end.
Definition as_pair {A B} (f : sexp -> option A) (g : sexp -> option B) (s : sexp) : option (A * B) :=
  match s with
  | SList [x; y] => odo a <- f x ;; odo b <- g y ;; Some (a, b)
  | _ => None
  end.
Definition s_bad_request : sexp := SList [SNum 0; SNum 98].
