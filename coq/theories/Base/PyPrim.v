(* Hand-written semantics of the few CPython primitives that the T2 translator
   (tools/gen_tlv_var.py) emits calls to.  Part of the trusted base ("modelled, not verified");
   exercised against CPython by the correspondence run of C09/C08. *)
From NDN Require Import Base.Prelude.
Local Open Scope Z_scope.

Definition pybuf := bytes.

Definition py_len (b : pybuf) : Z := Z.of_nat (length b).

(* buf[i] : negative indices count from the end; out of range -> IndexError *)
Definition py_index (b : pybuf) (i : Z) : res Z :=
  let n := py_len b in
  let j := if i <? 0 then i + n else i in
  if (j <? 0) || (n <=? j) then Err EIndex
  else match nth_error b (Z.to_nat j) with Some x => Ok (Z.of_N x) | None => Err EIndex end.

Definition clamp_idx (n : Z) (i : option Z) (dflt : Z) : Z :=
  match i with
  | None => dflt
  | Some i => let j := if i <? 0 then i + n else i in Z.max 0 (Z.min n j)
  end.

(* buf[lo:hi] : never raises, truncates silently *)
Definition py_slice (b : pybuf) (lo hi : option Z) : pybuf :=
  let n := py_len b in
  let l := clamp_idx n lo 0 in
  let h := clamp_idx n hi n in
  if h <=? l then [] else skipn (Z.to_nat l) (firstn (Z.to_nat h) b).

Inductive sfmt := FB | FH | FI | FQ.
Definition sfmt_width (f : sfmt) : nat :=
  match f with FB => 1%nat | FH => 2%nat | FI => 4%nat | FQ => 8%nat end.
Definition sfmt_bound (f : sfmt) : Z :=
  match f with FB => 256 | FH => 65536 | FI => 4294967296 | FQ => 18446744073709551616 end.

Definition struct_pack1 (f : sfmt) (v : Z) : res bytes :=
  if (0 <=? v) && (v <? sfmt_bound f) then Ok (N_to_be (sfmt_width f) (Z.to_N v)) else Err EStruct.

Fixpoint struct_pack (fs : list sfmt) (vs : list Z) : res bytes :=
  match fs, vs with
  | [], [] => Ok []
  | f :: fs', v :: vs' =>
      do a <- struct_pack1 f v ;; do r <- struct_pack fs' vs' ;; Ok (a ++ r)
  | _, _ => Err EStruct
  end.

Definition splice_z (buf : bytes) (off : nat) (patch : bytes) : bytes :=
  firstn off buf ++ patch ++ skipn (off + length patch) buf.

(* struct.pack_into(fmt, buf, offset, *vs): the updated buffer *)
Definition struct_pack_into (fs : list sfmt) (buf : pybuf) (off : Z) (vs : list Z) : res pybuf :=
  do p <- struct_pack fs vs ;;
  let n := py_len buf in
  let o := if off <? 0 then off + n else off in
  if (o <? 0) || (n <? o + Z.of_nat (length p)) then Err EStruct
  else Ok (splice_z buf (Z.to_nat o) p).

(* struct.unpack(fmt, b)[0] for a single-field format *)
Definition struct_unpack1 (f : sfmt) (b : pybuf) : res Z :=
  if Nat.eqb (length b) (sfmt_width f) then Ok (Z.of_N (be_to_N b)) else Err EStruct.
