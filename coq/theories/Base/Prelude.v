(* Common definitions: bytes, Python-exception-as-value result type, small list helpers.
   No statements about repository code live here. *)
From Coq Require Export List NArith ZArith Bool Arith Lia ZifyBool ZifyNat ZifyN.
Export ListNotations.

Ltac Zify.zify_post_hook ::= Z.to_euclidean_division_equations.

Definition bytes := list N.

(* Python exception classes that the modelled code can raise.  [EFuel] is never a Python
   exception: it marks fuel exhaustion and every theorem excludes it explicitly. *)
Inductive err :=
| EDecode        (* ndn.encoding.DecodeError *)
| EIndex         (* IndexError *)
| EValue         (* ValueError (incl. UnicodeDecodeError for [except] purposes: see EUnicode) *)
| EStruct        (* struct.error *)
| EType          (* TypeError *)
| EUnicode       (* UnicodeDecodeError / UnicodeEncodeError, subclasses of ValueError *)
| EKey           (* KeyError *)
| EInvalidState  (* asyncio.InvalidStateError *)
| EAttr          (* AttributeError *)
| EOverflow      (* OverflowError *)
| EOther (n : N) (* module specific, numbered per model *)
| EFuel.

Inductive res (A : Type) := Ok (a : A) | Err (e : err).
Arguments Ok {A} a.
Arguments Err {A} e.

Definition bind {A B} (r : res A) (f : A -> res B) : res B :=
  match r with Ok a => f a | Err e => Err e end.
Notation "'do' x <- r ;; k" := (bind r (fun x => k))
  (at level 200, x pattern, r at level 100, k at level 200, right associativity).

Definition obind {A B} (r : option A) (f : A -> option B) : option B :=
  match r with Some a => f a | None => None end.
Notation "'odo' x <- r ;; k" := (obind r (fun x => k))
  (at level 200, x pattern, r at level 100, k at level 200, right associativity).

Definition to_option {A} (r : res A) : option A := match r with Ok a => Some a | Err _ => None end.
Definition is_ok {A} (r : res A) : bool := match r with Ok _ => true | Err _ => false end.

Definition wf_byte (b : N) : bool := (b <? 256)%N.
Definition wf_bytes (l : bytes) : Prop := Forall (fun b => (b < 256)%N) l.
Definition wf_bytesb (l : bytes) : bool := forallb wf_byte l.

Definition err_eqb (a b : err) : bool :=
  match a, b with
  | EDecode, EDecode | EIndex, EIndex | EValue, EValue | EStruct, EStruct | EType, EType
  | EUnicode, EUnicode | EKey, EKey | EInvalidState, EInvalidState | EAttr, EAttr
  | EOverflow, EOverflow | EFuel, EFuel => true
  | EOther x, EOther y => N.eqb x y
  | _, _ => false
  end.

(* big-endian number <-> bytes *)
Definition be_to_N (l : bytes) : N := fold_left (fun a b => (a * 256 + b)%N) l 0%N.

Fixpoint N_to_be (width : nat) (v : N) : bytes :=
  match width with
  | O => []
  | S w => N_to_be w (v / 256)%N ++ [(v mod 256)%N]
  end.

Fixpoint list_eqb {A} (eqb : A -> A -> bool) (a b : list A) : bool :=
  match a, b with
  | [], [] => true
  | x :: a', y :: b' => eqb x y && list_eqb eqb a' b'
  | _, _ => false
  end.
Definition bytes_eqb := list_eqb N.eqb.

Lemma list_eqb_spec {A} (eqb : A -> A -> bool) :
  (forall x y, eqb x y = true <-> x = y) -> forall a b, list_eqb eqb a b = true <-> a = b.
Proof.
  intros H a; induction a as [|x a IH]; intros [|y b]; cbn; try (split; congruence).
  rewrite andb_true_iff, H, IH. split; [intros [-> ->]; reflexivity | intros E; inversion E; auto].
Qed.

Lemma bytes_eqb_spec a b : bytes_eqb a b = true <-> a = b.
Proof. apply list_eqb_spec. intros; apply N.eqb_eq. Qed.

Fixpoint is_prefixb {A} (eqb : A -> A -> bool) (a b : list A) : bool :=
  match a, b with
  | [], _ => true
  | x :: a', y :: b' => eqb x y && is_prefixb eqb a' b'
  | _ :: _, [] => false
  end.

(* association lists with Python-dict order: update in place, insert at end *)
Section AList.
  Context {K V : Type} (keqb : K -> K -> bool).
  Fixpoint al_get (l : list (K * V)) (k : K) : option V :=
    match l with [] => None | (k', v) :: r => if keqb k k' then Some v else al_get r k end.
  Fixpoint al_set (l : list (K * V)) (k : K) (v : V) : list (K * V) :=
    match l with
    | [] => [(k, v)]
    | (k', v') :: r => if keqb k k' then (k', v) :: r else (k', v') :: al_set r k v
    end.
  Fixpoint al_del (l : list (K * V)) (k : K) : list (K * V) :=
    match l with
    | [] => []
    | (k', v') :: r => if keqb k k' then r else (k', v') :: al_del r k
    end.
  Definition al_mem (l : list (K * V)) (k : K) : bool :=
    match al_get l k with Some _ => true | None => false end.
End AList.
