(* Text helpers over code-point lists: decimal printing (Python f"{n}") and the part of
   Python's int(str[, 16]) reachable with CHARSET characters, hex printing/parsing, UTF-8
   encoding of one code point, split/join.  Definitions only. *)
From NDN Require Import Base.Prelude.
Local Open Scope N_scope.

Definition str := list N.   (* code points *)

(* ---- decimal ---------------------------------------------------------------------------- *)
(* f"{n}": decimal digits, most significant first, no leading zeros ("0" for 0).
   Fuel = number of binary digits, which bounds the number of decimal digits. *)
Fixpoint dec_aux (fuel : nat) (n : N) (acc : str) : str :=
  match fuel with
  | O => acc
  | S f => let acc' := (48 + n mod 10) :: acc in
           if n <? 10 then acc' else dec_aux f (n / 10) acc'
  end.
Definition dec_print (n : N) : str := dec_aux (S (N.to_nat (N.log2 n))) n [].

Definition is_digit (c : N) : bool := (48 <=? c) && (c <=? 57).

(* digits with optional single underscores between digits (Python int() grammar) *)
Fixpoint dec_digits (acc : N) (prev_digit : bool) (s : str) : option N :=
  match s with
  | [] => if prev_digit then Some acc else None
  | c :: r =>
      if is_digit c then dec_digits (acc * 10 + (c - 48)) true r
      else if (c =? 95) && prev_digit then
        match r with
        | [] => None
        | _ => dec_digits acc false r
        end
      else None
  end.

(* int(s) for s over CHARSET: optional leading '-', then digits/underscores; None = ValueError *)
Definition py_int (s : str) : option Z :=
  match s with
  | 45 :: r => option_map (fun n => (- Z.of_N n)%Z) (dec_digits 0 false r)
  | _ => option_map Z.of_N (dec_digits 0 false s)
  end.

(* ---- hexadecimal ------------------------------------------------------------------------ *)
Definition hexval (c : N) : option N :=
  if (48 <=? c) && (c <=? 57) then Some (c - 48)
  else if (65 <=? c) && (c <=? 70) then Some (c - 55)
  else if (97 <=? c) && (c <=? 102) then Some (c - 87)
  else None.

Definition hexdigit_upper (v : N) : N := if v <? 10 then 48 + v else 55 + v.
Definition hexdigit_lower (v : N) : N := if v <? 10 then 48 + v else 87 + v.

(* bytes.hex() *)
Fixpoint hex_print (b : bytes) : str :=
  match b with [] => [] | x :: r => hexdigit_lower (x / 16) :: hexdigit_lower (x mod 16) :: hex_print r end.

(* bytearray.fromhex over CHARSET characters (no whitespace can occur): None = ValueError *)
Fixpoint hex_parse (s : str) : option bytes :=
  match s with
  | [] => Some []
  | a :: b :: r =>
      odo x <- hexval a ;; odo y <- hexval b ;; odo t <- hex_parse r ;; Some (x * 16 + y :: t)
  | _ => None
  end.

(* ---- UTF-8 encoding of one code point (str.encode()); surrogates raise ------------------ *)
Definition utf8_enc_cp (c : N) : option bytes :=
  if c <? 128 then Some [c]
  else if c <? 2048 then Some [192 + c / 64; 128 + c mod 64]
  else if (55296 <=? c) && (c <=? 57343) then None
  else if c <? 65536 then Some [224 + c / 4096; 128 + (c / 64) mod 64; 128 + c mod 64]
  else if c <? 1114112 then
    Some [240 + c / 262144; 128 + (c / 4096) mod 64; 128 + (c / 64) mod 64; 128 + c mod 64]
  else None.

(* ---- split / join on a separator character ------------------------------------------------ *)
Fixpoint split_on (sep : N) (s : str) : list str :=
  match s with
  | [] => [[]]
  | c :: r =>
      if c =? sep then [] :: split_on sep r
      else match split_on sep r with
           | [] => [[c]]          (* unreachable: split_on never returns [] *)
           | h :: t => (c :: h) :: t
           end
  end.

Fixpoint join_with (sep : N) (l : list str) : str :=
  match l with
  | [] => []
  | [x] => x
  | x :: r => x ++ sep :: join_with sep r
  end.

Definition str_eqb := list_eqb N.eqb.
Definition str_of_ascii (l : list N) : str := l.
