(* [gen_tree] merges rule chains into a pattern tree.  A name follows a path of that tree to a
   node where chain [rc] ends iff the name satisfies [rc] read on its own ([chain_sem]):
   literal components equal, a named pattern constrained at its first occurrence and equal to its
   binding afterwards, a temporary pattern constrained at every occurrence and binding nothing. *)
From NDN Require Import Base.Prelude Base.Text Model.TlvVar Model.Name Model.LvsAst Model.LvsChecker Model.LvsCompiler
  Spec.LvsSem Spec.LvsTree Proofs.LvsMachine Proofs.LvsFlatten.
Local Open Scope N_scope.

(* ---- list helpers ------------------------------------------------------------------------------- *)
Lemma rmap_forall2 {A B} (f : A -> res B) l ys : rmap f l = Ok ys -> Forall2 (fun x y => f x = Ok y) l ys.
Proof.
  revert ys; induction l as [|x l IH]; intros ys; cbn.
  - intros H; inversion H; constructor.
  - destruct (f x) as [y|] eqn:E; [|discriminate]. cbn.
    destruct (rmap f l) as [t|]; [|discriminate]. cbn. intros H; inversion H; subst. constructor; auto.
Qed.

Lemma forall2_in_l {A B} (R : A -> B -> Prop) l l' x : Forall2 R l l' -> In x l -> exists y, In y l' /\ R x y.
Proof.
  induction 1 as [|a b l l' Hab _ IH]; intros Hin; [destruct Hin|].
  destruct Hin as [->|Hin]; [exists b; split; [left; reflexivity | exact Hab]|].
  destruct (IH Hin) as (y & Hy & Hr). exists y. split; [right; exact Hy | exact Hr].
Qed.
Lemma forall2_in_r {A B} (R : A -> B -> Prop) l l' y : Forall2 R l l' -> In y l' -> exists x, In x l /\ R x y.
Proof.
  induction 1 as [|a b l l' Hab _ IH]; intros Hin; [destruct Hin|].
  destruct Hin as [->|Hin]; [exists a; split; [left; reflexivity | exact Hab]|].
  destruct (IH Hin) as (x & Hx & Hr). exists x. split; [right; exact Hx | exact Hr].
Qed.

Lemma in_insert_sorted {K} (leb : K -> K -> bool) x y l : In y (insert_sorted leb x l) <-> y = x \/ In y l.
Proof.
  induction l as [|z l IH]; cbn; [intuition|].
  destruct (leb x z); cbn; [intuition|]. rewrite IH. intuition.
Qed.
Lemma in_isort {K} (leb : K -> K -> bool) y l : In y (isort leb l) <-> In y l.
Proof.
  induction l as [|x l IH]; cbn; [reflexivity|]. rewrite in_insert_sorted, IH. intuition.
Qed.
Lemma in_dedup {K} (eqb : K -> K -> bool) (Heq : forall a b, eqb a b = true <-> a = b) y l :
  In y (dedup eqb l) <-> In y l.
Proof.
  induction l as [|x l IH]; cbn; [reflexivity|].
  destruct (existsb (eqb x) l) eqn:E.
  - rewrite IH. split; [auto|]. intros [->|H]; [|exact H].
    apply existsb_exists in E. destruct E as (z & Hz & Ez). apply Heq in Ez. subst z. exact Hz.
  - cbn. rewrite IH. reflexivity.
Qed.

Lemma str_eqb_eq a b : str_eqb a b = true <-> a = b.
Proof. apply list_eqb_spec. intros; apply N.eqb_eq. Qed.

Lemma vfind_of v vs child : vfind v (vlist_of vs) = Some child -> In (v, child) vs.
Proof.
  induction vs as [|[x t] r IH]; cbn; [discriminate|].
  destruct (bytes_eqb v x) eqn:E.
  - intros H; inversion H; subst. apply bytes_eqb_spec in E. subst. left; reflexivity.
  - intros H. right. apply IH, H.
Qed.
Lemma vfind_some v vs child : In (v, child) vs -> exists child', vfind v (vlist_of vs) = Some child' /\ In (v, child') vs.
Proof.
  induction vs as [|[x t] r IH]; intros Hin; [destruct Hin|]. cbn.
  destruct (bytes_eqb v x) eqn:E.
  - apply bytes_eqb_spec in E. subst. exists t. split; [reflexivity | left; reflexivity].
  - destruct Hin as [Hin|Hin].
    + inversion Hin; subst. assert (bytes_eqb v v = true) by (apply bytes_eqb_spec; reflexivity). congruence.
    + destruct (IH Hin) as (c' & Hf & Hi). exists c'. split; [exact Hf | right; exact Hi].
Qed.
Lemma pin_of tag cs child ps : pin tag cs child (plist_of ps) <-> In (tag, cs, child) ps.
Proof.
  induction ps as [|[[tg c0] t] r IH]; cbn.
  - split; [intros H; inversion H | intros []].
  - split.
    + intros H. inversion H; subst; [left; reflexivity | right; apply IH; assumption].
    + intros [H|H]; [inversion H; subst; constructor | constructor; apply IH; exact H].
Qed.

(* ---- the meaning of one numbered chain -------------------------------------------------------------- *)
Definition cons_for (rc : chain) (t : Z) : list pcons :=
  map (fun c => fst (enc_cons c)) (filter (fun c => zmem t (nc_pat c)) (ch_cons rc)).

Definition tags_before (depth : nat) (rc : chain) : list Z :=
  flat_map (fun c => match c with NPat t => [t] | _ => [] end) (firstn depth (ch_name rc)).

Definition pat_pos (rc : chain) (i : nat) (t : Z) : Prop := nth_error (ch_name rc) i = Some (NPat t).

Section ChainSem.
  Variable ufn : ident -> option (bytes -> list (option bytes) -> res bool).

  Fixpoint chain_sem (cf : Z -> list pcons) (seen : list Z) (comps : list ncomp) (name : list bytes) (c c' : tctx) : Prop :=
    match comps, name with
    | [], [] => c' = c
    | NLit x :: comps', v :: name' => v = x /\ chain_sem cf seen comps' name' c c'
    | NPat t :: comps', v :: name' =>
        exists c1, tstep ufn t (if (0 <=? t)%Z && zmem t seen then [] else cf t) v c c1 /\ chain_sem cf (t :: seen) comps' name' c1 c'
    | _, _ => False
    end.

  Lemma chain_sem_ext cf s1 s2 comps : (forall t, zmem t s1 = zmem t s2) ->
    forall name c c', chain_sem cf s1 comps name c c' <-> chain_sem cf s2 comps name c c'.
  Proof.
    revert s1 s2; induction comps as [|k comps IH]; intros s1 s2 Hs name c c'; destruct name as [|v name]; cbn; try reflexivity.
    destruct k as [x|t|r]; [| |reflexivity].
    - split; intros [H1 H2]; (split; [exact H1|]); apply (IH s1 s2 Hs); exact H2.
    - rewrite (Hs t). split; intros (c1 & H1 & H2); exists c1; (split; [exact H1|]).
        * apply (IH (t :: s1) (t :: s2)); [|exact H2]. intros t0. unfold zmem. cbn [existsb]. f_equal. apply (Hs t0).
        * apply (IH (t :: s1) (t :: s2)); [|exact H2]. intros t0. unfold zmem. cbn [existsb]. f_equal. apply (Hs t0).
  Qed.

  (* chain [rc] read from position [depth] on *)
  Definition chain_sem_from (depth : nat) (rc : chain) (suffix : list bytes) (c c' : tctx) : Prop :=
    chain_sem (cons_for rc) (tags_before depth rc) (skipn depth (ch_name rc)) suffix c c'.
End ChainSem.

(* ---- well-formedness of the chains handed to the tree builder ---------------------------------------- *)
(* the merging key determines the edge: equal keys mean equal constraints and, for named patterns, equal tags *)
Definition keys_faithful (chains : list chain) : Prop :=
  forall rc rc' t t' prev, In rc chains -> In rc' chains ->
    snd (pattern_movement rc t prev) = snd (pattern_movement rc' t' prev) ->
    snd (fst (pattern_movement rc t prev)) = snd (fst (pattern_movement rc' t' prev)) /\
    (((0 <= t)%Z \/ (0 <= t')%Z) -> t = t').

Lemma pm_tag rc t prev : fst (fst (pattern_movement rc t prev)) = t.
Proof. unfold pattern_movement. destruct ((0 <=? t)%Z && zmem t prev); reflexivity. Qed.
Lemma pm_cons rc t prev : snd (fst (pattern_movement rc t prev)) = if (0 <=? t)%Z && zmem t prev then [] else cons_for rc t.
Proof.
  unfold pattern_movement, cons_for. destruct ((0 <=? t)%Z && zmem t prev); [reflexivity|]. cbn. rewrite map_map. reflexivity.
Qed.

Lemma zmem_in t l : zmem t l = true <-> In t l.
Proof.
  unfold zmem. rewrite existsb_exists. split.
  - intros (x & Hx & E). apply Z.eqb_eq in E. subst. exact Hx.
  - intros H. exists t. split; [exact H | apply Z.eqb_refl].
Qed.

Lemma nth_error_firstn' {A} (l : list A) n i : nth_error (firstn n l) i = if (i <? n)%nat then nth_error l i else None.
Proof.
  revert l i; induction n as [|n IH]; intros l i.
  - rewrite firstn_O. destruct i; reflexivity.
  - destruct l as [|x l].
    + rewrite firstn_nil. destruct i; cbn [nth_error]; match goal with |- context [if ?b then _ else _] => destruct b end; reflexivity.
    + destruct i as [|i]; [reflexivity|].
      change (nth_error (firstn n l) i = if (i <? n)%nat then nth_error l i else None). apply IH.
Qed.

Lemma in_tags_before t depth rc : In t (tags_before depth rc) <-> exists i, (i < depth)%nat /\ pat_pos rc i t.
Proof.
  unfold tags_before, pat_pos. rewrite in_flat_map. split.
  - intros (k & Hk & Ht). destruct k as [x|t0|r]; [destruct Ht | | destruct Ht]. destruct Ht as [->|[]].
    apply In_nth_error in Hk. destruct Hk as (i & Hi). exists i.
    assert (Hlt : (i < length (firstn depth (ch_name rc)))%nat) by (apply nth_error_Some; congruence).
    rewrite firstn_length in Hlt. split; [lia|]. rewrite nth_error_firstn' in Hi.
    destruct (Nat.ltb_spec i depth); [exact Hi | lia].
  - intros (i & Hi & Hp). exists (NPat t). split; [|left; reflexivity].
    apply nth_error_In with (n := i). rewrite nth_error_firstn'. destruct (Nat.ltb_spec i depth); [exact Hp | lia].
Qed.

(* ---- the invariant relating the tags of the path walked so far to each chain still in play ------------- *)
Record Inv (ctx : list chain) (depth : nat) (prev : list Z) : Prop := {
  inv_a : forall rc i t, In rc ctx -> (i < depth)%nat -> pat_pos rc i t -> (0 <= t)%Z -> In t prev;
  inv_b : forall rc t, In rc ctx -> In t prev -> (0 <= t)%Z -> exists i, (i < depth)%nat /\ pat_pos rc i t
}.

Section Gen.
  Variable ufn : ident -> option (bytes -> list (option bytes) -> res bool).
  Variable chains : list chain.
  Hypothesis Hkeys : keys_faithful chains.

  Lemma inv_zmem ctx depth prev rc t :
    Inv ctx depth prev -> In rc ctx -> pat_pos rc depth t ->
    ((0 <=? t)%Z && zmem t prev) = ((0 <=? t)%Z && zmem t (tags_before depth rc)).
  Proof.
    intros HI Hin Hp. destruct (Z.leb_spec 0 t) as [Hpos|Hneg]; [|reflexivity]. cbn [andb].
    destruct (zmem t prev) eqn:E1, (zmem t (tags_before depth rc)) eqn:E2; try reflexivity.
    - apply zmem_in in E1. destruct (inv_b _ _ _ HI rc t Hin E1 Hpos) as (i & Hi & Hpi).
      assert (In t (tags_before depth rc)) by (apply in_tags_before; eauto).
      apply zmem_in in H. congruence.
    - apply zmem_in in E2. apply in_tags_before in E2. destruct E2 as (i & Hi & Hpi).
      pose proof (inv_a _ _ _ HI rc i t Hin Hi Hpi Hpos) as H. apply zmem_in in H. congruence.
  Qed.

  Lemma going_on_in depth ctx rc : In rc (going_on depth ctx) <-> In rc ctx /\ depth <> length (ch_name rc).
  Proof.
    unfold going_on. rewrite filter_In. destruct (Nat.eqb_spec depth (length (ch_name rc))); cbn; intuition congruence.
  Qed.
  Lemma ended_at_in depth ctx rc : In rc (ended_at depth ctx) <-> In rc ctx /\ depth = length (ch_name rc).
  Proof.
    unfold ended_at. rewrite filter_In. destruct (Nat.eqb_spec depth (length (ch_name rc))); cbn; intuition congruence.
  Qed.
  Lemma v_group_in depth ctx1 v rc : In rc (v_group depth ctx1 v) <-> In rc ctx1 /\ lit_at rc depth = Some v.
  Proof.
    unfold v_group. rewrite filter_In. destruct (lit_at rc depth) as [w|].
    - split.
      + intros [H E]. apply bytes_eqb_spec in E. subst. auto.
      + intros [H E]. inversion E; subst. split; [exact H | apply bytes_eqb_spec; reflexivity].
    - split; intros [_ H]; discriminate.
  Qed.
  Lemma v_moves_in depth ctx1 v : In v (v_moves depth ctx1) <-> exists rc, In rc ctx1 /\ lit_at rc depth = Some v.
  Proof.
    unfold v_moves. rewrite in_isort, (in_dedup _ bytes_eqb_spec), in_flat_map. split.
    - intros (rc & Hrc & Hv). exists rc. split; [exact Hrc|]. destruct (lit_at rc depth); [destruct Hv as [->|[]]; reflexivity | destruct Hv].
    - intros (rc & Hrc & E). exists rc. split; [exact Hrc|]. rewrite E. left; reflexivity.
  Qed.
  Lemma p_moves_in depth prev ctx1 pm :
    In pm (p_moves depth prev ctx1) <-> exists rc t, In rc ctx1 /\ pat_at rc depth = Some t /\ pm = (pattern_movement rc t prev, rc).
  Proof.
    unfold p_moves. rewrite in_flat_map. split.
    - intros (rc & Hrc & Hp). destruct (pat_at rc depth) as [t|] eqn:E; [|destruct Hp].
      destruct Hp as [<-|[]]. exists rc, t. auto.
    - intros (rc & t & Hrc & E & ->). exists rc. split; [exact Hrc|]. rewrite E. left; reflexivity.
  Qed.
  Lemma p_keys_in pms key : In key (p_keys pms) <-> exists pm, In pm pms /\ snd (fst pm) = key.
  Proof.
    unfold p_keys. rewrite in_isort, (in_dedup _ str_eqb_eq), in_map_iff.
    split; intros (pm & H1 & H2); exists pm; auto.
  Qed.
  Lemma p_group_in pms key pm : In pm (p_group pms key) <-> In pm pms /\ snd (fst pm) = key.
  Proof. unfold p_group. rewrite filter_In, str_eqb_eq. reflexivity. Qed.

  Lemma lit_at_skipn rc depth v : lit_at rc depth = Some v -> skipn depth (ch_name rc) = NLit v :: skipn (S depth) (ch_name rc).
  Proof.
    unfold lit_at. destruct (nth_error (ch_name rc) depth) as [[x|t|r]|] eqn:E; try discriminate.
    intros H; inversion H; subst. clear H. revert E. generalize (ch_name rc). induction depth as [|d IH]; intros [|k l] E; cbn in *; try discriminate.
    - inversion E; reflexivity.
    - apply IH, E.
  Qed.
  Lemma pat_at_skipn rc depth t : pat_at rc depth = Some t -> skipn depth (ch_name rc) = NPat t :: skipn (S depth) (ch_name rc).
  Proof.
    unfold pat_at. destruct (nth_error (ch_name rc) depth) as [[x|t0|r]|] eqn:E; try discriminate.
    intros H; inversion H; subst. clear H. revert E. generalize (ch_name rc). induction depth as [|d IH]; intros [|k l] E; cbn in *; try discriminate.
    - inversion E; reflexivity.
    - apply IH, E.
  Qed.
  Lemma pat_at_pos rc depth t : pat_at rc depth = Some t <-> pat_pos rc depth t.
  Proof.
    unfold pat_at, pat_pos. destruct (nth_error (ch_name rc) depth) as [[x|t0|r]|]; split; intros H; inversion H; reflexivity.
  Qed.
  Lemma lit_at_not_pat rc depth v t : lit_at rc depth = Some v -> ~ pat_pos rc depth t.
  Proof. unfold lit_at, pat_pos. intros H E. rewrite E in H. discriminate. Qed.

  Lemma tags_before_S_lit rc depth v : lit_at rc depth = Some v -> forall t, zmem t (tags_before (S depth) rc) = zmem t (tags_before depth rc).
  Proof.
    intros Hl t. destruct (zmem t (tags_before (S depth) rc)) eqn:E1, (zmem t (tags_before depth rc)) eqn:E2; try reflexivity.
    - apply zmem_in, in_tags_before in E1. destruct E1 as (i & Hi & Hp).
      assert (i <> depth) by (intros ->; eapply lit_at_not_pat; eauto).
      assert (In t (tags_before depth rc)) by (apply in_tags_before; exists i; split; [lia | exact Hp]).
      apply zmem_in in H0. congruence.
    - apply zmem_in, in_tags_before in E2. destruct E2 as (i & Hi & Hp).
      assert (In t (tags_before (S depth) rc)) by (apply in_tags_before; exists i; split; [lia | exact Hp]).
      apply zmem_in in H. congruence.
  Qed.
  Lemma tags_before_S_pat rc depth t0 : pat_pos rc depth t0 -> forall t, zmem t (tags_before (S depth) rc) = zmem t (t0 :: tags_before depth rc).
  Proof.
    intros Hp0 t. destruct (zmem t (tags_before (S depth) rc)) eqn:E1, (zmem t (t0 :: tags_before depth rc)) eqn:E2; try reflexivity.
    - apply zmem_in, in_tags_before in E1. destruct E1 as (i & Hi & Hp).
      assert (In t (t0 :: tags_before depth rc)).
      { destruct (Nat.eq_dec i depth) as [->|Hne].
        - unfold pat_pos in *. rewrite Hp0 in Hp. inversion Hp. left; reflexivity.
        - right. apply in_tags_before. exists i. split; [lia | exact Hp]. }
      apply zmem_in in H. congruence.
    - apply zmem_in in E2. assert (In t (tags_before (S depth) rc)).
      { apply in_tags_before. destruct E2 as [<-|E2]; [exists depth; split; [lia | exact Hp0]|].
        apply in_tags_before in E2. destruct E2 as (i & Hi & Hp). exists i. split; [lia | exact Hp]. }
      apply zmem_in in H. congruence.
  Qed.

  (* the invariant is kept along both kinds of edges *)
  Lemma inv_value ctx depth prev v :
    Inv ctx depth prev -> Inv (v_group depth (going_on depth ctx) v) (S depth) prev.
  Proof.
    intros HI. constructor.
    - intros rc i t Hin Hi Hp Hpos. apply v_group_in in Hin. destruct Hin as [Hin Hl]. apply going_on_in in Hin. destruct Hin as [Hin _].
      destruct (Nat.eq_dec i depth) as [->|Hne]; [exfalso; eapply lit_at_not_pat; eauto|].
      apply (inv_a _ _ _ HI rc i t); auto. lia.
    - intros rc t Hin Ht Hpos. apply v_group_in in Hin. destruct Hin as [Hin _]. apply going_on_in in Hin. destruct Hin as [Hin _].
      destruct (inv_b _ _ _ HI rc t Hin Ht Hpos) as (i & Hi & Hp). exists i. split; [lia | exact Hp].
  Qed.

  Lemma inv_pattern ctx depth prev key pm0 rest :
    (forall rc, In rc ctx -> In rc chains) ->
    Inv ctx depth prev -> p_group (p_moves depth prev (going_on depth ctx)) key = pm0 :: rest ->
    Inv (map snd (pm0 :: rest)) (S depth) (fst (fst (fst pm0)) :: prev).
  Proof.
    intros Hsub HI Hg.
    assert (Hmem : forall rc, In rc (map snd (pm0 :: rest)) ->
              exists t, In rc ctx /\ pat_pos rc depth t /\ snd (pattern_movement rc t prev) = key).
    { intros rc Hin. apply in_map_iff in Hin. destruct Hin as (pm & <- & Hpm). rewrite <- Hg in Hpm.
      apply p_group_in in Hpm. destruct Hpm as [Hpm Hk]. apply p_moves_in in Hpm.
      destruct Hpm as (rc & t & Hrc & Hpa & ->). cbn in *. exists t. apply going_on_in in Hrc. destruct Hrc as [Hrc _].
      split; [exact Hrc|]. split; [apply pat_at_pos; exact Hpa | exact Hk]. }
    assert (H0 : In (snd pm0) (map snd (pm0 :: rest))) by (left; reflexivity).
    destruct (Hmem _ H0) as (t0 & Hc0 & Hp0 & Hk0).
    assert (Etag0 : fst (fst (fst pm0)) = t0).
    { assert (Hpm0 : In pm0 (p_group (p_moves depth prev (going_on depth ctx)) key)) by (rewrite Hg; left; reflexivity).
      apply p_group_in in Hpm0. destruct Hpm0 as [Hpm0 _]. apply p_moves_in in Hpm0.
      destruct Hpm0 as (rc & t & Hrc & Hpa & ->). cbn in *. rewrite pm_tag.
      apply pat_at_pos in Hpa. unfold pat_pos in *. rewrite Hp0 in Hpa. inversion Hpa; reflexivity. }
    rewrite Etag0.
    constructor.
    - intros rc i t Hin Hi Hp Hpos. destruct (Hmem rc Hin) as (t1 & Hc & Hp1 & Hk1).
      destruct (Nat.eq_dec i depth) as [->|Hne].
      + unfold pat_pos in *. rewrite Hp1 in Hp. inversion Hp; subst t1.
        destruct (Hkeys rc (snd pm0) t t0 prev (Hsub _ Hc) (Hsub _ Hc0)) as [_ He]; [congruence|].
        left. symmetry. apply He. left; exact Hpos.
      + right. apply (inv_a _ _ _ HI rc i t); auto. lia.
    - intros rc t Hin Ht Hpos. destruct (Hmem rc Hin) as (t1 & Hc & Hp1 & Hk1).
      destruct Ht as [<-|Ht].
      + destruct (Hkeys rc (snd pm0) t1 t0 prev (Hsub _ Hc) (Hsub _ Hc0)) as [_ He]; [congruence|].
        exists depth. split; [lia|]. rewrite <- He; [exact Hp1 | right; exact Hpos].
      + destruct (inv_b _ _ _ HI rc t Hc Ht Hpos) as (i & Hi & Hp). exists i. split; [lia | exact Hp].
  Qed.

  (* tstep only looks at the sign of a temporary tag *)
  Lemma tstep_tag_irrel t t' cs v c c' : ((0 <= t)%Z \/ (0 <= t')%Z -> t = t') -> tstep ufn t cs v c c' <-> tstep ufn t' cs v c c'.
  Proof.
    intros H. unfold tstep. destruct (Z.leb_spec 0 t) as [Ht|Ht], (Z.leb_spec 0 t') as [Ht'|Ht'].
    - rewrite (H (or_introl Ht)). reflexivity.
    - pose proof (H (or_introl Ht)). lia.
    - pose proof (H (or_intror Ht')). lia.
    - reflexivity.
  Qed.

  (* ---- the theorem ----------------------------------------------------------------------------------- *)
  Theorem gen_tree_sem : forall fuel depth ctx prev t,
    gen_tree fuel depth ctx prev = Ok t ->
    (forall rc, In rc ctx -> In rc chains) -> Inv ctx depth prev ->
    forall suffix c c',
      (forall t' rc, tpath ufn t suffix c t' c' -> In rc (t_ended t') -> In rc ctx /\ chain_sem_from ufn depth rc suffix c c') /\
      (forall rc, In rc ctx -> (depth <= length (ch_name rc))%nat -> chain_sem_from ufn depth rc suffix c c' ->
                  exists t', tpath ufn t suffix c t' c' /\ In rc (t_ended t')).
  Proof.
    induction fuel as [|f IH]; intros depth ctx prev t Hgen Hsub HI suffix c c'; [discriminate|].
    cbn [gen_tree] in Hgen.
    destruct (rmap _ (v_moves depth (going_on depth ctx))) as [vs|] eqn:Ev; [|discriminate]. cbn [bind] in Hgen.
    destruct (rmap _ (p_keys (p_moves depth prev (going_on depth ctx)))) as [ps|] eqn:Ep; [|discriminate]. cbn [bind] in Hgen.
    inversion Hgen; subst t. clear Hgen.
    apply rmap_forall2 in Ev, Ep.
    set (ctx1 := going_on depth ctx) in *.
    set (pms := p_moves depth prev ctx1) in *.
    split.
    - (* soundness *)
      intros t' rc Hp Hin.
      inversion Hp as [ | ended vs0 ps0 v rest ? child ? ? Hvf Hrest | ended vs0 ps0 v rest ? tag cs child c1 ? ? Hpin Hstep Hrest ]; subst.
      + cbn [t_ended] in Hin. apply ended_at_in in Hin. destruct Hin as [Hin Hd]. split; [exact Hin|].
        unfold chain_sem_from. rewrite Hd, skipn_all. reflexivity.
      + apply vfind_of in Hvf. destruct (forall2_in_r _ _ _ _ Ev Hvf) as (v' & Hv' & Hf). cbn beta in Hf.
        destruct (gen_tree f (S depth) (v_group depth ctx1 v') prev) as [ch|] eqn:Eg; [|discriminate].
        cbn [bind] in Hf. inversion Hf; subst v' ch. clear Hf.
        assert (Hsub' : forall rc0, In rc0 (v_group depth ctx1 v) -> In rc0 chains).
        { intros rc0 H0. apply v_group_in in H0. destruct H0 as [H0 _]. apply going_on_in in H0. apply Hsub, H0. }
        destruct (IH _ _ _ _ Eg Hsub' (inv_value _ _ _ v HI) rest c c') as [Hs _].
        destruct (Hs t' rc Hrest Hin) as [Hing Hsem].
        apply v_group_in in Hing. destruct Hing as [Hing Hl]. apply going_on_in in Hing. destruct Hing as [Hing _].
        split; [exact Hing|]. unfold chain_sem_from in *. rewrite (lit_at_skipn _ _ _ Hl). cbn [chain_sem].
        split; [reflexivity|]. apply (chain_sem_ext ufn _ _ _ _ (tags_before_S_lit _ _ _ Hl)). exact Hsem.
      + apply pin_of in Hpin. destruct (forall2_in_r _ _ _ _ Ep Hpin) as (key & Hkey & Hf). cbn beta in Hf.
        destruct (p_group pms key) as [|pm0 grest] eqn:Egrp; [discriminate|].
        destruct (gen_tree f (S depth) (map snd (pm0 :: grest)) (fst (fst (fst pm0)) :: prev)) as [ch|] eqn:Eg; [|discriminate].
        cbn [bind] in Hf. inversion Hf; subst tag cs ch. clear Hf.
        assert (Hsub' : forall rc0, In rc0 (map snd (pm0 :: grest)) -> In rc0 chains).
        { intros rc0 H0. apply in_map_iff in H0. destruct H0 as (pm & <- & Hpm). rewrite <- Egrp in Hpm.
          apply p_group_in in Hpm. destruct Hpm as [Hpm _]. apply p_moves_in in Hpm. destruct Hpm as (rc1 & t1 & Hr1 & _ & ->).
          cbn. apply going_on_in in Hr1. apply Hsub, Hr1. }
        pose proof (inv_pattern _ _ _ _ _ _ Hsub HI Egrp) as HI'.
        destruct (IH _ _ _ _ Eg Hsub' HI' rest c1 c') as [Hs _].
        destruct (Hs t' rc Hrest Hin) as [Hing Hsem].
        (* rc is a member of the group *)
        apply in_map_iff in Hing. destruct Hing as (pm & Epm & Hpm). rewrite <- Egrp in Hpm.
        apply p_group_in in Hpm. destruct Hpm as [Hpm Hk]. apply p_moves_in in Hpm.
        destruct Hpm as (rc1 & t1 & Hr1 & Hpa & ->). cbn in Epm, Hk. subst rc1.
        apply going_on_in in Hr1. destruct Hr1 as [Hr1 _].
        (* the first member of the group *)
        assert (Hpm0 : In pm0 (p_group pms key)) by (rewrite Egrp; left; reflexivity).
        apply p_group_in in Hpm0. destruct Hpm0 as [Hpm0 Hk0]. apply p_moves_in in Hpm0.
        destruct Hpm0 as (rc0 & t0 & Hr0 & Hpa0 & ->). cbn in Hk0. apply going_on_in in Hr0. destruct Hr0 as [Hr0 _].
        cbn [fst snd] in *. rewrite pm_tag in *.
        destruct (Hkeys rc rc0 t1 t0 prev (Hsub _ Hr1) (Hsub _ Hr0)) as [Hcs Htag]; [congruence|].
        split; [exact Hr1|]. unfold chain_sem_from in *. rewrite (pat_at_skipn _ _ _ Hpa). cbn [chain_sem].
        exists c1. split.
        * apply pat_at_pos in Hpa. rewrite <- (inv_zmem _ _ _ _ _ HI Hr1 Hpa).
          rewrite <- pm_cons, Hcs. apply (tstep_tag_irrel t1 t0); [exact Htag | exact Hstep].
        * apply pat_at_pos in Hpa. apply (chain_sem_ext ufn _ _ _ _ (tags_before_S_pat _ _ _ Hpa)). exact Hsem.
    - (* completeness *)
      intros rc Hin Hlen Hsem. unfold chain_sem_from in Hsem.
      destruct suffix as [|v rest].
      + destruct (skipn depth (ch_name rc)) as [|k l] eqn:Es.
        * cbn in Hsem. subst c'. exists (PNode (ended_at depth ctx) (vlist_of vs) (plist_of ps)). split; [constructor|].
          cbn [t_ended]. apply ended_at_in. split; [exact Hin|]. apply skipn_nil_length in Es. lia.
        * cbn in Hsem. destruct k; destruct Hsem.
      + destruct (skipn depth (ch_name rc)) as [|k l] eqn:Es; [destruct Hsem|].
        assert (Hlt : (depth < length (ch_name rc))%nat) by (eapply skipn_cons_length; eauto).
        assert (Hin1 : In rc ctx1) by (apply going_on_in; split; [exact Hin | lia]).
        destruct (skipn_cons_nth _ _ _ _ Es) as [Hnth Es'].
        destruct k as [x|t1|r]; cbn [chain_sem] in Hsem; [| |destruct Hsem].
        * destruct Hsem as [-> Hsem].
          assert (Hl : lit_at rc depth = Some x) by (unfold lit_at; rewrite Hnth; reflexivity).
          assert (Hvm : In x (v_moves depth ctx1)) by (apply v_moves_in; eauto).
          destruct (forall2_in_l _ _ _ _ Ev Hvm) as ([x' child] & Hvs & Hf). cbn beta in Hf.
          destruct (gen_tree f (S depth) (v_group depth ctx1 x) prev) as [ch|] eqn:Eg; [|discriminate].
          cbn [bind] in Hf. inversion Hf; subst x' child. clear Hf.
          destruct (vfind_some _ _ _ Hvs) as (child' & Hfind & Hvs').
          destruct (forall2_in_r _ _ _ _ Ev Hvs') as (x'' & _ & Hf'). cbn beta in Hf'.
          destruct (gen_tree f (S depth) (v_group depth ctx1 x'') prev) as [ch'|] eqn:Eg'; [|discriminate].
          cbn [bind] in Hf'. inversion Hf'; subst x'' ch'. clear Hf'. rewrite Eg in Eg'. inversion Eg'; subst child'.
          assert (Hsub' : forall rc0, In rc0 (v_group depth ctx1 x) -> In rc0 chains).
          { intros rc0 H0. apply v_group_in in H0. destruct H0 as [H0 _]. apply going_on_in in H0. apply Hsub, H0. }
          destruct (IH _ _ _ _ Eg Hsub' (inv_value _ _ _ x HI) rest c c') as [_ Hc].
          destruct (Hc rc) as (t' & Htp & Hend).
          { apply v_group_in. auto. } { lia. }
          { unfold chain_sem_from. rewrite Es'. apply (chain_sem_ext ufn _ _ _ _ (tags_before_S_lit _ _ _ Hl)). exact Hsem. }
          exists t'. split; [|exact Hend]. eapply tp_value; eauto.
        * destruct Hsem as (c1 & Hstep & Hsem).
          assert (Hpa : pat_at rc depth = Some t1) by (unfold pat_at; rewrite Hnth; reflexivity).
          assert (Hpp : pat_pos rc depth t1) by (apply pat_at_pos; exact Hpa).
          set (pm := (pattern_movement rc t1 prev, rc)).
          assert (Hpm : In pm pms) by (apply p_moves_in; exists rc, t1; auto).
          assert (Hkey : In (snd (fst pm)) (p_keys pms)) by (apply p_keys_in; eauto).
          destruct (forall2_in_l _ _ _ _ Ep Hkey) as ([[tag cs] child] & Hps & Hf). cbn beta in Hf.
          destruct (p_group pms (snd (fst pm))) as [|pm0 grest] eqn:Egrp.
          { assert (In pm (p_group pms (snd (fst pm)))) by (apply p_group_in; auto). rewrite Egrp in H. destruct H. }
          destruct (gen_tree f (S depth) (map snd (pm0 :: grest)) (fst (fst (fst pm0)) :: prev)) as [ch|] eqn:Eg; [|discriminate].
          cbn [bind] in Hf. inversion Hf; subst tag cs ch. clear Hf.
          assert (Hsub' : forall rc0, In rc0 (map snd (pm0 :: grest)) -> In rc0 chains).
          { intros rc0 H0. apply in_map_iff in H0. destruct H0 as (pm' & <- & Hpm'). rewrite <- Egrp in Hpm'.
            apply p_group_in in Hpm'. destruct Hpm' as [Hpm' _]. apply p_moves_in in Hpm'. destruct Hpm' as (rc1 & t2 & Hr1 & _ & ->).
            cbn. apply going_on_in in Hr1. apply Hsub, Hr1. }
          pose proof (inv_pattern _ _ _ _ _ _ Hsub HI Egrp) as HI'.
          assert (Hpm0 : In pm0 (p_group pms (snd (fst pm)))) by (rewrite Egrp; left; reflexivity).
          apply p_group_in in Hpm0. destruct Hpm0 as [Hpm0 Hk0]. apply p_moves_in in Hpm0.
          destruct Hpm0 as (rc0 & t0 & Hr0 & Hpa0 & Epm0). apply going_on_in in Hr0. destruct Hr0 as [Hr0 _].
          subst pm0. cbn [fst snd] in *. rewrite pm_tag in *. unfold pm in Hk0. cbn [fst snd] in Hk0.
          destruct (Hkeys rc rc0 t1 t0 prev (Hsub _ Hin) (Hsub _ Hr0)) as [Hcs Htag]; [congruence|].
          destruct (IH _ _ _ _ Eg Hsub' HI' rest c1 c') as [_ Hc].
          destruct (Hc rc) as (t' & Htp & Hend).
          { apply in_map_iff. exists pm. split; [reflexivity|]. rewrite <- Egrp. apply p_group_in. auto. }
          { lia. }
          { unfold chain_sem_from. rewrite Es'. apply (chain_sem_ext ufn _ _ _ _ (tags_before_S_pat _ _ _ Hpp)). exact Hsem. }
          exists t'. split; [|exact Hend].
          eapply tp_pattern; [apply pin_of; exact Hps | | exact Htp].
          rewrite <- (inv_zmem _ _ _ _ _ HI Hin Hpp) in Hstep.
          rewrite <- pm_cons, Hcs in Hstep. apply (tstep_tag_irrel t1 t0); [exact Htag | exact Hstep].
  Qed.
End Gen.
