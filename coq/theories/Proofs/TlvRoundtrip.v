(* C08 core: for every well-formed descriptor and legal value, the encoder's output is a sequence of
   well-formed elements and the parser maps it back to the value. *)
From NDN Require Import Base.Prelude Base.Utf8 Model.TlvVar Model.Name Model.Tlv Spec.TlvWf
  Proofs.BytesLemmas Proofs.TlvVarProofs Proofs.NameWire Proofs.TlvSplit Proofs.TlvAssign.
Local Open Scope N_scope.

Arguments N.pow : simpl never.
Arguments N.mul : simpl never.
Arguments N.add : simpl never.
Arguments N.of_nat : simpl never.
Arguments N.to_nat : simpl never.
Arguments N.min : simpl never.

(* ---- monotonicity of the parser in its depth fuel ---------------------------------------------- *)
Definition pv_le (pv pv' : fkind -> elem -> res value) : Prop :=
  forall k e v, pv k e = Ok v -> pv' k e = Ok v.

Lemma assign_mono pv pv' fs ic : pv_le pv pv' ->
  forall els st pos acc r, assign_with pv fs ic st pos els acc = Ok r -> assign_with pv' fs ic st pos els acc = Ok r.
Proof.
  intros Hle. induction els as [|e els IH]; intros st pos acc r H; [exact H|].
  cbn [assign_with] in *. destruct st as [|i key vt vk].
  - destruct (find_from fs 0 pos (e_type e)) as [[i k]|].
    + destruct k;
        try (destruct (pv _ e) as [x|] eqn:E; [|discriminate]; rewrite (Hle _ _ _ E); cbn [bind] in *; apply IH; exact H).
    + destruct (N.odd (e_type e) && negb ic); [exact H|apply IH; exact H].
  - destruct (e_type e =? vt).
    + destruct (pv vk e) as [x|] eqn:E; [|discriminate]. rewrite (Hle _ _ _ E). cbn [bind] in *. apply IH. exact H.
    + destruct (N.odd (e_type e) && negb ic); [exact H|apply IH; exact H].
Qed.

Lemma parse_val_model d fs ic e :
  parse_val (S d) (KModel fs ic) e =
  do els <- split_wire (e_payload e) ;;
  do vs <- assign_with (parse_val d) fs ic PNormal 0 els (blank fs) ;; Ok (VModel vs).
Proof. reflexivity. Qed.

Lemma parse_val_mono d : pv_le (parse_val d) (parse_val (S d)).
Proof.
  induction d as [|d IH]; intros k e v H; [discriminate|].
  destruct k; try exact H.
  (* KModel *)
  rewrite parse_val_model in H |- *.
  destruct (split_wire (e_payload e)) as [els|]; [|discriminate]. cbn [bind] in *.
  destruct (assign_with (parse_val d) fs ignore_critical PNormal 0 els (blank fs)) as [vs|] eqn:E; [|discriminate].
  rewrite (assign_mono _ _ _ _ IH _ _ _ _ _ E). exact H.
Qed.

(* ---- Name payloads ------------------------------------------------------------------------------ *)
Definition wf_comp64 (c : bytes) : Prop := exists t v, c = comp_enc t v /\ t < two64 /\ N.of_nat (length v) < two64.

Lemma name_components_concat n : forall fuel,
  Forall wf_comp64 n -> (length n < fuel)%nat -> name_components fuel (concat n) = Ok n.
Proof.
  induction n as [|c n IH]; intros fuel H Hf.
  - destruct fuel; reflexivity.
  - inversion H as [|? ? Hc Hn]; subst. destruct Hc as (t & v & -> & Ht & Hv).
    destruct fuel as [|fuel]; [cbn in Hf; lia|].
    cbn [concat]. pose proof (comp_enc_pos t v) as Hpos.
    cbn [name_components].
    destruct (comp_enc t v ++ concat n) as [|b0 w0] eqn:Ew.
    { exfalso. apply (f_equal (@length N)) in Ew. rewrite app_length in Ew. cbn in Ew. lia. }
    rewrite <- Ew. clear Ew b0 w0.
    assert (Hw : comp_enc t v ++ concat n = tl_enc t ++ tl_enc (N.of_nat (length v)) ++ v ++ concat n)
      by (unfold comp_enc; rewrite <- !app_assoc; reflexivity).
    rewrite Hw. rewrite tl_dec_enc by exact Ht. cbn [bind snd fst].
    rewrite skipn_app_exact' by (symmetry; apply tl_enc_length).
    rewrite tl_dec_enc by exact Hv. cbn [bind snd fst].
    rewrite <- Hw.
    set (clen := (tl_size t + tl_size (N.of_nat (length v)) + length v)%nat).
    assert (Hclen : length (comp_enc t v) = clen) by apply comp_enc_length.
    replace (N.of_nat (tl_size t + tl_size (N.of_nat (length v))) + N.of_nat (length v)) with (N.of_nat clen)
      by (unfold clen; lia).
    replace (N.of_nat (length (comp_enc t v ++ concat n)) <? N.of_nat clen) with false
      by (rewrite app_length, Hclen; lia).
    rewrite Nat2N.id.
    rewrite firstn_app_exact', skipn_app_exact' by (symmetry; exact Hclen).
    rewrite IH; [reflexivity|exact Hn|cbn in Hf; lia].
Qed.

Lemma concat_length_ge n : Forall wf_comp64 n -> (length n <= length (concat n))%nat.
Proof.
  induction 1 as [|c n Hc Hn IH]; [cbn; lia|]. cbn [concat length]. rewrite app_length.
  destruct Hc as (t & v & -> & _). pose proof (comp_enc_pos t v). lia.
Qed.

(* ---- small facts ---------------------------------------------------------------------------------- *)
Lemma fixed_width_cases fx n w : fixed_width fx n = Ok w -> (w = 1 \/ w = 2 \/ w = 4 \/ w = 8)%nat.
Proof.
  unfold fixed_width. destruct fx as [f|].
  - destruct f as [|p]; [discriminate|].
    repeat (destruct p as [p|p|]; try discriminate); intros H; inversion H; auto.
  - intros H; inversion H. apply nni_width_cases.
Qed.

Lemma tl_enc_small v : v <= 252 -> tl_enc v = [v].
Proof. intros H. unfold tl_enc. replace (v <=? 252) with true by lia. reflexivity. Qed.

Lemma tl_enc_r_ok t : t < two64 -> tl_enc_r t = Ok (tl_enc t).
Proof. intros H. unfold tl_enc_r. replace (t <? two64) with true by lia. reflexivity. Qed.

Lemma good_el_ok pv t k v els : good pv t k v els -> Forall el_ok els.
Proof.
  intros H. destruct H as [k|k v e _ _ (_ & Hok & _)|ek l els _ HF|kk vt vk l prs _ _ HF].
  - constructor.
  - constructor; [exact Hok|constructor].
  - induction HF as [|x e l els (_ & Hok & _) _ IH]; constructor; assumption.
  - induction HF as [|kv pr l prs ((_ & Hok1 & _) & (_ & Hok2 & _)) _ IH]; cbn [flat_map app]; [constructor|].
    constructor; [exact Hok1|]. constructor; [exact Hok2|exact IH].
Qed.

Lemma items_el_ok pv items : Forall (item_good pv) items -> Forall el_ok (concat (map it_els items)).
Proof.
  induction 1 as [|i items Hi _ IH]; [constructor|]. cbn [map concat]. apply Forall_app. split; [|exact IH].
  eapply good_el_ok. exact Hi.
Qed.

Lemma good_mono pv pv' t k v els : pv_le pv pv' -> good pv t k v els -> good pv' t k v els.
Proof.
  intros Hle H. destruct H as [k|k v e Hs Hv (H1 & H2 & H3)|ek l els Hne HF|kk vt vk l prs Hne Hnk HF].
  - constructor.
  - apply good_single; try assumption. split; [exact H1|split; [exact H2|apply Hle; exact H3]].
  - apply good_rep; [exact Hne|]. clear Hne. induction HF as [|x e l els (H1 & H2 & H3) _ IH]; constructor.
    + split; [exact H1|split; [exact H2|apply Hle; exact H3]].
    + exact IH.
  - apply good_map; [exact Hne|exact Hnk|].
    clear Hne Hnk. induction HF as [|kv pr l prs ((A1 & A2 & A3) & (B1 & B2 & B3)) _ IH]; constructor.
    + split; (split; [assumption|split; [assumption|apply Hle; assumption]]).
    + exact IH.
Qed.
