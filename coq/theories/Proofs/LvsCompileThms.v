(* End to end, from the numbered rule chains of a schema to the answers of Checker.match / Checker.check
   on the model [compile] produces. *)
From NDN Require Import Base.Prelude Base.Text Model.TlvVar Model.Name Model.LvsAst Model.LvsChecker Model.LvsCompiler
  Spec.LvsSem Spec.LvsTree Proofs.LvsMachine Proofs.LvsTreePaths Proofs.LvsCheckerThms Proofs.LvsSanity
  Proofs.LvsFlatten Proofs.LvsGenTree Proofs.LvsCompileTree.
Local Open Scope N_scope.

Lemma compile_unfold S chains st m :
  chains_of S = Ok (chains, st) -> compile S = Ok m ->
  exists t0, gen_tree (Datatypes.S (max_chain_len chains)) 0 chains [] = Ok t0 /\
    model_of st (fst (flatten t0 None O (N.of_nat (length (ns_named st)))))
             (rids_of (fst (flatten t0 None O (N.of_nat (length (ns_named st)))))) 0 = Ok m.
Proof.
  intros Hc H. unfold compile in H. rewrite Hc in H. cbn [bind] in H.
  destruct (gen_tree _ 0 chains []) as [t0|] eqn:Eg; [|discriminate]. cbn [bind] in H. exists t0. auto.
Qed.

Section EndToEnd.
  Variable ufn : ident -> option (bytes -> list (option bytes) -> res bool).
  Variable S : lvsfile.
  Variable chains : list chain.
  Variable st : numst.
  Variable m : lvsmodel.
  Let npc := N.of_nat (length (ns_named st)).
  Hypothesis Hchains : chains_of S = Ok (chains, st).
  Hypothesis Hcompile : compile S = Ok m.
  Hypothesis Hok : chains_ok npc chains.

  Theorem compile_sane : sane m.
  Proof.
    destruct (compile_unfold _ _ _ _ Hchains Hcompile) as (t0 & Ht & Hm).
    exact (compiled_sane ufn chains st m t0 Hok Ht Hm).
  Qed.

  Definition not_pseudo (r : ident) : Prop := forall n, r <> pseudo_rule n.

  (* Checker.match reports rule r with context c' iff one of r's chains is satisfied by the name with c' *)
  Theorem match_chains fuel name nm l r :
    strip_digest name = Ok nm -> (match_cost m nm <= fuel)%nat -> lvs_match ufn m fuel name = Ok l ->
    not_pseudo r ->
    forall c', (exists rs, In (rs, context_to_name m c') l /\ In r rs /\
                           exists n, tree_match ufn m nm [] n c' /\ node_rule_names m n = Ok rs) <->
               (exists rc, In rc chains /\ ch_id rc = r /\ chain_sem_from ufn 0 rc nm [] c').
  Proof.
    intros Hs Hf Hl Hnp c'.
    destruct (compile_unfold _ _ _ _ Hchains Hcompile) as (t0 & Ht & Hm).
    pose proof (compiled_match_chains ufn chains st m t0 Hok Ht Hm nm [] c' r) as Hcm.
    assert (Hc0 : ctx_named npc []) by (intros t _; reflexivity). specialize (Hcm Hc0).
    pose proof (lvs_match_spec ufn m compile_sane fuel name nm l Hs Hf Hl) as Hspec.
    split.
    - intros (rs & Hin & Hr & n & Htm & Hrn). apply Hcm. unfold node_rule_names in Hrn.
      destruct (get_node m n) as [nd|] eqn:Eg; [|discriminate]. exists n, nd. split; [exact Htm|]. split; [exact Eg|].
      destruct (n_rule nd) as [|x xs] eqn:En; inversion Hrn; subst rs; [|exact Hr].
      destruct Hr as [E|[]]. exfalso. apply (Hnp n). symmetry. exact E.
    - intros Hex. apply Hcm in Hex. destruct Hex as (n & nd & Htm & Hg & Hr).
      exists (n_rule nd). assert (Hrn : node_rule_names m n = Ok (n_rule nd)).
      { unfold node_rule_names. rewrite Hg. destruct (n_rule nd); [destruct Hr | reflexivity]. }
      split; [|split; [exact Hr | exists n; auto]].
      apply Hspec. exists n, c'. auto.
  Qed.

  (* Checker.check answers yes iff some chain is satisfied by the packet name and a chain of one of its
     signer rules by the key name, starting from the packet's bindings *)
  Theorem check_chains fuel pkt key p k b :
    strip_digest pkt = Ok p -> strip_digest key = Ok k ->
    (Nat.max (match_cost m p) (match_cost m k) <= fuel)%nat ->
    lvs_check ufn m fuel pkt key = Ok b ->
    (b = true <-> exists rc rk cx cx', In rc chains /\ chain_sem_from ufn 0 rc p [] cx /\ In rk chains /\
                                       In (ch_id rk) (ch_sign rc) /\ chain_sem_from ufn 0 rk k cx cx').
  Proof.
    intros Hp Hk Hf Hc.
    destruct (compile_unfold _ _ _ _ Hchains Hcompile) as (t0 & Ht & Hm).
    rewrite (lvs_check_spec ufn m compile_sane fuel pkt key p k b Hp Hk Hf Hc).
    split.
    - intros (pn & cx & pnode & kn & cx' & H1 & H2 & H3 & H4).
      assert (Hex : exists pn pnode kn, tree_match ufn m p [] pn cx /\ get_node m pn = Some pnode /\
                                        tree_match ufn m k cx kn cx' /\ In kn (n_sign pnode)) by eauto 8.
      apply (compiled_check_chains ufn chains st m t0 Hok Ht Hm) in Hex.
      destruct Hex as (rc & rk & Ha & Hb & Hc' & Hd & He). exists rc, rk, cx, cx'. auto.
    - intros (rc & rk & cx & cx' & Ha & Hb & Hc' & Hd & He).
      assert (Hex : exists rc rk, In rc chains /\ chain_sem_from ufn 0 rc p [] cx /\ In rk chains /\ In (ch_id rk) (ch_sign rc) /\
                                  chain_sem_from ufn 0 rk k cx cx') by eauto 8.
      apply (compiled_check_chains ufn chains st m t0 Hok Ht Hm) in Hex.
      destruct Hex as (pn & pnode & kn & H1 & H2 & H3 & H4). exists pn, cx, pnode, kn, cx'. auto.
  Qed.
End EndToEnd.
