(* Name wire codec: decode (encode n) = n for every list of well-formed components; prefix test. *)
From NDN Require Import Base.Prelude Base.Text Model.TlvVar Model.Name Proofs.BytesLemmas Proofs.TlvVarProofs.
Local Open Scope N_scope.

Arguments N.pow : simpl never.
Arguments N.mul : simpl never.
Arguments N.add : simpl never.
Arguments N.min : simpl never.
Arguments N.of_nat : simpl never.
Arguments N.to_nat : simpl never.

(* a well-formed component: TLV of some (type, value) with in-range type and length *)
Definition wf_comp (c : bytes) : Prop :=
  exists t v, c = comp_enc t v /\ t < two64 /\ N.of_nat (length v) < two64.

Lemma comp_enc_length t v :
  length (comp_enc t v) = (tl_size t + tl_size (N.of_nat (length v)) + length v)%nat.
Proof. unfold comp_enc. rewrite !app_length, !tl_enc_length. lia. Qed.

Lemma comp_enc_pos t v : (0 < length (comp_enc t v))%nat.
Proof. rewrite comp_enc_length. unfold tl_size. destruct (t <=? 252); destruct (t <=? 65535); destruct (t <=? 4294967295); lia. Qed.

Lemma name_value_length_acc (n : name) a : fold_left (fun a c => (a + length c)%nat) n a = (a + length (concat n))%nat.
Proof.
  revert a; induction n as [|c n IH]; intros a; cbn [fold_left concat]; [cbn; lia|].
  rewrite IH, app_length. lia.
Qed.

Lemma name_value_length_concat (n : name) : name_value_length n = length (concat n).
Proof. unfold name_value_length. rewrite name_value_length_acc. lia. Qed.

Lemma decode_loop_ok n : forall fuel rest acc used,
  Forall wf_comp n -> (length n < fuel)%nat ->
  name_decode_loop fuel (concat n ++ rest) (Z.of_nat (length (concat n))) acc used
  = Ok (rev acc ++ n, used + N.of_nat (length (concat n))).
Proof.
  induction n as [|c n IH]; intros fuel rest acc used Hwf Hfuel.
  - cbn [concat length app].
    assert (E : (Z.of_nat 0 <=? 0)%Z = true) by reflexivity.
    destruct fuel; cbn [name_decode_loop]; rewrite E, app_nil_r; f_equal; f_equal; lia.
  - inversion Hwf as [|? ? Hc Hn]; subst. destruct Hc as (t & v & -> & Ht & Hv).
    destruct fuel as [|fuel]; [cbn in Hfuel; lia|].
    cbn [concat]. cbn [name_decode_loop].
    assert (Hpos := comp_enc_pos t v).
    replace ((Z.of_nat (length (comp_enc t v ++ concat n)) <=? 0)%Z) with false
      by (rewrite app_length; lia).
    set (tail := concat n ++ rest).
    assert (Hw1 : (comp_enc t v ++ concat n) ++ rest
                  = tl_enc t ++ tl_enc (N.of_nat (length v)) ++ v ++ tail)
      by (unfold comp_enc, tail; rewrite <- !app_assoc; reflexivity).
    rewrite Hw1.
    rewrite tl_dec_enc by exact Ht. cbn [bind snd].
    rewrite skipn_app_exact' by (symmetry; apply tl_enc_length).
    rewrite tl_dec_enc by exact Hv. cbn [bind].
    assert (Hw : tl_enc t ++ tl_enc (N.of_nat (length v)) ++ v ++ tail = comp_enc t v ++ tail)
      by (unfold comp_enc; rewrite <- !app_assoc; reflexivity).
    set (w := tl_enc t ++ tl_enc (N.of_nat (length v)) ++ v ++ tail) in *.
    set (clen := (tl_size t + tl_size (N.of_nat (length v)) + length v)%nat).
    assert (Hclen : length (comp_enc t v) = clen) by apply comp_enc_length.
    replace (N.of_nat (tl_size t + tl_size (N.of_nat (length v))) + N.of_nat (length v)) with (N.of_nat clen)
      by (unfold clen; lia).
    replace (Z.of_nat (length (comp_enc t v ++ concat n)) <? Z.of_N (N.of_nat clen))%Z with false
      by (rewrite app_length, Hclen; lia).
    replace (N.to_nat (N.min (N.of_nat clen) (N.of_nat (length w)))) with clen
      by (rewrite Hw, app_length, Hclen; lia).
    rewrite Hw. rewrite firstn_app_exact', skipn_app_exact' by (symmetry; exact Hclen).
    replace (Z.of_nat (length (comp_enc t v ++ concat n)) - Z.of_N (N.of_nat clen))%Z
      with (Z.of_nat (length (concat n))) by (rewrite app_length, Hclen; lia).
    unfold tail. rewrite IH; [|exact Hn|cbn in Hfuel; lia].
    cbn [rev]. rewrite <- app_assoc. cbn [app]. f_equal. f_equal.
    rewrite app_length, Hclen. lia.
Qed.

Lemma length_concat_ge n : Forall wf_comp n -> (length n <= length (concat n))%nat.
Proof.
  induction 1 as [|c n Hc Hn IH]; [cbn; lia|]. cbn [concat length]. rewrite app_length.
  destruct Hc as (t & v & -> & _). pose proof (comp_enc_pos t v). lia.
Qed.

(* C09: decoding the encoding of a name returns the same components and consumes exactly it *)
Theorem name_decode_encode (n : name) (rest : bytes) :
  Forall wf_comp n -> N.of_nat (name_value_length n) < two64 ->
  name_decode (name_encode n ++ rest) = Ok (n, N.of_nat (length (name_encode n))).
Proof.
  intros Hwf Hlen. unfold name_decode, name_encode. rewrite name_value_length_concat in *.
  rewrite <- !app_assoc.
  rewrite tl_dec_enc by (unfold TYPE_NAME, two64; lia). cbn [bind].
  change (TYPE_NAME =? TYPE_NAME) with true. cbn [negb].
  rewrite skipn_app_exact' by (symmetry; apply tl_enc_length).
  rewrite tl_dec_enc by exact Hlen. cbn [bind].
  set (L := N.of_nat (length (concat n))).
  set (hdr := (tl_size TYPE_NAME + tl_size L)%nat).
  assert (Hh : length (tl_enc TYPE_NAME ++ tl_enc L) = hdr) by (rewrite app_length, !tl_enc_length; reflexivity).
  rewrite (app_assoc (tl_enc TYPE_NAME) (tl_enc L) (concat n ++ rest)).
  replace (N.of_nat (length ((tl_enc TYPE_NAME ++ tl_enc L) ++ concat n ++ rest) - hdr) <? L) with false
    by (rewrite (app_length (tl_enc TYPE_NAME ++ tl_enc L)), Hh, app_length; unfold L; lia).
  rewrite skipn_app_exact' by (symmetry; exact Hh).
  unfold L at 2. rewrite nat_N_Z. rewrite decode_loop_ok.
  - cbn [rev app]. f_equal. f_equal. rewrite (app_assoc (tl_enc TYPE_NAME) (tl_enc L) (concat n)).
    rewrite (app_length (tl_enc TYPE_NAME ++ tl_enc L)), Hh. unfold L. lia.
  - exact Hwf.
  - pose proof (length_concat_ge n Hwf). rewrite !app_length. lia.
Qed.

(* prefix test = component-wise equality with the first |a| components *)
Lemma name_eqb_spec a b : name_eqb a b = true <-> a = b.
Proof. apply list_eqb_spec. apply bytes_eqb_spec. Qed.

Theorem name_is_prefix_spec (a b : name) :
  name_is_prefix a b = true <-> exists r, b = a ++ r.
Proof.
  unfold name_is_prefix. rewrite andb_true_iff, Nat.leb_le, name_eqb_spec. split.
  - intros [Hl He]. exists (skipn (length a) b). rewrite He at 1. symmetry. apply firstn_skipn.
  - intros [r ->]. rewrite app_length, firstn_app_exact. split; [lia|reflexivity].
Qed.
