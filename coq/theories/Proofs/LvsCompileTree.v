(* From numbered rule chains to the answers of the compiled model:
   gen_tree + flatten + _fix_signing_references produce a model that passes the loader ([sane]) and
   on which tree matching (Spec/LvsTree.v) is chain matching (Proofs/LvsGenTree.chain_sem), both for
   rule names and for signer lists. *)
From NDN Require Import Base.Prelude Base.Text Model.TlvVar Model.Name Model.LvsAst Model.LvsChecker Model.LvsCompiler
  Spec.LvsSem Spec.LvsTree Proofs.LvsMachine Proofs.LvsSanity Proofs.LvsFlatten Proofs.LvsGenTree.
Local Open Scope N_scope.

(* ---- _fix_signing_references --------------------------------------------------------------------- *)
Definition sign_lookup (rids : list (ident * list N)) (names : list ident) : res (list N) :=
  rfold (fun acc rid => match al_get ident_eqb rids rid with
                        | Some l => Ok (acc ++ l)
                        | None => Err ESemantic
                        end) names [].

Lemma fix_all_spec rids : forall pool i nodes,
  fix_all rids i pool = Ok nodes ->
  length nodes = length pool /\
  forall k g, nth_error pool k = Some g ->
    exists nd sc, nth_error nodes k = Some nd /\ sign_lookup rids (g_sign g) = Ok sc /\
      n_id nd = Some (N.of_nat (i + k)) /\ n_parent nd = g_parent g /\ n_rule nd = g_rule g /\
      n_vedges nd = g_vedges g /\ n_pedges nd = g_pedges g /\ n_sign nd = isort N.leb sc.
Proof.
  induction pool as [|g pool IH]; intros i nodes H; cbn [fix_all] in H.
  - inversion H. split; [reflexivity|]. intros k g Hk. destruct k; discriminate.
  - unfold fix_signing in H. fold (sign_lookup rids (g_sign g)) in H.
    destruct (sign_lookup rids (g_sign g)) as [sc|] eqn:Es; [|discriminate]. cbn [bind] in H.
    destruct (fix_all rids (S i) pool) as [ns|] eqn:Ef; [|discriminate]. cbn [bind] in H.
    inversion H; subst nodes. clear H. destruct (IH _ _ Ef) as [Hl Hall].
    split; [cbn; lia|]. intros k g0 Hk. destruct k as [|k].
    + cbn in Hk. inversion Hk; subst g0. eexists _, sc. split; [reflexivity|]. split; [exact Es|].
      cbn. rewrite Nat.add_0_r. repeat split; reflexivity.
    + cbn in Hk. destruct (Hall k g0 Hk) as (nd & sc0 & Hn & Hs & Hid & Hrest).
      exists nd, sc0. split; [exact Hn|]. split; [exact Hs|]. split; [|exact Hrest].
      rewrite Hid. f_equal. lia.
Qed.

Lemma sign_lookup_in rids names sc : sign_lookup rids names = Ok sc ->
  forall k, In k sc <-> exists rid l, In rid names /\ al_get ident_eqb rids rid = Some l /\ In k l.
Proof.
  unfold sign_lookup.
  assert (G : forall names acc sc, rfold (fun acc rid => match al_get ident_eqb rids rid with
                        | Some l => Ok (acc ++ l) | None => Err ESemantic end) names acc = Ok sc ->
              forall k, In k sc <-> In k acc \/ exists rid l, In rid names /\ al_get ident_eqb rids rid = Some l /\ In k l).
  { induction names0 as [|rid names0 IH]; intros acc sc0 H k; cbn in H.
    - inversion H; subst. split; [auto|]. intros [H0|(r & l & [] & _)]. exact H0.
    - destruct (al_get ident_eqb rids rid) as [l|] eqn:E; [|discriminate]. cbn in H.
      rewrite (IH _ _ H k). rewrite in_app_iff. split.
      + intros [[H0|H0]|(r & l' & Hr & Hl & Hk)]; [auto | right; exists rid, l; cbn; auto | right; exists r, l'; cbn; auto].
      + intros [H0|(r & l' & [<-|Hr] & Hl & Hk)]; [auto | left; right; congruence | right; exists r, l'; auto]. }
  intros H k. rewrite (G _ _ _ H k). split; [intros [[]|H0]; exact H0 | auto].
Qed.

(* ---- rule_node_ids ------------------------------------------------------------------------------------- *)
Lemma ident_eqb_eq a b : ident_eqb a b = true <-> a = b.
Proof. apply list_eqb_spec. intros; apply N.eqb_eq. Qed.

Lemma al_get_set_same {V} (l : list (ident * V)) k v : al_mem ident_eqb l k = true -> al_get ident_eqb (al_set ident_eqb l k v) k = Some v.
Proof.
  unfold al_mem. induction l as [|[k' v'] l IH]; cbn; [discriminate|].
  destruct (ident_eqb k k') eqn:E; cbn; rewrite E; [reflexivity|]. exact IH.
Qed.
Lemma al_get_set_other {V} (l : list (ident * V)) k k' v : k <> k' -> al_get ident_eqb (al_set ident_eqb l k v) k' = al_get ident_eqb l k'.
Proof.
  intros Hne. induction l as [|[k0 v0] l IH]; cbn.
  - destruct (ident_eqb k' k) eqn:E; [apply ident_eqb_eq in E; congruence | reflexivity].
  - destruct (ident_eqb k k0) eqn:E; cbn.
    + apply ident_eqb_eq in E. subst k0. destruct (ident_eqb k' k) eqn:E2; [apply ident_eqb_eq in E2; congruence | reflexivity].
    + destruct (ident_eqb k' k0); [reflexivity | exact IH].
Qed.
Lemma al_get_app_none {V} (l : list (ident * V)) k v k' : al_get ident_eqb l k = None ->
  al_get ident_eqb (l ++ [(k, v)]) k' = if ident_eqb k' k then match al_get ident_eqb l k' with Some x => Some x | None => Some v end else al_get ident_eqb l k'.
Proof.
  intros Hn. induction l as [|[k0 v0] l IH]; cbn.
  - destruct (ident_eqb k' k); reflexivity.
  - cbn in Hn. destruct (ident_eqb k k0) eqn:E0; [discriminate|]. specialize (IH Hn).
    destruct (ident_eqb k' k0) eqn:E1; [destruct (ident_eqb k' k); reflexivity | exact IH].
Qed.

(* entries of rids_add: membership *)
Lemma rids_add_in r rid v rid' k :
  (exists l, al_get ident_eqb (rids_add r rid v) rid' = Some l /\ In k l) <->
  (exists l, al_get ident_eqb r rid' = Some l /\ In k l) \/ (rid' = rid /\ k = v).
Proof.
  unfold rids_add. destruct (al_get ident_eqb r rid) as [l0|] eqn:E0.
  - destruct (list_eq_dec (N.eq_dec) rid' rid) as [->|Hne].
    + rewrite al_get_set_same by (unfold al_mem; rewrite E0; reflexivity). rewrite E0. split.
      * intros (l & Hl & Hk). inversion Hl; subst l. apply in_app_or in Hk. destruct Hk as [Hk|[<-|[]]]; [left; eauto | right; auto].
      * intros [(l & Hl & Hk)|[_ ->]]; [inversion Hl; subst; exists (l ++ [v]); split; [reflexivity | apply in_or_app; auto] |
                                         exists (l0 ++ [v]); split; [reflexivity | apply in_or_app; right; left; reflexivity]].
    + rewrite al_get_set_other by congruence. split; [auto|]. intros [H|[H _]]; [exact H | congruence].
  - rewrite (al_get_app_none _ _ _ _ E0). destruct (ident_eqb rid' rid) eqn:E.
    + apply ident_eqb_eq in E. subst rid'. rewrite E0. split.
      * intros (l & Hl & Hk). inversion Hl; subst l. destruct Hk as [<-|[]]. right; auto.
      * intros [(l & Hl & _)|[_ ->]]; [discriminate | exists [v]; split; [reflexivity | left; reflexivity]].
    + split; [auto|]. intros [H|[H _]]; [exact H | subst; rewrite (proj2 (ident_eqb_eq rid rid) eq_refl) in E; discriminate].
Qed.

Lemma rids_of_in pool rid k :
  (exists l, al_get ident_eqb (rids_of pool) rid = Some l /\ In k l) <->
  exists i g, k = N.of_nat i /\ nth_error pool i = Some g /\ In rid (g_rule g).
Proof.
  unfold rids_of.
  assert (G : forall pool n0 r0,
            let s := fold_left (fun (s : N * list (ident * list N)) g =>
                                  (fst s + 1, fold_left (fun r rid => rids_add r rid (fst s)) (g_rule g) (snd s))) pool (n0, r0) in
            ((exists l, al_get ident_eqb (snd s) rid = Some l /\ In k l) <->
             (exists l, al_get ident_eqb r0 rid = Some l /\ In k l) \/
             exists i g, k = n0 + N.of_nat i /\ nth_error pool i = Some g /\ In rid (g_rule g))).
  { induction pool0 as [|g pool0 IH]; intros n0 r0; cbn.
    - split; [auto|]. intros [H|(i & g & _ & Hn & _)]; [exact H | destruct i; discriminate].
    - rewrite IH. clear IH.
      assert (Hinner : forall rules r1, (exists l, al_get ident_eqb (fold_left (fun r rid0 => rids_add r rid0 n0) rules r1) rid = Some l /\ In k l) <->
                         (exists l, al_get ident_eqb r1 rid = Some l /\ In k l) \/ (In rid rules /\ k = n0)).
      { induction rules as [|x rules IHr]; intros r1; cbn.
        - split; [auto|]. intros [H|[[] _]]; exact H.
        - rewrite IHr, rids_add_in. split.
          + intros [[H|[-> ->]]|[H ->]]; [auto | right; auto | right; auto].
          + intros [H|[[<-|H] ->]]; [auto | left; right; auto | right; auto]. }
      rewrite Hinner. split.
      + intros [[H|[H ->]]|(i & g0 & -> & Hn & Hr)]; [auto | right; exists O, g; cbn; repeat split; [lia | auto] |
                                                          right; exists (S i), g0; cbn; repeat split; [lia | auto | auto]].
      + intros [H|(i & g0 & -> & Hn & Hr)]; [auto|]. destruct i as [|i]; cbn in Hn.
        * inversion Hn; subst g0. left. right. split; [exact Hr | lia].
        * right. exists i, g0. repeat split; [lia | auto | auto]. }
  specialize (G pool 0 []). cbn zeta in G. rewrite G. split.
  - intros [(l & Hl & _)|(i & g & -> & Hn & Hr)]; [discriminate | exists i, g; repeat split; auto].
  - intros (i & g & -> & Hn & Hr). right. exists i, g. repeat split; auto.
Qed.

(* ---- well-formed trees: what the loader insists on ------------------------------------------------------- *)
Fixpoint twf (t : ptree) : Prop :=
  match t with PNode _ vs ps => vwf vs /\ pwf ps end
with vwf (l : vlist) : Prop :=
  match l with VNil => True | VCons v t r => v <> [] /\ twf t /\ vwf r end
with pwf (l : plist) : Prop :=
  match l with PNil => True | PCons _ cs t r => forallb (forallb option_ok) cs = true /\ twf t /\ pwf r end.

Lemma vfind_wf v vs child : vwf vs -> vfind v vs = Some child -> twf child.
Proof.
  induction vs as [|x t r IH]; cbn; [discriminate|]. intros (_ & Ht & Hr). destruct (bytes_eqb v x).
  - intros E; inversion E; subst; exact Ht.
  - apply IH, Hr.
Qed.
Lemma pin_wf tag cs child ps : pwf ps -> pin tag cs child ps -> forallb (forallb option_ok) cs = true /\ twf child.
Proof. intros H Hp. induction Hp; cbn in H; destruct H as (H1 & H2 & H3); auto. Qed.

(* ---- the flattened model passes the loader ---------------------------------------------------------------- *)
Section Sane.
  Variable m : lvsmodel.
  Variable pool : list gnode.
  Variable npc : N.
  Variable t0 : ptree.
  Hypothesis Hmir : mirrors m pool.
  Hypothesis Hroot : realizes npc pool t0 O None.
  Hypothesis Hwf : twf t0.
  Hypothesis Hstart : m_start m = Some 0.
  Hypothesis Hver : m_version m = Some LVS_VERSION.
  Hypothesis Hsign : forall i nd, nth_error (m_nodes m) i = Some nd -> forall k, In k (n_sign nd) -> k < N.of_nat (length pool).

  (* every subtree that is realised and well-formed gives a node that satisfies the rules *)
  Lemma realized_node_ok t k p : realizes npc pool t k p -> twf t -> node_ok m (N.of_nat k) = true.
  Proof.
    intros Hrz Ht. destruct Hrz as [ended vs ps id parent g Hn Hpar Hru Hsi Hvs Hps].
    destruct (mirrors_get _ _ _ _ Hmir Hn) as (nd & Hg & Hid & Hp & Hr & Ev & Ep).
    destruct Ht as [Hvw Hpw].
    unfold node_ok. rewrite Hg, Hid, N.eqb_refl. cbn [andb].
    apply andb_true_iff; split; [apply andb_true_iff; split|].
    - rewrite Ev. clear - Hvs Hvw Hmir. induction Hvs as [|v t r src cid es Ht Hr IH]; [reflexivity|].
      destruct Hvw as (Hv & Htw & Hrw). cbn [forallb ve_dest ve_value]. rewrite (IH Hrw), andb_true_r.
      apply andb_true_iff; split; [|destruct v; [contradiction | reflexivity]].
      inversion Ht as [ended' vs' ps' id' parent' g' Hn' Hpar' _ _ _ _]; subst.
      destruct (mirrors_get _ _ _ _ Hmir Hn') as (nd' & Hg' & _ & Hp' & _). unfold child_ok. rewrite Hg', Hp', Hpar'. apply N.eqb_refl.
    - rewrite Ep. clear - Hps Hpw Hmir. induction Hps as [|tag cs t r src cid etag es Ht Hok Hr IH]; [reflexivity|].
      destruct Hpw as (Hcs & Htw & Hrw). cbn [forallb pe_dest pe_tag pe_cons]. rewrite (IH Hrw), andb_true_r, Hcs, andb_true_r, andb_true_r.
      inversion Ht as [ended' vs' ps' id' parent' g' Hn' Hpar' _ _ _ _]; subst.
      destruct (mirrors_get _ _ _ _ Hmir Hn') as (nd' & Hg' & _ & Hp' & _). unfold child_ok. rewrite Hg', Hp', Hpar'. apply N.eqb_refl.
    - apply forallb_forall. intros k0 Hk. apply N.ltb_lt. destruct Hmir as [Hl _]. rewrite Hl.
      assert (Hnth : nth_error (m_nodes m) id = Some nd).
      { rewrite <- get_node_nat; [exact Hg|]. rewrite Hl. apply nth_error_Some. congruence. }
      eapply Hsign; eauto.
  Qed.

  Lemma reach_realized i : reach m i -> exists t k p, i = N.of_nat k /\ realizes npc pool t k p /\ twf t.
  Proof.
    induction 1 as [s Hs|a nd d Hr IH Hn Hd].
    - rewrite Hstart in Hs. inversion Hs; subst s. exists t0, O, None. auto.
    - destruct IH as (t & k & p & -> & Hrz & Ht).
      destruct Hrz as [ended vs ps id parent g Hg Hpar Hru Hsi Hvs Hps].
      destruct (mirrors_get _ _ _ _ Hmir Hg) as (nd' & Hg' & _ & _ & _ & Ev & Ep).
      rewrite Hg' in Hn. inversion Hn; subst nd'. destruct Ht as [Hvw Hpw].
      unfold dests in Hd. rewrite Ev, Ep in Hd. apply in_app_or in Hd. destruct Hd as [Hd|Hd].
      + clear - Hvs Hvw Hd. induction Hvs as [|v t r src cid es Ht Hr IH]; [destruct Hd|].
        destruct Hvw as (_ & Htw & Hrw). destruct Hd as [Hd|Hd]; [|apply IH; auto].
        cbn in Hd. inversion Hd; subst d. exists t, cid, (Some (N.of_nat src)). auto.
      + clear - Hps Hpw Hd. induction Hps as [|tag cs t r src cid etag es Ht Hok Hr IH]; [destruct Hd|].
        destruct Hpw as (_ & Htw & Hrw). destruct Hd as [Hd|Hd]; [|apply IH; auto].
        cbn in Hd. inversion Hd; subst d. exists t, cid, (Some (N.of_nat src)). auto.
  Qed.

  Theorem flattened_sane : sane m.
  Proof.
    split; [|split].
    - unfold version_supported. rewrite Hver. reflexivity.
    - unfold root_ok. rewrite Hstart.
      inversion Hroot as [ended vs ps id parent g Hn Hpar _ _ _ _]; subst.
      destruct (mirrors_get _ _ _ _ Hmir Hn) as (nd & Hg & _ & Hp & _). change (N.of_nat 0) with 0 in Hg. rewrite Hg, Hp, Hpar. reflexivity.
    - intros i Hr. destruct (reach_realized i Hr) as (t & k & p & -> & Hrz & Ht). eapply realized_node_ok; eauto.
  Qed.
End Sane.

(* ---- what gen_tree needs from the chains, and what it guarantees about the tree ------------------------------ *)
Record chains_ok (npc : N) (chains : list chain) : Prop := {
  ck_keys : keys_faithful chains;
  ck_lits : forall rc v, In rc chains -> In (NLit v) (ch_name rc) -> v <> [];
  ck_fns : forall rc c f args, In rc chains -> In c (ch_cons rc) -> In (NOFn f args) (nc_opts c) -> f <> [];
  ck_tags : forall rc t, In rc chains -> In (NPat t) (ch_name rc) -> (0 <= t)%Z -> Z.to_N t <= npc
}.

Lemma vwf_of vs : (forall v t, In (v, t) vs -> v <> [] /\ twf t) -> vwf (vlist_of vs).
Proof.
  induction vs as [|[v t] r IH]; intros H; cbn; [exact I|].
  destruct (H v t (or_introl eq_refl)) as [Hv Ht]. repeat split; auto. apply IH. intros; apply H; right; assumption.
Qed.
Lemma pwf_of ps : (forall tag cs t, In (tag, cs, t) ps -> forallb (forallb option_ok) cs = true /\ twf t) -> pwf (plist_of ps).
Proof.
  induction ps as [|[[tag cs] t] r IH]; intros H; cbn; [exact I|].
  destruct (H tag cs t (or_introl eq_refl)) as [Hc Ht]. repeat split; auto. apply IH. intros; eapply H; right; eassumption.
Qed.
Lemma vtags_of npc vs : (forall v t, In (v, t) vs -> ttags_ok npc t) -> vtags_ok npc (vlist_of vs).
Proof.
  induction vs as [|[v t] r IH]; intros H; cbn; [exact I|].
  split; [eapply H; left; reflexivity | apply IH; intros; eapply H; right; eassumption].
Qed.
Lemma ptags_of npc ps : (forall tag cs t, In (tag, cs, t) ps -> ((0 <= tag)%Z -> Z.to_N tag <= npc) /\ ttags_ok npc t) -> ptags_ok npc (plist_of ps).
Proof.
  induction ps as [|[[tag cs] t] r IH]; intros H; cbn; [exact I|].
  destruct (H tag cs t (or_introl eq_refl)) as [Hc Ht]. repeat split; auto. apply IH. intros; eapply H; right; eassumption.
Qed.

Lemma enc_opt_ok o : (forall f args, o = NOFn f args -> f <> []) -> option_ok (fst (enc_opt o)) = true.
Proof.
  destruct o as [c|t|f args]; cbn; intros H; try reflexivity.
  specialize (H f args eq_refl). destruct f; [contradiction | reflexivity].
Qed.

Lemma cons_for_ok chains npc rc t : chains_ok npc chains -> In rc chains -> forallb (forallb option_ok) (cons_for rc t) = true.
Proof.
  intros Hok Hin. unfold cons_for. apply forallb_forall. intros pc Hpc. apply in_map_iff in Hpc.
  destruct Hpc as (c & <- & Hc). apply filter_In in Hc. destruct Hc as [Hc _].
  unfold enc_cons. cbn [fst]. apply forallb_forall. intros op Hop. apply in_map_iff in Hop.
  destruct Hop as (eo & <- & Heo). apply in_map_iff in Heo. destruct Heo as (o & <- & Ho).
  apply enc_opt_ok. intros f args ->. eapply (ck_fns _ _ Hok); eauto.
Qed.

Lemma lit_at_in rc depth v : lit_at rc depth = Some v -> In (NLit v) (ch_name rc).
Proof.
  unfold lit_at. destruct (nth_error (ch_name rc) depth) as [[x|t|r]|] eqn:E; try discriminate.
  intros H; inversion H; subst. eapply nth_error_In; eauto.
Qed.
Lemma pat_at_in rc depth t : pat_at rc depth = Some t -> In (NPat t) (ch_name rc).
Proof.
  unfold pat_at. destruct (nth_error (ch_name rc) depth) as [[x|t0|r]|] eqn:E; try discriminate.
  intros H; inversion H; subst. eapply nth_error_In; eauto.
Qed.

Lemma gen_tree_wf chains npc : chains_ok npc chains ->
  forall fuel depth ctx prev t, gen_tree fuel depth ctx prev = Ok t -> (forall rc, In rc ctx -> In rc chains) ->
  twf t /\ ttags_ok npc t.
Proof.
  intros Hok. induction fuel as [|f IH]; intros depth ctx prev t Hgen Hsub; [discriminate|].
  cbn [gen_tree] in Hgen.
  destruct (rmap _ (v_moves depth (going_on depth ctx))) as [vs|] eqn:Ev; [|discriminate]. cbn [bind] in Hgen.
  destruct (rmap _ (p_keys (p_moves depth prev (going_on depth ctx)))) as [ps|] eqn:Ep; [|discriminate]. cbn [bind] in Hgen.
  inversion Hgen; subst t. clear Hgen. apply rmap_forall2 in Ev, Ep.
  assert (Hv : forall v t, In (v, t) vs -> v <> [] /\ twf t /\ ttags_ok npc t).
  { intros v t Hin. destruct (forall2_in_r _ _ _ _ Ev Hin) as (v' & Hv' & Hf). cbn beta in Hf.
    destruct (gen_tree f (S depth) (v_group depth (going_on depth ctx) v') prev) as [ch|] eqn:Eg; [|discriminate].
    cbn [bind] in Hf. inversion Hf; subst v' ch.
    apply v_moves_in in Hv'. destruct Hv' as (rc & Hrc & Hl). apply going_on_in in Hrc. destruct Hrc as [Hrc _].
    split; [eapply (ck_lits _ _ Hok); [apply Hsub; exact Hrc | eapply lit_at_in; eauto]|].
    eapply IH; eauto. intros rc0 H0. apply v_group_in in H0. destruct H0 as [H0 _]. apply going_on_in in H0. apply Hsub, H0. }
  assert (Hp : forall tag cs t, In (tag, cs, t) ps ->
             forallb (forallb option_ok) cs = true /\ ((0 <= tag)%Z -> Z.to_N tag <= npc) /\ twf t /\ ttags_ok npc t).
  { intros tag cs t Hin. destruct (forall2_in_r _ _ _ _ Ep Hin) as (key & Hkey & Hf). cbn beta in Hf.
    destruct (p_group (p_moves depth prev (going_on depth ctx)) key) as [|pm0 grest] eqn:Egrp; [discriminate|].
    destruct (gen_tree f (S depth) (map snd (pm0 :: grest)) (fst (fst (fst pm0)) :: prev)) as [ch|] eqn:Eg; [|discriminate].
    cbn [bind] in Hf. inversion Hf; subst tag cs ch.
    assert (Hpm0 : In pm0 (p_group (p_moves depth prev (going_on depth ctx)) key)) by (rewrite Egrp; left; reflexivity).
    apply p_group_in in Hpm0. destruct Hpm0 as [Hpm0 _]. apply p_moves_in in Hpm0.
    destruct Hpm0 as (rc0 & t0 & Hr0 & Hpa0 & ->). apply going_on_in in Hr0. destruct Hr0 as [Hr0 _]. cbn [fst snd].
    rewrite pm_tag, pm_cons. split; [|split].
    - destruct ((0 <=? t0)%Z && zmem t0 prev); [reflexivity | eapply cons_for_ok; eauto].
    - intros Hpos. eapply (ck_tags _ _ Hok); [apply Hsub; exact Hr0 | eapply pat_at_in; eauto | exact Hpos].
    - eapply IH; eauto. intros rc1 H1. apply in_map_iff in H1. destruct H1 as (pm & <- & Hpm). rewrite <- Egrp in Hpm.
      apply p_group_in in Hpm. destruct Hpm as [Hpm _]. apply p_moves_in in Hpm. destruct Hpm as (rc2 & t2 & Hr2 & _ & ->).
      cbn. apply going_on_in in Hr2. apply Hsub, Hr2. }
  split; cbn [twf ttags_ok]; split.
  - apply vwf_of. intros v t Hin. destruct (Hv v t Hin) as (H1 & H2 & _). auto.
  - apply pwf_of. intros tag cs t Hin. destruct (Hp tag cs t Hin) as (H1 & _ & H2 & _). auto.
  - apply vtags_of. intros v t Hin. destruct (Hv v t Hin) as (_ & _ & H3). exact H3.
  - apply ptags_of. intros tag cs t Hin. destruct (Hp tag cs t Hin) as (_ & H1 & _ & H2). auto.
Qed.

(* ---- the compiled model ------------------------------------------------------------------------------------------ *)
Section Compiled.
  Variable ufn : ident -> option (bytes -> list (option bytes) -> res bool).
  Variable chains : list chain.
  Variable st : numst.
  Variable m : lvsmodel.
  Let npc := N.of_nat (length (ns_named st)).
  Variable t0 : ptree.
  Hypothesis Hok : chains_ok npc chains.
  Hypothesis Htree : gen_tree (S (max_chain_len chains)) 0 chains [] = Ok t0.
  Let pool := fst (flatten t0 None O npc).
  Hypothesis Hmodel : model_of st pool (rids_of pool) 0 = Ok m.

  Lemma compiled_fields : exists nodes,
    fix_all (rids_of pool) 0 pool = Ok nodes /\ m_nodes m = nodes /\ m_start m = Some 0 /\
    m_npc m = Some npc /\ m_version m = Some LVS_VERSION.
  Proof.
    unfold model_of in Hmodel. destruct (fix_all (rids_of pool) 0 pool) as [nodes|] eqn:E; [|discriminate].
    cbn [bind] in Hmodel. inversion Hmodel; subst m. exists nodes. repeat split; reflexivity.
  Qed.

  Lemma compiled_mirrors : mirrors m pool.
  Proof.
    destruct compiled_fields as (nodes & Hfix & Hn & _). destruct (fix_all_spec _ _ _ _ Hfix) as [Hl Hall].
    split; [rewrite Hn; exact Hl|]. intros i g Hg. destruct (Hall i g Hg) as (nd & sc & H1 & _ & H2 & H3 & H4 & H5 & H6 & _).
    exists nd. rewrite Hn. repeat split; auto.
  Qed.

  Lemma compiled_realizes : realizes npc pool t0 O None.
  Proof.
    unfold pool. destruct (flatten t0 None O npc) as [sub tti'] eqn:Ef. cbn [fst].
    destruct (proj1 (flatten_realizes npc) t0 [] [] None npc sub tti' Ef (N.le_refl _)) as (Hr & _).
    cbn [app length] in Hr. rewrite app_nil_r in Hr. exact Hr.
  Qed.

  Lemma compiled_tree_wf : twf t0 /\ ttags_ok npc t0.
  Proof. eapply gen_tree_wf; eauto. Qed.

  Lemma compiled_signers i nd : nth_error (m_nodes m) i = Some nd ->
    exists g sc, nth_error pool i = Some g /\ sign_lookup (rids_of pool) (g_sign g) = Ok sc /\ n_sign nd = isort N.leb sc /\
                 n_rule nd = g_rule g.
  Proof.
    destruct compiled_fields as (nodes & Hfix & Hn & _). rewrite Hn. intros Hnd.
    destruct (fix_all_spec _ _ _ _ Hfix) as [Hl Hall].
    assert (Hlt : (i < length pool)%nat) by (rewrite <- Hl; apply nth_error_Some; congruence).
    destruct (nth_error pool i) as [g|] eqn:Eg; [|apply nth_error_None in Eg; lia].
    destruct (Hall i g Eg) as (nd' & sc & H1 & H2 & _ & _ & H3 & _ & _ & H4). rewrite Hnd in H1. inversion H1; subst nd'.
    exists g, sc. auto.
  Qed.

  Theorem compiled_sane : sane m.
  Proof.
    destruct compiled_fields as (nodes & Hfix & Hn & Hs & Hnpc & Hv).
    apply (flattened_sane m pool npc t0 compiled_mirrors compiled_realizes (proj1 compiled_tree_wf) Hs Hv).
    intros i nd Hnd k Hk. destruct (compiled_signers i nd Hnd) as (g & sc & Hg & Hsc & Hsign & _).
    rewrite Hsign in Hk. apply in_isort in Hk. apply (sign_lookup_in _ _ _ Hsc) in Hk.
    destruct Hk as (rid & l & _ & Hl & Hkl).
    assert (Hex : exists l, al_get ident_eqb (rids_of pool) rid = Some l /\ In k l) by eauto.
    apply rids_of_in in Hex. destruct Hex as (j & g' & -> & Hj & _).
    assert ((j < length pool)%nat) by (apply nth_error_Some; congruence). lia.
  Qed.

  (* a name reaches node n in the model iff it follows a path of the tree to a subtree laid out at n *)
  Lemma compiled_match_fwd name c n c' : ctx_named npc c -> tree_match ufn m name c n c' ->
    exists t' k p', n = N.of_nat k /\ tpath ufn t0 name c t' c' /\ realizes npc pool t' k p' /\ ctx_named npc c'.
  Proof.
    intros Hc (s & Hs & Hp). destruct compiled_fields as (nodes & _ & _ & Hst & Hnpc & _).
    rewrite Hst in Hs. inversion Hs; subst s.
    destruct (realizes_path_fwd ufn m pool npc Hnpc compiled_mirrors name t0 O None c n c' compiled_realizes
                (proj2 compiled_tree_wf) Hc Hp) as (t' & k & p' & H1 & H2 & H3 & _ & H5).
    exists t', k, p'. auto.
  Qed.

  Lemma compiled_match_bwd name c t' c' : ctx_named npc c -> tpath ufn t0 name c t' c' ->
    exists k p', tree_match ufn m name c (N.of_nat k) c' /\ realizes npc pool t' k p'.
  Proof.
    intros Hc Hp. destruct compiled_fields as (nodes & _ & _ & Hst & Hnpc & _).
    destruct (realizes_path_bwd ufn m pool npc Hnpc compiled_mirrors name t0 O None c t' c' compiled_realizes
                (proj2 compiled_tree_wf) Hc Hp) as (k & p' & H1 & H2).
    exists k, p'. split; [|exact H2]. exists 0. split; [exact Hst | exact H1].
  Qed.

  Lemma realized_node t' k p' : realizes npc pool t' k p' ->
    exists g nd sc, nth_error pool k = Some g /\ get_node m (N.of_nat k) = Some nd /\
      g_rule g = map ch_id (t_ended t') /\ g_sign g = flat_map ch_sign (t_ended t') /\
      n_rule nd = g_rule g /\ sign_lookup (rids_of pool) (g_sign g) = Ok sc /\ n_sign nd = isort N.leb sc.
  Proof.
    intros Hrz. destruct Hrz as [ended vs ps id parent g Hn Hpar Hru Hsi _ _].
    destruct (mirrors_get _ _ _ _ compiled_mirrors Hn) as (nd & Hg & _).
    assert (Hnth : nth_error (m_nodes m) id = Some nd).
    { rewrite <- get_node_nat; [exact Hg|]. destruct compiled_mirrors as [Hl _]. rewrite Hl. apply nth_error_Some. congruence. }
    destruct (compiled_signers id nd Hnth) as (g' & sc & Hg' & Hsc & Hsign & Hrule).
    rewrite Hn in Hg'. inversion Hg'; subst g'.
    exists g, nd, sc. repeat split; auto.
  Qed.

  Lemma chains_depth0 rc : (0 <= length (ch_name rc))%nat.
  Proof. lia. Qed.

  Lemma inv0 : Inv chains 0 [].
  Proof.
    constructor.
    - intros rc i t _ Hi. lia.
    - intros rc t _ [].
  Qed.

  (* C11 at the level of chains: a rule name is reported for a name iff one of that rule's chains is satisfied *)
  Theorem compiled_match_chains name c c' r : ctx_named npc c ->
    (exists n nd, tree_match ufn m name c n c' /\ get_node m n = Some nd /\ In r (n_rule nd)) <->
    (exists rc, In rc chains /\ ch_id rc = r /\ chain_sem_from ufn 0 rc name c c').
  Proof.
    intros Hc.
    pose proof (gen_tree_sem ufn chains (ck_keys _ _ Hok) _ _ _ _ _ Htree (fun rc H => H) inv0 name c c') as [Hs Hcp].
    split.
    - intros (n & nd & Hm & Hg & Hr). destruct (compiled_match_fwd _ _ _ _ Hc Hm) as (t' & k & p' & -> & Htp & Hrz & _).
      destruct (realized_node _ _ _ Hrz) as (g & nd' & sc & _ & Hg' & Hru & _ & Hnr & _).
      rewrite Hg in Hg'. inversion Hg'; subst nd'. rewrite Hnr, Hru in Hr. apply in_map_iff in Hr.
      destruct Hr as (rc & Hid & Hin). destruct (Hs t' rc Htp Hin) as [Hinc Hsem]. exists rc. auto.
    - intros (rc & Hin & Hid & Hsem). destruct (Hcp rc Hin (chains_depth0 rc) Hsem) as (t' & Htp & Hend).
      destruct (compiled_match_bwd _ _ _ _ Hc Htp) as (k & p' & Hm & Hrz).
      destruct (realized_node _ _ _ Hrz) as (g & nd & sc & _ & Hg & Hru & _ & Hnr & _).
      exists (N.of_nat k), nd. split; [exact Hm|]. split; [exact Hg|]. rewrite Hnr, Hru, <- Hid. apply in_map, Hend.
  Qed.

  (* C12 at the level of chains *)
  Theorem compiled_check_chains p k cx cx' :
    (exists pn pnode kn, tree_match ufn m p [] pn cx /\ get_node m pn = Some pnode /\
                         tree_match ufn m k cx kn cx' /\ In kn (n_sign pnode)) <->
    (exists rc rk, In rc chains /\ chain_sem_from ufn 0 rc p [] cx /\ In rk chains /\ In (ch_id rk) (ch_sign rc) /\
                   chain_sem_from ufn 0 rk k cx cx').
  Proof.
    assert (Hc0 : ctx_named npc []) by (intros t _; reflexivity).
    pose proof (fun name c c' => gen_tree_sem ufn chains (ck_keys _ _ Hok) _ _ _ _ _ Htree (fun rc H => H) inv0 name c c') as Hsem.
    split.
    - intros (pn & pnode & kn & Hmp & Hgp & Hmk & Hin).
      destruct (compiled_match_fwd _ _ _ _ Hc0 Hmp) as (tp & ip & pp & -> & Htpp & Hrzp & Hcx).
      destruct (compiled_match_fwd _ _ _ _ Hcx Hmk) as (tk & ik & pk & -> & Htpk & Hrzk & _).
      destruct (realized_node _ _ _ Hrzp) as (gp & ndp & scp & _ & Hgp' & _ & Hsip & _ & Hscp & Hsignp).
      rewrite Hgp in Hgp'. inversion Hgp'; subst ndp. rewrite Hsignp in Hin. apply in_isort in Hin.
      apply (sign_lookup_in _ _ _ Hscp) in Hin. destruct Hin as (sk & l & Hsk & Hl & Hkl).
      rewrite Hsip in Hsk. apply in_flat_map in Hsk. destruct Hsk as (rc & Hrc & Hskrc).
      assert (Hex : exists l, al_get ident_eqb (rids_of pool) sk = Some l /\ In (N.of_nat ik) l) by eauto.
      apply rids_of_in in Hex. destruct Hex as (j & gj & Ej & Hj & Hrj). apply Nat2N.inj in Ej. subst j.
      destruct (realized_node _ _ _ Hrzk) as (gk & ndk & sck & Hgk & _ & Hruk & _).
      rewrite Hj in Hgk. inversion Hgk; subst gj. rewrite Hruk in Hrj. apply in_map_iff in Hrj. destruct Hrj as (rk & Hidk & Hrk).
      destruct (Hsem p [] cx) as [Hs1 _]. destruct (Hs1 tp rc Htpp Hrc) as [Hin1 Hsem1].
      destruct (Hsem k cx cx') as [Hs2 _]. destruct (Hs2 tk rk Htpk Hrk) as [Hin2 Hsem2].
      exists rc, rk. rewrite Hidk. repeat split; auto.
    - intros (rc & rk & Hin1 & Hsem1 & Hin2 & Hsk & Hsem2).
      destruct (Hsem p [] cx) as [_ Hc1]. destruct (Hc1 rc Hin1 (chains_depth0 rc) Hsem1) as (tp & Htpp & Hendp).
      destruct (compiled_match_bwd _ _ _ _ Hc0 Htpp) as (ip & pp & Hmp & Hrzp).
      destruct (compiled_match_fwd _ _ _ _ Hc0 Hmp) as (_ & _ & _ & _ & _ & _ & Hcx).
      destruct (Hsem k cx cx') as [_ Hc2]. destruct (Hc2 rk Hin2 (chains_depth0 rk) Hsem2) as (tk & Htpk & Hendk).
      destruct (compiled_match_bwd _ _ _ _ Hcx Htpk) as (ik & pk & Hmk & Hrzk).
      destruct (realized_node _ _ _ Hrzp) as (gp & ndp & scp & _ & Hgp & _ & Hsip & _ & Hscp & Hsignp).
      destruct (realized_node _ _ _ Hrzk) as (gk & ndk & sck & Hgk & _ & Hruk & _).
      exists (N.of_nat ip), ndp, (N.of_nat ik). repeat split; auto.
      rewrite Hsignp. apply in_isort. apply (sign_lookup_in _ _ _ Hscp).
      assert (Hex : exists l, al_get ident_eqb (rids_of pool) (ch_id rk) = Some l /\ In (N.of_nat ik) l).
      { apply rids_of_in. exists ik, gk. repeat split; auto. rewrite Hruk. apply in_map, Hendk. }
      destruct Hex as (l & Hl & Hkl). exists (ch_id rk), l. repeat split; auto.
      rewrite Hsip. apply in_flat_map. exists rc. auto.
  Qed.
End Compiled.
