(* C08, remaining clauses: announced size = produced size; unknown non-critical elements are ignored
   wherever inserted; unknown / repeated / out-of-order critical ones are rejected; boolean
   well-formedness check implies the inductive one. *)
From NDN Require Import Base.Prelude Base.Utf8 Model.TlvVar Model.Name Model.Tlv Spec.TlvWf
  Proofs.BytesLemmas Proofs.TlvVarProofs Proofs.NameWire Proofs.TlvSplit Proofs.TlvAssign
  Proofs.TlvRoundtrip Proofs.TlvRoundtrip2.
Local Open Scope N_scope.

Arguments N.pow : simpl never.
Arguments N.mul : simpl never.
Arguments N.add : simpl never.
Arguments N.of_nat : simpl never.
Arguments N.to_nat : simpl never.

(* ---- size announced beforehand = size produced -------------------------------------------------- *)
Lemma rconcat_rsum {A} (f : A -> res bytes) (g : A -> res N) (l : list A) :
  (forall x w, In x l -> f x = Ok w -> g x = Ok (N.of_nat (length w))) ->
  forall w, rconcat f l = Ok w -> rsum g l = Ok (N.of_nat (length w)).
Proof.
  induction l as [|x l IH]; intros H w Hw.
  - cbn in *. inversion Hw; subst. reflexivity.
  - cbn [rconcat rsum] in *. destruct (f x) as [a|] eqn:Ea; [|discriminate]. cbn [bind] in Hw.
    destruct (rconcat f l) as [r|] eqn:Er; [|discriminate]. cbn [bind] in Hw. inversion Hw; subst.
    rewrite (H x a (or_introl eq_refl) Ea). cbn [bind].
    rewrite (IH (fun y w' Hy => H y w' (or_intror Hy)) r eq_refl). cbn [bind].
    rewrite app_length. f_equal. lia.
Qed.

Lemma tl_enc_r_length t th : tl_enc_r t = Ok th -> length th = tl_size t.
Proof. unfold tl_enc_r. destruct (t <? two64); [|discriminate]. intros H; inversion H. apply tl_enc_length. Qed.

Theorem elen_enc : forall d t k v w, enc_val d t k v = Ok w -> elen_val d t k v = Ok (N.of_nat (length w)).
Proof.
  induction d as [|d IH]; intros t k v w H; [discriminate|].
  assert (IHf : forall fs vs w, enc_fields_with (enc_val d) fs vs = Ok w ->
                                elen_fields_with (elen_val d) fs vs = Ok (N.of_nat (length w))).
  { induction fs as [|[t' k'] fs IHfs]; intros [|v' vs] w' Hw; try discriminate.
    - cbn in *. inversion Hw; subst. reflexivity.
    - cbn [enc_fields_with elen_fields_with] in *.
      destruct (enc_val d t' k' v') as [a|] eqn:Ea; [|discriminate]. cbn [bind] in Hw.
      destruct (enc_fields_with (enc_val d) fs vs) as [r|] eqn:Er; [|discriminate]. cbn [bind] in Hw.
      inversion Hw; subst. rewrite (IH _ _ _ _ Ea). cbn [bind]. rewrite (IHfs _ _ Er). cbn [bind].
      rewrite app_length. f_equal. lia. }
  destruct v as [|n| |b|n|vs|l|l].
  - destruct k; cbn in H; inversion H; subst; reflexivity.
  - destruct k; try discriminate. cbn [enc_val elen_val] in *.
    destruct (fixed_width fixed n) as [wd|]; [|discriminate]. cbn [bind] in *.
    destruct (256 ^ N.of_nat wd <=? n); [discriminate|].
    destruct (tl_enc_r t) as [th|] eqn:Et; [|discriminate]. cbn [bind] in H. inversion H; subst.
    rewrite app_length. cbn [app length]. rewrite N_to_be_length, (tl_enc_r_length _ _ Et). f_equal. lia.
  - destruct k; try discriminate. cbn [enc_val elen_val] in *.
    destruct (tl_enc_r t) as [th|] eqn:Et; [|discriminate]. cbn [bind] in H. inversion H; subst.
    rewrite app_length, (tl_enc_r_length _ _ Et). cbn [length]. f_equal. lia.
  - destruct k; try discriminate. cbn [enc_val elen_val] in *.
    destruct (tl_enc_r t) as [th|] eqn:Et; [|discriminate]. cbn [bind] in H. inversion H; subst.
    rewrite !app_length, tl_enc_length, (tl_enc_r_length _ _ Et). f_equal. lia.
  - destruct k; try discriminate. cbn [enc_val elen_val] in *. inversion H; subst.
    unfold name_encode. rewrite !app_length, !tl_enc_length. rewrite <- name_value_length_concat.
    change (tl_size TYPE_NAME) with 1%nat. f_equal. lia.
  - destruct k; try discriminate. cbn [enc_val elen_val] in *.
    destruct (enc_fields_with (enc_val d) fs vs) as [inner|] eqn:Ei; [|discriminate]. cbn [bind] in H.
    rewrite (IHf _ _ _ Ei). cbn [bind].
    destruct (tl_enc_r t) as [th|] eqn:Et; [|discriminate]. cbn [bind] in H. inversion H; subst.
    rewrite !app_length, tl_enc_length, (tl_enc_r_length _ _ Et). f_equal. lia.
  - destruct k; try discriminate. cbn [enc_val elen_val] in *.
    eapply rconcat_rsum; [|exact H]. intros x w' _ Hx. apply IH. exact Hx.
  - destruct k; try discriminate. cbn [enc_val elen_val] in *.
    eapply rconcat_rsum; [|exact H]. intros [kx vx] w' _ Hx. cbn [fst snd] in *.
    destruct (enc_val d t k1 kx) as [a|] eqn:Ea; [|discriminate]. cbn [bind] in Hx.
    destruct (enc_val d vtype k2 vx) as [b|] eqn:Eb; [|discriminate]. cbn [bind] in Hx. inversion Hx; subst.
    rewrite (IH _ _ _ _ Ea), (IH _ _ _ _ Eb). cbn [bind]. rewrite app_length. f_equal. lia.
Qed.

Theorem encoded_length_exact d fs vs w :
  encode_model d fs vs = Ok w -> encoded_length_model d fs vs = Ok (N.of_nat (length w)).
Proof.
  unfold encode_model, encoded_length_model. revert vs w.
  induction fs as [|[t k] fs IH]; intros [|v vs] w Hw; try discriminate.
  - cbn in *. inversion Hw; subst. reflexivity.
  - cbn [enc_fields_with elen_fields_with] in *.
    destruct (enc_val d t k v) as [a|] eqn:Ea; [|discriminate]. cbn [bind] in Hw.
    destruct (enc_fields_with (enc_val d) fs vs) as [r|] eqn:Er; [|discriminate]. cbn [bind] in Hw.
    inversion Hw; subst. rewrite (elen_enc _ _ _ _ _ Ea). cbn [bind]. rewrite (IH _ _ Er). cbn [bind].
    rewrite app_length. f_equal. lia.
Qed.

(* ---- unknown elements --------------------------------------------------------------------------- *)
(* every Type a level can recognise: field types and map value types *)
Definition level_types (fs : list field) : list N :=
  flat_map (fun f => fst f :: match snd f with KMap _ vt _ => [vt] | _ => [] end) fs.

Lemma find_from_none fs : forall idx pos t, ~ In t (map fst fs) -> find_from fs idx pos t = None.
Proof.
  induction fs as [|[t' k] fs IH]; intros idx pos t H; [reflexivity|].
  cbn [find_from]. cbn [map fst In] in H.
  replace (t' =? t) with false by (symmetry; apply N.eqb_neq; intros ->; apply H; left; reflexivity).
  rewrite andb_false_r. apply IH. intros Hin. apply H. right. exact Hin.
Qed.

Lemma find_from_some_in fs : forall idx pos t i k, find_from fs idx pos t = Some (i, k) -> In (t, k) fs.
Proof.
  induction fs as [|[t' k'] fs IH]; intros idx pos t i k H; [discriminate|].
  cbn [find_from] in H. destruct (Nat.leb pos idx && (t' =? t)) eqn:E.
  - inversion H; subst. apply andb_true_iff in E. destruct E as [_ E]. apply N.eqb_eq in E. subst. left. reflexivity.
  - right. eapply IH. exact H.
Qed.

Lemma level_types_field fs t k : In (t, k) fs -> In t (level_types fs).
Proof.
  intros H. unfold level_types. apply in_flat_map. exists (t, k). split; [exact H|]. left. reflexivity.
Qed.

Lemma level_types_vt fs t kk vt vk : In (t, KMap kk vt vk) fs -> In vt (level_types fs).
Proof.
  intros H. unfold level_types. apply in_flat_map. exists (t, KMap kk vt vk). split; [exact H|]. right. left. reflexivity.
Qed.

(* the states the loop can be in while scanning a level: an awaited value type belongs to the level *)
Definition st_ok (fs : list field) (st : pstate) : Prop :=
  match st with PNormal => True | PAwait _ _ vt _ => In vt (level_types fs) end.

(* C08: an unrecognised non-critical element is ignored wherever it is inserted *)
Theorem assign_ignores_noncritical pv fs ic e0 :
  ~ In (e_type e0) (level_types fs) -> N.odd (e_type e0) = false ->
  forall a b st pos acc, st_ok fs st ->
  assign_with pv fs ic st pos (a ++ e0 :: b) acc = assign_with pv fs ic st pos (a ++ b) acc.
Proof.
  intros Hun Hev. induction a as [|e a IH]; intros b st pos acc Hst.
  - cbn [app assign_with]. destruct st as [|i key vt vk].
    + rewrite find_from_none; [rewrite Hev; reflexivity|].
      intros Hin. apply Hun. apply in_map_iff in Hin. destruct Hin as ([t k] & Et & Hin). cbn in Et. subst.
      eapply level_types_field. exact Hin.
    + cbn in Hst. replace (e_type e0 =? vt) with false
        by (symmetry; apply N.eqb_neq; intros E; apply Hun; rewrite E; exact Hst).
      rewrite Hev. reflexivity.
  - cbn [app assign_with]. destruct st as [|i key vt vk].
    + destruct (find_from fs 0 pos (e_type e)) as [[i k]|] eqn:Ef.
      * pose proof (find_from_some_in _ _ _ _ _ _ Ef) as Hin.
        destruct k; try (destruct (pv _ e); cbn [bind]; [apply IH; exact I|reflexivity]).
        destruct (pv k1 e); cbn [bind]; [|reflexivity]. apply IH. cbn. eapply level_types_vt. exact Hin.
      * destruct (N.odd (e_type e) && negb ic); [reflexivity|]. apply IH. exact I.
    + destruct (e_type e =? vt).
      * destruct (pv vk e); cbn [bind]; [apply IH; exact I|reflexivity].
      * destruct (N.odd (e_type e) && negb ic); [reflexivity|]. apply IH. exact Hst.
Qed.

(* C08: an unrecognised critical element makes the level fail (unless ignore_critical) *)
Theorem assign_rejects_critical pv fs e0 :
  ~ In (e_type e0) (level_types fs) -> N.odd (e_type e0) = true ->
  forall a b st pos acc, st_ok fs st ->
  is_ok (assign_with pv fs false st pos (a ++ e0 :: b) acc) = false.
Proof.
  intros Hun Hodd. induction a as [|e a IH]; intros b st pos acc Hst.
  - cbn [app assign_with]. destruct st as [|i key vt vk].
    + rewrite find_from_none; [rewrite Hodd; reflexivity|].
      intros Hin. apply Hun. apply in_map_iff in Hin. destruct Hin as ([t k] & Et & Hin). cbn in Et. subst.
      eapply level_types_field. exact Hin.
    + cbn in Hst. replace (e_type e0 =? vt) with false
        by (symmetry; apply N.eqb_neq; intros E; apply Hun; rewrite E; exact Hst).
      rewrite Hodd. reflexivity.
  - cbn [app assign_with]. destruct st as [|i key vt vk].
    + destruct (find_from fs 0 pos (e_type e)) as [[i k]|] eqn:Ef.
      * pose proof (find_from_some_in _ _ _ _ _ _ Ef) as Hin.
        destruct k; try (destruct (pv _ e); cbn [bind]; [apply IH; exact I|reflexivity]).
        destruct (pv k1 e); cbn [bind]; [|reflexivity]. apply IH. cbn. eapply level_types_vt. exact Hin.
      * destruct (N.odd (e_type e) && negb false); [reflexivity|]. apply IH. exact I.
    + destruct (e_type e =? vt).
      * destruct (pv vk e); cbn [bind]; [apply IH; exact I|reflexivity].
      * destruct (N.odd (e_type e) && negb false); [reflexivity|]. apply IH. exact Hst.
Qed.

(* a recognised critical field that comes again / out of order: once the scan position has passed
   every field of that Type, an element of that (odd) Type is rejected *)
Lemma find_from_passed fs : forall idx pos t,
  (forall j k, nth_error fs j = Some (t, k) -> (idx + j < pos)%nat) -> find_from fs idx pos t = None.
Proof.
  induction fs as [|[t' k'] fs IH]; intros idx pos t H; [reflexivity|].
  cbn [find_from]. destruct (Nat.leb pos idx && (t' =? t)) eqn:E.
  - apply andb_true_iff in E. destruct E as [E1 E2]. apply Nat.leb_le in E1. apply N.eqb_eq in E2. subst t'.
    specialize (H 0%nat k' eq_refl). lia.
  - apply IH. intros j k Hj. specialize (H (S j) k Hj). lia.
Qed.

Theorem assign_rejects_out_of_order pv fs pos e r acc :
  N.odd (e_type e) = true ->
  (forall j k, nth_error fs j = Some (e_type e, k) -> (j < pos)%nat) ->
  assign_with pv fs false PNormal pos (e :: r) acc = Err EDecode.
Proof.
  intros Hodd Hpassed. cbn [assign_with]. rewrite find_from_passed by (intros j k Hj; cbn; eauto).
  rewrite Hodd. reflexivity.
Qed.

(* ---- boolean well-formedness ---------------------------------------------------------------------- *)
Lemma nodupb_spec l : nodupb l = true -> NoDup l.
Proof.
  induction l as [|x l IH]; intros H; [constructor|]. cbn [nodupb] in H. apply andb_true_iff in H.
  destruct H as [H1 H2]. constructor; [|apply IH; exact H2].
  intros Hin. apply negb_true_iff in H1. assert (existsb (N.eqb x) l = true); [|congruence].
  apply existsb_exists. exists x. split; [exact Hin|apply N.eqb_refl].
Qed.

Lemma wfkb_spec : forall d t k, wfkb d t k = true -> wfk t k.
Proof.
  induction d as [|d IH]; intros t k H; [discriminate|]. destruct k; cbn [wfkb] in H.
  - apply andb_true_iff in H. destruct H. constructor; [lia|assumption].
  - constructor. lia.
  - constructor. lia.
  - apply N.eqb_eq in H. subst. constructor.
  - apply andb_true_iff in H. destruct H as [H H3]. apply andb_true_iff in H. destruct H as [H1 H2].
    constructor; [lia|]. constructor; [apply nodupb_spec; exact H2|].
    intros t' k' Hin. rewrite forallb_forall in H3. apply IH. apply (H3 (t', k') Hin).
  - apply andb_true_iff in H. destruct H. constructor; [assumption|apply IH; assumption].
  - apply andb_true_iff in H. destruct H as [H H4]. apply andb_true_iff in H. destruct H as [H H3].
    apply andb_true_iff in H. destruct H as [H1 H2]. constructor; auto.
Qed.

Theorem wf_fieldsb_spec fs : wf_fieldsb fs = true -> wf_fields fs.
Proof.
  unfold wf_fieldsb. intros H. apply andb_true_iff in H. destruct H as [H1 H2].
  constructor; [apply nodupb_spec; exact H1|]. intros t k Hin. rewrite forallb_forall in H2.
  eapply wfkb_spec. apply (H2 (t, k) Hin).
Qed.

(* ---- integers use the smallest legal width unless a fixed width is declared ---------------------- *)
Theorem enc_uint_minimal d t n w :
  t < two64 -> enc_val (S d) t (KUint None) (VUint n) = Ok w ->
  w = tlv t (nni_enc n) /\
  forall k, (k = 1 \/ k = 2 \/ k = 4 \/ k = 8)%nat -> n < 256 ^ N.of_nat k -> (nni_width n <= k)%nat.
Proof.
  intros Ht H. cbn [enc_val fixed_width bind] in H.
  destruct (256 ^ N.of_nat (nni_width n) <=? n); [discriminate|].
  rewrite tl_enc_r_ok in H by exact Ht. cbn [bind] in H. inversion H; subst. split.
  - unfold tlv, nni_enc. rewrite N_to_be_length.
    rewrite (tl_enc_small (N.of_nat (nni_width n))) by (destruct (nni_width_cases n) as [-> |[-> |[-> | ->]]]; lia).
    reflexivity.
  - intros k Hk Hn. apply nni_width_minimal; assumption.
Qed.
