(* C17 - enumerated management fields: the table regenerated from nfd_mgmt.py (Generated/NfdEnums.v) satisfies the
   specification, and what that means for every number of the protocol domain. *)
From NDN Require Import Base.Prelude Model.NfdEnums Spec.NfdEnums.
From NDN Require Generated.NfdEnums.
Local Open Scope N_scope.

Lemma shipped_enums_ok : forallb field_ok Generated.NfdEnums.nfd_enum_fields = true.
Proof. vm_compute. reflexivity. Qed.

Lemma reads_back_spec k ms v : reads_back k ms v = true -> typed_read k ms v = Ok v.
Proof.
  unfold reads_back. destruct (typed_read k ms v) as [w|e]; [|discriminate].
  intros H. apply N.eqb_eq in H. now subst.
Qed.

Theorem typed_read_domain f v :
  field_ok f = true -> In v (domain (ef_type f) (ef_members f)) ->
  typed_read (ef_kind f) (ef_members f) v = Ok v.
Proof.
  unfold field_ok. intros H Hin. apply andb_prop in H as [H _].
  apply reads_back_spec. exact (proj1 (forallb_forall _ _) H v Hin).
Qed.

Theorem join_members f a b :
  field_ok f = true -> bitfield_type (ef_type f) = true -> In a (ef_members f) -> In b (ef_members f) ->
  join (ef_kind f) a b = Ok (N.lor a b).
Proof.
  unfold field_ok. intros H Hb Ha Hin. apply andb_prop in H as [_ H]. rewrite Hb in H. cbn [negb orb] in H.
  pose proof (proj1 (forallb_forall _ _) (proj1 (forallb_forall _ _) H a Ha) b Hin) as J.
  unfold joins in J. destruct (join (ef_kind f) a b) as [w|e]; [|discriminate].
  apply N.eqb_eq in J. now subst.
Qed.

Theorem shipped_typed_read f v :
  In f Generated.NfdEnums.nfd_enum_fields -> In v (domain (ef_type f) (ef_members f)) ->
  typed_read (ef_kind f) (ef_members f) v = Ok v.
Proof. intros Hf. apply typed_read_domain. exact (proj1 (forallb_forall _ _) shipped_enums_ok f Hf). Qed.

Theorem shipped_join f a b :
  In f Generated.NfdEnums.nfd_enum_fields -> bitfield_type (ef_type f) = true ->
  In a (ef_members f) -> In b (ef_members f) -> join (ef_kind f) a b = Ok (N.lor a b).
Proof. intros Hf. apply join_members. exact (proj1 (forallb_forall _ _) shipped_enums_ok f Hf). Qed.

(* independent of the table: a strict Flag type reads every union of its members *)
Lemma ldiff_lor_l a b c : N.ldiff (N.lor a b) c = N.lor (N.ldiff a c) (N.ldiff b c).
Proof.
  apply N.bits_inj. intros n. rewrite N.lor_spec, !N.ldiff_spec, N.lor_spec.
  destruct (N.testbit a n), (N.testbit b n), (N.testbit c n); reflexivity.
Qed.

Lemma ldiff_lor_r a b c : N.ldiff a b = 0 -> N.ldiff a (N.lor c b) = 0.
Proof.
  intros H. apply N.bits_inj. intros n.
  assert (Hn : N.testbit (N.ldiff a b) n = false) by (rewrite H; apply N.bits_0).
  rewrite N.ldiff_spec in Hn. rewrite N.ldiff_spec, N.lor_spec, N.bits_0.
  destruct (N.testbit a n), (N.testbit b n), (N.testbit c n); try reflexivity; discriminate.
Qed.

Lemma ldiff_lor_self a b : N.ldiff a (N.lor a b) = 0.
Proof.
  apply N.bits_inj. intros n. rewrite N.ldiff_spec, N.lor_spec, N.bits_0.
  destruct (N.testbit a n), (N.testbit b n); reflexivity.
Qed.

Lemma unions_within ms v : In v (unions ms) -> N.ldiff v (all_bits ms) = 0.
Proof.
  revert v. induction ms as [|m r IH]; intros v Hin.
  - cbn in Hin. destruct Hin as [<-|[]]. reflexivity.
  - cbn [unions] in Hin. cbn [all_bits fold_right]. fold (all_bits r).
    apply in_app_or in Hin as [Hin|Hin].
    + apply ldiff_lor_r. exact (IH v Hin).
    + apply in_map_iff in Hin as [u [<- Hu]]. rewrite ldiff_lor_l.
      rewrite ldiff_lor_self, (ldiff_lor_r _ _ m (IH u Hu)). reflexivity.
Qed.

Theorem flag_reads_unions ms v : In v (unions ms) -> typed_read EFlag ms v = Ok v.
Proof. intros Hin. unfold typed_read. rewrite (unions_within ms v Hin). reflexivity. Qed.
