(* On a value that is a sequence of well-formed elements, the lenient split of the decoder (with raw bytes)
   is that sequence. *)
From NDN Require Import Base.Prelude Model.TlvVar Model.Tlv Model.PacketPtrs Spec.SignedPortion
  Proofs.BytesLemmas Proofs.PtrsSpecView.
Local Open Scope N_scope.
Set Default Timeout 900.
Arguments N.of_nat : simpl never.
Arguments N.to_nat : simpl never.

Lemma skipn_add' {A} a b (l : list A) : skipn a (skipn b l) = skipn (b + a) l.
Proof.
  revert l; induction b as [|b IH]; intros l; [reflexivity|].
  destruct l as [|x l]; [destruct a; reflexivity|]. cbn [skipn Nat.add]. apply IH.
Qed.

Definition agrees (er : elem * bytes) (tr : N * bytes) : Prop :=
  e_type (fst er) = fst tr /\ snd er = snd tr /\ el_value (snd tr) = Some (e_payload (fst er)).

Lemma is_el_unfold t e rest : is_el (t, e) -> (2 <= length e)%nat ->
  exists st l sl, tl_dec (e ++ rest) = Ok (t, st) /\ tl_dec (skipn st (e ++ rest)) = Ok (l, sl) /\
                  length e = (st + sl + N.to_nat l)%nat /\ (1 <= st)%nat /\ (1 <= sl)%nat.
Proof.
  intros H L. specialize (H rest). cbn [fst snd] in H. unfold next_element in H.
  destruct (tl_dec (e ++ rest)) as [[t' st]|] eqn:E1; [|discriminate].
  destruct (tl_dec (skipn st (e ++ rest))) as [[l sl]|] eqn:E2; [|discriminate].
  destruct (N.of_nat (length (e ++ rest) - (st + sl)) <? l) eqn:E3; [discriminate|]. apply N.ltb_ge in E3.
  assert (Ht : t' = t) by congruence. subst t'.
  assert (He : firstn (st + sl + N.to_nat l) (e ++ rest) = e) by congruence. clear H.
  destruct (tl_dec_prefix _ _ _ E1) as ((A1 & A2) & _).
  destruct (tl_dec_prefix _ _ _ E2) as ((B1 & B2) & _). rewrite skipn_length in B2.
  apply (f_equal (@length N)) in He. rewrite firstn_length in He. rewrite app_length in *.
  exists st, l, sl. split; [first [reflexivity|exact E1]|]. split; [first [reflexivity|exact E2]|]. split; [|split]; lia.
Qed.

Lemma elements_raw_strict : forall sel fuel,
  Forall is_el sel -> Forall (fun tr => (2 <= length (snd tr))%nat) sel -> (length sel < fuel)%nat ->
  exists rs, elements_raw fuel (concat (raws sel)) = Ok rs /\ Forall2 agrees rs sel.
Proof.
  induction sel as [|[t e] s IH]; intros fuel Hel Hlen Hf.
  - destruct fuel; [cbn in Hf; lia|]. exists []. split; [reflexivity|constructor].
  - inversion Hel as [|? ? H1 H2]; inversion Hlen as [|? ? L1 L2]; subst. cbn [snd] in L1.
    destruct fuel; [cbn in Hf; lia|].
    destruct (IH fuel H2 L2 ltac:(cbn in Hf; lia)) as (rs & Ers & Hrs).
    cbn [raws map concat snd]. fold (raws s). set (rest := concat (raws s)) in *.
    destruct (is_el_unfold t e rest H1 L1) as (st & l & sl & E1 & E2 & Hl & S1 & S2).
    destruct (is_el_unfold t e [] H1 L1) as (st0 & l0 & sl0 & F1 & F2 & Hl0 & _). rewrite app_nil_r in F1, F2.
    assert (Hne : e ++ rest <> []) by (destruct e; cbn in *; [lia|discriminate]).
    destruct (e ++ rest) as [|b w'] eqn:Ew; [contradiction|]. rewrite <- Ew in *. clear Hne.
    assert (Hstep : elements_raw (S fuel) (e ++ rest) =
                    (do tp <- tl_dec (e ++ rest) ;; let '(t, st) := tp in
                     do lp <- tl_dec (skipn st (e ++ rest)) ;; let '(l, sl) := lp in
                     let body := skipn (st + sl) (e ++ rest) in
                     let k := N.to_nat (N.min l (N.of_nat (length body))) in
                     do r <- elements_raw fuel (skipn k body) ;;
                     Ok ((Elem t l (firstn k body), firstn (st + sl + k) (e ++ rest)) :: r))).
    { rewrite Ew. reflexivity. }
    rewrite Hstep. rewrite E1. cbn [bind]. rewrite E2. cbn [bind].
    assert (Hbody : length (skipn (st + sl) (e ++ rest)) = (N.to_nat l + length rest)%nat)
      by (rewrite skipn_length, app_length; lia).
    cbv zeta. rewrite Hbody.
    replace (N.to_nat (N.min l (N.of_nat (N.to_nat l + length rest)))) with (N.to_nat l) by lia.
    assert (Hrest : skipn (N.to_nat l) (skipn (st + sl) (e ++ rest)) = rest).
    { rewrite skipn_add'. replace (st + sl + N.to_nat l)%nat with (length e) by lia. apply skipn_app_exact. }
    rewrite Hrest, Ers. cbn [bind].
    eexists. split; [reflexivity|]. constructor; [|exact Hrs].
    unfold agrees. cbn [fst snd e_type e_payload]. split; [reflexivity|]. split.
    + replace (st + sl + N.to_nat l)%nat with (length e) by lia. apply firstn_app_exact.
    + (* the value *)
      assert (P1 : tl_dec e = Ok (t, st)).
      { destruct (tl_dec_prefix _ _ _ E1) as (_ & P). specialize (P (length e) [] ltac:(lia)).
        rewrite firstn_app_exact, app_nil_r in P. exact P. }
      assert (P2 : tl_dec (skipn st e) = Ok (l, sl)).
      { destruct (tl_dec_prefix _ _ _ E2) as (_ & P). specialize (P (length e - st)%nat [] ltac:(lia)).
        rewrite app_nil_r in P. rewrite <- P. f_equal.
        rewrite skipn_app. replace (st - length e)%nat with O by lia. cbn [skipn].
        rewrite firstn_app, skipn_length. replace (length e - st - (length e - st))%nat with O by lia.
        cbn [firstn]. rewrite app_nil_r. symmetry. apply firstn_all2. rewrite skipn_length. lia. }
      unfold el_value. rewrite P1, P2. f_equal.
      rewrite skipn_app. replace (st + sl - length e)%nat with O by lia. cbn [skipn].
      rewrite firstn_app, skipn_length. replace (N.to_nat l - (length e - (st + sl)))%nat with O by lia.
      cbn [firstn]. rewrite app_nil_r. symmetry. apply firstn_all2. rewrite skipn_length. lia.
Qed.

Theorem split_raw_strict v sel : strict_split (S (length v)) v = Some sel ->
  exists rs, split_raw v = Ok rs /\ Forall2 agrees rs sel.
Proof.
  intros H. destruct (strict_split_inv _ _ _ H) as (Ev & Hel & Hlen).
  pose proof (length_le_concat sel Hlen) as G0. rewrite <- Ev in G0.
  pose proof (elements_raw_strict sel (S (length v)) Hel Hlen ltac:(lia)) as G. rewrite <- Ev in G. exact G.
Qed.

Lemma agrees_types rs sel : Forall2 agrees rs sel -> map (fun er => e_type (fst er)) rs = types sel.
Proof. induction 1 as [|er tr rs sel (A & _) _ IH]; [reflexivity|]. cbn [map types]. f_equal; [exact A|exact IH]. Qed.
Lemma agrees_raws rs sel : Forall2 agrees rs sel -> map snd rs = raws sel.
Proof. induction 1 as [|er tr rs sel (_ & A & _) _ IH]; [reflexivity|]. cbn [map raws]. f_equal; [exact A|exact IH]. Qed.
Lemma agrees_nth rs sel k er : Forall2 agrees rs sel -> nth_error rs k = Some er ->
  exists tr, nth_error sel k = Some tr /\ agrees er tr.
Proof.
  intros H; revert k. induction H as [|x y rs sel A _ IH]; intros k Hk; [destruct k; discriminate|].
  destruct k; [inversion Hk; subst; exists y; split; [reflexivity|exact A]|]. apply IH; exact Hk.
Qed.

Lemma agrees_length rs sel : Forall2 agrees rs sel -> length rs = length sel.
Proof. induction 1; cbn; congruence. Qed.
