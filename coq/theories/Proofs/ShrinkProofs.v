(* C01: the post-signing length repair (tlv_var.shrink_length, offset-based in-place patching) turns
   "T, L(|p|+|pad|), p ++ pad" into the canonical "T, L(|p|), p", whatever size class the two lengths fall in. *)
From NDN Require Import Base.Prelude Model.TlvVar Model.Tlv Proofs.BytesLemmas Proofs.TlvVarProofs Proofs.TlvSplit.
Local Open Scope N_scope.
Set Default Timeout 900.

Arguments N.of_nat : simpl never.
Arguments N.to_nat : simpl never.

Lemma splice_at_prefix (a old new rest : bytes) :
  length old = length new -> splice (a ++ old ++ rest) (length a) new = a ++ new ++ rest.
Proof.
  intros H. unfold splice. rewrite firstn_app_exact.
  replace (length a + length new)%nat with (length (a ++ old)) by (rewrite app_length; lia).
  rewrite (app_assoc a old rest). rewrite skipn_app_exact. reflexivity.
Qed.

Lemma skipn_add {A} a b (l : list A) : skipn a (skipn b l) = skipn (b + a) l.
Proof.
  revert l; induction b as [|b IH]; intros l; [reflexivity|].
  destruct l as [|x l]; [destruct a; reflexivity|]. cbn [skipn Nat.add]. apply IH.
Qed.

Lemma tl_size_mono a b : a <= b -> (tl_size a <= tl_size b)%nat.
Proof.
  intros H. unfold tl_size.
  destruct (a <=? 252) eqn:?; destruct (b <=? 252) eqn:?; destruct (a <=? 65535) eqn:?; destruct (b <=? 65535) eqn:?;
  destruct (a <=? 4294967295) eqn:?; destruct (b <=? 4294967295) eqn:?; lia.
Qed.

Theorem shrink_length_correct t p pad :
  t < two64 -> N.of_nat (length (p ++ pad)) < two64 ->
  shrink_length (tlv t (p ++ pad)) (length pad) = Ok (tlv t p).
Proof.
  intros Ht Hl. unfold shrink_length, tlv.
  rewrite tl_dec_enc by exact Ht. cbn [bind].
  rewrite skipn_app_exact' by (symmetry; apply tl_enc_length).
  rewrite tl_dec_enc by exact Hl. cbn [bind].
  set (size := N.of_nat (length (p ++ pad))).
  assert (Hreal : size - N.of_nat (length pad) = N.of_nat (length p)) by (unfold size; rewrite app_length; lia).
  replace (size <? N.of_nat (length pad)) with false by (unfold size; rewrite app_length; lia).
  rewrite Hreal.
  set (T := tl_enc t). set (Lo := tl_enc size). set (Ln := tl_enc (N.of_nat (length p))).
  assert (HT : length T = tl_size t) by apply tl_enc_length.
  assert (HLo : length Lo = tl_size size) by apply tl_enc_length.
  assert (HLn : length Ln = tl_size (N.of_nat (length p))) by apply tl_enc_length.
  assert (Hle : (length Ln <= length Lo)%nat)
    by (rewrite HLo, HLn; apply tl_size_mono; unfold size; rewrite app_length; lia).
  rewrite <- HT, <- HLo, <- HLn.
  destruct (Nat.eqb (length Ln) (length Lo)) eqn:E.
  - apply Nat.eqb_eq in E.
    rewrite splice_at_prefix by (symmetry; exact E).
    rewrite !app_length. f_equal.
    replace (length T + (length Ln + (length p + length pad)) - length pad)%nat
      with (length (T ++ Ln ++ p)) by (rewrite !app_length; lia).
    rewrite !app_assoc. rewrite firstn_app_exact. rewrite <- !app_assoc. reflexivity.
  - apply Nat.eqb_neq in E.
    set (diff := (length Lo - length Ln)%nat).
    (* split the old length bytes: the part overwritten by the new length, and [diff] left-over bytes *)
    set (Lo1 := firstn (length Ln) Lo). set (Lo2 := skipn (length Ln) Lo).
    assert (ELo : Lo = Lo1 ++ Lo2) by (symmetry; apply firstn_skipn).
    assert (H1 : length Lo1 = length Ln) by (unfold Lo1; rewrite firstn_length; lia).
    assert (H2 : length Lo2 = diff) by (unfold Lo2, diff; rewrite skipn_length; lia).
    set (body := p ++ pad).
    set (w1 := T ++ Ln ++ Lo2 ++ body).
    assert (Ew1 : splice (T ++ Lo ++ body) (length T) Ln = w1).
    { rewrite ELo at 1. rewrite <- !app_assoc. apply (splice_at_prefix T Lo1 Ln). exact H1. }
    rewrite Ew1.
    assert (Hw1len : length w1 = (length T + length Ln + diff + length body)%nat)
      by (unfold w1; rewrite !app_length; lia).
    set (junk := firstn diff w1).
    assert (Hjunk : length junk = diff) by (unfold junk; rewrite firstn_length; lia).
    assert (Ew2 : splice w1 diff T = junk ++ T ++ skipn (diff + length T) w1) by reflexivity.
    rewrite Ew2.
    assert (Ew3 : splice (junk ++ T ++ skipn (diff + length T) w1) (length T + diff) Ln
                  = junk ++ T ++ Ln ++ body).
    { set (Y := skipn (diff + length T) w1).
      assert (HY : skipn (length Ln) Y = body).
      { unfold Y. rewrite skipn_add.
        replace (diff + length T + length Ln)%nat with (length (T ++ Ln ++ Lo2)) by (rewrite !app_length; lia).
        unfold w1. rewrite !app_assoc. rewrite skipn_app_exact. reflexivity. }
      assert (HYl : (length Ln <= length Y)%nat) by (unfold Y; rewrite skipn_length; lia).
      replace (junk ++ T ++ Y) with ((junk ++ T) ++ firstn (length Ln) Y ++ skipn (length Ln) Y)
        by (rewrite firstn_skipn, <- app_assoc; reflexivity).
      replace (length T + diff)%nat with (length (junk ++ T)) by (rewrite app_length; lia).
      rewrite splice_at_prefix by (rewrite firstn_length; lia).
      rewrite HY, <- app_assoc. reflexivity. }
    rewrite Ew3. f_equal.
    assert (EL : (length (junk ++ T ++ Ln ++ body) - length pad)%nat = length (junk ++ T ++ Ln ++ p)).
    { unfold body. rewrite !app_length. lia. }
    rewrite EL.
    replace (junk ++ T ++ Ln ++ body) with ((junk ++ T ++ Ln ++ p) ++ pad)
      by (unfold body; rewrite <- !app_assoc; reflexivity).
    rewrite firstn_app_exact.
    rewrite <- Hjunk. rewrite skipn_app_exact. reflexivity.
Qed.
