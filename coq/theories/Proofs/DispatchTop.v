(* The C04 statements in the form in which Properties/C04.v exports them. *)
From NDN Require Import Base.Prelude Base.Text Model.TlvVar Model.Name Model.Trie Model.Dispatch Spec.DispatchSpec
  Proofs.TrieProofs Proofs.DispatchProofs Proofs.DispatchHistory.
Local Open Scope N_scope.

Lemma reach_all_cb fe ops : Forall wf_op ops -> all_cb (s_fib (exec fe st0 ops)).
Proof. intros W. apply exec_all_cb; [exact W|apply all_cb_empty]. Qed.

Theorem top_lpm fe ops n h :
  Forall wf_op ops ->
  let t := s_fib (exec fe st0 ops) in
  dispatch t n = Some h <-> exists p, is_lpm (attached t) n p h.
Proof. intros W t. apply dispatch_lpm. apply reach_all_cb. exact W. Qed.

Theorem top_none fe ops n :
  Forall wf_op ops ->
  let t := s_fib (exec fe st0 ops) in
  dispatch t n = None <-> forall p, prefix p n -> attached t p = None.
Proof. intros W t. apply dispatch_none. apply reach_all_cb. exact W. Qed.

(* an Interest: exactly the selected handler gets one invocation (queued in the app front-ends, made
   on the spot by Dispatcher.dispatch); the table is not touched *)
Theorem top_recv fe ops n life now :
  Forall wf_op ops ->
  let s := exec fe st0 ops in
  let s' := fst (step fe s (ORecv n life now)) in
  let hit := match dispatch (s_fib s) n with
             | Some h => [mk_call h n (deadline_of fe life now)]
             | None => []
             end in
  s_fib s' = s_fib s /\
  match fe with
  | FE_Disp => s_calls s' = s_calls s ++ hit /\ s_pending s' = s_pending s
  | _ => s_pending s' = s_pending s ++ hit /\ s_calls s' = s_calls s
  end.
Proof.
  intros W s s' hit. pose proof (reach_all_cb fe ops W) as A. fold s in A.
  pose proof (longest_prefix_attached (s_fib s) n A) as L.
  subst s' hit. unfold dispatch, fib_lookup. cbn [step]. destruct fe.
  - unfold fib_lookup. destruct (t_longest_prefix (s_fib s) n) as [[p nd]|].
    + destruct L as (h & -> & _). cbn. auto.
    + cbn. rewrite app_nil_r. auto.
  - unfold fib_lookup. destruct (t_longest_prefix (s_fib s) n) as [[p nd]|].
    + destruct L as (h & -> & _). cbn. auto.
    + cbn. rewrite app_nil_r. auto.
  - destruct (t_longest_prefix (s_fib s) n) as [[p nd]|].
    + destruct L as (h & -> & _). cbn. auto.
    + cbn. rewrite app_nil_r. auto.
Qed.

Theorem top_settle fe s :
  let s' := fst (step fe s OSettle) in
  s_calls s' = s_calls s ++ s_pending s /\ s_pending s' = [] /\ s_fib s' = s_fib s.
Proof. cbn. auto. Qed.

Theorem top_duplicate_refused fe t k h0 h v ex :
  attached t k = Some h0 ->
  exists t', fib_attach fe t k h v ex = (t', Err EValue) /\ forall q, attached t' q = attached t q.
Proof.
  intros H. pose proof (fib_attach_spec fe t k h v ex) as S. rewrite H in S.
  destruct S as (t' & E & G). exists t'. split; [exact E|]. apply attached_ext. exact G.
Qed.

(* the refusal is a no-op on the whole node of every prefix: callback, validator and the options of the occupying
   handler (need_raw_packet / need_sig_ptrs) stay what they were, whatever the refused call asked for *)
Theorem top_duplicate_refused_nodes fe t k h0 h v ex :
  attached t k = Some h0 ->
  exists t', fib_attach fe t k h v ex = (t', Err EValue) /\ forall q, t_get t' q = t_get t q.
Proof.
  intros H. pose proof (fib_attach_spec fe t k h v ex) as S. rewrite H in S.
  destruct S as (t' & E & G). exists t'. split; [exact E|exact G].
Qed.

Theorem top_attach_frame fe t k h v ex :
  attached t k = None ->
  exists t', fib_attach fe t k h v ex = (t', Ok tt) /\ attached t' k = h /\
             forall q, q <> k -> attached t' q = attached t q.
Proof.
  intros H. pose proof (fib_attach_spec fe t k h v ex) as S. rewrite H in S.
  destruct S as (t' & E & (nd & Gk & Gc) & G). exists t'. split; [exact E|]. split.
  - unfold attached. rewrite Gk. exact Gc.
  - intros q N. unfold attached. rewrite G by exact N. reflexivity.
Qed.

Theorem top_detach_frame fe ops k h :
  Forall wf_op ops ->
  let t := s_fib (exec fe st0 ops) in
  attached t k = Some h ->
  exists t', fib_detach t k = (t', Ok tt) /\ attached t' k = None /\
             forall q, q <> k -> attached t' q = attached t q.
Proof.
  intros W t H. pose proof (fib_detach_spec t k (reach_all_cb fe ops W)) as S. rewrite H in S.
  destruct S as (t' & E & Gk & G). exists t'. split; [exact E|]. split.
  - unfold attached. rewrite Gk. reflexivity.
  - intros q N. unfold attached. rewrite G by exact N. reflexivity.
Qed.

Theorem top_detach_absent fe ops k :
  Forall wf_op ops ->
  let t := s_fib (exec fe st0 ops) in
  attached t k = None -> fib_detach t k = (t, Err EKey).
Proof.
  intros W t H. pose proof (fib_detach_spec t k (reach_all_cb fe ops W)) as S. rewrite H in S. exact S.
Qed.

Theorem top_detached_receives_nothing fe ops0 p h ops :
  Forall wf_op ops0 ->
  let s := exec fe st0 ops0 in
  attached (s_fib s) p = Some h -> (forall q, attached (s_fib s) q = Some h -> q = p) ->
  Forall (fun c => c_h c <> h) (s_pending s) ->
  Forall wf_op ops -> Forall (no_attach_of h) ops ->
  exists new, s_calls (exec fe s (ODetach p :: ops)) = s_calls s ++ new /\ Forall (fun c => c_h c <> h) new.
Proof. intros W s. apply detached_receives_nothing. apply reach_all_cb. exact W. Qed.

Theorem top_refines fe ops sops :
  sops_of fe ops = Some sops ->
  map abs_obs (snd (run_ops fe ops)) = map Some (snd (srun fe sops)) /\
  s_calls (fst (run_ops fe ops)) = ss_calls (fst (srun fe sops)) /\
  s_pending (fst (run_ops fe ops)) = ss_pending (fst (srun fe sops)) /\
  forall p, attached (s_fib (fst (run_ops fe ops))) p = ss_att (fst (srun fe sops)) p.
Proof.
  intros H. destruct (run_refines fe ops sops st0 sst0 R0 H) as [(Ra & _ & Rp & Rl) Ho].
  unfold run_ops, srun. auto.
Qed.

Theorem top_reply_truthful d t running sent r :
  reply_closure d t running = Ok (sent, r) ->
  (sent = true -> t <= d) /\ (running = true -> (sent = true <-> t <= d)) /\
  r = (if sent then RTrue else RFalse).
Proof.
  unfold reply_closure. destruct (d <? t) eqn:E.
  - intros H. inversion H; subst. repeat split; try discriminate; intros; lia.
  - destruct running; [|discriminate]. intros H. inversion H; subst. repeat split; intros; try reflexivity; lia.
Qed.

(* the same for either state of the face, against the specification's decision: what the closure returns
   is "sent", and it is True exactly when the Data went out; it raises (NetworkError) only when the face is
   down inside the lifetime, i.e. only when nothing was and nothing could be transmitted *)
Theorem top_reply_any_face d t running :
  match reply_closure d t running with
  | Ok (sent, r) => sent = s_reply_out d t running /\ r = (if sent then RTrue else RFalse)
  | Err e => e = E_NETWORK /\ s_reply_out d t running = false /\ running = false /\ t <= d
  end.
Proof.
  unfold reply_closure, s_reply_out, s_reply_sent.
  destruct (d <? t) eqn:E, (t <=? d) eqn:F, running; cbn; repeat split; try reflexivity; lia.
Qed.

Theorem top_no_garbage fe ops : t_pruned (s_fib (exec fe st0 ops)) = true.
Proof. apply exec_pruned. reflexivity. Qed.
