(* T1/T2 tie for C14: what tools/gen_validator.py read from cascade_validator.py and
   light_versec/validator.py on this run is what the hand-written model (Model/Validator.v) hard-wires. *)
From NDN Require Import Base.Prelude Model.Validator.
From NDN Require Generated.ValidatorConsts.
Module G := Generated.ValidatorConsts.
Local Open Scope N_scope.

(* SignatureType numbers *)
Lemma sigtype_agree :
  G.DIGEST_SHA256 = SIG_DIGEST /\ G.SHA256_WITH_RSA = SIG_RSA /\ G.SHA256_WITH_ECDSA = SIG_ECDSA /\
  G.HMAC_WITH_SHA256 = SIG_HMAC /\ G.ED25519 = SIG_ED25519.
Proof. repeat split; reflexivity. Qed.

(* the if/elif chain of _verify_sig computes the model's dispatch (HMAC result dropped, RSA / ECDSA / Ed25519
   returned, anything else False) — stated semantically, so that reordering the branches is not a change *)
Lemma verify_sig_branches_agree w ty k p :
  dispatch G.verify_sig_branches w ty k p = dispatch sig_branches w ty k p.
Proof.
  unfold G.verify_sig_branches, sig_branches, G.SIG_HMAC, G.SIG_RSA, G.SIG_ECDSA, G.SIG_ED25519,
    G.HMAC_WITH_SHA256, G.SHA256_WITH_RSA, G.SHA256_WITH_ECDSA, G.ED25519, SIG_HMAC, SIG_RSA, SIG_ECDSA, SIG_ED25519.
  cbn [dispatch].
  repeat match goal with
         | |- context [N.eqb ?a ?b] => destruct (N.eqb_spec a b); subst
         end; try reflexivity; try discriminate; try lia.
Qed.

(* the default `storage` argument is NOT an object created once at definition time: the model's
   [legacy = false] allocation (a fresh storage per instance) is the code's behaviour *)
Lemma default_storage_fresh :
  G.cascade_default_storage_shared = false /\ G.lvs_default_storage_shared = false.
Proof. split; reflexivity. Qed.

(* the certificate fetch: by the key-locator name, MustBeFresh, exact match, validated by next_level;
   exactly ValidationFailure / InterestTimeout / InterestNack become `return False` *)
Lemma fetch_shape :
  G.fetch_by_cert_name = true /\ G.fetch_must_be_fresh = true /\ G.fetch_can_be_prefix = false /\
  G.fetch_validated_by_next_level = true /\
  G.catches_validation_failure = true /\ G.catches_timeout = true /\ G.catches_nack = true /\
  G.catches_nothing_else = true.
Proof. repeat split; reflexivity. Qed.

(* what validations that overlap in time share is the key storage and nothing else (Model/ValidatorConc.v: the threads
   of a [cstate] have [cs_cache] in common): no other attribute is ever assigned on the instance, no class-level or
   closure state *)
Lemma instance_state : G.instance_state_is_storage_only = true.
Proof. reflexivity. Qed.

(* consequence: with the generated table the dispatch is the model's *)
Lemma verify_sig_generated w k p :
  verify_sig w k p = match p_sig p with
                     | None => Err EAttr
                     | Some si => dispatch G.verify_sig_branches w (s_type si) k p
                     end.
Proof. unfold verify_sig. destruct (p_sig p); [symmetry; apply verify_sig_branches_agree | reflexivity]. Qed.
